package d2compiler_test

// Copy into d2compiler/ (package d2compiler_test).
// Property C12: globs apply to exactly the matching objects and connections, even later ones.

import (
	"fmt"
	"sort"
	"strings"
	"testing"

	"oss.terrastruct.com/d2/d2compiler"
)

// hc12Dump compiles the input and lists every object (id, label, fill) and connection (id) of the root board.
func hc12Dump(t *testing.T, in string) (objs map[string]string, edges []string, dump string) {
	t.Helper()
	g, _, err := d2compiler.Compile("hc12.d2", strings.NewReader(in), nil)
	if err != nil {
		t.Fatalf("input:\n%s\nunexpected compile error: %v", in, err)
	}
	objs = map[string]string{}
	var lines []string
	for _, o := range g.Objects {
		fill := ""
		if o.Style.Fill != nil {
			fill = o.Style.Fill.Value
		}
		objs[o.AbsID()] = fmt.Sprintf("label=%s fill=%s", o.Label.Value, fill)
		lines = append(lines, fmt.Sprintf("  object %s: label=%s fill=%s", o.AbsID(), o.Label.Value, fill))
	}
	for _, e := range g.Edges {
		edges = append(edges, e.AbsID())
		lines = append(lines, "  connection "+e.AbsID())
	}
	sort.Strings(edges)
	sort.Strings(lines)
	return objs, edges, strings.Join(lines, "\n")
}

// "*a" must match only names ending in a; it also matches "ab".
func TestHC12Pre_SuffixAnchor(t *testing.T) {
	in := "ab\nba\n*a.style.fill: red\n"
	objs, _, dump := hc12Dump(t, in)
	if objs["ba"] != "label=ba fill=red" {
		t.Errorf("input:\n%s\nba matches *a and must be red; got:\n%s", in, dump)
	}
	if objs["ab"] != "label=ab fill=" {
		t.Errorf("input:\n%s\nab does not end in a, so *a must not apply to it (want no fill); got:\n%s", in, dump)
	}
	in2 := "aba\nxab\n*ab.style.fill: red\n"
	objs, _, dump = hc12Dump(t, in2)
	if objs["aba"] != "label=aba fill=" {
		t.Errorf("input:\n%s\naba does not end in ab, so *ab must not apply to it (want no fill); got:\n%s", in2, dump)
	}
}

// A quoted "label" is an ordinary object name, not the reserved keyword: * must match it (as ** does).
func TestHC12Pre_QuotedKeywordName(t *testing.T) {
	in := "\"label\"\nx\n*.style.fill: red\n"
	objs, _, dump := hc12Dump(t, in)
	if objs["label"] != "label=label fill=red" {
		t.Errorf("input:\n%s\nthe object named \"label\" (quoted, so not a keyword) matches * and must be red; got:\n%s", in, dump)
	}
	in2 := "\"label\"\nx\n**.style.fill: red\n"
	objs, _, dump = hc12Dump(t, in2)
	if objs["label"] != "label=label fill=red" {
		t.Errorf("input:\n%s\n(sibling path) ** must match it as well; got:\n%s", in2, dump)
	}
}

// A glob filter value pattern is matched against a value, not a key: a label that happens to spell a keyword must match.
func TestHC12Pre_FilterValueKeyword(t *testing.T) {
	in := "a: style\nb: stylish\n*: {\n  &label: sty*\n  style.fill: red\n}\n"
	objs, _, dump := hc12Dump(t, in)
	if objs["b"] != "label=stylish fill=red" {
		t.Errorf("input:\n%s\nb (label stylish) passes &label: sty* and must be red; got:\n%s", in, dump)
	}
	if objs["a"] != "label=style fill=red" {
		t.Errorf("input:\n%s\na (label style) passes &label: sty* and must be red; got:\n%s", in, dump)
	}
}

// A later glob overrides an earlier explicit value, also when the same glob text was already written before.
func TestHC12Pre_DuplicateGlob(t *testing.T) {
	in := "*.style.fill: pink\na.style.fill: gold\n*.style.fill: pink\n"
	objs, _, dump := hc12Dump(t, in)
	if objs["a"] != "label=a fill=pink" {
		t.Errorf("input:\n%s\nthe last declaration for a is the glob on line 3, so a must be pink; got:\n%s", in, dump)
	}
	// control: with a different value on line 3 the later glob does win
	ctl := "*.style.fill: pink\na.style.fill: gold\n*.style.fill: red\n"
	objs, _, dump = hc12Dump(t, ctl)
	if objs["a"] != "label=a fill=red" {
		t.Errorf("control input:\n%s\na must be red; got:\n%s", ctl, dump)
	}
	// Same cause: the second glob differs only by a primary value and is taken for the first one.
	in2 := "a\n*: {style.fill: red}\n*: lbl {style.fill: red}\n"
	objs, _, dump = hc12Dump(t, in2)
	if objs["a"] != "label=lbl fill=red" {
		t.Errorf("input:\n%s\nthe glob on line 3 gives every object the label lbl; got:\n%s", in2, dump)
	}
}

// ** must only reach objects; it walks into classes (and vars) and treats their entries as objects.
func TestHC12Pre_DoubleGlobEntersClasses(t *testing.T) {
	in := "classes: { k: {style.fill: blue} }\na.class: k\nb: {c}\n**: {\n  &level: 1\n  style.fill: red\n}\n"
	objs, _, dump := hc12Dump(t, in)
	if objs["b.c"] != "label=c fill=red" {
		t.Errorf("input:\n%s\nb.c is at level 1 and must be red; got:\n%s", in, dump)
	}
	if objs["a"] != "label=a fill=blue" {
		t.Errorf("input:\n%s\na is at level 0, so the glob must not touch it and it keeps the blue of class k; got:\n%s", in, dump)
	}
	in3 := "vars: { c: blue }\na.style.fill: ${c}\n**: zz\n"
	_, _, err := d2compiler.Compile("hc12.d2", strings.NewReader(in3), nil)
	if err != nil {
		t.Errorf("input:\n%s\n** must label the object a only; it also overwrote vars.c, so ${c} became zz: %v", in3, err)
	}
}

// An edge glob gives the same connections whether its targets are declared before or after it.
func TestHC12Pre_LazyEdgeGlobCrossProduct(t *testing.T) {
	before := "x: {a; b}\ny: {a; b}\n*.a -> *.b\n"
	after := "*.a -> *.b\nx: {a; b}\ny: {a; b}\n"
	_, e1, d1 := hc12Dump(t, before)
	_, e2, d2 := hc12Dump(t, after)
	want := "(x.a -> y.b)[0] (y.a -> x.b)[0] x.(a -> b)[0] y.(a -> b)[0]"
	if strings.Join(e1, " ") != want {
		t.Errorf("input:\n%s\nwant connections %s; got:\n%s", before, want, d1)
	}
	if strings.Join(e2, " ") != want {
		t.Errorf("input:\n%s\nwant the same connections as when the glob comes last: %s; got:\n%s", after, want, d2)
	}
}

// A glob declared inside a container keeps applying to objects later created in that container.
func TestHC12Pre_ClosedScopeGlob(t *testing.T) {
	in := "a: {\n  *.style.fill: red\n  b\n}\na.c\na: {\n  d\n}\n"
	objs, _, dump := hc12Dump(t, in)
	if objs["a.b"] != "label=b fill=red" {
		t.Errorf("input:\n%s\na.b must be red; got:\n%s", in, dump)
	}
	if objs["a.c"] != "label=c fill=red" || objs["a.d"] != "label=d fill=red" {
		t.Errorf("input:\n%s\na.c and a.d are created later in the scope of the glob (a) and must be red too; got:\n%s", in, dump)
	}
	// control: at the root scope later objects are reached
	ctl := "*.style.fill: red\nb\nc\n"
	objs, _, dump = hc12Dump(t, ctl)
	if objs["c"] != "label=c fill=red" {
		t.Errorf("control input:\n%s\nc must be red; got:\n%s", ctl, dump)
	}
}
