package d2oracle_test

// Pre-existing (unchanged tree) violations of "Set changes exactly what it names" in d2oracle._set.
// Copy to d2oracle/zz_c37_pre_test.go and run
//   GOFLAGS=-mod=mod GOPROXY=off go test -vet=off -count=1 -run TestC37Pre ./d2oracle/

import (
	"fmt"
	"reflect"
	"strings"
	"testing"

	"oss.terrastruct.com/d2/d2compiler"
	"oss.terrastruct.com/d2/d2format"
	"oss.terrastruct.com/d2/d2graph"
	"oss.terrastruct.com/d2/d2oracle"
)

// c37Attrs flattens the compiled label, shape and every style field of an element.
func c37Attrs(a *d2graph.Attributes) map[string]string {
	m := map[string]string{"label": a.Label.Value, "shape": a.Shape.Value}
	sv := reflect.ValueOf(a.Style)
	for i := 0; i < sv.NumField(); i++ {
		if s, ok := sv.Field(i).Interface().(*d2graph.Scalar); ok && s != nil {
			m["style."+sv.Type().Field(i).Name] = s.Value
		}
	}
	return m
}

// c37Summary maps the ID of every object and connection to its flattened compiled content.
func c37Summary(g *d2graph.Graph) map[string]map[string]string {
	m := map[string]map[string]string{}
	for _, o := range g.Objects {
		m[o.AbsID()] = c37Attrs(&o.Attributes)
	}
	for _, e := range g.Edges {
		m[e.AbsID()] = c37Attrs(&e.Attributes)
	}
	return m
}

// c37Check applies one Set on the root board and checks that (a) attribute attr of element id is
// exactly value, (b) no other element changed, (c) no other attribute of element id changed.
func c37Check(t *testing.T, text, key string, tag *string, value, id, attr string) {
	t.Helper()
	g, _, err := d2compiler.Compile("", strings.NewReader(text), nil)
	if err != nil {
		t.Fatal(err)
	}
	before := c37Summary(g)
	if _, ok := before[id]; !ok {
		t.Fatalf("bad test: no element %s in %v", id, before)
	}
	g2, err := d2oracle.Set(g, nil, key, tag, &value)
	if err != nil {
		t.Fatalf("Set(%s, %q) failed: %v", key, value, err)
	}
	// Set already recompiles; compile its text once more so only the text counts.
	out := d2format.Format(g2.AST)
	g3, _, err := d2compiler.Compile("", strings.NewReader(out), nil)
	if err != nil {
		t.Fatalf("result does not compile: %v\n%s", err, out)
	}
	after := c37Summary(g3)
	fail := func(format string, args ...interface{}) {
		t.Helper()
		t.Errorf("Set(%s, %q) on\n%s-> result\n%s%s", key, value, text, out, fmt.Sprintf(format, args...))
	}
	if got, ok := after[id][attr]; !ok || got != value {
		fail("(a) %s of %s is %q (set=%v), want %q", attr, id, got, ok, value)
	}
	for oid, b := range before {
		a, ok := after[oid]
		if !ok {
			fail("(b) element %s disappeared", oid)
			continue
		}
		for k := range b {
			if oid == id && k == attr {
				continue
			}
			if a[k] != b[k] {
				if oid == id {
					fail("(c) other attribute %s of the targeted %s changed from %q to %q", k, oid, b[k], a[k])
				} else {
					fail("(b) %s of the OTHER element %s changed from %q to %q", k, oid, b[k], a[k])
				}
			}
		}
		for k := range a {
			if _, ok := b[k]; !ok && !(oid == id && k == attr) {
				fail("(b/c) element %s gained %s=%q", oid, k, a[k])
			}
		}
	}
	for oid := range after {
		if _, ok := before[oid]; !ok {
			fail("(b) new element %s appeared", oid)
		}
	}
}

// 1. label that comes from a glob
func TestC37PreGlobLabel(t *testing.T) {
	c37Check(t, "*.label: hi\nx\ny\n", "x", nil, "new", "x", "label")
}

// 2. label that comes from a class
func TestC37PreClassLabel(t *testing.T) {
	c37Check(t, "classes: {c: {label: hi}}\nx.class: c\ny.class: c\n", "x", nil, "new", "x", "label")
}

// 3. style set inside a glob's map
func TestC37PreStyleInGlobMap(t *testing.T) {
	c37Check(t, "*: {style.fill: red}\na\nb\n", "a.style.fill", nil, "blue", "a", "style.Fill")
}

// 4. style in the map of a chain, edge also has its own map
func TestC37PreChainSharedMapStyle(t *testing.T) {
	c37Check(t, "a -> b -> c: {style.opacity: 0.4}\n(a -> b)[0]: {style.stroke: red}\n",
		"(a -> b)[0].style.opacity", nil, "0.9", "(a -> b)[0]", "style.Opacity")
}

// 5. label set on an edge that has an indexed reference carrying a map
func TestC37PreLabelOverMap(t *testing.T) {
	c37Check(t, "a -> b: hi\n(a -> b)[0]: {style.stroke: red}\n",
		"(a -> b)[0]", nil, "new", "(a -> b)[0]", "label")
}

// 6. style that a later index glob also sets: Set has no effect
func TestC37PreIndexGlobNoEffect(t *testing.T) {
	c37Check(t, "a -> b\na -> b\n(a -> b)[*].style.opacity: 0.4\n",
		"(a -> b)[0].style.opacity", nil, "1", "(a -> b)[0]", "style.Opacity")
}

// 7. edge label that comes from an index glob
func TestC37PreIndexGlobLabel(t *testing.T) {
	c37Check(t, "a -> b\na -> b\n(a -> b)[*]: hi\n", "(a -> b)[0]", nil, "new", "(a -> b)[0]", "label")
}

// 8. object label written with a capitalised keyword, a style is set
func TestC37PreCapitalLabelKeyword(t *testing.T) {
	c37Check(t, "hey.Label: what\nz\n", "hey.style.fill", nil, "red", "hey", "style.Fill")
}

// 9. block string value with surrounding whitespace
func TestC37PreBlockStringTrim(t *testing.T) {
	tag := "txt"
	c37Check(t, "x: |txt old|\ny\n", "x", &tag, "  hi  ", "x", "label")
}

// 10. edge variant of 3: style set inside an edge glob's map
func TestC37PreEdgeStyleInGlobMap(t *testing.T) {
	c37Check(t, "a -> b\nc -> d\n(* -> *)[*]: {style.stroke: red}\n",
		"(a -> b)[0].style.stroke", nil, "blue", "(a -> b)[0]", "style.Stroke")
}
