package d2cli

// Copy into d2cli/ (package d2cli: the relink test needs the unexported resolveLinks/relink).

import (
	"strings"
	"testing"

	"oss.terrastruct.com/d2/d2compiler"
	"oss.terrastruct.com/d2/d2graph"
	"oss.terrastruct.com/d2/d2target"
	"oss.terrastruct.com/d2/lib/memfs"
)

// hc35Compile compiles index.d2 of files with the real compiler (imports served from memory).
func hc35Compile(t *testing.T, files map[string]string) *d2graph.Graph {
	t.Helper()
	fs, err := memfs.New(files)
	if err != nil {
		t.Fatal(err)
	}
	g, _, err := d2compiler.Compile("index.d2", strings.NewReader(files["index.d2"]), &d2compiler.CompileOptions{FS: fs})
	if err != nil {
		t.Fatalf("input:\n%s\nunexpected compile error: %v", files["index.d2"], err)
	}
	return g
}

// hc35Board walks e.g. ("layers", "a", "scenarios", "s") down from the root graph.
func hc35Board(t *testing.T, g *d2graph.Graph, path ...string) *d2graph.Graph {
	t.Helper()
	for i := 0; i+1 < len(path); i += 2 {
		var list []*d2graph.Graph
		switch path[i] {
		case "layers":
			list = g.Layers
		case "scenarios":
			list = g.Scenarios
		case "steps":
			list = g.Steps
		}
		var next *d2graph.Graph
		for _, b := range list {
			if b.Name == path[i+1] {
				next = b
			}
		}
		if next == nil {
			t.Fatalf("board %v not found", path)
		}
		g = next
	}
	return g
}

// hc35ObjLink returns the stored link of the object with absolute id absID ("" when dropped).
func hc35ObjLink(t *testing.T, g *d2graph.Graph, absID string) string {
	t.Helper()
	for _, o := range g.Objects {
		if o.AbsID() == absID {
			if o.Link == nil {
				return ""
			}
			return o.Link.Value
		}
	}
	t.Fatalf("object %q not found", absID)
	return ""
}

func hc35EdgeLink(t *testing.T, g *d2graph.Graph, idx int) string {
	t.Helper()
	if idx >= len(g.Edges) {
		t.Fatalf("edge %d not found", idx)
	}
	if g.Edges[idx].Link == nil {
		return ""
	}
	return g.Edges[idx].Link.Value
}

func hc35Show(files map[string]string) string {
	var sb strings.Builder
	sb.WriteString("--- index.d2\n" + files["index.d2"])
	for k, v := range files {
		if k != "index.d2" {
			sb.WriteString("--- " + k + "\n" + v)
		}
	}
	return sb.String()
}

// A link to the board itself must be dropped; that only works for boards directly below root.
func TestHC35Pre_NestedSelfLink(t *testing.T) {
	files := map[string]string{"index.d2": `layers: {
  a: {
    layers: {
      c: {
        me.link: _.layers.c
      }
    }
  }
}
`}
	g := hc35Compile(t, files)
	got := hc35ObjLink(t, hc35Board(t, g, "layers", "a", "layers", "c"), "me")
	if got != "" {
		t.Fatalf("input:\n%s\nobject me lives in board root.layers.a.layers.c and links to that same board;\ngot link %q, want it dropped (the depth-1 equivalent `layers: {c: {me.link: _.layers.c}}` is dropped)", hc35Show(files), got)
	}
}

// A container that happens to be called "root" must not become part of the board path.
func TestHC35Pre_ShapeNamedRoot(t *testing.T) {
	files := map[string]string{"index.d2": `root: {
  child: {
    link: layers.a
  }
}
other: {
  child: {
    link: layers.a
  }
}
layers: {
  a: {
    b
  }
}
`}
	g := hc35Compile(t, files)
	want := hc35ObjLink(t, g, "other.child")
	got := hc35ObjLink(t, g, "root.child")
	if want != "root.layers.a" || got != want {
		t.Fatalf("input:\n%s\nother.child link = %q\nroot.child  link = %q\nboth must be the absolute board path %q", hc35Show(files), want, got, "root.layers.a")
	}
}

// layers.a.a names no board (there is no board kind between a and a), so the link must be dropped.
func TestHC35Pre_OddLengthPathKept(t *testing.T) {
	files := map[string]string{"index.d2": `x.link: layers.a.a
y.link: layers.a.b
layers: {
  a: {
    b
  }
}
`}
	g := hc35Compile(t, files)
	gotY := hc35ObjLink(t, g, "y")
	gotX := hc35ObjLink(t, g, "x")
	if gotX != "" || gotY != "" {
		t.Fatalf("input:\n%s\nneither root.layers.a.a nor root.layers.a.b is a board;\ny link = %q (dropped as required)\nx link = %q, want dropped", hc35Show(files), gotY, gotX)
	}
}

// A link written in the importing board before a spread import is already absolute; the import must not rebase it again.
func TestHC35Pre_SpreadImportRebasesEarlierLinks(t *testing.T) {
	files := map[string]string{
		"index.d2": `layers: {
  l: {
    before.link: layers.k
    ...@f
    after.link: layers.k
    layers: {
      k: {
        q
      }
    }
  }
}
`,
		"f.d2": "z\n",
	}
	g := hc35Compile(t, files)
	l := hc35Board(t, g, "layers", "l")
	before, after := hc35ObjLink(t, l, "before"), hc35ObjLink(t, l, "after")
	if before != "root.layers.l.layers.k" || after != "root.layers.l.layers.k" {
		t.Fatalf("input:\n%s\nbefore link = %q\nafter  link = %q\nboth must be %q (f.d2 contains no link at all)", hc35Show(files), before, after, "root.layers.l.layers.k")
	}
}

// A scenario inherits the base board's objects with their (absolute) links; filling the scenario from a file must keep them.
func TestHC35Pre_ScenarioImportRebasesInheritedLinks(t *testing.T) {
	mk := func(scenario string) map[string]string {
		return map[string]string{
			"index.d2": "a.link: layers.x\nlayers: {\n  x: {\n    b\n  }\n}\nscenarios: {\n  s: " + scenario + "\n}\n",
			"f.d2":     "c\n",
		}
	}
	inline := mk("{\n    c\n  }")
	imported := mk("@f")
	want := hc35ObjLink(t, hc35Board(t, hc35Compile(t, inline), "scenarios", "s"), "a")
	got := hc35ObjLink(t, hc35Board(t, hc35Compile(t, imported), "scenarios", "s"), "a")
	if want != "root.layers.x" || got != want {
		t.Fatalf("inline scenario:\n%s\n  inherited a.link in scenario s = %q\nimported scenario:\n%s\n  inherited a.link in scenario s = %q\nwant %q in both", hc35Show(inline), want, hc35Show(imported), got, "root.layers.x")
	}
}

// Importing a file into a container (not a board) must rebase its links onto the importing board, not onto the container.
func TestHC35Pre_ImportIntoContainer(t *testing.T) {
	spreadAtRoot := map[string]string{
		"index.d2": "...@f\nlayers: {\n  k: {\n    q\n  }\n}\n",
		"f.d2":     "a.link: layers.k\n",
	}
	intoContainer := map[string]string{
		"index.d2": "x: @f\nlayers: {\n  k: {\n    q\n  }\n}\n",
		"f.d2":     "a.link: layers.k\n",
	}
	want := hc35ObjLink(t, hc35Compile(t, spreadAtRoot), "a")
	got := hc35ObjLink(t, hc35Compile(t, intoContainer), "x.a")
	if want != "root.layers.k" || got != want {
		t.Fatalf("spread at board root:\n%s\n  a.link = %q\ninto container x:\n%s\n  x.a.link = %q\nwant %q in both (x is a shape of the root board, the importing board is root)", hc35Show(spreadAtRoot), want, hc35Show(intoContainer), got, "root.layers.k")
	}
}

// Importing one board of a file (@f.layers.k) must rebase the links inside it onto the importing board.
func TestHC35Pre_FieldImportNotRebased(t *testing.T) {
	files := map[string]string{
		"index.d2": "layers: {\n  l: @f.layers.k\n}\n",
		"f.d2":     "layers: {\n  k: {\n    a.link: layers.z\n    layers: {\n      z: {\n        q\n      }\n    }\n  }\n}\n",
	}
	g := hc35Compile(t, files)
	l := hc35Board(t, g, "layers", "l")
	hc35Board(t, g, "layers", "l", "layers", "z") // the nested board did come along
	got := hc35ObjLink(t, l, "a")
	if got != "root.layers.l.layers.z" {
		t.Fatalf("input:\n%s\na.link in board root.layers.l = %q, want %q (board root.layers.l.layers.z exists)", hc35Show(files), got, "root.layers.l.layers.z")
	}
}

// Connections carry links too (they are rendered as <a href>); a link to a missing board must be dropped there as well.
func TestHC35Pre_EdgeLinkMissingBoardKept(t *testing.T) {
	files := map[string]string{"index.d2": `s.link: layers.nope
a -> b: {
  link: layers.nope
}
layers: {
  x: {
    q
  }
}
`}
	g := hc35Compile(t, files)
	shape := hc35ObjLink(t, g, "s")
	edge := hc35EdgeLink(t, g, 0)
	if shape != "" || edge != "" {
		t.Fatalf("input:\n%s\nboard root.layers.nope does not exist\nshape s link = %q (dropped as required)\nedge (a -> b)[0] link = %q, want dropped", hc35Show(files), shape, edge)
	}
}

// Links on connections inside an imported file must be rebased like links on shapes.
func TestHC35Pre_EdgeLinkImportNotRebased(t *testing.T) {
	files := map[string]string{
		"index.d2": "layers: {\n  l: @f\n}\n",
		"f.d2":     "s.link: layers.z\na -> b: {\n  link: layers.z\n}\nlayers: {\n  z: {\n    q\n  }\n}\n",
	}
	g := hc35Compile(t, files)
	l := hc35Board(t, g, "layers", "l")
	shape := hc35ObjLink(t, l, "s")
	edge := hc35EdgeLink(t, l, 0)
	if shape != "root.layers.l.layers.z" || edge != shape {
		t.Fatalf("input:\n%s\nin board root.layers.l:\nshape s link = %q\nedge (a -> b)[0] link = %q\nboth must be %q", hc35Show(files), shape, edge, "root.layers.l.layers.z")
	}
}

// When boards are written to files, a connection's board link must be rewritten to the output file like a shape's.
func TestHC35Pre_EdgeLinkNotRelinked(t *testing.T) {
	files := map[string]string{"index.d2": `s.link: layers.x
a -> b: {
  link: layers.x
}
layers: {
  x: {
    q
  }
}
`}
	g := hc35Compile(t, files)
	// what d2exporter does with links: copy the stored value
	d := &d2target.Diagram{
		Shapes:      []d2target.Shape{{ID: "s", Link: hc35ObjLink(t, g, "s")}},
		Connections: []d2target.Connection{{ID: "(a -> b)[0]", Link: hc35EdgeLink(t, g, 0)}},
		Layers:      []*d2target.Diagram{{Name: "x"}},
	}
	before := d.Connections[0].Link
	m, err := resolveLinks("root", "out.svg", d)
	if err != nil {
		t.Fatal(err)
	}
	if err := relink("root", d, m); err != nil {
		t.Fatal(err)
	}
	if d.Shapes[0].Link != "x.svg" || d.Connections[0].Link != "x.svg" {
		t.Fatalf("input:\n%s\noutput out.svg, board root.layers.x is written to out/x.svg\ncompiled links: shape %q, edge %q\nafter relink: shape s link = %q, edge (a -> b)[0] link = %q; want %q for both", hc35Show(files), "root.layers.x", before, d.Shapes[0].Link, d.Connections[0].Link, "x.svg")
	}
}

// A board link given through a variable must be resolved to an absolute board path like a literal one.
func TestHC35Pre_SubstitutedLinkDropped(t *testing.T) {
	files := map[string]string{"index.d2": `vars: {
  target: layers.k
}
lit.link: layers.k
sub.link: ${target}
layers: {
  k: {
    q
  }
}
`}
	g := hc35Compile(t, files)
	lit, sub := hc35ObjLink(t, g, "lit"), hc35ObjLink(t, g, "sub")
	if lit != "root.layers.k" || sub != lit {
		t.Fatalf("input:\n%s\nlit link = %q\nsub link = %q\nboth must be %q", hc35Show(files), lit, sub, "root.layers.k")
	}
}

// Board keywords are case-insensitive (Layers declares boards), so a link spelled with the same keyword must resolve.
func TestHC35Pre_CapitalisedKeywordLinkDropped(t *testing.T) {
	files := map[string]string{"index.d2": `x.link: Layers.a
y.link: layers.a
Layers: {
  a: {
    b
  }
}
`}
	g := hc35Compile(t, files)
	hc35Board(t, g, "layers", "a") // `Layers` did declare the board
	x, y := hc35ObjLink(t, g, "x"), hc35ObjLink(t, g, "y")
	if y != "root.layers.a" || x != y {
		t.Fatalf("input:\n%s\ny link = %q\nx link = %q\nboth must be %q (the compiler recognised `Layers.a` as a board link and made it absolute, then could not find the board)", hc35Show(files), y, x, "root.layers.a")
	}
}
