package d2parser_test

// Copy into d2parser/ (package d2parser_test).
//
// Property C02: every node and error range lies inside the input, Start <= End, nests inside its
// parent, line/column/offset agree (UTF-8 bytes or UTF-16 code units), and the text covered by a
// key segment's range parses back to that segment's value.

import (
	"strings"
	"testing"

	"oss.terrastruct.com/d2/d2ast"
	"oss.terrastruct.com/d2/d2parser"
)

func hc02Parse(t *testing.T, in string, utf16 bool) (*d2ast.Map, []d2ast.Error) {
	t.Helper()
	m, err := d2parser.Parse("", strings.NewReader(in), &d2parser.ParseOptions{UTF16Pos: utf16})
	if err == nil {
		return m, nil
	}
	pe, ok := err.(*d2parser.ParseError)
	if !ok {
		t.Fatalf("input %q: unexpected error type %T: %v", in, err, err)
	}
	return m, pe.Errors
}

func hc02R(r d2ast.Range) string { return r.Start.Debug() + "-" + r.End.Debug() }

// The range of an Array ends at parser.readerPos (how far the underlying reader has been
// consumed by lookahead) instead of parser.pos (just after the closing bracket).
func TestHC02Pre_ArrayEnd(t *testing.T) {
	for _, tc := range []struct {
		in      string
		wantEnd int // offset just after ']'
	}{
		{"a: [hello]\nb", 10}, // observed 0:9:9: the ']' is not covered
		{"a: [1]\nb", 6},      // observed 1:0:7: ends on the next line, outside the parent key
		{"a: [ ]", 6},         // observed 0:5:5: covers "[ " only
	} {
		m, errs := hc02Parse(t, tc.in, false)
		if len(errs) != 0 {
			t.Fatalf("input %q: unexpected errors %v", tc.in, errs)
		}
		k := m.Nodes[0].MapKey
		a := k.Value.Array
		if a == nil {
			t.Fatalf("input %q: value is not an array", tc.in)
		}
		if a.Range.End.Byte != tc.wantEnd || a.Range.End.Line != 0 || a.Range.End.Column != tc.wantEnd {
			t.Errorf("input %q: array range %s covers %q; want it to end at 0:%d:%d just after ']' (parent key range %s)",
				tc.in, hc02R(a.Range), tc.in[a.Range.Start.Byte:a.Range.End.Byte], tc.wantEnd, tc.wantEnd, hc02R(k.Range))
		}
		if a.Range.End.Byte > k.Range.End.Byte {
			t.Errorf("input %q: array range %s does not nest inside its key's range %s", tc.in, hc02R(a.Range), hc02R(k.Range))
		}
	}
}

// "missing value after colon" is positioned by subtracting ':' from the position AFTER
// parseValue ran, which may have consumed white space, a line continuation or nothing.
func TestHC02Pre_MissingValueErrPos(t *testing.T) {
	for _, utf16 := range []bool{false, true} {
		in := "a: \\\n"
		_, errs := hc02Parse(t, in, utf16)
		if len(errs) != 1 || !strings.Contains(errs[0].Message, "missing value after colon") {
			t.Fatalf("utf16=%v input %q: expected exactly the missing value error, got %v", utf16, in, errs)
		}
		r := errs[0].Range
		if r.Start.Column < 0 || r.Start.Line != 0 || r.Start.Byte != 1 || r.End.Byte != 2 || r.End.Line != 0 {
			t.Errorf("utf16=%v input %q: error range %s (message %q); want 0:1:1-0:2:2 (the colon): the start has line %d column %d for offset %d, which is line 0 column %d in the input",
				utf16, in, hc02R(r), errs[0].Message, r.Start.Line, r.Start.Column, r.Start.Byte, r.Start.Byte)
		}
	}
}

// An unquoted string that ends in a substitution has a range that stops right after the '$':
// the Substitution child is not inside its parent's range.
func TestHC02Pre_UnquotedSubstEnd(t *testing.T) {
	in := "é: x${a}\nb"
	for _, utf16 := range []bool{false, true} {
		m, errs := hc02Parse(t, in, utf16)
		if len(errs) != 0 {
			t.Fatalf("input %q: unexpected errors %v", in, errs)
		}
		us := m.Nodes[0].MapKey.Value.UnquotedString
		if us == nil || len(us.Value) != 2 || us.Value[1].Substitution == nil {
			t.Fatalf("input %q: value is not an unquoted string with a substitution", in)
		}
		sub := us.Value[1].Substitution
		if sub.Range.End.Byte > us.Range.End.Byte || sub.Range.End != us.Range.End {
			t.Errorf("utf16=%v input %q: unquoted string range %s does not contain its substitution %s; want both to end just after '}'",
				utf16, in, hc02R(us.Range), hc02R(sub.Range))
		}
	}
}

// An unquoted string whose last rune is escaped has a range that stops after the backslash,
// and one that ends after a line continuation includes the continuation's backslash.
func TestHC02Pre_UnquotedEscapeEnd(t *testing.T) {
	for _, tc := range []struct {
		in   string
		want string // text the first key segment's range must cover
	}{
		{"a\\😀: 1", "a\\😀"},
		{"q\\#: 1", "q\\#"},
		{"a\\\n.b", "a"},
	} {
		m, errs := hc02Parse(t, tc.in, false)
		if len(errs) != 0 {
			t.Fatalf("input %q: unexpected errors %v", tc.in, errs)
		}
		seg := m.Nodes[0].MapKey.Key.Path[0].Unbox()
		r := seg.GetRange()
		got := tc.in[r.Start.Byte:r.End.Byte]
		if got != tc.want {
			k2, err := d2parser.ParseKey(got)
			back := "error: " + strings.ReplaceAll(errString(err), "\n", " ")
			if err == nil {
				back = k2.Path[0].Unbox().ScalarString()
			}
			t.Errorf("input %q: key segment %q has range %s covering %q; want %q (the covered text parses back to %q)",
				tc.in, seg.ScalarString(), hc02R(r), got, tc.want, back)
		}
	}
}

func errString(err error) string {
	if err == nil {
		return ""
	}
	return err.Error()
}

// A key ending in a dash directly before a delimiter keeps the dash in its value but not in
// its range.
func TestHC02Pre_KeyTrailingDash(t *testing.T) {
	for _, in := range []string{"a-{}", "a-\nb", "x: {é-}"} {
		m, errs := hc02Parse(t, in, false)
		if len(errs) != 0 {
			t.Fatalf("input %q: unexpected errors %v", in, errs)
		}
		k := m.Nodes[0].MapKey
		if strings.HasPrefix(in, "x:") {
			k = k.Value.Map.Nodes[0].MapKey
		}
		seg := k.Key.Path[0].Unbox()
		r := seg.GetRange()
		got := in[r.Start.Byte:r.End.Byte]
		if got != seg.ScalarString() {
			t.Errorf("input %q: key segment %q has range %s covering %q, which parses back to a different key; want the range to cover %q",
				in, seg.ScalarString(), hc02R(r), got, seg.ScalarString())
		}
	}
}

// "unexpected character in edge index" subtracts the peeked (not yet consumed) rune from
// p.pos: the range covers what precedes the character, and can start inside a multi-byte rune.
func TestHC02Pre_EdgeIndexErrPos(t *testing.T) {
	for _, tc := range []struct {
		in         string
		start, end int
	}{
		{"(a -> b)[x]", 9, 10},    // observed 0:8:8-0:9:9: the '['
		{"(a -> 世)[😀]", 11, 15}, // observed 0:7:7-0:11:11: starts inside 世 (bytes 6..8)
	} {
		_, errs := hc02Parse(t, tc.in, false)
		var found bool
		for _, e := range errs {
			if !strings.Contains(e.Message, "unexpected character in edge index") {
				continue
			}
			found = true
			if e.Range.Start.Byte != tc.start || e.Range.End.Byte != tc.end {
				t.Errorf("input %q: error %q has range %s covering bytes %q; want %d-%d covering %q",
					tc.in, e.Message, hc02R(e.Range), tc.in[e.Range.Start.Byte:e.Range.End.Byte], tc.start, tc.end, tc.in[tc.start:tc.end])
			}
		}
		if !found {
			t.Fatalf("input %q: expected an edge index error, got %v", tc.in, errs)
		}
	}
}

// A byte that is not valid UTF-8 is decoded as U+FFFD and advances the UTF-8 position by
// utf8.RuneLen(U+FFFD) = 3 instead of the 1 byte actually consumed.
func TestHC02Pre_InvalidUTF8(t *testing.T) {
	in := "a\xff: b" // 5 bytes, e.g. a Latin-1 encoded file
	m, _ := hc02Parse(t, in, false)
	if m.Range.End.Byte != len(in) {
		t.Errorf("input %q (%d bytes): file map range %s ends outside the input; want end offset %d", in, len(in), hc02R(m.Range), len(in))
	}
	if len(m.Nodes) == 1 && m.Nodes[0].MapKey != nil && m.Nodes[0].MapKey.Value.Unbox() != nil {
		v := m.Nodes[0].MapKey.Value.Unbox().GetRange()
		if v.Start.Byte != 4 || v.End.Byte != 5 {
			t.Errorf("input %q: value %q has range %s; want 0:4:4-0:5:5", in, "b", hc02R(v))
		}
	}
}
