package d2exporter_test

// HC28 defect-hunting tests for property C28 ("export is one-to-one and user
// styles override theme defaults"). Copy into d2exporter/ (package
// d2exporter_test). Every test FAILS on the unchanged tree.

import (
	"context"
	"io"
	"log/slog"
	"strings"
	"testing"

	"oss.terrastruct.com/d2/d2compiler"
	"oss.terrastruct.com/d2/d2exporter"
	"oss.terrastruct.com/d2/d2layouts"
	"oss.terrastruct.com/d2/d2layouts/d2dagrelayout"
	"oss.terrastruct.com/d2/d2target"
	"oss.terrastruct.com/d2/lib/log"
	"oss.terrastruct.com/d2/lib/textmeasure"
)

// hc28Export runs the same pipeline as d2lib.Compile for a single board:
// compile -> apply theme -> set dimensions -> nested layout (dagre) -> export.
func hc28Export(t *testing.T, dsl string, themeID int64) *d2target.Diagram {
	t.Helper()
	ctx := log.With(context.Background(), slog.New(slog.NewTextHandler(io.Discard, nil)))
	g, _, err := d2compiler.Compile("", strings.NewReader(dsl), nil)
	if err != nil {
		t.Fatalf("input does not compile: %v\n%s", err, dsl)
	}
	if err := g.ApplyTheme(themeID); err != nil {
		t.Fatal(err)
	}
	ruler, err := textmeasure.NewRuler()
	if err != nil {
		t.Fatal(err)
	}
	if err := g.SetDimensions(nil, ruler, nil, nil); err != nil {
		t.Fatalf("SetDimensions: %v", err)
	}
	if err := d2layouts.LayoutNested(ctx, g, d2layouts.NestedGraphInfo(g.Root), d2dagrelayout.DefaultLayout, d2layouts.DefaultRouter); err != nil {
		t.Fatalf("layout: %v", err)
	}
	d, err := d2exporter.Export(ctx, g, nil, nil)
	if err != nil {
		t.Fatal(err)
	}
	return d
}

func hc28Shape(t *testing.T, d *d2target.Diagram, id string) d2target.Shape {
	t.Helper()
	for _, s := range d.Shapes {
		if s.ID == id {
			return s
		}
	}
	t.Fatalf("no exported shape with id %q", id)
	return d2target.Shape{}
}

// Defect 1: the compiler accepts text-transform values case-insensitively
// ("NONE", "Uppercase", ...) but every consumer compares the stored value
// case-sensitively, so the user's style is silently dropped; in particular
// `text-transform: NONE` no longer protects the label from the CapsLock rule of
// the Terminal themes.
func TestHC28Pre_TextTransformCase(t *testing.T) {
	const dsl = `a: hello {style.text-transform: NONE}
b: hello {style.text-transform: none}
c: hello {style.text-transform: Uppercase}
d: hello {style.text-transform: uppercase}
a -> b: conn {style.text-transform: None}
`
	// 300 = Terminal (SpecialRules.CapsLock), 0 = Neutral default
	term := hc28Export(t, dsl, 300)
	if got, ref := hc28Shape(t, term, "a").Label, hc28Shape(t, term, "b").Label; got != ref {
		t.Errorf("theme 300 (CapsLock): shape a has `style.text-transform: NONE` (accepted by the compiler) but its exported label is %q; the lower-case spelling on shape b gives %q. The user's override of the theme rule is lost.\ninput:\n%s", got, ref, dsl)
	}
	if got := term.Connections[0].Label; got != "conn" {
		t.Errorf("theme 300 (CapsLock): connection has `style.text-transform: None` but its exported label is %q, want %q\ninput:\n%s", got, "conn", dsl)
	}
	def := hc28Export(t, dsl, 0)
	if got, ref := hc28Shape(t, def, "c").Label, hc28Shape(t, def, "d").Label; got != ref {
		t.Errorf("theme 0: shape c has `style.text-transform: Uppercase` (accepted by the compiler) but its exported label is %q; the lower-case spelling on shape d gives %q\ninput:\n%s", got, ref, dsl)
	}
}

// Defect 2: shapes and connections inside vars.d2-legend are exported through
// the same toShape/toConnection, but their labels never go through the
// text-transform step (it lives in Graph.SetDimensions, which only visits
// g.Objects / g.Edges), so a user-set text-transform is ignored for them.
func TestHC28Pre_LegendTextTransform(t *testing.T) {
	const dsl = `vars: {
  d2-legend: {
    la: Legend item {style.text-transform: uppercase}
    lb: other
    la -> lb: legend conn {style.text-transform: uppercase}
  }
}
x: Legend item {style.text-transform: uppercase}
y
x -> y: legend conn {style.text-transform: uppercase}
`
	d := hc28Export(t, dsl, 0)
	if d.Legend == nil || len(d.Legend.Shapes) != 2 || len(d.Legend.Connections) != 1 {
		t.Fatalf("unexpected legend: %#v", d.Legend)
	}
	if got, ref := d.Legend.Shapes[0].Label, hc28Shape(t, d, "x").Label; got != ref {
		t.Errorf("legend shape %q has `style.text-transform: uppercase` but is exported with label %q; the same declaration outside the legend (shape x) is exported as %q\ninput:\n%s", d.Legend.Shapes[0].ID, got, ref, dsl)
	}
	if got, ref := d.Legend.Connections[0].Label, d.Connections[0].Label; got != ref {
		t.Errorf("legend connection %q has `style.text-transform: uppercase` but is exported with label %q; the same declaration outside the legend is exported as %q\ninput:\n%s", d.Legend.Connections[0].ID, got, ref, dsl)
	}
}

// Defect 3: the CapsLock special rule (Terminal themes) skips LaTeX labels on
// shapes (`obj.Language != "latex"`), but the connection path has no such
// guard, so a LaTeX connection label is upper-cased and its TeX commands are
// destroyed ("\frac" -> "\FRAC").
func TestHC28Pre_CapsLockLatexEdge(t *testing.T) {
	const dsl = `a -> b: |latex \frac{x}{y} |
c: |latex \frac{x}{y} |
`
	d := hc28Export(t, dsl, 300)
	objLabel := hc28Shape(t, d, "c").Label
	if objLabel != `\frac{x}{y}` {
		t.Fatalf("precondition: shape LaTeX label should be untouched, got %q", objLabel)
	}
	if got := d.Connections[0].Label; got != objLabel {
		t.Errorf("theme 300 (CapsLock): LaTeX label of connection %s exported as %q, want %q (the identical label on shape c is left alone)\ninput:\n%s", d.Connections[0].ID, got, objLabel, dsl)
	}
}

// Finding 4 (by design, recorded because it literally contradicts "one
// connection per connection, with its source and destination IDs"): the
// sequence-diagram layout appends one synthetic lifeline edge per actor to
// g.Edges; Export emits them as ordinary connections whose Dst is the ID of an
// object that is not exported as a shape.
func TestHC28Pre_SequenceLifelineConnections(t *testing.T) {
	const dsl = `s: {
  shape: sequence_diagram
  a -> b
}
`
	d := hc28Export(t, dsl, 0)
	ids := map[string]bool{}
	for _, s := range d.Shapes {
		ids[s.ID] = true
	}
	var extra []string
	for _, c := range d.Connections {
		if !ids[c.Src] || !ids[c.Dst] {
			extra = append(extra, c.ID+" {src: "+c.Src+", dst: "+c.Dst+"}")
		}
	}
	if len(d.Connections) != 1 || len(extra) > 0 {
		t.Errorf("input declares 1 connection, export has %d; connections with an endpoint that is not an exported shape: %v\ninput:\n%s", len(d.Connections), extra, dsl)
	}
}
