package d2cli

// Copy this file into the directory d2cli/ (package d2cli: the board id test needs the
// unexported buildBoardIDToIndex; the other tests only use exported API).

import (
	"strings"
	"testing"

	"oss.terrastruct.com/d2/d2ast"
	"oss.terrastruct.com/d2/d2compiler"
	"oss.terrastruct.com/d2/d2format"
	"oss.terrastruct.com/d2/d2graph"
	"oss.terrastruct.com/d2/d2oracle"
	"oss.terrastruct.com/d2/d2parser"
	"oss.terrastruct.com/d2/d2target"
)

func hc05Compile(t *testing.T, src string) *d2graph.Graph {
	t.Helper()
	g, _, err := d2compiler.Compile("", strings.NewReader(src), nil)
	if err != nil {
		t.Fatalf("compile %q: %v", src, err)
	}
	return g
}

// hc05Values parses src, which holds one key with a scalar value, and returns the parts of
// that value: the text of each string part, and "${}" for each substitution.
func hc05Values(t *testing.T, src string) (parts []string, err error) {
	t.Helper()
	m, err := d2parser.Parse("", strings.NewReader(src), nil)
	if err != nil {
		return nil, err
	}
	if len(m.Nodes) != 1 || m.Nodes[0].MapKey == nil {
		return []string{"<not one key>"}, nil
	}
	var boxes []d2ast.InterpolationBox
	switch v := m.Nodes[0].MapKey.Value.Unbox().(type) {
	case *d2ast.UnquotedString:
		boxes = v.Value
	case *d2ast.DoubleQuotedString:
		boxes = v.Value
	case nil:
		return []string{"<no value>"}, nil
	default:
		if s, ok := v.(d2ast.Scalar); ok {
			return []string{"<" + v.Type() + ">" + s.ScalarString()}, nil
		}
		return []string{"<" + v.Type() + ">"}, nil
	}
	for _, b := range boxes {
		if b.Substitution != nil {
			parts = append(parts, "${}")
		} else {
			parts = append(parts, *b.String)
		}
	}
	return parts, nil
}

// Rename takes a plain name. The names below are plain strings that also happen to be
// readable as D2 syntax; the object must get exactly that name.
func TestHC05Pre_RenameRawName(t *testing.T) {
	for _, name := range []string{"a#b", " a", "a;b", "a: b", "a--b", "a -> b", "R&D", "Label;", "a\nb"} {
		g := hc05Compile(t, "x\nx -> y\n")
		g2, newKey, err := d2oracle.Rename(g, nil, "x", name)
		if err != nil {
			t.Errorf("Rename(x, %q): %v", name, err)
			continue
		}
		out := d2format.Format(g2.AST)
		g3 := hc05Compile(t, out)
		var ids []string
		found := false
		for _, o := range g3.Objects {
			ids = append(ids, o.IDVal)
			if o.IDVal == name {
				found = true
			}
		}
		if !found {
			t.Errorf("Rename(x, %q): no object is named %q afterwards; objects %q, returned name %q, text %q", name, name, ids, newKey, out)
		}
		// The sibling that only computes the ids agrees with the property.
		deltas, err := d2oracle.RenameIDDeltas(hc05Compile(t, "x\nx -> y\n"), nil, "x", name)
		if err == nil {
			k, err := d2parser.ParseKey(deltas["x"])
			if err != nil || len(k.Path) != 1 || k.Path[0].Unbox().ScalarString() != name {
				t.Errorf("RenameIDDeltas(x, %q): x becomes %q, which is not the key of %q", name, deltas["x"], name)
			}
		}
	}
}

// The formatter writes the text after a substitution without the escapes it needs.
func TestHC05Pre_EscapeAfterSubstitution(t *testing.T) {
	for _, src := range []string{
		"x: \"${a}\\nsecond line\"\n",
		"x: \"${a} said \\\"hi\\\"\"\n",
		"x: \"${a}\\\\b\"\n",
		"x: ${a}\\#1\n",
		"x: ${a}\\; b\n",
	} {
		before, err := hc05Values(t, src)
		if err != nil {
			t.Fatalf("%q: %v", src, err)
		}
		m, _ := d2parser.Parse("", strings.NewReader(src), nil)
		out := d2format.Format(m)
		after, err := hc05Values(t, out)
		if err != nil {
			t.Errorf("%q holds the value %q; formatted to %q it does not parse: %v", src, before, out, err)
			continue
		}
		if strings.Join(before, "\x00") != strings.Join(after, "\x00") {
			t.Errorf("%q holds the value %q; formatted to %q it holds %q", src, before, out, after)
		}
	}
}

// An unquoted string may begin after a line continuation. Its first character is then
// written at the place where a quote, a block string, an import or an edge group begins.
func TestHC05Pre_UnquotedAfterContinuation(t *testing.T) {
	for _, src := range []string{
		"x: \\\n  \"a long label\"\n",
		"x: \\\n  'it''s'\n",
		"x: \\\n  |a|\n",
		"x: \\\n  @a\n",
	} {
		before, err := hc05Values(t, src)
		if err != nil {
			t.Fatalf("%q: %v", src, err)
		}
		m, _ := d2parser.Parse("", strings.NewReader(src), nil)
		out := d2format.Format(m)
		after, err := hc05Values(t, out)
		if err != nil {
			t.Errorf("%q holds the value %q; formatted to %q it does not parse: %v", src, before, out, err)
			continue
		}
		if strings.Join(before, "\x00") != strings.Join(after, "\x00") {
			t.Errorf("%q holds the value %q; formatted to %q it holds %q", src, before, out, after)
		}
	}
}

// The ids of the boards of a PDF or PPTX are joined from the plain board names, whereas the
// link of a shape is a key path with the board name quoted where needed.
func TestHC05Pre_BoardIDQuoting(t *testing.T) {
	for _, name := range []string{"v1.0", "a: b", "R&D"} {
		quoted := d2format.Format(d2ast.MakeKeyPath([]string{name}))
		g := hc05Compile(t, "x: {link: layers."+quoted+"}\nlayers: {"+quoted+": {y}}\n")
		if len(g.Layers) != 1 || g.Layers[0].Name != name {
			t.Fatalf("layer %q not compiled", name)
		}
		if g.Objects[0].Link == nil {
			t.Fatalf("layer %q: link not compiled", name)
		}
		link := g.Objects[0].Link.Value

		diagram := &d2target.Diagram{Layers: []*d2target.Diagram{{Name: name}}}
		ids := buildBoardIDToIndex(diagram, nil, nil)
		var keys []string
		for id, i := range ids {
			keys = append(keys, id)
			if i != 1 {
				continue
			}
			k, err := d2parser.ParseKey(id)
			if err != nil || len(k.Path) != 3 || k.Path[2].Unbox().ScalarString() != name {
				t.Errorf("board %q has the id %q, which does not parse back to [root layers %q] (err %v)", name, id, name, err)
			}
		}
		if _, ok := ids[link]; !ok {
			t.Errorf("board %q: the link of the shape is %q but the board ids are %q: the link finds no page", name, link, keys)
		}
	}
}

// A shape may be named like a reserved keyword when the name is quoted. The key generated
// for that name is not quoted, so it denotes the keyword and not the shape.
func TestHC05Pre_ReservedNameUnquoted(t *testing.T) {
	g := hc05Compile(t, "c: {\n  \"label\": hi\n}\n")
	var shape *d2graph.Object
	for _, o := range g.Objects {
		if o.IDVal == "label" {
			shape = o
		}
	}
	if shape == nil {
		t.Fatalf("no shape named label")
	}
	// The key generated for the shape, compiled again, must declare the same shape.
	g2, _, err := d2compiler.Compile("", strings.NewReader(shape.AbsID()+"\n"), nil)
	n := 0
	if err == nil {
		for _, o := range g2.Objects {
			if o.IDVal == "label" {
				n++
			}
		}
	}
	if err != nil || n != 1 {
		t.Errorf("the shape named %q has the generated key %q; compiled, that key declares %d shapes named label (err %v), want 1", "label", shape.AbsID(), n, err)
	}
	// The editing API cannot reach the shape by the key it generated.
	g3, err := d2oracle.Delete(g, nil, shape.AbsID())
	if err != nil {
		t.Errorf("Delete(%q): %v", shape.AbsID(), err)
	} else if out := d2format.Format(g3.AST); strings.Contains(out, "hi") {
		t.Errorf("Delete(%q) leaves the shape in place: %q", shape.AbsID(), out)
	}
}
