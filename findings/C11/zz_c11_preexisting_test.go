package d2compiler_test

// Pre-existing violations of property C11 on the UNCHANGED tree.
// Copy to: d2compiler/zz_c11_preexisting_test.go
// Run:     GOFLAGS=-mod=mod GOPROXY=off go test -vet=off -count=1 -run TestC11Pre -v ./d2compiler/
// Both tests FAIL on the unchanged tree.

import (
	"strings"
	"testing"

	"oss.terrastruct.com/d2/d2compiler"
)

// Defect 1: after an indexed deletion, a newly declared parallel connection is
// given an index that is still in use (d2ir createEdge2 numbers a new edge with
// the COUNT of surviving parallel edges, DeleteEdge leaves the survivors'
// indices alone).  Two IR connections then share the ID (a -> b)[1] and an
// indexed reference changes both of them.
func TestC11Pre_DeleteThenRedeclareSharesIndex(t *testing.T) {
	src := `
a -> b: one
a -> b: two
(a -> b)[0]: null
a -> b: three
(a -> b)[1].style.stroke: red
`
	g, _, err := d2compiler.Compile("pre1.d2", strings.NewReader(src), nil)
	if err != nil {
		t.Fatal(err)
	}
	red := 0
	for _, e := range g.Edges {
		if e.Style.Stroke != nil && e.Style.Stroke.Value == "red" {
			red++
			t.Logf("red: %s label=%q", e.AbsID(), e.Label.Value)
		}
	}
	if red != 1 {
		t.Errorf("one indexed reference (a -> b)[1] changed %d connections, want exactly 1", red)
	}
}

// Defect 2: deleting a connection index that does not exist is silently
// accepted, whereas any other reference to a missing index is the error
// "indexed edge does not exist".
func TestC11Pre_DeleteOfMissingIndexIsNotAnError(t *testing.T) {
	// control: a non-null reference to the missing index is an error
	_, _, err := d2compiler.Compile("pre2a.d2", strings.NewReader("a -> b\n(a -> b)[5].style.stroke: red\n"), nil)
	if err == nil || !strings.Contains(err.Error(), "indexed edge does not exist") {
		t.Fatalf("control: expected 'indexed edge does not exist', got %v", err)
	}
	for _, src := range []string{
		"a -> b\n(a -> b)[5]: null\n",
		"a -> b\n(b -> a)[0]: null\n",
		"a\nb\n(a -> b)[0]: null\n",
	} {
		_, _, err = d2compiler.Compile("pre2b.d2", strings.NewReader(src), nil)
		if err == nil {
			t.Errorf("deleting a missing connection index compiled without error:\n%s", src)
		}
	}
}
