package d2compiler_test

// Copy into d2compiler/ (external test package d2compiler_test).
//
// Property C15: a scenario shows its base board (as declared before it) plus its own changes, a
// step additionally everything from the previous step, a layer starts empty but may use the base's
// classes, variables and board-wide globs; nothing done in a board alters its base or siblings.
//
// Every test compiles a program with boards and compares ONE board of it with the root board of the
// equivalent single-board ("flattened") program, i.e. what the property says that board must show.

import (
	"fmt"
	"sort"
	"strings"
	"testing"

	"oss.terrastruct.com/d2/d2compiler"
	"oss.terrastruct.com/d2/d2graph"
)

func hc15Style(s d2graph.Style) string {
	var parts []string
	add := func(k string, v *d2graph.Scalar) {
		if v != nil {
			parts = append(parts, k+"="+v.Value)
		}
	}
	add("fill", s.Fill)
	add("stroke", s.Stroke)
	add("opacity", s.Opacity)
	add("font-color", s.FontColor)
	return strings.Join(parts, ",")
}

func hc15Dump(g *d2graph.Graph) string {
	var objs, edges []string
	for _, o := range g.Objects {
		objs = append(objs, fmt.Sprintf("  obj %s label=%q classes=%v style{%s}", o.AbsID(), o.Label.Value, o.Classes, hc15Style(o.Style)))
	}
	for _, e := range g.Edges {
		edges = append(edges, fmt.Sprintf("  edge %s label=%q style{%s}", e.AbsID(), e.Label.Value, hc15Style(e.Style)))
	}
	sort.Strings(objs)
	sort.Strings(edges)
	out := strings.Join(append(objs, edges...), "\n")
	if out == "" {
		out = "  (empty board)"
	}
	return out
}

func hc15Board(t *testing.T, g *d2graph.Graph, path ...string) *d2graph.Graph {
	t.Helper()
	for i := 0; i+1 < len(path); i += 2 {
		var list []*d2graph.Graph
		switch path[i] {
		case "layers":
			list = g.Layers
		case "scenarios":
			list = g.Scenarios
		case "steps":
			list = g.Steps
		}
		var next *d2graph.Graph
		for _, b := range list {
			if b.Name == path[i+1] {
				next = b
			}
		}
		if next == nil {
			t.Fatalf("board %v not found", path)
		}
		g = next
	}
	return g
}

// hc15Check compiles in, takes the board at path and requires it to show what the root board of flat shows.
func hc15Check(t *testing.T, in string, path []string, flat string, why string) {
	t.Helper()
	g, _, err := d2compiler.Compile("", strings.NewReader(in), nil)
	if err != nil {
		t.Fatalf("input does not compile: %v\n%s", err, in)
	}
	fg, _, err := d2compiler.Compile("", strings.NewReader(flat), nil)
	if err != nil {
		t.Fatalf("flattened program does not compile: %v\n%s", err, flat)
	}
	got := hc15Dump(hc15Board(t, g, path...))
	want := hc15Dump(fg)
	name := "root"
	if len(path) > 0 {
		name = strings.Join(path, ".")
	}
	if got != want {
		t.Errorf("%s\ninput:\n%s\nboard %s shows:\n%s\nthe property requires (root board of the equivalent program\n%s):\n%s",
			why, in, name, got, flat, want)
	}
}

// A scenario (or step) that is first mentioned through a key path is not overlaid on its base.
func TestHC15Pre_KeyPathBoard(t *testing.T) {
	hc15Check(t, `a
scenarios.s.b: hi
`, []string{"scenarios", "s"}, `a
b: hi
`, "scenario declared as scenarios.s.b does not inherit the base board")
	hc15Check(t, `a
steps: {
  1.b
}
`, []string{"steps", "1"}, `a
b
`, "step declared as 1.b inside steps does not inherit the base board")
}

// A step that only has a label is an empty board, and the step after it inherits nothing at all.
func TestHC15Pre_LabelOnlyStep(t *testing.T) {
	in := `a
steps: {
  1: intro
  2: {
    b
  }
}
`
	hc15Check(t, in, []string{"steps", "1"}, "a\n", "step with only a label does not show the base board")
	hc15Check(t, in, []string{"steps", "2"}, "a\nb\n", "step after a label-only step lost the base board")
}

// A layer with a label does not get the classes of its base board.
func TestHC15Pre_LabelledLayerClasses(t *testing.T) {
	hc15Check(t, `classes: {
  k: {style.fill: red}
}
layers: {
  l: My Layer {
    a.class: k
  }
}
`, []string{"layers", "l"}, `classes: {
  k: {style.fill: red}
}
a.class: k
`, "labelled layer cannot use the classes of its base board (the unlabelled one can)")
}

// A scenario or step inside a layer does not get the classes the layer inherited from the root.
func TestHC15Pre_LayerScenarioClasses(t *testing.T) {
	in := `classes: {
  k: {style.fill: red}
}
layers: {
  l: {
    a.class: k
    scenarios: {
      s: {
        b.class: k
      }
    }
  }
}
`
	flatL := `classes: {
  k: {style.fill: red}
}
a.class: k
`
	hc15Check(t, in, []string{"layers", "l"}, flatL, "(control) the layer itself")
	hc15Check(t, in, []string{"layers", "l", "scenarios", "s"}, flatL+"b.class: k\n",
		"scenario inside a layer does not show its base board: the class the layer uses is not applied")
}

// Compiling a step marks base objects as 'glob already applied' in the base board's own glob state.
func TestHC15Pre_StepGlobLeak(t *testing.T) {
	in := `*.style.opacity: 0.7
steps: {
  1: {
    c
  }
}
c
`
	hc15Check(t, in, nil, `*.style.opacity: 0.7
c
`, "declaring c inside a step changed the base board: the base's glob no longer applies to the base's own c")
	// control: the same with a scenario is fine
	hc15Check(t, strings.Replace(in, "steps", "scenarios", 1), nil, `*.style.opacity: 0.7
c
`, "(control) scenario")
}

// An explicit override of a board-wide (triple) glob in the base is lost in scenarios and steps.
func TestHC15Pre_TripleGlobOverridesInherited(t *testing.T) {
	for _, kind := range []string{"scenarios", "steps"} {
		in := `***.style.font-color: orange
c.style.font-color: green
` + kind + `: {
  s: {
    d
  }
}
`
		flat := `***.style.font-color: orange
c.style.font-color: green
d
`
		hc15Check(t, in, nil, "***.style.font-color: orange\nc.style.font-color: green\n", "(control) base board")
		hc15Check(t, in, []string{kind, "s"}, flat, kind+": inherited object c lost the base's explicit font-color (the triple glob was applied over it)")
	}
}

// A glob declared in a step is not part of what the next step inherits.
func TestHC15Pre_StepGlobNotCarried(t *testing.T) {
	hc15Check(t, `steps: {
  1: {
    *.style.opacity: 0.3
    a
  }
  2: {
    b
  }
}
`, []string{"steps", "2"}, `*.style.opacity: 0.3
a
b
`, "step 2 does not include the glob of step 1: b is not covered by it")
}

// A variable overridden in a scenario reaches inherited values that are exactly ${x} but not those
// that contain ${x} next to other text (nor quoted or block strings).
func TestHC15Pre_VarPartialSubst(t *testing.T) {
	hc15Check(t, `vars: {
  x: base
}
a: ${x}
b: pre-${x}
c: "q ${x}"
scenarios: {
  s: {
    vars: {
      x: scen
    }
  }
}
`, []string{"scenarios", "s"}, `vars: {
  x: base
}
a: ${x}
b: pre-${x}
c: "q ${x}"
vars: {
  x: scen
}
`, "scenario overrides var x: inherited a follows it, inherited b and c keep the base value")
}
