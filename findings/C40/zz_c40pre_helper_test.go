package d2oracle_test

// Shared helper for the C40 pre-existing-defect tests (zz_c40pre_*_test.go).
// Copy this file and the test files to d2oracle/ inside the repo.
//
// c40preCheck runs the prediction (XIDDeltas) and the edit (X) on freshly
// compiled copies of the same diagram and compares them element by element.
// Elements are matched across the edit through their unique labels.

import (
	"sort"
	"strings"
	"testing"

	"oss.terrastruct.com/d2/d2compiler"
	"oss.terrastruct.com/d2/d2format"
	"oss.terrastruct.com/d2/d2graph"
	"oss.terrastruct.com/d2/d2oracle"
)

type c40preOp struct {
	kind      string // "delete", "rename", "move", "reconnect"
	boardPath []string
	key       string
	arg       string // new name (rename) / new key (move)
	incl      bool   // includeDescendants (move)
	newSrc    string // reconnect, "" = not given
	newDst    string // reconnect, "" = not given
}

func c40preLabels(t *testing.T, g *d2graph.Graph, boardPath []string) map[string]string {
	t.Helper()
	if len(boardPath) > 0 {
		g = d2oracle.GetBoardGraph(g, boardPath)
		if g == nil {
			t.Fatalf("board %v not found", boardPath)
		}
	}
	m := map[string]string{}
	for _, o := range g.Objects {
		l := "object " + o.Label.Value
		if _, dup := m[l]; dup {
			t.Fatalf("duplicate label %q", l)
		}
		m[l] = o.AbsID()
	}
	for _, e := range g.Edges {
		l := "connection " + e.Label.Value
		if _, dup := m[l]; dup {
			t.Fatalf("duplicate label %q", l)
		}
		m[l] = e.AbsID()
	}
	return m
}

func c40preCheck(t *testing.T, text string, op c40preOp) {
	t.Helper()
	compile := func() *d2graph.Graph {
		g, _, err := d2compiler.Compile("c40pre.d2", strings.NewReader(text), nil)
		if err != nil {
			t.Fatal(err)
		}
		return g
	}
	var ns, nd *string
	if op.newSrc != "" {
		ns = &op.newSrc
	}
	if op.newDst != "" {
		nd = &op.newDst
	}

	g := compile()
	before := c40preLabels(t, g, op.boardPath)
	var deltas map[string]string
	var err error
	switch op.kind {
	case "delete":
		deltas, err = d2oracle.DeleteIDDeltas(g, op.boardPath, op.key)
	case "rename":
		deltas, err = d2oracle.RenameIDDeltas(g, op.boardPath, op.key, op.arg)
	case "move":
		deltas, err = d2oracle.MoveIDDeltas(g, op.key, op.arg, op.incl)
	case "reconnect":
		deltas, err = d2oracle.ReconnectEdgeIDDeltas(g, op.boardPath, op.key, ns, nd)
	default:
		t.Fatalf("unknown kind %q", op.kind)
	}
	if err != nil {
		t.Fatalf("prediction failed: %v", err)
	}

	g = compile()
	var g2 *d2graph.Graph
	switch op.kind {
	case "delete":
		g2, err = d2oracle.Delete(g, op.boardPath, op.key)
	case "rename":
		g2, _, err = d2oracle.Rename(g, op.boardPath, op.key, op.arg)
	case "move":
		g2, err = d2oracle.Move(g, op.boardPath, op.key, op.arg, op.incl)
	case "reconnect":
		g2, err = d2oracle.ReconnectEdge(g, op.boardPath, op.key, ns, nd)
	}
	if err != nil {
		t.Fatalf("edit failed: %v", err)
	}
	after := c40preLabels(t, g2, op.boardPath)

	var labels []string
	for l := range before {
		labels = append(labels, l)
	}
	sort.Strings(labels)
	bad := false
	for _, l := range labels {
		oldID := before[l]
		newID, survives := after[l]
		pred, predicted := deltas[oldID]
		if !survives {
			if predicted {
				bad = true
				t.Errorf("%s (%s) is removed by the edit, but a change to %q is predicted", l, oldID, pred)
			}
			continue
		}
		want := oldID
		how := "no change predicted"
		if predicted {
			want = pred
			how = "predicted"
		}
		if want != newID {
			bad = true
			t.Errorf("%s: old ID %q, expected new ID %q (%s), actual new ID %q", l, oldID, want, how, newID)
		}
	}
	if bad {
		t.Logf("%s %+v on:\n%s\npredicted deltas: %v\nresult of the edit:\n%s", op.kind, op, text, deltas, d2format.Format(g2.AST))
	}
}
