package d2oracle_test

import "testing"

// P1. MoveIDDeltas, move inside the same scope (a plain rename done through Move),
// includeDescendants=false: the children stay where they are, but renames for
// "conflicts with the parent scope" are predicted for them.
func TestC40Pre01_MoveSameScopePredictsChildRenames(t *testing.T) {
	c40preCheck(t, `a: La
x: Lx {
  a: Lxa
  b: Lxb
  a -> b: E1
}
`, c40preOp{kind: "move", key: "x", arg: "z"})
}

// P2. Rename to a name that differs only in letter case.
func TestC40Pre02_RenameLetterCase(t *testing.T) {
	c40preCheck(t, `x: Lx {
  a: La
}
y: Ly
x.a -> y: E1
`, c40preOp{kind: "rename", key: "x", arg: "X"})
}

// P3. Rename of a nested object to a name that is used at the root (but free in the
// object's own scope): Rename looks for a clash at the root, RenameIDDeltas in the
// object's scope.
func TestC40Pre03_RenameNestedNameUsedAtRoot(t *testing.T) {
	c40preCheck(t, `x: Lx {
  a: La
}
y: Ly
x.a -> y: E1
`, c40preOp{kind: "rename", key: "x.a", arg: "y"})
}

// P3b. Same cause, other direction: the root-level lookup strips the " 2" suffix.
func TestC40Pre03b_RenameNestedSuffixStripped(t *testing.T) {
	c40preCheck(t, `a 2: L1 {
  b 2: L2
}
`, c40preOp{kind: "rename", key: "a 2.b 2", arg: "a 2"})
}

// P4. ReconnectEdgeIDDeltas treats connections with a different arrow direction as
// siblings, although the index is counted per (src, dst, arrow direction).
func TestC40Pre04_ReconnectIgnoresArrowDirection(t *testing.T) {
	c40preCheck(t, `a: La
b: Lb
c: Lc
a -> b: E1
a <-> c: E2
`, c40preOp{kind: "reconnect", key: "(a -> b)[0]", newDst: "c"})
}

// P5. Move with includeDescendants=true appends the container at the end of the target
// map, so a connection written inside the container can end up after a connection
// written outside of it; their indices swap, the prediction keeps them.
func TestC40Pre05_MoveInclDescendantsReordersConnections(t *testing.T) {
	c40preCheck(t, `x: Lx {
  a: La
  b: Lb
  a -> b: E1
}
x.a -> x.b: E2
z: Lz
`, c40preOp{kind: "move", key: "x", arg: "z.x", incl: true})
}

// P6. MoveIDDeltas does not keep a generated child name clear of the names of the
// siblings that are hoisted along (Move, through renameConflictsToParent, does).
func TestC40Pre06_MoveGeneratedNameVsSibling(t *testing.T) {
	c40preCheck(t, `x: Lx {
  Square 2: L1
  Square 3: L2
}
Square 2: L3
Square: L4
y: Ly
`, c40preOp{kind: "move", key: "x", arg: "y.x"})
}

// P7. ReconnectEdge writes the new end relative to the scope with getCommonPath, which
// accepts a match at a later path position (x.y vs z.y). The connection ends up on a
// newly created x.y.q instead of z.y.q.
func TestC40Pre07_ReconnectCommonPath(t *testing.T) {
	c40preCheck(t, `x: Lx {
  y: Ly {
    a: La
    b: Lb
    a -> b: E1
  }
}
z: Lz {
  y: Lzy {
    q: Lq
  }
}
`, c40preOp{kind: "reconnect", key: "x.y.(a -> b)[0]", newDst: "z.y.q"})
}

// P8. Changing the arrow direction of a connection (Rename/Move of a connection key):
// the prediction keeps the old index, and predicts nothing for the later siblings.
func TestC40Pre08_RenameConnectionKeepsIndex(t *testing.T) {
	c40preCheck(t, `a: La
b: Lb
a -> b: E1
a -> b: E2
`, c40preOp{kind: "rename", key: "(a -> b)[1]", arg: "(a <-> b)[1]"})
}

func TestC40Pre08b_RenameConnectionSiblingsShift(t *testing.T) {
	c40preCheck(t, `a: La
b: Lb
a -> b: E1
a -> b: E2
`, c40preOp{kind: "rename", key: "(a -> b)[0]", arg: "(a <-> b)[0]"})
}

// P9. Delete of a container: a grandchild map that refers to a hoisted sibling with one
// underscore gets that underscore stripped as well.
func TestC40Pre09_DeleteStripsNestedUnderscore(t *testing.T) {
	c40preCheck(t, `x: Lx {
  q: Lq
  y: Ly {
    p: Lp
    _.q -> p: E1
  }
}
`, c40preOp{kind: "delete", key: "x"})
}

// P10. ReconnectEdgeIDDeltas orders connections by source line only; two connections on
// one line (separated by ";") are taken to precede each other.
func TestC40Pre10_ReconnectSameLine(t *testing.T) {
	c40preCheck(t, `a: La
b: Lb
c: Lc
a -> b: E2; a -> c: E1
`, c40preOp{kind: "reconnect", key: "(a -> b)[0]", newDst: "c"})
}

// P11. MoveIDDeltas panics (nil pointer) for a connection key at the root scope.
func TestC40Pre11_MoveIDDeltasRootConnectionPanics(t *testing.T) {
	c40preCheck(t, `a: La
b: Lb
a -> b: E1
`, c40preOp{kind: "move", key: "(a -> b)[0]", arg: "(a <- b)[0]"})
}

// P12. ReconnectEdgeIDDeltas on a nested board walks the root board's connections when
// it looks for new siblings to push up, so nothing on the board is ever pushed up.
func TestC40Pre12_ReconnectOnBoardNewSiblings(t *testing.T) {
	c40preCheck(t, `r: Lr
layers: {
  l: {
    a: La
    b: Lb
    d: Ld
    d -> b: E1
    a -> b: E2
  }
}
`, c40preOp{kind: "reconnect", boardPath: []string{"l"}, key: "(d -> b)[0]", newSrc: "a"})
}
