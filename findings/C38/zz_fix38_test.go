package d2oracle_test

import (
	"strings"
	"testing"

	"oss.terrastruct.com/d2/d2compiler"
	"oss.terrastruct.com/d2/d2format"
	"oss.terrastruct.com/d2/d2oracle"
)

type fix38Case struct {
	name      string
	text      string
	boardPath []string
	key       string
	exp       string
}

func runFix38(t *testing.T, tca []fix38Case) {
	for _, tc := range tca {
		tc := tc
		t.Run(tc.name, func(t *testing.T) {
			g, _, err := d2compiler.Compile("", strings.NewReader(tc.text), nil)
			if err != nil {
				t.Fatalf("compile: %v", err)
			}
			// A panic fails the sub-test only.
			defer func() {
				if r := recover(); r != nil {
					t.Fatalf("Delete(%q) panicked: %v", tc.key, r)
				}
			}()
			g, err = d2oracle.Delete(g, tc.boardPath, tc.key)
			if err != nil {
				t.Fatalf("Delete(%q): %v", tc.key, err)
			}
			got := d2format.Format(g.AST)
			// The blank line a deleted line may leave is not the matter here.
			for strings.Contains(got, "\n\n") {
				got = strings.ReplaceAll(got, "\n\n", "\n")
			}
			if got != tc.exp {
				t.Fatalf("Delete(%q) of\n%s\ngot:\n%s\nexpected:\n%s", tc.key, tc.text, got, tc.exp)
			}
		})
	}
}

// Deleting a connection renumbers the later parallel ones; a glob index has no number.
func TestFix38DeleteEdgeGlobIndex(t *testing.T) {
	runFix38(t, []fix38Case{
		{
			name: "glob_style",
			text: "a -> b; a -> b; (a -> b)[*].style.stroke: red\n",
			key:  "(a -> b)[0]",
			exp:  "a -> b\n(a -> b)[*].style.stroke: red\n",
		},
		{
			name: "glob_style_and_index",
			text: "a -> b\na -> b\na -> b\n(a -> b)[*].style.stroke: red\n(a -> b)[2].style.opacity: 0.4\n",
			key:  "(a -> b)[0]",
			exp:  "a -> b\na -> b\n(a -> b)[*].style.stroke: red\n(a -> b)[1].style.opacity: 0.4\n",
		},
		{
			name: "glob_map",
			text: "a -> b\na -> b\n(a -> b)[*]: {style.stroke: red}\n",
			key:  "(a -> b)[0]",
			exp:  "a -> b\n(a -> b)[*]: {style.stroke: red}\n",
		},
		{
			name: "scoped_glob",
			text: "x: {\n  a -> b\n  a -> b\n  (a -> b)[*].style.stroke: red\n}\n",
			key:  "x.(a -> b)[0]",
			exp:  "x: {\n  a -> b\n  (a -> b)[*].style.stroke: red\n}\n",
		},
	})
}

// Deleting an attribute deletes the attribute the whole key names, however it is spelled,
// and nothing else.
func TestFix38DeleteField(t *testing.T) {
	runFix38(t, []fix38Case{
		// Inputs of the report.
		{
			name: "label_near_not_near",
			text: "x: {near: top-center; label.near: outside-top-left}\n",
			key:  "x.label.near",
			exp:  "x: {near: top-center}\n",
		},
		{
			name: "icon_near_not_near",
			text: "x: hi {near: top-center; icon: https://a.b/c.png {near: outside-top-left}}\n",
			key:  "x.icon.near",
			exp:  "x: hi {near: top-center; icon: https://a.b/c.png}\n",
		},
		{
			name: "flat_near_not_label_near",
			text: "x.near: top-center\nx.label.near: outside-top-left\n",
			key:  "x.near",
			exp:  "x.label.near: outside-top-left\n",
		},
		{
			name: "source_arrowhead_shape_not_target",
			text: "a -> b: {target-arrowhead.shape: arrow; source-arrowhead: {shape: diamond}}\n",
			key:  "(a -> b)[0].source-arrowhead.shape",
			exp:  "a -> b: {target-arrowhead.shape: arrow}\n",
		},
		{
			name: "edge_opacity_not_arrowhead_opacity",
			text: "a -> b: {source-arrowhead: {style.opacity: 0.5}; style.opacity: 0.4}\n",
			key:  "(a -> b)[0].style.opacity",
			exp:  "a -> b: {source-arrowhead: {style.opacity: 0.5}}\n",
		},

		// The same, the other order and the other attribute.
		{
			name: "near_not_label_near",
			text: "x: {near: top-center; label.near: outside-top-left}\n",
			key:  "x.near",
			exp:  "x: {label.near: outside-top-left}\n",
		},
		{
			name: "near_not_label_near/reverse",
			text: "x: {label.near: outside-top-left; near: top-center}\n",
			key:  "x.near",
			exp:  "x: {label.near: outside-top-left}\n",
		},
		{
			name: "label_near_not_near/reverse",
			text: "x: {label.near: outside-top-left; near: top-center}\n",
			key:  "x.label.near",
			exp:  "x: {near: top-center}\n",
		},
		{
			name: "label_near_not_near/nested",
			text: "x: {near: top-center; label: {near: outside-top-left}}\n",
			key:  "x.label.near",
			exp:  "x: {near: top-center}\n",
		},
		{
			name: "near_not_label_near/nested",
			text: "x: {label: {near: outside-top-left}; near: top-center}\n",
			key:  "x.near",
			exp:  "x: {label: {near: outside-top-left}}\n",
		},
		{
			name: "label_near_not_icon_near",
			text: "x: {icon: https://a.b/c.png; icon.near: outside-top-left; label.near: outside-top-right}\n",
			key:  "x.label.near",
			exp:  "x: {icon: https://a.b/c.png; icon.near: outside-top-left}\n",
		},
		{
			name: "icon_near_not_label_near",
			text: "x: {icon: https://a.b/c.png; label.near: outside-top-right; icon.near: outside-top-left}\n",
			key:  "x.icon.near",
			exp:  "x: {icon: https://a.b/c.png; label.near: outside-top-right}\n",
		},
		{
			name: "near_not_icon_near",
			text: "x: hi {icon: https://a.b/c.png {near: outside-top-left}; near: top-center}\n",
			key:  "x.near",
			exp:  "x: hi {icon: https://a.b/c.png {near: outside-top-left}}\n",
		},
		{
			name: "flat_label_near_not_near",
			text: "x.near: top-center\nx.label.near: outside-top-left\n",
			key:  "x.label.near",
			exp:  "x.near: top-center\n",
		},
		{
			name: "flat_label_near_not_near/reverse",
			text: "x.label.near: outside-top-left\nx.near: top-center\n",
			key:  "x.label.near",
			exp:  "x.near: top-center\n",
		},
		{
			name: "flat_near_not_label_near/reverse",
			text: "x.label.near: outside-top-left\nx.near: top-center\n",
			key:  "x.near",
			exp:  "x.label.near: outside-top-left\n",
		},
		{
			name: "flat_label_map",
			text: "x.near: top-center\nx.label: hi {near: outside-top-left}\n",
			key:  "x.near",
			exp:  "x.label: hi {near: outside-top-left}\n",
		},
		{
			name: "flat_label_map/label_near",
			text: "x.near: top-center\nx.label: hi {near: outside-top-left}\n",
			key:  "x.label.near",
			exp:  "x.near: top-center\nx.label: hi\n",
		},
		{
			name: "every_spelling_of_label_near",
			text: "x: {label.near: outside-top-left; near: top-center; label: {near: outside-top-right}}\nx.label.near: outside-bottom-left\nx.label: {near: outside-bottom-right}\n",
			key:  "x.label.near",
			exp:  "x: {near: top-center}\n",
		},
		{
			name: "child_of_the_same_name",
			text: "x.x.style.opacity: 0.5\nx.style.opacity: 0.4\n",
			key:  "x.style.opacity",
			exp:  "x.x.style.opacity: 0.5\n",
		},
		{
			name:      "layer",
			text:      "layers: {\n  l: {\n    x: {near: top-center; label.near: outside-top-left}\n  }\n}\n",
			boardPath: []string{"l"},
			key:       "x.label.near",
			exp:       "layers: {\n  l: {\n    x: {near: top-center}\n  }\n}\n",
		},

		// The value of a key outlives what its map held.
		{
			name: "icon_outlives_icon_near",
			text: "x: {icon: https://a.b/c.png {near: outside-top-left}}\n",
			key:  "x.icon.near",
			exp:  "x: {icon: https://a.b/c.png}\n",
		},
		{
			name: "label_outlives_label_near",
			text: "x: {label: hi {near: outside-top-left}}\n",
			key:  "x.label.near",
			exp:  "x: {label: hi}\n",
		},

		// Every key that spells the field goes, the one after a deleted one too.
		{
			name: "adjacent_duplicates",
			text: "x: {style.opacity: 0.4; style.opacity: 0.5; style.stroke: red}\n",
			key:  "x.style.opacity",
			exp:  "x: {style.stroke: red}\n",
		},
		{
			name: "adjacent_duplicates/edge",
			text: "a -> b: {style.opacity: 0.4; style.opacity: 0.5; style.stroke: red}\n",
			key:  "(a -> b)[0].style.opacity",
			exp:  "a -> b: {style.stroke: red}\n",
		},
		{
			name: "adjacent_empty_maps",
			text: "x: {style: {opacity: 0.4}; style: {opacity: 0.5}; style.stroke: red}\n",
			key:  "x.style.opacity",
			exp:  "x: {style.stroke: red}\n",
		},
		{
			name: "whole_edge_style",
			text: "a -> b: {style.opacity: 0.4; style.stroke: red; source-arrowhead.style.opacity: 0.5}\n",
			key:  "(a -> b)[0].style",
			exp:  "a -> b: {source-arrowhead.style.opacity: 0.5}\n",
		},

		// Maps left empty go with their key.
		{
			name: "style_map_of_flat_key",
			text: "x.style: {opacity: 0.4}\n",
			key:  "x.style.opacity",
			exp:  "x\n",
		},
		{
			name: "style_map_of_flat_key/kept",
			text: "x.style: {opacity: 0.4; fill: red}\n",
			key:  "x.style.opacity",
			exp:  "x.style: {fill: red}\n",
		},
		{
			name: "style_map_of_flat_edge_key",
			text: "a -> b\n(a -> b)[0].style: {opacity: 0.4}\n",
			key:  "(a -> b)[0].style.opacity",
			exp:  "a -> b\n",
		},

		// Connections.
		{
			name: "source_arrowhead_shape_not_target/reverse",
			text: "a -> b: {source-arrowhead: {shape: diamond}; target-arrowhead.shape: arrow}\n",
			key:  "(a -> b)[0].source-arrowhead.shape",
			exp:  "a -> b: {target-arrowhead.shape: arrow}\n",
		},
		{
			name: "target_arrowhead_shape_not_source",
			text: "a -> b: {source-arrowhead: {shape: diamond}; target-arrowhead.shape: arrow}\n",
			key:  "(a -> b)[0].target-arrowhead.shape",
			exp:  "a -> b: {source-arrowhead: {shape: diamond}}\n",
		},
		{
			name: "arrowhead_shapes_flat_and_flat",
			text: "a -> b: {source-arrowhead.shape: diamond; target-arrowhead.shape: arrow}\n",
			key:  "(a -> b)[0].target-arrowhead.shape",
			exp:  "a -> b: {source-arrowhead.shape: diamond}\n",
		},
		{
			name: "arrowhead_shapes_nested_and_nested",
			text: "a -> b: {source-arrowhead: {shape: diamond}; target-arrowhead: {shape: arrow}}\n",
			key:  "(a -> b)[0].source-arrowhead.shape",
			exp:  "a -> b: {target-arrowhead: {shape: arrow}}\n",
		},
		{
			name: "edge_opacity_not_arrowhead_opacity/reverse",
			text: "a -> b: {style.opacity: 0.4; source-arrowhead: {style.opacity: 0.5}}\n",
			key:  "(a -> b)[0].style.opacity",
			exp:  "a -> b: {source-arrowhead: {style.opacity: 0.5}}\n",
		},
		{
			name: "arrowhead_opacity_not_edge_opacity",
			text: "a -> b: {style.opacity: 0.4; source-arrowhead: {style.opacity: 0.5}}\n",
			key:  "(a -> b)[0].source-arrowhead.style.opacity",
			exp:  "a -> b: {style.opacity: 0.4}\n",
		},
		{
			name: "arrowhead_opacity_not_edge_opacity/nested",
			text: "a -> b: {source-arrowhead: {shape: diamond; style: {opacity: 0.5}}; style: {opacity: 0.4}}\n",
			key:  "(a -> b)[0].source-arrowhead.style.opacity",
			exp:  "a -> b: {source-arrowhead: {shape: diamond}; style: {opacity: 0.4}}\n",
		},
		{
			name: "edge_label_not_arrowhead_label",
			text: "a -> b: {label: there; source-arrowhead: {label: hi}}\n",
			key:  "(a -> b)[0].label",
			exp:  "a -> b: {source-arrowhead: {label: hi}}\n",
		},
		{
			name: "arrowhead_label_not_edge_label",
			text: "a -> b: {label: there; source-arrowhead.label: hi}\n",
			key:  "(a -> b)[0].source-arrowhead.label",
			exp:  "a -> b: {label: there}\n",
		},
		{
			name: "flat_edge_keys",
			text: "a -> b\n(a -> b)[0].style.opacity: 0.4\n(a -> b)[0].source-arrowhead.style.opacity: 0.5\n",
			key:  "(a -> b)[0].style.opacity",
			exp:  "a -> b\n(a -> b)[0].source-arrowhead.style.opacity: 0.5\n",
		},
		{
			name: "flat_edge_keys/arrowhead",
			text: "a -> b\n(a -> b)[0].style.opacity: 0.4\n(a -> b)[0].source-arrowhead.style.opacity: 0.5\n",
			key:  "(a -> b)[0].source-arrowhead.style.opacity",
			exp:  "a -> b\n(a -> b)[0].style.opacity: 0.4\n",
		},
		{
			name: "flat_edge_key_with_map",
			text: "a -> b\n(a -> b)[0].source-arrowhead: {shape: diamond; style.opacity: 0.5}\n(a -> b)[0].style: {opacity: 0.4}\n",
			key:  "(a -> b)[0].source-arrowhead.style.opacity",
			exp:  "a -> b\n(a -> b)[0].source-arrowhead: {shape: diamond}\n(a -> b)[0].style: {opacity: 0.4}\n",
		},
		{
			name: "scoped_edge",
			text: "x: {\n  a -> b: {source-arrowhead: {style.opacity: 0.5}; style.opacity: 0.4}\n}\n",
			key:  "x.(a -> b)[0].style.opacity",
			exp:  "x: {\n  a -> b: {source-arrowhead: {style.opacity: 0.5}}\n}\n",
		},
	})
}
