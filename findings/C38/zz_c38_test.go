package d2oracle_test

// Demonstrations for property C38 (Delete removes exactly the target). Copy to d2oracle/ and run
//   go test -run TestZZC38 ./d2oracle/
// - glob-index: before fix f8c6ca57a the renumbering of later parallel connections dereferenced the nil Int of a `[*]` index.
// - no-index:   before fix e31a64f66 a connection key without index made FindEdges dereference a nil EdgeIndex.
// - duplicate / by-path: the attribute deleters (deleteMapField and its callers) skip the node after a deleted one and
//   identify the attribute by its last name only.

import (
	"strings"
	"testing"

	"oss.terrastruct.com/d2/d2compiler"
	"oss.terrastruct.com/d2/d2format"
	"oss.terrastruct.com/d2/d2oracle"
)

func TestZZC38(t *testing.T) {
	for _, tc := range []struct{ name, src, key, want string }{
		{"glob-index", "a -> b\na -> b\n(a -> b)[*].style.stroke: red\n", "(a -> b)[0]", "a -> b\n(a -> b)[*].style.stroke: red\n"},
		{"no-index", "a -> b\n", "a -> b", "a -> b\n"},
		{"duplicate attribute", "x: {style.opacity: 0.4; style.opacity: 0.5}\n", "x.style.opacity", "x\n"},
		{"label.near, not near", "x: {near: top-center; label.near: outside-top-left}\n", "x.label.near", "x: {near: top-center}\n"},
		{"near, not label.near (flat)", "x.near: top-center\nx.label.near: outside-top-left\n", "x.near", "x.label.near: outside-top-left\n"},
		{"one arrowhead", "a -> b: {target-arrowhead.shape: arrow; source-arrowhead: {shape: diamond}}\n", "(a -> b)[0].source-arrowhead.shape", "a -> b: {target-arrowhead.shape: arrow}\n"},
	} {
		t.Run(tc.name, func(t *testing.T) {
			g, _, err := d2compiler.Compile("", strings.NewReader(tc.src), nil)
			if err != nil {
				t.Fatal(err)
			}
			g, err = d2oracle.Delete(g, nil, tc.key)
			if err != nil {
				t.Fatal(err)
			}
			if got := d2format.Format(g.AST); got != tc.want {
				t.Fatalf("Delete(%s):\n got %q\nwant %q", tc.key, got, tc.want)
			}
		})
	}
}
