// Copy into d2renderers/d2svg/ (external test package d2svg_test).
//
// Property C31: themes and theme overrides are applied consistently.
// Every test below FAILS on the unchanged tree.
package d2svg_test

import (
	"context"
	"fmt"
	"regexp"
	"strings"
	"testing"

	"oss.terrastruct.com/util-go/go2"

	"oss.terrastruct.com/d2/d2graph"
	"oss.terrastruct.com/d2/d2layouts/d2dagrelayout"
	"oss.terrastruct.com/d2/d2lib"
	"oss.terrastruct.com/d2/d2renderers/d2svg"
	"oss.terrastruct.com/d2/d2target"
	"oss.terrastruct.com/d2/d2themes"
	"oss.terrastruct.com/d2/d2themes/d2themescatalog"
	"oss.terrastruct.com/d2/lib/log"
	"oss.terrastruct.com/d2/lib/pdf"
	"oss.terrastruct.com/d2/lib/textmeasure"
)

func hc31Compile(t *testing.T, script string, ro *d2svg.RenderOpts) (*d2target.Diagram, error) {
	t.Helper()
	ruler, err := textmeasure.NewRuler()
	if err != nil {
		t.Fatal(err)
	}
	layoutResolver := func(engine string) (d2graph.LayoutGraph, error) {
		return d2dagrelayout.DefaultLayout, nil
	}
	d, _, err := d2lib.Compile(log.WithTB(context.Background(), t), script, &d2lib.CompileOptions{
		Ruler:          ruler,
		LayoutResolver: layoutResolver,
	}, ro)
	return d, err
}

var (
	hc31Style = regexp.MustCompile(`(?s)<style[^>]*>.*?</style>`)
	hc31Tag   = regexp.MustCompile(`<[a-zA-Z][^<>]*>`)
	hc31Class = regexp.MustCompile(` class="([^"]*)"`)
	hc31Code  = regexp.MustCompile(`^(fill|stroke|color|background-color)-(N[1-7]|B[1-6]|AA[245]|AB[45])$`)
)

// hc31MissingInline returns, for a rendered SVG, the tags that carry a theme
// class (e.g. "fill-B6") but do not carry the resolved colour inline (neither
// as attribute nor inside style="").
func hc31MissingInline(svg string, theme d2themes.Theme) []string {
	body := hc31Style.ReplaceAllString(svg, "")
	var out []string
	for _, tag := range hc31Tag.FindAllString(body, -1) {
		m := hc31Class.FindStringSubmatch(tag)
		if m == nil {
			continue
		}
		for _, cl := range strings.Fields(m[1]) {
			tc := hc31Code.FindStringSubmatch(cl)
			if tc == nil {
				continue
			}
			want := d2themes.ResolveThemeColor(theme, tc[2])
			if !strings.Contains(tag, fmt.Sprintf(` %s="%s"`, tc[1], want)) && !strings.Contains(tag, fmt.Sprintf(`%s:%s`, tc[1], want)) {
				if len(tag) > 200 {
					tag = tag[:200] + "..."
				}
				out = append(out, fmt.Sprintf("class %q wants %s=%q inline: %s", cl, tc[1], want, tag))
			}
		}
	}
	return out
}

// 1. A markdown label on a connection drops the connection's theme font colour
// (N2 by default): the <div class="md"> gets neither a "color-N2" class (so the
// stylesheet cannot reach it) nor an inline colour. The plain-text label of the
// same connection is filled with N2, and the markdown label of a *shape* does
// get "color-<code>".
func TestHC31Pre_ConnMarkdownColor(t *testing.T) {
	script := "a -> b: |md hi |\n"
	ro := &d2svg.RenderOpts{}
	d, err := hc31Compile(t, script, ro)
	if err != nil {
		t.Fatal(err)
	}
	code := d.Connections[0].Color
	if code != "N2" {
		t.Fatalf("precondition: expected connection colour code N2, got %q", code)
	}
	out, err := d2svg.Render(d, ro)
	if err != nil {
		t.Fatal(err)
	}
	theme := d2themescatalog.NeutralDefault
	div := regexp.MustCompile(`<div [^>]*class="md[^>]*>`).FindString(string(out))
	if div == "" {
		t.Fatalf("no markdown div found")
	}
	hasClass := strings.Contains(div, "color-"+code)
	hasInline := strings.Contains(div, theme.Colors.Neutrals.N2)
	if !hasClass && !hasInline {
		t.Errorf("input %q (theme %d, no dark theme): connection.Color is theme code %s (=%s) but the markdown label element is\n  %s\nwhich has neither class \"color-%s\" (stylesheet) nor the inline colour %s; the label is painted with the .md default (N1) instead of N2",
			script, theme.ID, code, theme.Colors.Neutrals.N2, div, code, theme.Colors.Neutrals.N2)
	}
}

// 2. Markdown label of a shape: the div gets the classes "color-N1" (and
// "fill-B6" for non-text shapes) but never the inline colour, although no dark
// theme was requested and every other element of the same drawing is inlined.
// (Additionally "fill-B6" sets the SVG property `fill`, which does nothing on
// an HTML <div>; the non-theme branch uses background-color.)
func TestHC31Pre_MarkdownNoInlineColor(t *testing.T) {
	script := "a: |md hi |\nb: |md inside | {shape: rectangle}\n"
	n1 := "#123456"
	b6 := "#abcdef"
	ro := &d2svg.RenderOpts{}
	d, err := hc31Compile(t, script, ro)
	if err != nil {
		t.Fatal(err)
	}
	ro.ThemeOverrides = &d2target.ThemeOverrides{N1: &n1, B6: &b6}
	out, err := d2svg.Render(d, ro)
	if err != nil {
		t.Fatal(err)
	}
	theme := d2themescatalog.NeutralDefault
	theme.ApplyOverrides(ro.ThemeOverrides)
	missing := hc31MissingInline(string(out), theme)
	if len(missing) > 0 {
		t.Errorf("input %q, theme 0, overrides N1=%s B6=%s, no dark theme: %d element(s) carry a theme class without the inline colour:\n  %s",
			script, n1, b6, len(missing), strings.Join(missing, "\n  "))
	}
}

// 3. Sketch mode: d2sketch builds every ThemableElement with a nil inline theme,
// so shapes, connections, arrowheads, class/table texts only get the class and
// no inline colour, while labels drawn by d2svg itself in the same SVG do.
func TestHC31Pre_SketchNoInlineColors(t *testing.T) {
	script := "a -> b\n"
	ro := &d2svg.RenderOpts{Sketch: go2.Pointer(true)}
	d, err := hc31Compile(t, script, ro)
	if err != nil {
		t.Fatal(err)
	}
	out, err := d2svg.Render(d, ro)
	if err != nil {
		t.Fatal(err)
	}
	missing := hc31MissingInline(string(out), d2themescatalog.NeutralDefault)
	if len(missing) > 0 {
		t.Errorf("input %q, sketch=true, theme 0, no dark theme: %d element(s) carry a theme class without the inline colour, e.g.:\n  %s",
			script, len(missing), missing[0])
	}
}

// 4. d2lib.Compile: theme overrides passed in by the caller through RenderOpts
// are unconditionally replaced by the ones of the d2-config block, even when
// the block does not mention overrides at all (they become nil). Every other
// option (theme-id, pad, sketch, ...) lets the passed-in value win.
func TestHC31Pre_LibOverridesDropped(t *testing.T) {
	script := "vars: {d2-config: {pad: 10}}\na -> b\n"
	red := "#ff0000"
	ro := &d2svg.RenderOpts{
		ThemeOverrides:     &d2target.ThemeOverrides{B1: &red},
		DarkThemeOverrides: &d2target.ThemeOverrides{B1: &red},
	}
	d, err := hc31Compile(t, script, ro)
	if err != nil {
		t.Fatal(err)
	}
	if ro.ThemeOverrides == nil || ro.ThemeOverrides.B1 == nil || *ro.ThemeOverrides.B1 != red {
		t.Errorf("input %q with RenderOpts.ThemeOverrides{B1:%s}: after d2lib.Compile the overrides are %v; want them kept (the d2-config block sets none)", script, red, ro.ThemeOverrides)
	}
	if ro.DarkThemeOverrides == nil {
		t.Errorf("input %q with RenderOpts.DarkThemeOverrides{B1:%s}: after d2lib.Compile the dark overrides are nil", script, red)
	}
	out, err := d2svg.Render(d, ro)
	if err != nil {
		t.Fatal(err)
	}
	if !strings.Contains(string(out), "stroke-B1{stroke:"+red+";}") {
		t.Errorf("input %q: stylesheet does not resolve B1 to the caller's override %s", script, red)
	}
}

// 5. "currentcolor" is a valid override value for the compiler (it is in
// color.NamedColors), but rendering then always fails, because the stylesheet
// generator needs a luminance for every theme colour.
func TestHC31Pre_CurrentcolorOverride(t *testing.T) {
	script := "vars: {d2-config: {theme-overrides: {B1: currentcolor}}}\na -> b\n"
	ro := &d2svg.RenderOpts{}
	d, err := hc31Compile(t, script, ro)
	if err != nil {
		t.Fatalf("input %q: compile rejected the override: %v", script, err)
	}
	out, err := d2svg.Render(d, ro)
	if err != nil {
		t.Fatalf("input %q: override accepted by the compiler, but d2svg.Render fails: %v (want B1 resolved to currentcolor in stylesheet and inline)", script, err)
	}
	if !strings.Contains(string(out), "stroke-B1{stroke:currentcolor;}") {
		t.Errorf("input %q: stylesheet does not resolve B1 to currentcolor", script)
	}
}

// 6. Unknown theme IDs are not rejected by the renderer itself; they only fail
// by accident, when the empty colour "" of the zero Theme reaches the luminance
// computation. So (a) with a complete override set an unknown ID is accepted,
// (b) on the MasterID path (boards of an animation, where ThemeCSS is skipped)
// an unknown ID renders fill="" / stroke="" silently, (c) d2lib.Compile checks
// ThemeID ("theme 999 not found") but not DarkThemeID.
func TestHC31Pre_UnknownThemeIDAccepted(t *testing.T) {
	script := "a -> b\n"
	ro := &d2svg.RenderOpts{}
	d, err := hc31Compile(t, script, ro)
	if err != nil {
		t.Fatal(err)
	}
	if d2themescatalog.Find(999) != (d2themes.Theme{}) {
		t.Fatal("precondition: 999 should not be a theme")
	}

	// (b)
	out, err := d2svg.Render(d, &d2svg.RenderOpts{ThemeID: go2.Pointer(int64(999)), MasterID: "master"})
	if err == nil {
		t.Errorf("input %q, d2svg.Render with ThemeID=999 and MasterID set: no error; output contains fill=\"\": %v; want the unknown theme ID rejected",
			script, strings.Contains(string(out), `fill=""`))
	}

	// (a)
	c := "#101010"
	all := &d2target.ThemeOverrides{N1: &c, N2: &c, N3: &c, N4: &c, N5: &c, N6: &c, N7: &c, B1: &c, B2: &c, B3: &c, B4: &c, B5: &c, B6: &c, AA2: &c, AA4: &c, AA5: &c, AB4: &c, AB5: &c}
	_, err = d2svg.ThemeCSS("h", go2.Pointer(int64(999)), nil, all, nil)
	if err == nil {
		t.Errorf("d2svg.ThemeCSS with themeID=999 and all 18 overrides: no error; want the unknown theme ID rejected")
	}
	_, err = d2svg.ThemeCSS("h", nil, go2.Pointer(int64(999)), nil, all)
	if err == nil {
		t.Errorf("d2svg.ThemeCSS with darkThemeID=999 and all 18 dark overrides: no error; want the unknown theme ID rejected")
	}

	// the accidental rejection has an unusable message
	_, err = d2svg.Render(d, &d2svg.RenderOpts{DarkThemeID: go2.Pointer(int64(999))})
	if err == nil || !strings.Contains(err.Error(), "999") {
		t.Errorf("d2svg.Render with DarkThemeID=999: error is %q; want an error naming the unknown theme ID (cf. d2graph.ApplyTheme: \"theme 999 not found\")", fmt.Sprint(err))
	}
}

// 7. PDF export paints the page background from the theme colour of the root
// fill (N7), looked up in the catalog by ID only: GetFillRGB/AddPDFPage have no
// way to receive the overrides, so `theme-overrides: {N7: ...}` is ignored for
// the page background (the diagram PNG itself is rendered with a transparent
// root on top of it).
func TestHC31Pre_PDFFillIgnoresOverrides(t *testing.T) {
	script := "vars: {d2-config: {theme-overrides: {N7: \"#ff0000\"}}}\na\n"
	ro := &d2svg.RenderOpts{}
	d, err := hc31Compile(t, script, ro)
	if err != nil {
		t.Fatal(err)
	}
	if d.Root.Fill != "N7" {
		t.Fatalf("precondition: root fill should be N7, got %q", d.Root.Fill)
	}
	theme := d2themescatalog.Find(*ro.ThemeID)
	theme.ApplyOverrides(ro.ThemeOverrides)
	want := d2themes.ResolveThemeColor(theme, d.Root.Fill) // #ff0000

	// this is exactly the call d2cli's renderPDF -> AddPDFPage makes
	got, err := pdf.Init().GetFillRGB(*ro.ThemeID, d.Root.Fill)
	if err != nil {
		t.Fatal(err)
	}
	gotHex := fmt.Sprintf("#%02x%02x%02x", got.Red, got.Green, got.Blue)
	if gotHex != want {
		t.Errorf("input %q: SVG resolves root fill N7 to the override %s, but the PDF page background (pdf.GetFillRGB(themeID=%d, %q)) is %s",
			script, want, *ro.ThemeID, d.Root.Fill, gotHex)
	}
}

// 8. The legend box is painted with the literal N7/N5 values of the default
// neutral palette ("#ffffff", "#DEE1EB", "#F7F7FA") instead of theme codes, so
// neither the theme (e.g. dark theme 200 used as main theme) nor overrides of
// N7/N5 reach it, in the stylesheet or inline.
func TestHC31Pre_LegendHardcodedColors(t *testing.T) {
	script := "vars: {d2-legend: {a: {label: A}}}\nx\n"
	id := d2themescatalog.DarkMauve.ID
	ro := &d2svg.RenderOpts{ThemeID: &id}
	d, err := hc31Compile(t, script, ro)
	if err != nil {
		t.Fatal(err)
	}
	out, err := d2svg.Render(d, ro)
	if err != nil {
		t.Fatal(err)
	}
	body := hc31Style.ReplaceAllString(string(out), "")
	re := regexp.MustCompile(`<rect [^>]*rx="4\.000000"[^>]*>`)
	boxes := re.FindAllString(body, -1)
	if len(boxes) == 0 {
		t.Fatal("legend box not found")
	}
	for _, box := range boxes {
		if strings.Contains(box, `fill="#ffffff"`) || strings.Contains(box, `stroke="#DEE1EB"`) {
			t.Errorf("input %q, theme %d (N7=%s, N5=%s): legend box is painted with literal default-palette colours and has no theme class:\n  %s",
				script, id, d2themescatalog.DarkMauve.Colors.Neutrals.N7, d2themescatalog.DarkMauve.Colors.Neutrals.N5, box)
			break
		}
	}
}
