package d2plugin

// HC26 / property C26: "the layout-plugin wire format round-trips graphs exactly".
// Copy this file into the d2plugin/ directory (package d2plugin, internal test: it calls
// the unexported serve-side handlers layout() and routeEdges()).
//
// Every test fails on the unchanged tree.

import (
	"bytes"
	"context"
	"encoding/json"
	"fmt"
	"strings"
	"testing"

	"oss.terrastruct.com/util-go/go2"
	"oss.terrastruct.com/util-go/xmain"

	"oss.terrastruct.com/d2/d2compiler"
	"oss.terrastruct.com/d2/d2graph"
	"oss.terrastruct.com/d2/d2layouts/d2dagrelayout"
	"oss.terrastruct.com/d2/d2lib"
	"oss.terrastruct.com/d2/d2target"
	"oss.terrastruct.com/d2/lib/geo"
	"oss.terrastruct.com/d2/lib/log"
	"oss.terrastruct.com/d2/lib/textmeasure"
)

type hc26WC struct{ bytes.Buffer }

func (*hc26WC) Close() error { return nil }

// hc26ProtocolLayout does what execPlugin.Layout (exec.go) does, with the child process
// replaced by a direct call of the serve-side handler layout() (serve.go) on the bundled
// dagre plugin: SerializeGraph -> [DeserializeGraph -> Layout -> SerializeGraph] -> DeserializeGraph(into g).
func hc26ProtocolLayout(ctx context.Context, g *d2graph.Graph) error {
	graphBytes, err := d2graph.SerializeGraph(g)
	if err != nil {
		return err
	}
	out := &hc26WC{}
	ms := &xmain.State{Stdin: bytes.NewReader(graphBytes), Stdout: out}
	dagreOpts := d2dagrelayout.DefaultOpts
	if err := layout(ctx, &dagrePlugin{opts: &dagreOpts}, ms); err != nil {
		return err
	}
	return d2graph.DeserializeGraph(out.Bytes(), g)
}

func hc26Compile(t *testing.T, src string, viaProtocol bool) (*d2target.Diagram, *d2graph.Graph) {
	t.Helper()
	ruler, err := textmeasure.NewRuler()
	if err != nil {
		t.Fatal(err)
	}
	ctx := log.WithTB(context.Background(), t)
	opts := &d2lib.CompileOptions{
		Ruler:  ruler,
		Layout: go2.Pointer("dagre"),
		LayoutResolver: func(string) (d2graph.LayoutGraph, error) {
			if viaProtocol {
				return hc26ProtocolLayout, nil
			}
			return d2dagrelayout.DefaultLayout, nil
		},
	}
	d, g, err := d2lib.Compile(ctx, src, opts, nil)
	if err != nil {
		t.Fatalf("input:\n%s\nviaProtocol=%v: compile/layout failed: %v", src, viaProtocol, err)
	}
	return d, g
}

func hc26RoundTrip(t *testing.T, g *d2graph.Graph) *d2graph.Graph {
	t.Helper()
	b, err := d2graph.SerializeGraph(g)
	if err != nil {
		t.Fatalf("SerializeGraph: %v", err)
	}
	var ng d2graph.Graph
	if err := d2graph.DeserializeGraph(b, &ng); err != nil {
		t.Fatalf("DeserializeGraph: %v", err)
	}
	return &ng
}

// Defect 1: the user:password part of an icon URL is dropped by the wire format.
func TestHC26Pre_IconUserinfo(t *testing.T) {
	src := "a: {icon: https://user:pw@example.com/i.png}\n"
	g, _, err := d2compiler.Compile("", strings.NewReader(src), nil)
	if err != nil {
		t.Fatal(err)
	}
	ng := hc26RoundTrip(t, g)
	before := g.Objects[0].Icon.String()
	after := ng.Objects[0].Icon.String()
	if before != after {
		t.Errorf("input:\n%s\nicon of object %q before SerializeGraph/DeserializeGraph: %s\nicon after:  %s\nproperty C26 requires the attribute to round-trip unchanged (the rendered diagram would fetch a different URL when laid out through a plugin)",
			src, g.Objects[0].AbsID(), before, after)
	}
}

// Defect 2: a board-level label is lost when the diagram is laid out through the plugin protocol.
func TestHC26Pre_RootLabelLost(t *testing.T) {
	src := "label: My Title\na -> b\n"
	direct, _ := hc26Compile(t, src, false)
	viaPlugin, _ := hc26Compile(t, src, true)
	if direct.Root.Label != viaPlugin.Root.Label {
		t.Errorf("input:\n%s\ndiagram.Root.Label laid out in-process:          %q\ndiagram.Root.Label laid out via plugin protocol: %q\nproperty C26 requires the same result",
			src, direct.Root.Label, viaPlugin.Root.Label)
	}
}

// Defect 3: after layout, the lifeline edges of a sequence diagram lose their Dst endpoint on the
// wire. This graph state is what execPlugin.RouteEdges serializes (LayoutNested calls the edge
// router on the graph after the sequence diagram was injected back, because x -> s.a crosses diagrams).
func TestHC26Pre_SequenceLifelineDstLost(t *testing.T) {
	src := "x -> s.a\ns: {\n  shape: sequence_diagram\n  a -> b\n}\n"
	_, g := hc26Compile(t, src, false)
	ng := hc26RoundTrip(t, g)
	if len(ng.Edges) != len(g.Edges) {
		t.Fatalf("edge count %d vs %d", len(g.Edges), len(ng.Edges))
	}
	for i, e := range g.Edges {
		ne := ng.Edges[i]
		desc := func(o *d2graph.Object) string {
			if o == nil {
				return "<nil>"
			}
			return fmt.Sprintf("%q", o.AbsID())
		}
		if (e.Src == nil) != (ne.Src == nil) || (e.Dst == nil) != (ne.Dst == nil) {
			t.Errorf("input:\n%s\nafter in-process layout, edge #%d has Src=%s Dst=%s; after SerializeGraph/DeserializeGraph it has Src=%s Dst=%s\nproperty C26 requires connections to keep their endpoints (CompareSerializedGraph and LayoutNested's restoreOrder then dereference the nil endpoint and panic)",
				src, i, desc(e.Src), desc(e.Dst), desc(ne.Src), desc(ne.Dst))
		}
	}
}

// Defect 4: References lose MapKey/ScopeObj on the wire, so sequence-diagram spans that went through
// the plugin are re-classified as notes by the exporter (different fill, no blend etc.).
func TestHC26Pre_SequenceSpanBecomesNote(t *testing.T) {
	src := "shape: sequence_diagram\ng: {\n  grid-rows: 3\n  a.x -> b\n}\n"
	direct, _ := hc26Compile(t, src, false)
	viaPlugin, _ := hc26Compile(t, src, true)
	if len(direct.Shapes) != len(viaPlugin.Shapes) {
		t.Fatalf("shape count differs %d vs %d", len(direct.Shapes), len(viaPlugin.Shapes))
	}
	for i := range direct.Shapes {
		a, _ := json.Marshal(direct.Shapes[i])
		b, _ := json.Marshal(viaPlugin.Shapes[i])
		if string(a) != string(b) {
			t.Errorf("input:\n%s\nshape %q: fill laid out in-process = %q, fill laid out via plugin protocol = %q\nfull shape in-process:   %s\nfull shape via protocol: %s\nproperty C26 requires the same result",
				src, direct.Shapes[i].ID, direct.Shapes[i].Fill, viaPlugin.Shapes[i].Fill, a, b)
		}
	}
}

// Defect 5: the routeedges sub-protocol hands the plugin edges that are neither members of the
// graph it is given nor connected to that graph's objects, and returns only the graph: a router
// that does exactly what the in-process default router does (set Route on the edges it was
// asked to route) has no effect through the protocol.
type hc26Router struct {
	dagrePlugin
	inGraph, srcInGraph int
	total               int
}

func (r *hc26Router) RouteEdges(ctx context.Context, g *d2graph.Graph, edges []*d2graph.Edge) error {
	for _, e := range edges {
		r.total++
		for _, ge := range g.Edges {
			if ge == e {
				r.inGraph++
			}
		}
		for _, o := range g.Objects {
			if o == e.Src {
				r.srcInGraph++
			}
		}
		// same as d2layouts.DefaultRouter
		e.Route = []*geo.Point{e.Src.Center(), e.Dst.Center()}
	}
	return nil
}

func TestHC26Pre_RouteEdgesNotPartOfGraph(t *testing.T) {
	src := "x -> s.a\ns: {\n  grid-rows: 1\n  a\n  b\n}\n"
	router := &hc26Router{}
	var routedAfter, routedTotal int
	protocolRouter := func(ctx context.Context, g *d2graph.Graph, edges []*d2graph.Edge) error {
		// execPlugin.RouteEdges (exec.go) up to the process spawn
		graphBytes, err := d2graph.SerializeGraph(g)
		if err != nil {
			return err
		}
		var g2 d2graph.Graph
		if err := d2graph.DeserializeGraph(graphBytes, &g2); err != nil {
			return err
		}
		g2.Edges = edges
		graphBytes2, err := d2graph.SerializeGraph(&g2)
		if err != nil {
			return err
		}
		in, err := json.Marshal(routeEdgesInput{G: graphBytes, GEdges: graphBytes2})
		if err != nil {
			return err
		}
		// serve side (serve.go)
		out := &hc26WC{}
		ms := &xmain.State{Stdin: bytes.NewReader(in), Stdout: out}
		if err := routeEdges(ctx, router, ms); err != nil {
			return err
		}
		// execPlugin.RouteEdges after the process returned
		if err := d2graph.DeserializeGraph(out.Bytes(), g); err != nil {
			return err
		}
		for _, e := range g.Edges {
			routedTotal++
			if len(e.Route) > 0 {
				routedAfter++
			}
		}
		return nil
	}
	ruler, err := textmeasure.NewRuler()
	if err != nil {
		t.Fatal(err)
	}
	ctx := log.WithTB(context.Background(), t)
	opts := &d2lib.CompileOptions{
		Ruler:  ruler,
		Layout: go2.Pointer("dagre"),
		LayoutResolver: func(string) (d2graph.LayoutGraph, error) {
			return d2dagrelayout.DefaultLayout, nil
		},
		RouterResolver: func(string) (d2graph.RouteEdges, error) {
			return protocolRouter, nil
		},
	}
	d, _, err := d2lib.Compile(ctx, src, opts, nil)
	if err != nil {
		t.Fatalf("input:\n%s\ncompile failed: %v", src, err)
	}
	if router.total == 0 {
		t.Fatalf("router was not invoked")
	}
	if router.inGraph != router.total || router.srcInGraph != router.total {
		t.Errorf("input:\n%s\nthe plugin's RouteEdges received %d edge(s) to route; %d of them are elements of g.Edges and %d have a Src that is an element of g.Objects (in-process: all of them)\nafter the protocol returned, %d of %d edges of the graph have a route; exported connection route = %v\nproperty C26 requires routing through the protocol to give the same result as in-process routing",
			src, router.total, router.inGraph, router.srcInGraph, routedAfter, routedTotal, d.Connections[0].Route)
	}
}
