package d2oracle_test

// Demonstration for property C39 (Move loses nothing): before fix 56bcc4e77 a spread substitution (or import) in the
// map of a moved key reached neither half of filterReserved's split, nor the reserved-only copy of the transplant
// case, so the moved object lost the attributes it brought in. Copy to d2oracle/ and run
//   go test -run TestZZC39Spread ./d2oracle/

import (
	"strings"
	"testing"

	"oss.terrastruct.com/d2/d2compiler"
	"oss.terrastruct.com/d2/d2oracle"
)

func TestZZC39Spread(t *testing.T) {
	for name, src := range map[string]string{
		"split (flat key)":     "vars: {v: {style.fill: red}}\nc\na.b: {\n  ...${v}\n  shape: circle\n  k\n}\n",
		"transplant (nested)": "vars: {v: {style.fill: red}}\nc\na: {\n  b: {\n    ...${v}\n    shape: circle\n    k\n  }\n}\n",
	} {
		t.Run(name, func(t *testing.T) {
			g, _, err := d2compiler.Compile("", strings.NewReader(src), nil)
			if err != nil {
				t.Fatal(err)
			}
			g, err = d2oracle.Move(g, nil, "a.b", "c.b", false)
			if err != nil {
				t.Fatal(err)
			}
			for _, o := range g.Objects {
				if o.AbsID() == "c.b" {
					if o.Style.Fill == nil || o.Style.Fill.Value != "red" {
						t.Fatalf("c.b lost the fill it had as a.b (spread substitution dropped by the move)")
					}
					return
				}
			}
			t.Fatal("c.b not found")
		})
	}
}
