package d2oracle_test

// Copy into the d2oracle/ package directory (package d2oracle_test).
//
// Property C36: every successful edit applied to a diagram that compiles yields source
// text that compiles to the returned diagram and that the formatter leaves unchanged.
// Each test below takes a small compiling diagram, applies one edit with valid
// arguments and checks exactly that with hc36Check. A panic inside the edit is caught
// and reported as a failure of the test rather than of the test binary.

import (
	"fmt"
	"strings"
	"testing"

	"oss.terrastruct.com/util-go/mapfs"

	"oss.terrastruct.com/d2/d2compiler"
	"oss.terrastruct.com/d2/d2format"
	"oss.terrastruct.com/d2/d2graph"
	"oss.terrastruct.com/d2/d2oracle"
	"oss.terrastruct.com/d2/d2parser"
)

func hc36IDs(g *d2graph.Graph) string {
	var ids []string
	var rec func(g *d2graph.Graph, prefix string)
	rec = func(g *d2graph.Graph, prefix string) {
		for _, o := range g.Objects {
			ids = append(ids, prefix+o.AbsID())
		}
		for _, e := range g.Edges {
			ids = append(ids, prefix+e.AbsID())
		}
		for _, b := range g.Layers {
			rec(b, prefix+"layers."+b.Name+"/")
		}
		for _, b := range g.Scenarios {
			rec(b, prefix+"scenarios."+b.Name+"/")
		}
		for _, b := range g.Steps {
			rec(b, prefix+"steps."+b.Name+"/")
		}
	}
	rec(g, "")
	return strings.Join(ids, " | ")
}

// hc36Edit compiles text, runs the edit (catching a panic) and checks property C36 on the result.
// It returns the text of the edited diagram.
func hc36Edit(t *testing.T, text, editDesc string, edit func(g *d2graph.Graph) (*d2graph.Graph, error)) string {
	t.Helper()
	g, _, err := d2compiler.Compile("index.d2", strings.NewReader(text), nil)
	if err != nil {
		t.Fatalf("test input does not compile: %v", err)
	}
	if f := d2format.Format(g.AST); f != text {
		t.Fatalf("test input is not formatted:\n%s", f)
	}
	var g2 *d2graph.Graph
	func() {
		defer func() {
			if r := recover(); r != nil {
				err = fmt.Errorf("PANIC: %v", r)
			}
		}()
		g2, err = edit(g)
	}()
	if err != nil {
		t.Fatalf("input:\n%s\nedit: %s\nthe edit has valid arguments and the diagram compiles, so C36 requires compilable source; got error:\n%v", text, editDesc, err)
	}
	out := d2format.Format(g2.AST)
	g3, _, err := d2compiler.Compile("index.d2", strings.NewReader(out), nil)
	if err != nil {
		t.Fatalf("input:\n%s\nedit: %s\noutput does not compile:\n%s\n%v", text, editDesc, out, err)
	}
	if out2 := d2format.Format(g3.AST); out2 != out {
		t.Fatalf("input:\n%s\nedit: %s\noutput is not formatter-stable:\n%s\nreformatted:\n%s", text, editDesc, out, out2)
	}
	if a, b := hc36IDs(g2), hc36IDs(g3); a != b {
		t.Fatalf("input:\n%s\nedit: %s\noutput:\n%s\ncompiles to a different diagram: returned %s, compiled %s", text, editDesc, out, a, b)
	}
	return out
}

// Defect 1: in a nested board, Rename/Move/Delete of a shape fail as soon as the board holds a
// connection with a map: the board is recompiled from text in which that map has lost its braces.
func TestHC36Pre_NestedBoardEdgeMap(t *testing.T) {
	text := `layers: {
  l1: {
    a
    b -> c: {style.opacity: 0.4}
  }
}
`
	out := hc36Edit(t, text, `Rename(["l1"], "a", "z")`, func(g *d2graph.Graph) (*d2graph.Graph, error) {
		g, _, err := d2oracle.Rename(g, []string{"l1"}, "a", "z")
		return g, err
	})
	exp := `layers: {
  l1: {
    z
    b -> c: {style.opacity: 0.4}
  }
}
`
	if out != exp {
		t.Fatalf("got:\n%s\nwant:\n%s", out, exp)
	}
}

// Defect 2: ReconnectEdge to the container in whose map the connection is written produces an
// empty (or underscore-only) endpoint.
func TestHC36Pre_ReconnectToScopeContainer(t *testing.T) {
	text := `a: {
  b -> c
}
`
	src := "a"
	out := hc36Edit(t, text, `ReconnectEdge(nil, "a.(b -> c)[0]", src="a", nil)`, func(g *d2graph.Graph) (*d2graph.Graph, error) {
		return d2oracle.ReconnectEdge(g, nil, "a.(b -> c)[0]", &src, nil)
	})
	g, _, _ := d2compiler.Compile("index.d2", strings.NewReader(out), nil)
	if ids := hc36IDs(g); !strings.Contains(ids, "(a -> a.c)[0]") {
		t.Fatalf("output:\n%s\nhas %s; want the connection (a -> a.c)[0]", out, ids)
	}

	text = `x: {
  a: {
    b -> c
  }
}
`
	dst := "x"
	out = hc36Edit(t, text, `ReconnectEdge(nil, "x.a.(b -> c)[0]", nil, dst="x")`, func(g *d2graph.Graph) (*d2graph.Graph, error) {
		return d2oracle.ReconnectEdge(g, nil, "x.a.(b -> c)[0]", nil, &dst)
	})
	g, _, _ = d2compiler.Compile("index.d2", strings.NewReader(out), nil)
	if ids := hc36IDs(g); !strings.Contains(ids, "(x.a.b -> x)[0]") {
		t.Fatalf("output:\n%s\nhas %s; want the connection (x.a.b -> x)[0]", out, ids)
	}
}

// Defect 3: Set of an arrowhead's own value (its label) panics when the connection already has a
// map for that arrowhead.
func TestHC36Pre_SetArrowheadValue(t *testing.T) {
	text := `a -> b: {
  target-arrowhead: {shape: diamond}
}
`
	v := "hi"
	out := hc36Edit(t, text, `Set(nil, "(a -> b)[0].target-arrowhead", nil, "hi")`, func(g *d2graph.Graph) (*d2graph.Graph, error) {
		return d2oracle.Set(g, nil, "(a -> b)[0].target-arrowhead", nil, &v)
	})
	g, _, _ := d2compiler.Compile("index.d2", strings.NewReader(out), nil)
	e := g.Edges[0]
	if e.DstArrowhead == nil || e.DstArrowhead.Label.Value != "hi" || e.DstArrowhead.Shape.Value != "diamond" {
		t.Fatalf("output:\n%s\nwant target arrowhead with label hi and shape diamond, got %#v", out, e.DstArrowhead)
	}
}

// Defect 4: moving a shape written as the tail of a flat key to its grandparent panics (or, when
// the name is kept, silently returns a diagram in which nothing moved and the grandparent is gone).
func TestHC36Pre_MoveFlatKeyOut(t *testing.T) {
	text := "x.b.a\n"
	out := hc36Edit(t, text, `Move(nil, "x.b.a", "x.c", true)`, func(g *d2graph.Graph) (*d2graph.Graph, error) {
		return d2oracle.Move(g, nil, "x.b.a", "x.c", true)
	})
	g, _, _ := d2compiler.Compile("index.d2", strings.NewReader(out), nil)
	if ids := hc36IDs(g); ids != "x | x.b | x.c" {
		t.Fatalf("output:\n%s\nhas objects %s; want x | x.b | x.c", out, ids)
	}
}

func TestHC36Pre_MoveFlatKeyOutSameName(t *testing.T) {
	text := "x.b.a\n"
	out := hc36Edit(t, text, `Move(nil, "x.b.a", "x.a", false)`, func(g *d2graph.Graph) (*d2graph.Graph, error) {
		return d2oracle.Move(g, nil, "x.b.a", "x.a", false)
	})
	g, _, _ := d2compiler.Compile("index.d2", strings.NewReader(out), nil)
	if ids := hc36IDs(g); ids != "x | x.b | x.a" {
		t.Fatalf("output:\n%s\nhas objects %s; want x | x.b | x.a", out, ids)
	}
}

// Defect 5: moving a container with its descendants into one of its own descendants is accepted
// and returns an empty diagram (on larger diagrams the process dies with a stack overflow in
// Object.AbsID because the object graph gets a parent cycle).
func TestHC36Pre_MoveIntoOwnDescendant(t *testing.T) {
	text := "b.c\nz\n"
	g, _, err := d2compiler.Compile("index.d2", strings.NewReader(text), nil)
	if err != nil {
		t.Fatal(err)
	}
	g2, err := d2oracle.Move(g, nil, "b", "b.c.b", true)
	if err != nil {
		return // rejecting the request is fine
	}
	out := d2format.Format(g2.AST)
	if ids := hc36IDs(g2); !strings.Contains(ids, "c") || !strings.Contains(ids, "b") {
		t.Fatalf("input:\n%s\nedit: Move(nil, \"b\", \"b.c.b\", true) succeeded with output:\n%s\nobjects: %s\nthe shapes b and c were lost; the move must either be rejected or keep them", text, out, ids)
	}
}

// Defect 6: UpdateImport does not look into arrays, so an import there keeps the old path (and is
// not removed either); the returned text no longer compiles once the file is renamed.
func TestHC36Pre_UpdateImportArray(t *testing.T) {
	text := `vars: {
  v: [
    @y
  ]
}
a: @y
`
	// The file was renamed from y.d2 to n.d2
	tfs, err := mapfs.New(map[string]string{
		"index.d2": text,
		"n.d2":     "style.fill: red\n",
	})
	if err != nil {
		t.Fatal(err)
	}
	defer tfs.Close()
	ast, err := d2parser.Parse("index.d2", strings.NewReader(text), nil)
	if err != nil {
		t.Fatal(err)
	}
	if f := d2format.Format(ast); f != text {
		t.Fatalf("test input is not formatted:\n%s", f)
	}
	n := "n"
	out, err := d2oracle.UpdateImport(text, "y", &n)
	if err != nil {
		t.Fatal(err)
	}
	_, _, err = d2compiler.Compile("index.d2", strings.NewReader(out), &d2compiler.CompileOptions{FS: tfs})
	if err != nil || strings.Contains(out, "@y") {
		t.Fatalf("input:\n%s\nedit: UpdateImport(\"y\" -> \"n\")\noutput still imports y:\n%s\ncompile (only n.d2 exists): %v", text, out, err)
	}
}

// Defect 7: moving and renaming a container that a connection reaches through (c.x in c.x.b <- c)
// into another container panics.
func TestHC36Pre_MoveRenameThroughEdgeRef(t *testing.T) {
	text := "c.x.b <- c\ny\n"
	out := hc36Edit(t, text, `Move(nil, "c.x", "y.A", true)`, func(g *d2graph.Graph) (*d2graph.Graph, error) {
		return d2oracle.Move(g, nil, "c.x", "y.A", true)
	})
	g, _, _ := d2compiler.Compile("index.d2", strings.NewReader(out), nil)
	if ids := hc36IDs(g); !strings.Contains(ids, "y.A.b") {
		t.Fatalf("output:\n%s\nhas %s; want y.A.b", out, ids)
	}
}
