package d2format_test

// Copy into d2format/ (package d2format_test).
//
// Every test states property C03 (format is idempotent and its output parses) or its sibling
// C04 (the formatted text compiles to the same diagram) on one minimal input, and fails on the
// unchanged tree.

import (
	"strings"
	"testing"

	"oss.terrastruct.com/d2/d2compiler"
	"oss.terrastruct.com/d2/d2format"
	"oss.terrastruct.com/d2/d2parser"
)

// hc03Format parses in (which must be free of errors) and returns the formatted text.
func hc03Format(t *testing.T, what, in string) string {
	t.Helper()
	ast, err := d2parser.Parse("hc03.d2", strings.NewReader(in), nil)
	if err != nil {
		t.Fatalf("%s does not parse, property C03 requires that it does\ntext: %q\nerror: %v", what, in, err)
	}
	return d2format.Format(ast)
}

// hc03Idempotent checks C03 on in and returns the first formatted text.
func hc03Idempotent(t *testing.T, in string) string {
	t.Helper()
	f1 := hc03Format(t, "input", in)
	f2 := hc03Format(t, "formatted text (input "+strings.TrimSpace(in)+")", f1)
	if f1 != f2 {
		t.Errorf("formatting is not idempotent\ninput:            %q\nformatted once:   %q\nformatted twice:  %q\nproperty C03 requires the second format to reproduce the first byte for byte", in, f1, f2)
	}
	return f1
}

// hc03Objects compiles text and returns the sorted "id=label" of every object.
func hc03Objects(t *testing.T, what, text string) string {
	t.Helper()
	g, _, err := d2compiler.Compile("hc03.d2", strings.NewReader(text), nil)
	if err != nil {
		t.Fatalf("%s does not compile\ntext: %q\nerror: %v", what, text, err)
	}
	var ss []string
	for _, o := range g.Objects {
		ss = append(ss, o.AbsID()+"="+o.Label.Value)
	}
	return strings.Join(ss, ", ")
}

// hc03SameObjects checks C04 (restricted to object IDs and labels) on in.
func hc03SameObjects(t *testing.T, in string) {
	t.Helper()
	f1 := hc03Format(t, "input", in)
	before := hc03Objects(t, "input", in)
	after := hc03Objects(t, "formatted text", f1)
	if before != after {
		t.Errorf("formatting changed the diagram\ninput:     %q\nformatted: %q\nobjects of the input:          %s\nobjects of the formatted text: %s\nproperty C04 requires the same objects and labels", in, f1, before, after)
	}
}

// A one-line array whose last element is an unquoted string of one or two characters, with a
// space after the closing bracket.
func TestHC03Pre_ArrayShortLastElement(t *testing.T) {
	hc03Idempotent(t, "a: [x] \nb\n")
}

// A file that is a single line without the final newline.
func TestHC03Pre_OneLineFile(t *testing.T) {
	hc03Idempotent(t, "a; b")
}

// An unquoted string that ends in an escaped space.
func TestHC03Pre_TrailingEscapedSpace(t *testing.T) {
	in := "a: b\\ \nc: d\n"
	f1 := hc03Idempotent(t, in)
	ast, err := d2parser.Parse("hc03.d2", strings.NewReader(f1), nil)
	if err == nil && len(ast.Nodes) != 2 {
		t.Errorf("input %q has 2 keys, its formatted text %q has %d: the backslash left at the end of the first line joins it with the next", in, f1, len(ast.Nodes))
	}
}

// An unquoted key that ends in a dash, separated from the colon by a space.
func TestHC03Pre_DashBeforeColon(t *testing.T) {
	hc03Idempotent(t, "a- : b\n")
	hc03SameObjects(t, "a- : b\n")
}

// A board declaration that comes before the other nodes of the file.
func TestHC03Pre_BoardFirst(t *testing.T) {
	hc03Idempotent(t, "layers: {\n  a: {\n    b\n  }\n}\nx\n")
}

// A board declaration without content is dropped by design; what surrounds it must still
// be printed as if it had never been there.
func TestHC03Pre_EmptyBoard(t *testing.T) {
	hc03Idempotent(t, "steps\nb\n")
	hc03Idempotent(t, "steps # c\n")
	hc03Idempotent(t, "a: {\n  layers\n}\n")
}

// A board declaration inside a map written on one line.
func TestHC03Pre_BoardInOneLineMap(t *testing.T) {
	hc03Idempotent(t, "x: {layers: {a: {b}}; y}\n")
}

// The compiler takes only an unquoted key, in any letter case, for a board keyword.
func TestHC03Pre_QuotedOrCapitalBoardKey(t *testing.T) {
	// "steps" in quotes is an ordinary shape.
	hc03SameObjects(t, "\"steps\": My Steps\ny\n")
	// Layers is the keyword layers.
	hc03Idempotent(t, "x\nLayers: {\n  a: {\n    b\n  }\n}\n")
}

// A block comment that follows a node on the same line (only possible after a semicolon).
func TestHC03Pre_InlineBlockComment(t *testing.T) {
	hc03Idempotent(t, "a: {b: \"q\"; \"\"\" c \"\"\"}\n")
	hc03SameObjects(t, "x: y; \"\"\" c \"\"\"\n")
}

// A block string that holds only white space.
func TestHC03Pre_WhitespaceOnlyBlockString(t *testing.T) {
	hc03Idempotent(t, "a: |md\n   \n|\n")
}

// A line continuation directly before a quote character.
func TestHC03Pre_ContinuationBeforeQuote(t *testing.T) {
	hc03Idempotent(t, "a: \\\n\"b\n")
}
