package d2compiler_test

// HC13: pre-existing violations of property C13 (variable substitution equals
// textual replacement from the innermost scope). Copy into d2compiler/.
// Every test fails on the unchanged tree.

import (
	"os"
	"os/exec"
	"runtime/debug"
	"strings"
	"testing"

	"oss.terrastruct.com/d2/d2compiler"
)

// A variable named like the LAST element of a dotted substitution path cannot
// use that path: vars: {a: {b: 1}; b: ${a.b}}.
func TestHC13Pre_SelfNameInPath(t *testing.T) {
	in := "vars: {a: {b: 1}; b: ${a.b}}\nx: ${b}\n"
	textual := "vars: {a: {b: 1}; b: 1}\nx: 1\n"
	g, _, err := d2compiler.Compile("hc13.d2", strings.NewReader(in), nil)
	if err != nil {
		t.Fatalf("input:\n%s\ngot error: %v\nwant: compiles like the textual replacement\n%s(x labelled \"1\")", in, err, textual)
	}
	if len(g.Objects) != 1 || g.Objects[0].Label.Value != "1" {
		t.Fatalf("input:\n%s\ngot objects %v, want one object x labelled \"1\"", in, g.Objects)
	}
}

// A variable whose own value is a substitution that has not been resolved yet
// (chain of forward references, or a vars block written after its use) is
// substituted as the empty string, without an error.
func TestHC13Pre_UnresolvedVarValueUsed(t *testing.T) {
	for _, tc := range []struct{ in, want string }{
		{"vars: {a: ${b}; b: ${c}; c: 1}\nx: ${a}\n", "1"},
		{"x: m ${a} n\nvars: {a: ${b}post; b: 1}\n", "m 1post n"},
	} {
		g, _, err := d2compiler.Compile("hc13.d2", strings.NewReader(tc.in), nil)
		if err != nil {
			t.Errorf("input:\n%s\ngot error: %v\nwant x labelled %q", tc.in, err, tc.want)
			continue
		}
		got := ""
		for _, o := range g.Objects {
			if o.AbsID() == "x" {
				got = o.Label.Value
			}
		}
		if got != tc.want {
			t.Errorf("input:\n%s\ngot x labelled %q\nwant %q (what writing the variable's value in place gives)", tc.in, got, tc.want)
		}
	}
}

// ${a.b} where a is a scalar variable: undefined variable, must be an error;
// the compiler panics with a nil pointer dereference instead.
func TestHC13Pre_PathThroughScalarPanics(t *testing.T) {
	in := "vars: {a: 1}\nx: ${a.b}\n"
	defer func() {
		if r := recover(); r != nil {
			t.Fatalf("input:\n%s\ngot panic: %v\nwant error: could not resolve variable \"a.b\"", in, r)
		}
	}()
	_, _, err := d2compiler.Compile("hc13.d2", strings.NewReader(in), nil)
	if err == nil || !strings.Contains(err.Error(), `could not resolve variable "a.b"`) {
		t.Fatalf("input:\n%s\ngot err=%v\nwant error: could not resolve variable \"a.b\"", in, err)
	}
}

// The scope of a substitution is taken from where the key ends up in the tree,
// not from where the substitution is written: a.b.label: ${x} written at the
// root reads the vars block inside a.
func TestHC13Pre_ScopeOfDottedKeyTarget(t *testing.T) {
	in := "a: {vars: {x: inner}; b}\na.b.label: ${x}\n"
	g, _, err := d2compiler.Compile("hc13.d2", strings.NewReader(in), nil)
	if err == nil {
		got := ""
		for _, o := range g.Objects {
			if o.AbsID() == "a.b" {
				got = o.Label.Value
			}
		}
		t.Errorf("input:\n%s\ngot a.b labelled %q and no error\nwant error: could not resolve variable \"x\" (no vars block encloses line 2)", in, got)
	}

	in2 := "vars: {x: outer}\na: {vars: {x: inner}; b}\na.b.label: ${x}\n*.tooltip: ${x}\n"
	g, _, err = d2compiler.Compile("hc13.d2", strings.NewReader(in2), nil)
	if err != nil {
		t.Fatalf("input:\n%s\ngot error %v", in2, err)
	}
	for _, o := range g.Objects {
		if o.AbsID() == "a.b" && o.Label.Value != "outer" {
			t.Errorf("input:\n%s\ngot a.b labelled %q\nwant \"outer\" (the innermost vars block enclosing line 3 is the root one)", in2, o.Label.Value)
		}
		if o.AbsID() == "a" && (o.Tooltip == nil || o.Tooltip.Value != "outer") {
			tt := "<nil>"
			if o.Tooltip != nil {
				tt = o.Tooltip.Value
			}
			t.Errorf("input:\n%s\ngot a with tooltip %q\nwant \"outer\" (the glob on line 4 is written in the root scope)", in2, tt)
		}
	}
}

// A board link given through a variable is not made absolute like the same
// link written literally, and is then dropped as a broken link.
func TestHC13Pre_LinkWithSubstitution(t *testing.T) {
	in := "vars: {x: layers.l}\na.link: ${x}\nlayers: {l: {q}}\n"
	textual := "vars: {x: layers.l}\na.link: layers.l\nlayers: {l: {q}}\n"
	g2, _, err := d2compiler.Compile("hc13.d2", strings.NewReader(textual), nil)
	if err != nil || g2.Objects[0].Link == nil {
		t.Fatalf("textual program does not give a link: %v", err)
	}
	want := g2.Objects[0].Link.Value
	g, _, err := d2compiler.Compile("hc13.d2", strings.NewReader(in), nil)
	if err != nil {
		t.Fatalf("input:\n%s\ngot error %v", in, err)
	}
	if g.Objects[0].Link == nil {
		t.Fatalf("input:\n%s\ngot a without link\nwant link %q as for\n%s", in, want, textual)
	}
	if g.Objects[0].Link.Value != want {
		t.Fatalf("input:\n%s\ngot link %q\nwant %q as for\n%s", in, g.Objects[0].Link.Value, want, textual)
	}
}

// A glob filter compares against the unsubstituted text of its value.
func TestHC13Pre_FilterWithSubstitution(t *testing.T) {
	in := "vars: {s: circle}\na.shape: circle\nb\n*: {&shape: ${s}; style.fill: red}\n"
	textual := "vars: {s: circle}\na.shape: circle\nb\n*: {&shape: circle; style.fill: red}\n"
	g2, _, err := d2compiler.Compile("hc13.d2", strings.NewReader(textual), nil)
	if err != nil || g2.Objects[0].Style.Fill == nil {
		t.Fatalf("textual program does not fill a: %v", err)
	}
	g, _, err := d2compiler.Compile("hc13.d2", strings.NewReader(in), nil)
	if err != nil {
		t.Fatalf("input:\n%s\ngot error %v", in, err)
	}
	if g.Objects[0].AbsID() != "a" || g.Objects[0].Style.Fill == nil {
		t.Fatalf("input:\n%s\ngot a without style.fill\nwant a filled %q as for\n%s", in, g2.Objects[0].Style.Fill.Value, textual)
	}
}

// Values inherited by a scenario: a lone ${x} is resolved again in the
// scenario's scope, while text around a substitution (or quotes) keeps the
// base board's value. Textual replacement gives the base value for both.
func TestHC13Pre_InheritedValueResolvedTwice(t *testing.T) {
	in := "vars: {x: 1}\na: ${x}\nb: p${x}\nscenarios: {s: {vars: {x: 2}}}\n"
	g, _, err := d2compiler.Compile("hc13.d2", strings.NewReader(in), nil)
	if err != nil {
		t.Fatalf("input:\n%s\ngot error %v", in, err)
	}
	if len(g.Scenarios) != 1 {
		t.Fatalf("no scenario")
	}
	labels := map[string]string{}
	for _, o := range g.Scenarios[0].Objects {
		labels[o.AbsID()] = o.Label.Value
	}
	if labels["a"] != "1" || labels["b"] != "p1" {
		t.Fatalf("input:\n%s\nin scenario s got a=%q b=%q\nwant a=\"1\" b=\"p1\" (as for a: 1; b: p1), and in any case the two must use the same x", in, labels["a"], labels["b"])
	}
}

// Literal text before a substitution that reads as a number or keyword makes
// the parser keep only that text: 0${x} is the number 0.
func TestHC13Pre_LiteralPrefixDropsSubstitution(t *testing.T) {
	for _, tc := range []struct{ in, want string }{
		{"vars: {x: 5}\na: 0${x}\n", "05"},
		{"vars: {minor: 4}\na: 1.${minor}\n", "1.4"},
		{"vars: {x: ish}\na: true${x}\n", "trueish"},
		{"vars: {x: able}\na: null${x}\n", "nullable"},
	} {
		g, _, err := d2compiler.Compile("hc13.d2", strings.NewReader(tc.in), nil)
		if err != nil {
			t.Errorf("input:\n%s\ngot error %v\nwant a labelled %q", tc.in, err, tc.want)
			continue
		}
		got := "<no object a>"
		for _, o := range g.Objects {
			if o.AbsID() == "a" {
				got = o.Label.Value
			}
		}
		if got != tc.want {
			t.Errorf("input:\n%s\ngot a labelled %q\nwant %q", tc.in, got, tc.want)
		}
	}
}

// A double glob also matches the variables inside vars; a lone ${c} then
// copies the variable's own (glob-made) map into itself and the compiler
// recurses until the stack overflows. Run in a child process because a stack
// overflow cannot be recovered.
func TestHC13Pre_DoubleGlobSubstitutionOverflow(t *testing.T) {
	in := "vars: {c: red}\n**.style.fill: ${c}\na\n"
	if os.Getenv("HC13_CHILD") == "1" {
		debug.SetMaxStack(32 << 20)
		g, _, err := d2compiler.Compile("hc13.d2", strings.NewReader(in), nil)
		if err != nil {
			t.Fatalf("error: %v", err)
		}
		if len(g.Objects) != 1 || g.Objects[0].Style.Fill == nil || g.Objects[0].Style.Fill.Value != "red" {
			t.Fatalf("a is not filled red")
		}
		return
	}
	cmd := exec.Command(os.Args[0], "-test.run=^TestHC13Pre_DoubleGlobSubstitutionOverflow$")
	cmd.Env = append(os.Environ(), "HC13_CHILD=1")
	out, err := cmd.CombinedOutput()
	if err != nil {
		s := string(out)
		if len(s) > 300 {
			s = s[:300] + "..."
		}
		t.Fatalf("input:\n%s\ncompiling in a child process failed: %v\n%s\nwant: a filled \"red\" as for **.style.fill: red", in, err, s)
	}
}

// In a block string a nested variable a.x is also reachable as ${x}, and an
// undefined variable is left in the text without an error.
func TestHC13Pre_BlockStringFlattenedAndUndefined(t *testing.T) {
	in := "vars: {a: {x: 1}}\nb: |md ${x} |\n"
	g, _, err := d2compiler.Compile("hc13.d2", strings.NewReader(in), nil)
	if err == nil {
		t.Errorf("input:\n%s\ngot b labelled %q and no error\nwant error: could not resolve variable \"x\" (only a.x is defined; b: ${x} is such an error)", in, g.Objects[0].Label.Value)
	}
}
