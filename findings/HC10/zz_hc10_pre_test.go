package d2compiler_test

// HC10 defect reproductions for property C10 ("later declarations override earlier ones;
// null removes"). Copy this file into d2compiler/ (package d2compiler_test).
// Every test fails on the unchanged tree.

import (
	"fmt"
	"sort"
	"strings"
	"testing"

	"oss.terrastruct.com/d2/d2compiler"
	"oss.terrastruct.com/d2/d2graph"
)

// hc10Compile compiles text and returns one line per object (sorted) and one line per
// connection (in graph order): what the property talks about and nothing else.
func hc10Compile(t *testing.T, text string) (objs, edges []string) {
	t.Helper()
	g, _, err := d2compiler.Compile("hc10.d2", strings.NewReader(text), nil)
	if err != nil {
		t.Fatalf("input:\n%s\nunexpected compile error: %v", text, err)
	}
	style := func(st d2graph.Style) string {
		s := ""
		if st.Opacity != nil {
			s += " opacity=" + st.Opacity.Value
		}
		if st.Stroke != nil {
			s += " stroke=" + st.Stroke.Value
		}
		return s
	}
	for _, o := range g.Objects {
		objs = append(objs, fmt.Sprintf("%s label=%q%s", o.AbsID(), o.Label.Value, style(o.Style)))
	}
	sort.Strings(objs)
	for _, e := range g.Edges {
		edges = append(edges, fmt.Sprintf("%s -> %s label=%q%s", e.Src.AbsID(), e.Dst.AbsID(), e.Label.Value, style(e.Style)))
	}
	return objs, edges
}

func hc10Check(t *testing.T, text string, wantObjs, wantEdges []string) {
	t.Helper()
	objs, edges := hc10Compile(t, text)
	got := "objects:\n  " + strings.Join(objs, "\n  ") + "\nconnections:\n  " + strings.Join(edges, "\n  ")
	want := "objects:\n  " + strings.Join(wantObjs, "\n  ") + "\nconnections:\n  " + strings.Join(wantEdges, "\n  ")
	if got != want {
		t.Errorf("input:\n%s\n--- got\n%s\n--- the property requires\n%s", text, got, want)
	}
}

// The label has two homes in the IR, the primary value of the field (a: y) and the field
// "label" of its map (a.label: x). The second always wins, whatever the order in the source.
func TestHC10Pre_LabelOrder(t *testing.T) {
	t.Run("object", func(t *testing.T) {
		hc10Check(t, "a.label: x\na: y\n",
			[]string{`a label="y"`}, nil)
	})
	t.Run("connection", func(t *testing.T) {
		hc10Check(t, "a -> b: {label: x}\n(a -> b)[0]: y\n",
			[]string{`a label="a"`, `b label="b"`}, []string{`a -> b label="y"`})
	})
	t.Run("null", func(t *testing.T) {
		// Removing the attribute label leaves the label assigned before it in place.
		hc10Check(t, "a: y\na.label: null\n",
			[]string{`a label="a"`}, nil)
	})
}

// null assigned to an attribute of an indexed connection removes the whole connection.
func TestHC10Pre_EdgeKeyNull(t *testing.T) {
	hc10Check(t, "a -> b: {style.opacity: 0.4; style.stroke: red}\n(a -> b)[0].style.opacity: null\n",
		[]string{`a label="a"`, `b label="b"`}, []string{`a -> b label="" stroke=red`})
}

// null assigned to an attribute inside the map of an indexed connection removes the whole
// connection when the attribute was last set through an edge key.
func TestHC10Pre_EdgeMapAttrNull(t *testing.T) {
	hc10Check(t, "a -> b\n(a -> b)[0].style.opacity: 0.4\n(a -> b)[0]: {style.opacity: null}\n",
		[]string{`a label="a"`, `b label="b"`}, []string{`a -> b label=""`})
}

// After a connection that is not the last of its kind is removed, the next one declared gets
// an index that is still in use, and one indexed assignment lands on two connections.
func TestHC10Pre_EdgeIndexCollision(t *testing.T) {
	text := "a -> b: one\na -> b: two\na -> b: three\n(a -> b)[1]: null\na -> b: four\n(a -> b)[2].style.opacity: 0.5\n"
	_, edges := hc10Compile(t, text)
	n := 0
	for _, e := range edges {
		if strings.Contains(e, "opacity=0.5") {
			n++
		}
	}
	if len(edges) != 3 || n != 1 {
		t.Errorf("input:\n%s\n--- got connections\n  %s\n--- the property requires\n  three connections (one, three, four) and the single assignment (a -> b)[2].style.opacity on exactly one of them; it is on %d",
			text, strings.Join(edges, "\n  "), n)
	}
}

// null on a container leaves behind the connection that was written inside the container
// with a parent reference, and that connection brings the container and its child back.
func TestHC10Pre_NullContainerInnerEdge(t *testing.T) {
	text := "a: {\n  b -> _.c\n}\na: null\n"
	objs, edges := hc10Compile(t, text)
	bad := len(edges) != 0
	for _, o := range objs {
		if strings.HasPrefix(o, "a.b ") {
			bad = true
		}
	}
	if bad {
		t.Errorf("input:\n%s\n--- got\nobjects:\n  %s\nconnections:\n  %s\n--- the property requires\nno a.b and no connection: null removes a with everything inside it and the connections attached to it",
			text, strings.Join(objs, "\n  "), strings.Join(edges, "\n  "))
	}
}

// null on a container does not remove it from the graph when something outside it was
// declared from inside it: the reference of the survivor re-creates the container.
func TestHC10Pre_NullContainerScopeResurrect(t *testing.T) {
	hc10Check(t, "a: {\n  _.c\n}\na: null\n",
		[]string{`c label="c"`}, nil)
}
