package d2compiler_test

// HC09: defects found for property C09 (compiled graphs are well-formed trees with consistent
// connection endpoints, objects and connections listed in source order).
//
// Copy this file into d2compiler/ and run
//   go test -vet=off -count=1 ./d2compiler/ -run TestHC09Pre_ -v
// Every test fails on the unchanged tree.

import (
	"fmt"
	"strings"
	"testing"
	"testing/fstest"

	"oss.terrastruct.com/d2/d2compiler"
	"oss.terrastruct.com/d2/d2graph"
)

// hc09Compile compiles in and turns a panic into an error string.
func hc09Compile(in string, opts *d2compiler.CompileOptions) (g *d2graph.Graph, err error, panicked interface{}) {
	defer func() {
		if r := recover(); r != nil {
			panicked = r
		}
	}()
	g, _, err = d2compiler.Compile("index.d2", strings.NewReader(in), opts)
	return g, err, nil
}

func hc09ObjectIDs(g *d2graph.Graph) []string {
	ids := []string{}
	for _, o := range g.Objects {
		ids = append(ids, o.AbsID())
	}
	return ids
}

func hc09EdgeIDs(g *d2graph.Graph) []string {
	ids := []string{}
	for _, e := range g.Edges {
		ids = append(ids, e.AbsID())
	}
	return ids
}

// hc09TreeViolations checks the structural half of C09 on one board.
func hc09TreeViolations(g *d2graph.Graph) []string {
	var out []string
	listed := map[*d2graph.Object]int{}
	for _, o := range g.Objects {
		listed[o]++
	}
	for _, o := range g.Objects {
		if listed[o] != 1 {
			out = append(out, fmt.Sprintf("object %q is listed %d times", o.AbsID(), listed[o]))
		}
		if o.Parent == nil {
			out = append(out, fmt.Sprintf("object %q has no parent", o.AbsID()))
			continue
		}
		if o.Parent != g.Root && listed[o.Parent] == 0 {
			out = append(out, fmt.Sprintf("object %q: its parent %q is not an object of the board", o.AbsID(), o.Parent.AbsID()))
		}
		n := 0
		for _, c := range o.Parent.ChildrenArray {
			if c == o {
				n++
			}
		}
		if n != 1 || o.Parent.Children[strings.ToLower(o.ID)] != o {
			out = append(out, fmt.Sprintf("object %q is not listed exactly once among the children of its parent", o.AbsID()))
		}
		if len(o.References) == 0 {
			out = append(out, fmt.Sprintf("object %q is listed although nothing in the source refers to it (no references)", o.AbsID()))
		}
	}
	for _, e := range g.Edges {
		for _, end := range []*d2graph.Object{e.Src, e.Dst} {
			if end == g.Root {
				out = append(out, fmt.Sprintf("connection %q ends at the board root, which is not an object", e.AbsID()))
			} else if listed[end] == 0 {
				out = append(out, fmt.Sprintf("connection %q ends at %q, which is not an object of the board", e.AbsID(), end.AbsID()))
			}
		}
	}
	return out
}

func hc09Equal(a, b []string) bool {
	return strings.Join(a, "\x00") == strings.Join(b, "\x00")
}

// 1. Only the root board is sorted into source order; layers, scenarios and steps keep the
// depth-first creation order.
func TestHC09Pre_NestedBoardOrder(t *testing.T) {
	in := "layers: {\n  l: {\n    x.y\n    z\n    x.w\n    p -> q\n    c: { d -> e }\n  }\n}\n"
	g, err, p := hc09Compile(in, nil)
	if err != nil || p != nil {
		t.Fatalf("input:\n%s\nunexpected err=%v panic=%v", in, err, p)
	}
	l := g.Layers[0]
	wantObjs := []string{"x", "x.y", "z", "x.w", "p", "q", "c", "c.d", "c.e"}
	wantEdges := []string{"(p -> q)[0]", "c.(d -> e)[0]"}
	if got := hc09ObjectIDs(l); !hc09Equal(got, wantObjs) {
		t.Errorf("input:\n%s\nlayer l lists its objects as %v\nsource order is                 %v\n(the same text at the root board gives the source order)", in, got, wantObjs)
	}
	if got := hc09EdgeIDs(l); !hc09Equal(got, wantEdges) {
		t.Errorf("input:\n%s\nlayer l lists its connections as %v\nsource order is                     %v", in, got, wantEdges)
	}
}

// 2. A connection written with underscores inside a column of a sql_table (or a field of a
// class) panics: compileEdge resolves the scope object with Root.EnsureChild, which writes into
// the table's Children map that compileSQLTable set to nil.
func TestHC09Pre_EdgeScopeInTableColumn(t *testing.T) {
	for _, in := range []string{
		"t: {shape: sql_table; x: { _.b -> _.c }}\n",
		"t: {shape: class; x: { _.b -> _.c }}\n",
	} {
		g, err, p := hc09Compile(in, nil)
		if p != nil {
			t.Errorf("input:\n%s\nCompile panicked: %v\nwant: a compile error or a well-formed graph", in, p)
			continue
		}
		if err != nil {
			continue
		}
		if v := hc09TreeViolations(g); len(v) > 0 {
			t.Errorf("input:\n%s\n%s", in, strings.Join(v, "\n"))
		}
	}
}

// 3. In a sequence diagram, a group that mentions a column of a sql_table actor (or a field of
// a class actor) panics: EnsureChild hoists "t" to the actor, whose Children map is nil after
// compileSQLTable/compileClass.
func TestHC09Pre_SeqDiagramTableActorInGroup(t *testing.T) {
	in := "shape: sequence_diagram\nt: {shape: sql_table; x: int}\nu: {shape: sql_table; y: int}\ng: {\n  t.x -> u.y\n}\n"
	g, err, p := hc09Compile(in, nil)
	if p != nil {
		t.Fatalf("input:\n%s\nCompile panicked: %v\nwant: a compile error or a well-formed graph", in, p)
	}
	if err != nil {
		return
	}
	if v := hc09TreeViolations(g); len(v) > 0 {
		t.Errorf("input:\n%s\n%s", in, strings.Join(v, "\n"))
	}
}

// 4. When the board itself has shape class or sql_table, its connections end at the root.
func TestHC09Pre_RootClassEdge(t *testing.T) {
	for _, in := range []string{"shape: class\na -> b\n", "shape: sql_table\na -> b\n"} {
		g, err, p := hc09Compile(in, nil)
		if p != nil {
			t.Errorf("input:\n%s\nCompile panicked: %v", in, p)
			continue
		}
		if err != nil {
			continue
		}
		if v := hc09TreeViolations(g); len(v) > 0 {
			t.Errorf("input:\n%s\nobjects %v connections %v\n%s\nwant: a compile error, or connections whose endpoints are objects of the board", in, hc09ObjectIDs(g), hc09EdgeIDs(g), strings.Join(v, "\n"))
		}
	}
}

// 5. One object that comes from a variable substitution stops SortObjectsByAST from moving the
// ordinary objects around it: the comparator answers "i < j" for such pairs, which is not an
// ordering.
func TestHC09Pre_VarBarrierOrder(t *testing.T) {
	in := "vars: {v: {x}}\nb.c\n...${v}\nd\nb.e\n"
	g, err, p := hc09Compile(in, nil)
	if err != nil || p != nil {
		t.Fatalf("input:\n%s\nunexpected err=%v panic=%v", in, err, p)
	}
	pos := map[string]int{}
	for i, id := range hc09ObjectIDs(g) {
		pos[id] = i
	}
	// d is written on line 4, b.e on line 5, neither has anything to do with the variable.
	if pos["d"] > pos["b.e"] {
		t.Errorf("input:\n%s\nobjects are listed as %v\nd (line 4) is listed after b.e (line 5); without the line \"...${v}\" the list is [b b.c d b.e]", in, hc09ObjectIDs(g))
	}
}

// 6. A container that was deleted with null comes back as an object without references,
// because resolving the scope of a reference written inside it uses EnsureChild.
func TestHC09Pre_DeletedScopeResurrected(t *testing.T) {
	in := "x: { _.a }\nx: null\n"
	g, err, p := hc09Compile(in, nil)
	if err != nil || p != nil {
		t.Fatalf("input:\n%s\nunexpected err=%v panic=%v", in, err, p)
	}
	if got, want := hc09ObjectIDs(g), []string{"a"}; !hc09Equal(got, want) {
		t.Errorf("input:\n%s\nobjects are %v, want %v (x was deleted)\n%s", in, got, want, strings.Join(hc09TreeViolations(g), "\n"))
	}
}

// 7. Source positions of different files are compared as if they were in one file, so
// imported objects and connections are sorted in among the importing file's lines.
func TestHC09Pre_ImportOrder(t *testing.T) {
	in := "z1\nz2\nz3 -> z1\n...@imp\nz4\n"
	fs := fstest.MapFS{"imp.d2": &fstest.MapFile{Data: []byte("q\nq -> r\n")}}
	g, err, p := hc09Compile(in, &d2compiler.CompileOptions{FS: fs})
	if err != nil || p != nil {
		t.Fatalf("input:\n%s\nunexpected err=%v panic=%v", in, err, p)
	}
	wantObjs := []string{"z1", "z2", "z3", "q", "r", "z4"}
	wantEdges := []string{"(z3 -> z1)[0]", "(q -> r)[0]"}
	if got := hc09ObjectIDs(g); !hc09Equal(got, wantObjs) {
		t.Errorf("index.d2:\n%simp.d2:\nq\nq -> r\nobjects are listed as %v\nfirst appearance order  %v", in, got, wantObjs)
	}
	if got := hc09EdgeIDs(g); !hc09Equal(got, wantEdges) {
		t.Errorf("index.d2:\n%simp.d2:\nq\nq -> r\nconnections are listed as %v\nfirst appearance order      %v", in, got, wantEdges)
	}
}

// 8. Deleting an object with null leaves the connections that a glob made from it; the
// compiler then re-creates the object, without references.
func TestHC09Pre_GlobEdgeNullResurrect(t *testing.T) {
	in := "g\na\n* -> a\ng: null\n"
	g, err, p := hc09Compile(in, nil)
	if err != nil || p != nil {
		t.Fatalf("input:\n%s\nunexpected err=%v panic=%v", in, err, p)
	}
	if v := hc09TreeViolations(g); len(v) > 0 || len(g.Edges) > 0 {
		t.Errorf("input:\n%s\nobjects %v connections %v\n%s\nwant: objects [a], no connections (\"g -> a; g: null\" gives that)", in, hc09ObjectIDs(g), hc09EdgeIDs(g), strings.Join(v, "\n"))
	}
}

// 9. In a sequence diagram a key inside a group is an alias of the actor of the same name.
// Giving the actor shape sql_table through that alias, after its children were compiled,
// removes only its direct children from the object list and leaves the grandchildren listed
// under a parent that is no longer an object.
func TestHC09Pre_SeqLateShapeOrphans(t *testing.T) {
	in := "shape: sequence_diagram\nt: { a.b }\ng: { t.shape: sql_table }\n"
	g, err, p := hc09Compile(in, nil)
	if p != nil {
		t.Fatalf("input:\n%s\nCompile panicked: %v", in, p)
	}
	if err != nil {
		return
	}
	if v := hc09TreeViolations(g); len(v) > 0 {
		t.Errorf("input:\n%s\nobjects %v\n%s\nwant: the error \"sql_table columns cannot have children\" (what \"t: {shape: sql_table; a.b}\" gives) or a well-formed graph", in, hc09ObjectIDs(g), strings.Join(v, "\n"))
	}
}
