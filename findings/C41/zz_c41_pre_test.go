package d2oracle_test

// Pre-existing C41 leaks on the UNCHANGED tree.
// Copy to: d2oracle/zz_c41_pre_test.go
// Run:     cd /tmp/wt/C41 && GOFLAGS=-mod=mod GOPROXY=off go test -vet=off -count=1 -run TestC41Pre ./d2oracle/
//
// Every test applies ONE d2oracle edit addressed to a nested board and then
// checks that the compiled content (shapes, connections, labels, attributes)
// of the root board and of the listed other boards is what it was before.

import (
	"fmt"
	"sort"
	"strings"
	"testing"

	"oss.terrastruct.com/d2/d2compiler"
	"oss.terrastruct.com/d2/d2format"
	"oss.terrastruct.com/d2/d2graph"
	"oss.terrastruct.com/d2/d2oracle"
)

func c41preScalar(name string, s *d2graph.Scalar) string {
	if s == nil {
		return ""
	}
	return " " + name + "=" + s.Value
}

func c41preStyle(s d2graph.Style) string {
	return c41preScalar("fill", s.Fill) + c41preScalar("stroke", s.Stroke) + c41preScalar("opacity", s.Opacity)
}

// c41preContent is a layout-independent summary of what one board compiles to.
func c41preContent(g *d2graph.Graph) string {
	var lines []string
	for _, o := range g.Objects {
		lines = append(lines, fmt.Sprintf("shape %s label=%q shape=%s%s", o.AbsID(), o.Label.Value, o.Shape.Value, c41preStyle(o.Style)))
	}
	for _, e := range g.Edges {
		lines = append(lines, fmt.Sprintf("conn %s srcArrow=%v dstArrow=%v label=%q%s", e.AbsID(), e.SrcArrow, e.DstArrow, e.Label.Value, c41preStyle(e.Style)))
	}
	sort.Strings(lines)
	return strings.Join(lines, "\n")
}

func c41preCompile(t *testing.T, text string) *d2graph.Graph {
	t.Helper()
	g, _, err := d2compiler.Compile("index.d2", strings.NewReader(text), nil)
	if err != nil {
		t.Fatalf("input does not compile: %v", err)
	}
	return g
}

// c41preCheck runs edit (addressed to board `addressed`) and verifies that the
// root board and each board in `others` compile to the same content as before.
func c41preCheck(t *testing.T, text string, addressed []string, others [][]string, edit func(g *d2graph.Graph) (*d2graph.Graph, error)) {
	t.Helper()
	before := c41preCompile(t, text)
	boards := append([][]string{nil}, others...)
	contentBefore := make([]string, len(boards))
	for i, bp := range boards {
		contentBefore[i] = c41preContent(d2oracle.GetBoardGraph(before, bp))
	}

	after, err := edit(c41preCompile(t, text))
	if err != nil {
		// A refused edit leaves the file as it was: property holds trivially.
		t.Logf("edit on board %v refused: %v", addressed, err)
		return
	}
	textAfter := d2format.Format(after.AST)

	for i, bp := range boards {
		name := fmt.Sprintf("board %v", bp)
		if len(bp) == 0 {
			name = "root board"
		}
		bg := d2oracle.GetBoardGraph(after, bp)
		if bg == nil {
			t.Errorf("C41 violated: %s disappeared after an edit addressed to board %v", name, addressed)
			continue
		}
		if got := c41preContent(bg); got != contentBefore[i] {
			t.Errorf("C41 violated: %s changed by an edit addressed to board %v\n"+
				"--- file before ---\n%s--- file after ---\n%s"+
				"--- %s content before ---\n%s\n--- %s content after ---\n%s",
				name, addressed, text, textAfter, name, contentBefore[i], name, got)
		}
	}
}

func c41preStr(s string) *string { return &s }

// 1. Set of a style attribute that the base defines, on an object the scenario also references.
func TestC41Pre_SetInheritedStyleAttr(t *testing.T) {
	const text = `a: {style.opacity: 0.2}
scenarios: {
  x: {
    a.style.fill: red
  }
  y: {
    c
  }
}
`
	c41preCheck(t, text, []string{"x"}, [][]string{{"y"}}, func(g *d2graph.Graph) (*d2graph.Graph, error) {
		return d2oracle.Set(g, []string{"x"}, "a.style.opacity", nil, c41preStr("0.5"))
	})
}

// 2. Set of the label of an object whose label is defined on the base and that the scenario also references.
func TestC41Pre_SetInheritedLabel(t *testing.T) {
	const text = `a: hi
scenarios: {
  x: {
    a.style.fill: red
  }
  y: {
    c
  }
}
`
	c41preCheck(t, text, []string{"x"}, [][]string{{"y"}}, func(g *d2graph.Graph) (*d2graph.Graph, error) {
		return d2oracle.Set(g, []string{"x"}, "a", nil, c41preStr("yo"))
	})
}

// 3. Set of a connection attribute defined on the base, connection also referenced (by index) in the scenario.
func TestC41Pre_SetInheritedEdgeAttr(t *testing.T) {
	const text = `a -> b: {style.opacity: 0.1}
scenarios: {
  x: {
    (a -> b)[0]: {style.stroke: red}
  }
  y: {
    c
  }
}
`
	c41preCheck(t, text, []string{"x"}, [][]string{{"y"}}, func(g *d2graph.Graph) (*d2graph.Graph, error) {
		return d2oracle.Set(g, []string{"x"}, "(a -> b)[0].style.opacity", nil, c41preStr("0.5"))
	})
}

// 4. Delete of a reserved field (a.style.fill) that only the base sets.
func TestC41Pre_DeleteInheritedStyleField(t *testing.T) {
	const text = `a.style.fill: red
scenarios: {
  x: {
    a.style.opacity: 0.4
  }
  y: {
    c
  }
}
`
	c41preCheck(t, text, []string{"x"}, [][]string{{"y"}}, func(g *d2graph.Graph) (*d2graph.Graph, error) {
		return d2oracle.Delete(g, []string{"x"}, "a.style.fill")
	})
}

// 5. Rename (arrow change) of a connection in a LAYER; the root has an unrelated connection with the same key.
func TestC41Pre_RenameEdgeInLayer(t *testing.T) {
	const text = `a -> b
layers: {
  x: {
    a -> b
  }
}
`
	c41preCheck(t, text, []string{"x"}, nil, func(g *d2graph.Graph) (*d2graph.Graph, error) {
		g2, _, err := d2oracle.Rename(g, []string{"x"}, "(a -> b)[0]", "(a <- b)[0]")
		return g2, err
	})
}

// 6. Delete of an inherited container whose child would collide with a scenario-local shape once hoisted.
func TestC41Pre_DeleteConflictRename(t *testing.T) {
	const text = `a: {b}
scenarios: {
  x: {
    b
  }
  y: {
    c
  }
}
`
	c41preCheck(t, text, []string{"x"}, [][]string{{"y"}}, func(g *d2graph.Graph) (*d2graph.Graph, error) {
		return d2oracle.Delete(g, []string{"x"}, "a")
	})
}

// 7. Move of a scenario-local shape into an inherited container that has a map on the base.
func TestC41Pre_MoveIntoInheritedContainer(t *testing.T) {
	const text = `b: {k}
scenarios: {
  x: {
    c
  }
  y: {
    d
  }
}
`
	c41preCheck(t, text, []string{"x"}, [][]string{{"y"}}, func(g *d2graph.Graph) (*d2graph.Graph, error) {
		return d2oracle.Move(g, []string{"x"}, "c", "b.c", false)
	})
}

// 8. Set of a step-2 attribute that step 1 defines: the earlier step must not change.
func TestC41Pre_SetInLaterStepChangesEarlierStep(t *testing.T) {
	const text = `r
steps: {
  s1: {
    p: {shape: circle}
  }
  s2: {
    p.style.fill: red
  }
}
`
	c41preCheck(t, text, []string{"s2"}, [][]string{{"s1"}}, func(g *d2graph.Graph) (*d2graph.Graph, error) {
		return d2oracle.Set(g, []string{"s2"}, "p.shape", nil, c41preStr("square"))
	})
}
