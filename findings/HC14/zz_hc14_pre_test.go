package d2compiler_test

// Copy into: d2compiler/   (package d2compiler_test)
//
// Each test compiles a small set of files through the real compiler with an in-memory
// file system and compares what the import produced with what the property C14 requires
// (the result of writing the imported file's content at the place of the import).

import (
	"fmt"
	"sort"
	"strings"
	"testing"
	"testing/fstest"

	"oss.terrastruct.com/d2/d2compiler"
	"oss.terrastruct.com/d2/d2graph"
)

func hc14Compile(files map[string]string) (*d2graph.Graph, error) {
	mfs := fstest.MapFS{}
	for k, v := range files {
		mfs[k] = &fstest.MapFile{Data: []byte(v)}
	}
	g, _, err := d2compiler.Compile("index.d2", strings.NewReader(files["index.d2"]), &d2compiler.CompileOptions{FS: mfs})
	return g, err
}

func hc14Files(files map[string]string) string {
	var names []string
	for k := range files {
		names = append(names, k)
	}
	sort.Strings(names)
	var sb strings.Builder
	for _, n := range names {
		fmt.Fprintf(&sb, "  %s: %q\n", n, files[n])
	}
	return sb.String()
}

func hc14Obj(g *d2graph.Graph, absID string) *d2graph.Object {
	for _, o := range g.Objects {
		if o.AbsID() == absID {
			return o
		}
	}
	return nil
}

func hc14Icon(o *d2graph.Object) string {
	if o == nil {
		return "<no such object>"
	}
	if o.Icon == nil {
		return "<nil>"
	}
	return o.Icon.String()
}

func hc14Link(o *d2graph.Object) string {
	if o == nil {
		return "<no such object>"
	}
	if o.Link == nil {
		return "<nil>"
	}
	return o.Link.Value
}

func hc14Fill(o *d2graph.Object) string {
	if o == nil {
		return "<no such object>"
	}
	if o.Style.Fill == nil {
		return "<nil>"
	}
	return o.Style.Fill.Value
}

// `x: @dir/file.key` (non-spread import of an import key) does not rebase relative icons,
// while `x: @dir/file` and `x: {...@dir/file.key}` do.
func TestHC14Pre_KeyImportIconNotRebased(t *testing.T) {
	files := map[string]string{
		"index.d2": "x: @a/y.k\nw: {...@a/y.k}\n",
		"a/y.d2":   "k: {icon: ./i.png}\n",
	}
	g, err := hc14Compile(files)
	if err != nil {
		t.Fatalf("files:\n%sunexpected error: %v", hc14Files(files), err)
	}
	gotX, gotW := hc14Icon(hc14Obj(g, "x")), hc14Icon(hc14Obj(g, "w"))
	if gotX != "a/i.png" || gotW != "a/i.png" {
		t.Fatalf("files:\n%sicon of x (x: @a/y.k) = %q, icon of w (w: {...@a/y.k}) = %q; the property requires both to be the rebased %q", hc14Files(files), gotX, gotW, "a/i.png")
	}
}

// `a -> b: @y` is silently ignored: nothing of y reaches the edge, and even an import
// cycle through it is not reported.
func TestHC14Pre_EdgeValueImportIgnored(t *testing.T) {
	files := map[string]string{
		"index.d2": "a -> b: @y\n",
		"y.d2":     "style.stroke: red\n",
	}
	g, err := hc14Compile(files)
	if err != nil {
		t.Fatalf("files:\n%sunexpected error: %v", hc14Files(files), err)
	}
	if len(g.Edges) != 1 {
		t.Fatalf("files:\n%sexpected 1 edge, got %d", hc14Files(files), len(g.Edges))
	}
	stroke := "<nil>"
	if g.Edges[0].Style.Stroke != nil {
		stroke = g.Edges[0].Style.Stroke.Value
	}
	if stroke != "red" {
		t.Errorf("files:\n%sedge stroke = %q; inlining (a -> b: {style.stroke: red}) gives %q", hc14Files(files), stroke, "red")
	}

	cyc := map[string]string{"index.d2": "a -> b: @index\n"}
	_, err = hc14Compile(cyc)
	if err == nil || !strings.Contains(err.Error(), "cyclic import") {
		t.Errorf("files:\n%sa file importing itself must be reported as an import cycle, got err = %v", hc14Files(cyc), err)
	}
}

// A spread import rebases the icons of everything that is already in the target map,
// not only those of the imported content: a second spread import re-rebases the icons
// brought in by the first one.
func TestHC14Pre_SpreadImportRebasesExistingIcons(t *testing.T) {
	files := map[string]string{
		"index.d2": "...@a/x\n...@b/y\n",
		"a/x.d2":   "p: {icon: ./i.png}\n",
		"b/y.d2":   "q: {icon: ./j.png}\n",
	}
	g, err := hc14Compile(files)
	if err != nil {
		t.Fatalf("files:\n%sunexpected error: %v", hc14Files(files), err)
	}
	gotP, gotQ := hc14Icon(hc14Obj(g, "p")), hc14Icon(hc14Obj(g, "q"))
	if gotP != "a/i.png" || gotQ != "b/j.png" {
		t.Errorf("files:\n%sicon of p = %q, icon of q = %q; the property requires %q and %q", hc14Files(files), gotP, gotQ, "a/i.png", "b/j.png")
	}

	files2 := map[string]string{
		"index.d2": "p: {icon: ./local.png}\n...@b/y\n",
		"b/y.d2":   "q\n",
	}
	g, err = hc14Compile(files2)
	if err != nil {
		t.Fatalf("files:\n%sunexpected error: %v", hc14Files(files2), err)
	}
	if got := hc14Icon(hc14Obj(g, "p")); got != "./local.png" && got != "local.png" {
		t.Errorf("files:\n%sicon of p, which is written in index.d2 itself, = %q; want it untouched (./local.png)", hc14Files(files2), got)
	}
}

// A glob of the importing map written above a spread import is not applied to the imported
// objects, unless some later key of the same map happens to trigger a re-application.
func TestHC14Pre_ImporterGlobSkipsSpreadImport(t *testing.T) {
	files := map[string]string{
		"index.d2": "*.style.fill: red\n...@y\n",
		"y.d2":     "a; b\n",
	}
	g, err := hc14Compile(files)
	if err != nil {
		t.Fatalf("files:\n%sunexpected error: %v", hc14Files(files), err)
	}
	got := "a=" + hc14Fill(hc14Obj(g, "a")) + " b=" + hc14Fill(hc14Obj(g, "b"))
	if want := "a=red b=red"; got != want {
		t.Errorf("files:\n%sfills: %s\ninlining (*.style.fill: red; a; b) gives: %s", hc14Files(files), got, want)
	}

	files2 := map[string]string{
		"index.d2": "x: {\n  *.style.fill: blue\n  ...@y\n}\n",
		"y.d2":     "a; b\n",
	}
	g, err = hc14Compile(files2)
	if err != nil {
		t.Fatalf("files:\n%sunexpected error: %v", hc14Files(files2), err)
	}
	got = "x.a=" + hc14Fill(hc14Obj(g, "x.a")) + " x.b=" + hc14Fill(hc14Obj(g, "x.b"))
	if want := "x.a=blue x.b=blue"; got != want {
		t.Errorf("files:\n%sfills: %s\ninlining (x: {*.style.fill: blue; a; b}) gives: %s", hc14Files(files2), got, want)
	}
}

// While a glob edge looks into a container to decide whether it is a leaf, the file spread
// into the container is compiled a second time ("peeked"). The nested imports of the peeked
// file are resolved against the wrong directory and against the live import stack, so a
// perfectly acyclic import chain is reported as a missing file or as an import cycle.
func TestHC14Pre_PeekImportSpuriousErrors(t *testing.T) {
	files := map[string]string{
		"index.d2": "c\n** -> c\na: {...@sub/x}\n",
		"sub/x.d2": "...@y\n",
		"sub/y.d2": "p\n",
	}
	_, err := hc14Compile(files)
	if err != nil {
		t.Errorf("files:\n%sacyclic imports, inlining (c; ** -> c; a: {p}) compiles, but got error: %v", hc14Files(files), err)
	}
	files2 := map[string]string{
		"index.d2": "c\n** -> c\na: {...@x}\n",
		"x.d2":     "...@y\n",
		"y.d2":     "p\n",
	}
	_, err = hc14Compile(files2)
	if err != nil {
		t.Errorf("files:\n%sacyclic imports, inlining (c; ** -> c; a: {p}) compiles, but got error: %v", hc14Files(files2), err)
	}
}

// A board link inside a file imported into a plain container is prefixed with the
// container's path (root.x.layers.l), which can never be a board, and is then dropped.
// Written in place the link resolves against the enclosing board (root.layers.l).
func TestHC14Pre_LinkInContainerImportDropped(t *testing.T) {
	files := map[string]string{
		"index.d2": "x: @y\nlayers: {l: {z}}\n",
		"y.d2":     "a.link: layers.l\n",
	}
	g, err := hc14Compile(files)
	if err != nil {
		t.Fatalf("files:\n%sunexpected error: %v", hc14Files(files), err)
	}
	inl := map[string]string{"index.d2": "x: {\n  a.link: layers.l\n}\nlayers: {l: {z}}\n"}
	g2, err := hc14Compile(inl)
	if err != nil {
		t.Fatalf("unexpected error: %v", err)
	}
	got, want := hc14Link(hc14Obj(g, "x.a")), hc14Link(hc14Obj(g2, "x.a"))
	if got != want {
		t.Fatalf("files:\n%slink of x.a = %q; written in place (%q) it is %q", hc14Files(files), got, inl["index.d2"], want)
	}
}

// Importing a file that declares layers (or classes) into a plain container silently
// drops them; writing the same content in place is a compile error.
func TestHC14Pre_BoardKeywordsInContainerImportSilentlyDropped(t *testing.T) {
	files := map[string]string{
		"index.d2": "x: @y\n",
		"y.d2":     "classes: {k: {style.fill: red}}\na.class: k\nlayers: {l: {z}}\n",
	}
	g, err := hc14Compile(files)
	_, err2 := hc14Compile(map[string]string{"index.d2": "x: {\n" + files["y.d2"] + "}\n"})
	if err2 == nil {
		t.Fatalf("expected the inlined form to be rejected")
	}
	if err == nil {
		t.Fatalf("files:\n%scompiled without error (x.a fill = %q, %d layers); written in place the compiler rejects it: %v", hc14Files(files), hc14Fill(hc14Obj(g, "x.a")), len(g.Layers), err2)
	}
}

// A variable that the importing file redefines below a top-of-file spread import does not
// reach the imported content, because the imported file resolves ${} eagerly on its own.
func TestHC14Pre_ImporterVarOverrideIgnored(t *testing.T) {
	files := map[string]string{
		"index.d2": "...@y\nvars: {a: 2}\n",
		"y.d2":     "vars: {a: 1}\nx: ${a}\n",
	}
	g, err := hc14Compile(files)
	if err != nil {
		t.Fatalf("files:\n%sunexpected error: %v", hc14Files(files), err)
	}
	inl := "vars: {a: 1}\nx: ${a}\nvars: {a: 2}\n"
	g2, err := hc14Compile(map[string]string{"index.d2": inl})
	if err != nil {
		t.Fatalf("unexpected error: %v", err)
	}
	got, want := hc14Obj(g, "x").Label.Value, hc14Obj(g2, "x").Label.Value
	if got != want {
		t.Fatalf("files:\n%slabel of x = %q; written in place (%q) it is %q", hc14Files(files), got, inl, want)
	}
}

// The parent reference "_" at the top level of an imported file is rejected although the
// import target has a parent.
func TestHC14Pre_UnderscoreInImportedFile(t *testing.T) {
	files := map[string]string{
		"index.d2": "q\nx: @y\n",
		"y.d2":     "a -> _.q\n",
	}
	_, err := hc14Compile(files)
	_, err2 := hc14Compile(map[string]string{"index.d2": "q\nx: {\n  a -> _.q\n}\n"})
	if err2 != nil {
		t.Fatalf("inlined form unexpectedly fails: %v", err2)
	}
	if err != nil {
		t.Fatalf("files:\n%swritten in place (q; x: {a -> _.q}) this compiles to the edge x.a -> q, the import fails with: %v", hc14Files(files), err)
	}
}

// Objects and edges are ordered by the byte offset of their first reference, and offsets
// of different files are compared with each other, so imported objects and edges are
// interleaved with the importer's by accident of file layout.
func TestHC14Pre_OrderMixesOffsetsOfDifferentFiles(t *testing.T) {
	files := map[string]string{
		"index.d2": "...@y\nc\na -> b: three\n",
		"y.d2":     "# a comment that moves the offsets\na; b\na -> b: one\na -> b: two\n",
	}
	g, err := hc14Compile(files)
	if err != nil {
		t.Fatalf("files:\n%sunexpected error: %v", hc14Files(files), err)
	}
	var objs, edges []string
	for _, o := range g.Objects {
		objs = append(objs, o.AbsID())
	}
	for _, e := range g.Edges {
		edges = append(edges, e.Label.Value)
	}
	got := strings.Join(objs, ",") + " | " + strings.Join(edges, ",")
	want := "a,b,c | one,two,three"
	if got != want {
		t.Fatalf("files:\n%sobject | edge order = %s; written in place it is %s", hc14Files(files), got, want)
	}
}
