package main

import (
	"encoding/json"
	"fmt"
	"os"
	"path/filepath"
	"sort"
	"strings"

	"d2verif/internal/core"
	"d2verif/internal/props"
)

// Mutant is an in-memory edit of one repository file (applied through packages.Config.Overlay;
// the repository is never copied or written). Expect is a substring of the obligation key that
// must newly become violated; Expect == "" marks a behaviour-preserving edit that must stay silent.
type Mutant struct {
	Name    string `json:"name"`
	File    string `json:"file"`
	Find    string `json:"find"`
	Replace string `json:"replace"`
	Expect  string `json:"expect"`
	Nth     int    `json:"nth,omitempty"` // which occurrence of Find (1-based, default: must be unique)
	More    []struct {
		Find    string `json:"find"`
		Replace string `json:"replace"`
	} `json:"more,omitempty"` // further edits of the same file (each Find unique), for changes that touch several places
}

func analyze(id, tier string, seed int, overlay map[string][]byte) *core.Check {
	p := props.Get(id)
	c := core.NewCheck(id, tier, seed)
	c.Explanation = p.Explanation
	c.NotCovered = p.NotCovered
	c.Trust = p.Trust
	func() {
		defer func() {
			if r := recover(); r != nil {
				if os.Getenv("D2VERIF_DEBUG") != "" {
					panic(r)
				}
				c.Broken("analyzer panic: %v", r)
			}
		}()
		prog, err := core.Load(core.LoadOpts{Patterns: p.Patterns, All: p.All, MinRoots: 1, Overlay: overlay})
		if err != nil {
			c.Broken("%v", err)
			return
		}
		c.P = prog
		p.Run(c)
		if tier == "thorough" && p.Thorough != nil {
			p.Thorough(c)
		}
	}()
	return c
}

func violatedKeys(c *core.Check) map[string]bool {
	out := map[string]bool{}
	for _, o := range c.Obs {
		if o.Status == core.Violated {
			out[o.Rule+" "+o.Key] = true
		}
	}
	for _, b := range c.BrokenList() {
		out["BROKEN "+b] = true
	}
	return out
}

// runMutants applies every mutant of a property and reports whether each is detected.
func runMutants(id string, verbose bool) (fired, total int, failures []string) {
	b, err := os.ReadFile(filepath.Join(core.VerifDir, "fixtures", "mutants", id+".json"))
	if err != nil {
		return 0, 0, nil
	}
	var ms []Mutant
	if err := json.Unmarshal(b, &ms); err != nil {
		return 0, 0, []string{"mutant file unreadable: " + err.Error()}
	}
	base := violatedKeys(analyze(id, "quick", 0, nil))
	for _, m := range ms {
		total++
		path := filepath.Join(core.RepoDir, m.File)
		src, err := os.ReadFile(path)
		if err != nil {
			failures = append(failures, m.Name+": stale (file missing)")
			continue
		}
		s := string(src)
		n := strings.Count(s, m.Find)
		var mutated string
		switch {
		case n == 0:
			fmt.Printf("  STALE  %s: text to replace no longer exists\n", m.Name)
			total--
			continue
		case m.Nth > 0 && m.Nth <= n:
			idx := -1
			off := 0
			for i := 0; i < m.Nth; i++ {
				j := strings.Index(s[off:], m.Find)
				idx = off + j
				off = idx + len(m.Find)
			}
			mutated = s[:idx] + m.Replace + s[idx+len(m.Find):]
		case n == 1:
			mutated = strings.Replace(s, m.Find, m.Replace, 1)
		default:
			failures = append(failures, fmt.Sprintf("%s: find text occurs %d times, set nth", m.Name, n))
			continue
		}
		staleMore := false
		for _, e := range m.More {
			if strings.Count(mutated, e.Find) != 1 {
				staleMore = true
				break
			}
			mutated = strings.Replace(mutated, e.Find, e.Replace, 1)
		}
		if staleMore {
			fmt.Printf("  STALE  %s: text of a further edit no longer exists (or is not unique)\n", m.Name)
			total--
			continue
		}
		c := analyze(id, "quick", 0, map[string][]byte{path: []byte(mutated)})
		now := violatedKeys(c)
		var fresh []string
		for k := range now {
			if !base[k] {
				fresh = append(fresh, k)
			}
		}
		sort.Strings(fresh)
		if m.Expect == "" {
			if len(fresh) == 0 {
				fired++
				fmt.Printf("  QUIET  %s (behaviour-preserving edit, no alarm)\n", m.Name)
			} else {
				failures = append(failures, fmt.Sprintf("%s: behaviour-preserving edit raised %v", m.Name, fresh))
			}
			continue
		}
		hit := false
		for _, k := range fresh {
			if strings.Contains(k, m.Expect) {
				hit = true
			}
		}
		if hit {
			fired++
			if verbose {
				fmt.Printf("  FIRED  %s → %v\n", m.Name, fresh)
			} else {
				fmt.Printf("  FIRED  %s\n", m.Name)
			}
		} else {
			failures = append(failures, fmt.Sprintf("%s: expected a new violation matching %q, got %v", m.Name, m.Expect, fresh))
		}
	}
	return
}
