package main

import (
	"bufio"
	"encoding/json"
	"fmt"
	"os"
	"path/filepath"

	"d2verif/internal/core"
	"d2verif/internal/props"
)

// notApplicable gives the reason for properties that are deliberately not claimed.
var notApplicable = map[string]string{
}

func writeManifest() error {
	f, err := os.Open(filepath.Join(core.VerifDir, "properties.jsonl"))
	if err != nil {
		return err
	}
	defer f.Close()
	var ids []string
	sc := bufio.NewScanner(f)
	sc.Buffer(make([]byte, 1<<20), 1<<22)
	for sc.Scan() {
		var p struct {
			ID string `json:"id"`
		}
		if json.Unmarshal(sc.Bytes(), &p) == nil && p.ID != "" {
			ids = append(ids, p.ID)
		}
	}
	var checks []map[string]any
	na := []map[string]any{}
	for _, id := range ids {
		p := props.Get(id)
		if p == nil {
			r, ok := notApplicable[id]
			if !ok {
				r = "engine not yet armed: the clauses designed for this property (DESIGN.md §5) have no checker with a positive control and firing mutants yet, so nothing is claimed"
			}
			na = append(na, map[string]any{"property_id": id, "reason": r})
			continue
		}
		tech := p.Technique
		if tech == "" {
			tech = "static analysis: typed AST + CFG path rules"
		}
		checks = append(checks, map[string]any{
			"property_id":         id,
			"quick_cmd":           "./run.sh " + id + " quick",
			"thorough_cmd":        "./run.sh " + id + " thorough",
			"evidence_file":       "/verif/evidence/" + id + ".json",
			"replay_cmd_template": "./run.sh explain {path}",
			"engine":              "d2verif",
			"level_claimed": map[string]any{
				"category":   "other",
				"text":       "Static analysis of /repo's current source, exhaustive over the stated scope (all paths of all functions in scope, i.e. all inputs/schedules at once), of structural necessary conditions of the property — not the behaviour itself. " + p.Explanation + " Not decided: " + p.NotCovered + ".",
				"design_ref": "DESIGN.md Appendix A, " + id,
			},
			"level_note": "Trusted: go/types, go/cfg and go/ssa (x/tools v0.29.0) model the program; dependencies are type-checked, not analysed; reviewed exception tables in the checker (one reason per entry). " + fmt.Sprint(p.Trust),
			"technique":  tech,
		})
	}
	m := map[string]any{
		"version":   1,
		"setup_cmd": "./setup.sh",
		"hooks": map[string]any{
			"guard":            "verif",
			"enable":           "no hooks: the analysis reads the source; nothing in /repo is instrumented",
			"baseline_off_cmd": "./tools/baseline.sh",
			"source_commits":   []string{},
			"add_only":         true,
		},
		"engines": []map[string]any{{
			"name": "d2verif", "path": "cmd/d2verif", "serves_properties": props.IDs(),
			"kind_free_text": "repository-specific static analyses over go/packages typed ASTs, go/cfg control-flow graphs and go/ssa (dominance, must-pass-through, guards, locksets, taint, table agreement)",
		}},
		"checks":         checks,
		"not_applicable": na,
		"notes":          "All checks read /repo's working tree on every run; nothing is executed. Violations listed in known_findings.json (status open) print KNOWN-FINDING and exit 0.",
	}
	b, _ := json.MarshalIndent(m, "", " ")
	return os.WriteFile(filepath.Join(core.VerifDir, "MANIFEST.json"), append(b, '\n'), 0o644)
}
