// d2verif decides structural clauses of the d2 properties by static analysis of /repo's
// current working tree. Usage: d2verif check <ID|all> [--tier quick|thorough]
package main

import (
	"strings"
	"flag"
	"fmt"
	"os"
	"strconv"

	"d2verif/internal/props"
)

func main() {
	if len(os.Args) < 2 {
		usage()
	}
	switch os.Args[1] {
	case "check":
		fs := flag.NewFlagSet("check", flag.ExitOnError)
		tier := fs.String("tier", envOr("VERIF_TIER", "quick"), "quick or thorough")
		if len(os.Args) < 3 {
			usage()
		}
		id := os.Args[2]
		fs.Parse(os.Args[3:])
		seed, _ := strconv.Atoi(os.Getenv("VERIF_SEED"))
		ids := []string{id}
		if id == "all" {
			ids = props.IDs()
		}
		rc := 0
		for _, id := range ids {
			if r := runOne(id, *tier, seed); r > rc {
				rc = r
			}
		}
		os.Exit(rc)
	case "describe":
		for _, id := range props.IDs() {
			p := props.Get(id)
			fmt.Printf("### %s %s\n\n", p.ID, p.Title)
			fmt.Printf("**Decides.** %s\n\n", p.Explanation)
			if p.NotCovered != "" {
				fmt.Printf("**Not covered.** %s.\n\n", strings.TrimSuffix(p.NotCovered, "."))
			}
			if len(p.Trust) > 0 {
				fmt.Printf("**Assumes.** %s.\n\n", strings.Join(p.Trust, "; "))
			}
			fmt.Printf("**Method.** %s. Loads: %s.\n\n", p.Technique, strings.Join(props.PatternsOf(id), " "))
		}
	case "patterns":
		for _, id := range props.IDs() {
			fmt.Println(id, strings.Join(props.PatternsOf(id), " "))
		}
	case "mutants":
		ids := os.Args[2:]
		if len(ids) == 0 || ids[0] == "all" {
			ids = props.IDs()
		}
		rc := 0
		for _, id := range ids {
			fired, total, fails := runMutants(id, true)
			fmt.Printf("%s: %d/%d mutants behaved as expected\n", id, fired, total)
			for _, f := range fails {
				fmt.Println("  FAIL  " + f)
				rc = 1
			}
		}
		os.Exit(rc)
	case "dump":
		props.Dump(os.Args[2])
	case "manifest":
		if err := writeManifest(); err != nil {
			fmt.Println(err)
			os.Exit(2)
		}
	case "list":
		for _, id := range props.IDs() {
			fmt.Println(id, props.Get(id).Title)
		}
	case "explain":
		if len(os.Args) < 3 {
			usage()
		}
		b, err := os.ReadFile(os.Args[2])
		if err != nil {
			fmt.Println(err)
			os.Exit(2)
		}
		os.Stdout.Write(b)
		fmt.Println()
	default:
		usage()
	}
}

func runOne(id, tier string, seed int) (rc int) {
	if props.Get(id) == nil {
		fmt.Printf("unknown property %s\n", id)
		return 2
	}
	c := analyze(id, tier, seed, nil)
	if tier == "thorough" {
		fired, total, fails := runMutants(id, false)
		c.Note("mutant self-test (overlay edits of the current files): %d/%d behaved as expected", fired, total)
		for _, f := range fails {
			c.Broken("mutant self-test: %s", f)
		}
	}
	return c.Finish()
}

func envOr(k, d string) string {
	if v := os.Getenv(k); v != "" {
		return v
	}
	return d
}

func usage() {
	fmt.Println("usage: d2verif check <ID|all> [--tier quick|thorough] | list | explain <replay.json>")
	os.Exit(2)
}
