#!/usr/bin/env python3
"""tools/detect.py [seed-dir ...]

For every seeded change under /verif/seeded/<ID>-<V>/ (or the given directories): apply patch.diff to a scratch
worktree of /repo's HEAD (never to /repo itself), run every quick check against that worktree
(D2VERIF_REPO=<worktree>), and record in meta.json which properties' checks reported a violation there
("detected_by") and whether the seed's own property is among them. The scratch worktree and its evidence
directory live under /tmp/det and are removed at the end.
"""
import json, os, subprocess, sys, shutil, concurrent.futures, glob

VERIF = "/verif"
REPO = "/repo"
BASE = "/tmp/det"


def sh(cmd, cwd=None, env=None):
    return subprocess.run(cmd, shell=True, cwd=cwd, env=env, capture_output=True, text=True)


def worker(args):
    slot, seeds = args
    wt = f"{BASE}/wt{slot}"
    home = f"{BASE}/home{slot}"
    shutil.rmtree(home, ignore_errors=True)
    os.makedirs(home + "/evidence", exist_ok=True)
    shutil.copy(VERIF + "/known_findings.json", home + "/known_findings.json")
    sh(f"git -C {REPO} worktree remove --force {wt}")
    r = sh(f"git -C {REPO} worktree add -q --detach {wt} HEAD")
    if r.returncode != 0:
        return [(s, {"error": r.stderr}) for s in seeds]
    env = dict(os.environ, D2VERIF_REPO=wt, D2VERIF_HOME=home, GOFLAGS="-mod=mod", GOPROXY="off")
    env.pop("GOWORK", None)
    out = []
    for seed in seeds:
        sh("git checkout -q -- . && git clean -fdq", cwd=wt)
        patch = os.path.join(seed, "patch.diff")
        how = "git apply"
        r = sh(f"git apply {patch}", cwd=wt)
        if r.returncode != 0:
            how = "git apply --3way"
            r = sh(f"git apply --3way {patch} && git reset -q", cwd=wt)
        if r.returncode != 0:
            sh("git checkout -q -- . ; git reset -q --hard", cwd=wt)
            out.append((seed, {"applies_to_head": False, "apply_error": r.stderr.strip()[-300:]}))
            continue
        b = sh("go build ./...", cwd=wt, env=env)
        if b.returncode != 0:
            out.append((seed, {"applies_to_head": True, "builds": False, "build_error": b.stderr.strip()[-300:]}))
            continue
        # checks whose loaded packages include a changed file's package (plus the seed's own property)
        changed = [l[6:].strip() for l in open(patch) if l.startswith("+++ b/")]
        dirs = {os.path.dirname(f) for f in changed}
        ids = []
        for pid, pats in PATTERNS.items():
            hit = False
            for pat in pats:
                pat = pat[2:] if pat.startswith("./") else pat
                for d in dirs:
                    if pat == "..." or pat == d or (pat.endswith("/...") and (d == pat[:-4] or d.startswith(pat[:-3]))):
                        hit = True
            own = os.path.basename(seed).split("-")[0]
            if hit or pid == own:
                ids.append(pid)
        viol = {}
        for pid in sorted(ids):
            r = sh(f"{VERIF}/bin/d2verif check {pid} --tier quick", cwd=VERIF, env=env)
            for line in r.stdout.splitlines():
                if line.startswith("VIOLATION property="):
                    q = line.split("property=")[1].split()[0]
                    viol[q] = viol.get(q, 0) + 1
        out.append((seed, {"applies_to_head": True, "applied_with": how, "builds": True, "checks_run": sorted(ids), "violations": viol}))
    sh(f"git -C {REPO} worktree remove --force {wt}")
    shutil.rmtree(home, ignore_errors=True)
    return out


PATTERNS = {}


def main():
    for line in sh(f"{VERIF}/bin/d2verif patterns").stdout.splitlines():
        parts = line.split()
        if parts:
            PATTERNS[parts[0]] = parts[1:]
    seeds = sys.argv[1:] or sorted(d for d in glob.glob(VERIF + "/seeded/C*-*") if os.path.isfile(d + "/patch.diff"))
    os.makedirs(BASE, exist_ok=True)
    nslots = int(os.environ.get("DETECT_JOBS", "3"))
    chunks = [(i, seeds[i::nslots]) for i in range(nslots)]
    head = sh(f"git -C {REPO} log --format=%h -1").stdout.strip()
    with concurrent.futures.ThreadPoolExecutor(nslots) as ex:
        for res in ex.map(worker, chunks):
            for seed, info in res:
                mp = os.path.join(seed, "meta.json")
                meta = json.load(open(mp)) if os.path.exists(mp) else {}
                meta["detection"] = dict(info, repo_head=head, ran="bin/d2verif check <ID> --tier quick, for every property whose check loads a package the patch touches, with D2VERIF_REPO=<scratch worktree with patch.diff applied>")
                if "violations" in info:
                    meta["detected_by"] = sorted(info["violations"])
                    meta["own_property_detects"] = meta.get("property") in info["violations"]
                json.dump(meta, open(mp, "w"), indent=1)
                print(os.path.basename(seed), info.get("violations", info))
    shutil.rmtree(BASE, ignore_errors=True)


if __name__ == "__main__":
    main()
