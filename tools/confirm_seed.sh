#!/bin/bash
# tools/confirm_seed.sh <prop> <variant> <src-dir> <demo-dest-pkg-dir> <run-regex> "<needs>" [extra go test flags]
# Confirms a seeded change in a scratch worktree (never in /repo): it applies, builds, the demo fails with it
# and passes without it, and the pinned suite's stable tests still pass with it. Records it under /verif/seeded/.
set -u
prop=$1; var=$2; src=$3; dest=$4; re=$5; needs=$6; shift 6; extra="$*"
unset GOWORK; export GOFLAGS=-mod=mod GOPROXY=off
wt=/tmp/cs/$prop$var
out=/verif/seeded/$prop-$var
rm -rf "$wt"; mkdir -p /tmp/cs "$out/demo"
git -C /repo worktree add -q --detach "$wt" HEAD || exit 2
log="$out/confirm.log"; : > "$log"
cleanup() { git -C /repo worktree remove --force "$wt" >/dev/null 2>&1; }
trap cleanup EXIT
cp "$src/patch.diff" "$out/patch.diff"; cp -r "$src/demo/." "$out/demo/"
( cd "$wt" && git apply "$out/patch.diff" ) >>"$log" 2>&1 || { echo "RESULT $prop-$var: patch does not apply" | tee -a "$log"; exit 1; }
( cd "$wt" && go build ./... ) >>"$log" 2>&1 || { echo "RESULT $prop-$var: does not build" | tee -a "$log"; exit 1; }
mkdir -p "$wt/$dest"; cp "$out"/demo/*_test.go "$wt/$dest/" 2>/dev/null
( cd "$wt" && timeout 600 go test -vet=off -count=1 $extra -run "$re" "./$dest/" ) >"$out/demo_with_change.log" 2>&1; with=$?
rm -f "$wt/$dest"/zz_*_test.go
( cd "$wt" && go test -json -vet=off -count=1 -timeout 25m ./... ) > /tmp/cs/$prop$var.json 2>/dev/null
python3 - /tmp/cs/$prop$var.json > "$out/suite_with_change.txt" <<'PY'
import json,sys
base=json.load(open('/root/.vp/BASELINE.json')); want=set(base['stable_pass']); passed=set()
for l in open(sys.argv[1]):
    try: e=json.loads(l)
    except Exception: continue
    if e.get('Action')=='pass' and e.get('Test'): passed.add(e['Package']+'::'+e['Test'])
missing=sorted(want-passed)
print(f"stable_pass={len(want)} passed_now={len(passed)} missing={len(missing)}")
for m in missing: print("MISSING", m)
PY
# re-run any missing test once alone (load-sensitive e2e tests)
miss=$(grep '^MISSING' "$out/suite_with_change.txt" | awk '{print $2}')
still=0
for m in $miss; do
  pkg=${m%%::*}; t=${m#*::}; rel=${pkg#oss.terrastruct.com/d2}; rel=${rel#/}
  ( cd "$wt" && go test -vet=off -count=1 -run "^$(echo "$t" | sed 's#/#$/^#g')\$" "./$rel/" ) >>"$log" 2>&1 || still=$((still+1))
done
echo "missing-after-rerun=$still" >> "$out/suite_with_change.txt"
( cd "$wt" && git checkout -q -- . )
mkdir -p "$wt/$dest"; cp "$out"/demo/*_test.go "$wt/$dest/" 2>/dev/null
( cd "$wt" && timeout 600 go test -vet=off -count=1 $extra -run "$re" "./$dest/" ) >"$out/demo_without_change.log" 2>&1; without=$?
rm -f "$wt/$dest"/zz_*_test.go
rm -f /tmp/cs/$prop$var.json
verdict=rejected
if [ $with -ne 0 ] && [ $without -eq 0 ] && [ $still -eq 0 ]; then verdict=confirmed; fi
python3 - "$out" "$prop" "$var" "$dest" "$re" "$needs" "$with" "$without" "$still" "$verdict" "$extra" <<'PY'
import json,sys
out,prop,var,dest,re_,needs,w,wo,still,verdict,extra=sys.argv[1:12]
json.dump({"property":prop,"variant":var,"breaks":prop,"needs_to_manifest":needs,
 "demo":{"copy":"demo/*_test.go -> "+dest+"/","command":f"go test -vet=off -count=1 {extra} -run '{re_}' ./{dest}/"},
 "confirmed_in_scratch_worktree":{"builds":True,"demo_exit_with_change":int(w),"demo_exit_without_change":int(wo),
   "stable_tests_missing_with_change_after_rerun":int(still)},
 "verdict":verdict,"detected_by":[]},open(out+"/meta.json","w"),indent=1)
PY
echo "RESULT $prop-$var: $verdict (demo with=$with without=$without, stable missing after rerun=$still)" | tee -a "$log"
