#!/usr/bin/env python3
"""tools/matrix.py — prints the seeded-change × check table (markdown) from /verif/seeded/*/meta.json."""
import json, glob, os

# when the rule that reports the seed was written, relative to my reading of the seeding agent's report:
#   before  – the rule existed (or was written) before the report was read
#   planned – the clause was in the round-0 plan; the check was written after the report had been read
#   after   – the rule was added or strengthened after the seed had slipped through (or after its report was read)
#   missed  – no rule reports it
WHEN = {
 "C45-A":"before","C45-B":"before","C16-A":"before","C16-B":"before","C14-A":"before","C14-B":"before",
 "C30-A":"before","C30-B":"before","C08-A":"before","C08-B":"before","C44-A":"before","C44-B":"before",
 "C46-A":"before","C46-B":"before","C31-A":"before","C31-B":"before","C48-A":"before","C48-B":"before",
 "C36-A":"before","C36-B":"after","C34-A":"missed","C34-B":"before","C07-A":"before","C07-B":"before",
 "C17-A":"before","C17-B":"missed","C25-A":"before","C25-B":"after",
 "C13-A":"before","C13-B":"after","C15-A":"after","C15-B":"after","C10-A":"after","C10-B":"missed",
 "C01-A":"planned","C01-B":"after","C12-A":"after","C12-B":"after","C18-A":"after","C18-B":"after",
 "C05-A":"planned","C05-B":"after","C03-A":"after","C03-B":"after",
 "C04-A":"after","C04-B":"after","C09-A":"before","C09-B":"after","C06-A":"before","C06-B":"after",
 "C02-A":"missed","C02-B":"after","C35-A":"after","C35-B":"before","C27-A":"after","C27-B":"after",
 "C32-A":"before","C32-B":"missed","C33-A":"planned","C33-B":"planned",
 "C29-A":"after","C29-B":"after","C23-A":"after","C23-B":"missed","C19-A":"after","C19-B":"after","C21-A":"missed","C21-B":"after","C24-A":"missed","C24-B":"after","C22-A":"after","C22-B":"missed","C20-A":"after","C20-B":"after","C41-A":"after","C41-B":"after","C11-C":"after","C11-D":"missed","C19-C":"missed","C19-D":"before","C20-C":"after","C20-D":"before","C22-C":"after","C22-D":"before","C37-C":"missed","C37-D":"before","C40-C":"before","C40-D":"before","C41-C":"before","C41-D":"after","C42-C":"after","C42-D":"before","C11-A":"after","C11-B":"before","C40-A":"after","C40-B":"after","C37-A":"after","C37-B":"after","C47-A":"after","C47-B":"after","C43-A":"before","C43-B":"before","C42-A":"missed","C42-B":"after","C28-A":"before","C28-B":"after","C26-A":"after","C26-B":"before",
}
rows = []
for d in sorted(glob.glob("/verif/seeded/C*-*")):
    mp = os.path.join(d, "meta.json")
    if not os.path.exists(mp):
        continue
    m = json.load(open(mp))
    name = os.path.basename(d)
    det = m.get("detection", {})
    if not det:
        status = "not run"
        by = ""
    elif m.get("obsolete_on_head"):
        status = "obsolete: no longer breaks the property on HEAD"
        by = ", ".join(m.get("detected_by", []))
    elif not det.get("applies_to_head", True):
        status = "patch no longer applies to HEAD"
        by = ", ".join(m.get("detected_by", []))
    else:
        by = ", ".join(m.get("detected_by", []))
        status = "reported" if by else "not reported"
    rows.append((name, m.get("verdict", "?"), m.get("needs_to_manifest", "")[:110], by, "yes" if m.get("own_property_detects") else ("no" if det else "?"), WHEN.get(name, m.get("when", "")), status))
print("| Seed | Confirmed | Needs to manifest | Reported by | Own property | Rule written | Status |")
print("|---|---|---|---|---|---|---|")
for r in rows:
    print("| " + " | ".join(str(x).replace("|", "\\|") for x in r) + " |")
n = len(rows)
rep = sum(1 for r in rows if r[3])
print(f"\n{n} confirmed seeded changes; {rep} reported by at least one check on the current tree "
      f"({sum(1 for r in rows if r[5]=='before')} by rules that predate my reading of the seed, {sum(1 for r in rows if r[5]=='planned')} by planned clauses written afterwards, "
      f"{sum(1 for r in rows if r[5]=='after')} after strengthening), {sum(1 for r in rows if r[5]=='missed')} not reported.")
