#!/bin/sh
# Regenerates DESIGN.md from DESIGN.tmpl.md: fills in the catalogue of claims and the detection matrix.
cd /verif || exit 2
${D2VERIF_BIN:-bin/d2verif} describe > /tmp/d2verif-describe.md
python3 tools/matrix.py > /tmp/d2verif-matrix.md
python3 - <<'PY'
t=open('/verif/DESIGN.tmpl.md').read()
t=t.replace('@@DESCRIBE@@', open('/tmp/d2verif-describe.md').read())
t=t.replace('@@MATRIX@@', open('/tmp/d2verif-matrix.md').read())
import glob,json
ms=[json.load(open(f)) for f in glob.glob('/verif/fixtures/mutants/C*.json')]
t=t.replace('@@NMUT@@', str(sum(len(m) for m in ms))).replace('@@NMUTP@@', str(len(ms)))
open('/verif/DESIGN.md','w').write(t)
PY
rm -f /tmp/d2verif-describe.md /tmp/d2verif-matrix.md
wc -l DESIGN.md
