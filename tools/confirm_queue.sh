#!/bin/bash
# tools/confirm_queue.sh <file>: each line = tab-separated arguments for confirm_seed.sh
# (prop, variant, source dir, demo destination package dir, -run regex, what it needs to manifest, extra go test flags);
# runs them one after another.
while IFS=$'\t' read -r prop var src dest re needs extra; do
  [ -z "$prop" ] && continue
  /verif/tools/confirm_seed.sh "$prop" "$var" "$src" "$dest" "$re" "$needs" $extra
done < "$1"
