#!/bin/sh
# Runs the repository's pinned test suite (guard off: this framework adds no hooks) and compares
# the passing set with /root/.vp/BASELINE.json's stable_pass list. Exit 0 when every stable test passes.
cd /repo || exit 2
unset GOWORK
export GOFLAGS=-mod=mod GOPROXY=off
out=${1:-/tmp/d2verif-baseline.json}
go test -json -vet=off -count=1 -timeout 25m ./... > "$out" 2>/dev/null
python3 - "$out" <<'PY'
import json,sys
base=json.load(open('/root/.vp/BASELINE.json'))
want=set(base['stable_pass'])
passed=set()
for l in open(sys.argv[1]):
    try: e=json.loads(l)
    except Exception: continue
    if e.get('Action')=='pass' and e.get('Test'):
        passed.add(e['Package']+'::'+e['Test'])
missing=sorted(want-passed)
print(f"stable_pass={len(want)} passed_now={len(passed)} missing={len(missing)}")
for m in missing[:40]: print("  MISSING", m)
sys.exit(1 if missing else 0)
PY
