#!/bin/sh
# Runs the repository's pinned test suite (guard off: this framework adds no hooks) and compares
# the passing set with /root/.vp/BASELINE.json's stable_pass list. Exit 0 when every stable test passes.
cd /repo || exit 2
unset GOWORK
export GOFLAGS=-mod=mod GOPROXY=off
out=${1:-/tmp/d2verif-baseline.json}
go test -json -vet=off -count=1 -timeout 25m ./... > "$out" 2>/dev/null
python3 - "$out" <<'PY'
import json,sys
base=json.load(open('/root/.vp/BASELINE.json'))
want=set(base['stable_pass'])
passed=set()
for l in open(sys.argv[1]):
    try: e=json.loads(l)
    except Exception: continue
    if e.get('Action')=='pass' and e.get('Test'):
        passed.add(e['Package']+'::'+e['Test'])
missing=sorted(want-passed)
print(f"stable_pass={len(want)} passed_now={len(passed)} missing={len(missing)}")
# load-sensitive e2e tests (watch mode, CLI timeouts): re-run what is missing once, alone
import subprocess,re
still=[]
leaves=[m for m in missing if not any(o!=m and o.startswith(m+'/') for o in missing)]
for m in leaves:
    pkg,t=m.split('::',1)
    rel=pkg.replace('oss.terrastruct.com/d2','').lstrip('/') or '.'
    pat='/'.join('^'+re.escape(x)+'$' for x in t.split('/'))
    r=subprocess.run(['go','test','-vet=off','-count=1','-run',pat,'./'+rel+'/'],capture_output=True,text=True)
    if r.returncode!=0: still.append(m)
    print("  RERUN", m, "ok" if r.returncode==0 else "FAIL")
print(f"missing_after_rerun={len(still)}")
sys.exit(1 if still else 0)
PY
