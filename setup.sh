#!/bin/sh
# Builds the checker offline from the module cache. No facts about /repo are baked in.
set -e
cd "$(dirname "$0")"
unset GOWORK
export GOFLAGS=-mod=mod GOPROXY=off
mkdir -p bin evidence
go build -o bin/d2verif ./cmd/d2verif
echo "built bin/d2verif"
