#!/bin/sh
# ./run.sh <Cxx> [quick|thorough]   |   ./run.sh explain <replay.json>
cd "$(dirname "$0")"
unset GOWORK
export GOFLAGS=-mod=mod GOPROXY=off
[ -x bin/d2verif ] || ./setup.sh >/dev/null || exit 2
if [ "$1" = "explain" ]; then exec bin/d2verif explain "$2"; fi
exec bin/d2verif check "$1" --tier "${2:-quick}"
