package props

import (
	"fmt"
	"go/ast"
	"go/constant"
	"go/token"
	"go/types"
	"math/big"
	"sort"
	"strings"

	"d2verif/internal/core"
)

func init() {
	register(&Prop{
		ID:       "C18",
		Title:    "Layout preserves the diagram's structure",
		Patterns: []string{"./d2layouts/...", "./d2graph", "./d2ast"},
		Explanation: "Decides conservation clauses of the nested-layout plumbing: (1) in ExtractSubgraph every edge of the graph is appended to exactly one of the nested / external / remaining lists and every object to exactly one of nested / remaining, on every path through one loop iteration (path enumeration over the loop body), and the remaining lists are stored back; " +
			"(2) InjectNested appends the nested graph's objects and edges back to the graph and re-attaches every root child with paired Children/ChildrenArray updates keyed by the lower-cased ID; (3) LayoutNested registers the order-restoring closure with defer before any extraction; every extracted[id] = … is paired with extractedOrder = append(…, id) and re-injection ranges over extractedOrder; " +
			"(4) the three constant-near sets of d2near are pairwise disjoint and their union equals d2ast.NearConstantsArray, so every constant-near graph is re-attached exactly once.",
		NotCovered: "engines that replace object pointers, internals of grid/sequence layout, order of elements inside engines",
		Technique:  "static analysis: exactly-once path enumeration over loop bodies, paired-update and set-partition checks on the typed AST",
		Run:        runC18,
	})
	register(&Prop{
		ID:       "C24",
		Title:    "Constant-near shapes are placed outside the diagram on the requested side",
		Patterns: []string{"./d2layouts/d2near", "./d2layouts", "./d2ast", "./d2graph"},
		Explanation: "Decides: (1) the near sets partition d2ast.NearConstantsArray and place()'s switch has a case for every constant; (2) by symbolic linear arithmetic over the expressions assigned in each case (atoms tl.X, tl.Y, br.X, br.Y, obj.Width, obj.Height, pad; w and h substituted from their definitions): a '…-left' case gives tl.X − (x + Width) = pad, a '…-right' case x − br.X = pad, a 'top-…' case tl.Y − (y + Height) = pad, a 'bottom-…' case y − br.Y = pad, with pad a positive constant, and a '…-center' case puts the shape's centre on the box's centre along the other axis; " +
			"(2b) every test for the default graph type in the nested-layout driver also excludes constant-near graphs, so a near container is never laid out as an ordinary nested graph or grid cell; (3) the outside-label adjustments only move the shape further out on its own side (sign and axis of each adjustment agree with the branch condition); (4) centre sets are placed before the corner set; (5) the bounding box used as reference resets each ±Inf accumulator pair unconditionally (a top-level test per axis) before it is returned.",
		NotCovered: "the bounding box contents themselves, overlaps among several near shapes",
		Technique:  "static analysis: set partition, switch exhaustiveness, linear normal-form arithmetic over the case expressions (abstract interpretation in the affine domain)",
		Run:        runC24,
	})
}

// ---- exactly-once path enumeration -------------------------------------------------------------

type outcome struct {
	count int
	done  bool // the iteration ended (continue)
}

// appendCounts enumerates, for every path through stmts, how many times `isHit` statements execute.
func appendCounts(stmts []ast.Stmt, isHit func(ast.Stmt) bool) map[outcome]bool {
	cur := map[outcome]bool{{0, false}: true}
	for _, st := range stmts {
		next := map[outcome]bool{}
		for o := range cur {
			if o.done {
				next[o] = true
				continue
			}
			for r := range stmtOutcomes(st, isHit) {
				next[outcome{o.count + r.count, r.done}] = true
			}
		}
		cur = next
		if len(cur) > 64 {
			break
		}
	}
	return cur
}

func stmtOutcomes(st ast.Stmt, isHit func(ast.Stmt) bool) map[outcome]bool {
	switch s := st.(type) {
	case *ast.IfStmt:
		out := map[outcome]bool{}
		for o := range appendCounts(s.Body.List, isHit) {
			out[o] = true
		}
		if s.Else != nil {
			var els []ast.Stmt
			switch e := s.Else.(type) {
			case *ast.BlockStmt:
				els = e.List
			default:
				els = []ast.Stmt{e}
			}
			for o := range appendCounts(els, isHit) {
				out[o] = true
			}
		} else {
			out[outcome{0, false}] = true
		}
		return out
	case *ast.BlockStmt:
		return appendCounts(s.List, isHit)
	case *ast.BranchStmt:
		if s.Tok == token.CONTINUE {
			return map[outcome]bool{{0, true}: true}
		}
		return map[outcome]bool{{0, true}: true}
	case *ast.ReturnStmt:
		return map[outcome]bool{{0, true}: true}
	case *ast.SwitchStmt:
		out := map[outcome]bool{}
		hasDefault := false
		for _, cl := range s.Body.List {
			cc := cl.(*ast.CaseClause)
			if cc.List == nil {
				hasDefault = true
			}
			for o := range appendCounts(cc.Body, isHit) {
				out[o] = true
			}
		}
		if !hasDefault {
			out[outcome{0, false}] = true
		}
		return out
	}
	if isHit(st) {
		return map[outcome]bool{{1, false}: true}
	}
	return map[outcome]bool{{0, false}: true}
}

func runC18(c *core.Check) {
	c.Rule("C18.partition", "ExtractSubgraph: each edge/object is appended to exactly one list on every iteration path; remaining lists stored back")
	c.Rule("C18.inject", "InjectNested appends nested objects and edges back and re-attaches root children with paired updates")
	c.Rule("C18.order", "LayoutNested defers restoreOrder before extracting; extracted/extractedOrder are updated together; injection follows extractedOrder")
	c.Rule("C18.near-sets", "d2near sets partition d2ast.NearConstantsArray")
	c.Rule("C18.parallel", "slices indexed in lock-step (B[i] inside a range over A) are appended to in pairs from the same source")
	c.Rule("C18.near-all", "d2near.Layout places and re-attaches every constant-near graph it was given")
	checkParallelSlices(c, "C18.parallel", "d2layouts")
	checkNearAll(c, "C18.near-all")
	ex := mustFunc(c, "d2layouts", "", "ExtractSubgraph")
	if ex != nil {
		info := ex.Pkg.TypesInfo
		edgesF := structField(c.P, "d2graph", "Graph", "Edges")
		objsF := structField(c.P, "d2graph", "Graph", "Objects")
		nloops := 0
		ast.Inspect(ex.Decl.Body, func(n ast.Node) bool {
			rs, ok := n.(*ast.RangeStmt)
			if !ok || rs.Value == nil {
				return true
			}
			f := core.FieldOf(info, rs.X)
			if f == nil || (f != edgesF && f != objsF) {
				return true
			}
			// only loops over the *container's* graph (g := container.Graph), not over nestedGraph
			if root := rootIdent(info, rs.X); root == nil || strings.Contains(root.Name(), "nested") {
				return true
			}
			v := core.ObjOf(info, rs.Value)
			hits := 0
			isHit := func(st ast.Stmt) bool {
				as, ok := st.(*ast.AssignStmt)
				if !ok || len(as.Rhs) != 1 {
					return false
				}
				call, ok := ast.Unparen(as.Rhs[0]).(*ast.CallExpr)
				if !ok {
					return false
				}
				if id, ok := call.Fun.(*ast.Ident); !ok || id.Name != "append" {
					return false
				}
				for _, a := range call.Args[1:] {
					if core.ObjOf(info, a) == v {
						hits++
						return true
					}
				}
				return false
			}
			outs := appendCounts(rs.Body.List, isHit)
			if hits == 0 {
				return true // not a partition loop
			}
			nloops++
			var bad []string
			for o := range outs {
				if o.count != 1 {
					bad = append(bad, fmt.Sprintf("%d", o.count))
				}
			}
			sort.Strings(bad)
			which := "edges"
			if f == objsF {
				which = "objects"
			}
			c.Decide(len(bad) == 0, "C18.partition", "ExtractSubgraph:"+which+":exactly-once", rs.Pos(), fmt.Sprintf("%d paths, each appends the element once", len(outs)),
				fmt.Sprintf("some iteration path appends the %s element %s times: the element is dropped from every list or duplicated", strings.TrimSuffix(which, "s"), strings.Join(bad, "/")))
			// the remaining list is stored back into the ranged field
			stored := false
			ast.Inspect(ex.Decl.Body, func(m ast.Node) bool {
				as, ok := m.(*ast.AssignStmt)
				if ok && len(as.Lhs) == 1 && core.FieldOf(info, as.Lhs[0]) == f && as.Pos() > rs.End() && exprStr(as.Lhs[0]) == exprStr(rs.X) {
					if _, isIdent := ast.Unparen(as.Rhs[0]).(*ast.Ident); isIdent {
						stored = true
					}
				}
				return true
			})
			c.Decide(stored, "C18.partition", "ExtractSubgraph:"+which+":remaining-stored", rs.Pos(), "remaining list assigned back", "the list of remaining "+which+" is not stored back into the graph")
			return true
		})
		if nloops != 2 {
			c.Fail("C18.partition", "ExtractSubgraph:loops", ex.Decl.Pos(), fmt.Sprintf("expected the edge and the object partition loops, found %d", nloops))
		}
	}
	if in := mustFunc(c, "d2layouts", "", "InjectNested"); in != nil {
		info := in.Pkg.TypesInfo
		sig := in.Obj.Type().(*types.Signature)
		nested := sig.Params().At(1)
		for _, field := range []string{"Objects", "Edges"} {
			fv := structField(c.P, "d2graph", "Graph", field)
			ok := false
			ast.Inspect(in.Decl.Body, func(n ast.Node) bool {
				as, isAs := n.(*ast.AssignStmt)
				if !isAs || len(as.Lhs) != 1 || core.FieldOf(info, as.Lhs[0]) != fv {
					return true
				}
				call, isCall := ast.Unparen(as.Rhs[0]).(*ast.CallExpr)
				if !isCall || len(call.Args) != 2 || !call.Ellipsis.IsValid() {
					return true
				}
				if exprStr(call.Args[0]) == exprStr(as.Lhs[0]) && core.FieldOf(info, call.Args[1]) == fv && rootIdent(info, call.Args[1]) == types.Object(nested) {
					ok = true
				}
				return true
			})
			c.Decide(ok, "C18.inject", "InjectNested:append-"+field, in.Decl.Pos(), "g."+field+" = append(g."+field+", nestedGraph."+field+"...)", "InjectNested does not append the nested graph's "+field+" back: they vanish from the diagram after a nested layout")
		}
		// re-attachment: in the loop over nestedGraph.Root.ChildrenArray: Parent =, Children[ToLower(ID)] =, ChildrenArray append
		found := false
		ast.Inspect(in.Decl.Body, func(n ast.Node) bool {
			rs, ok := n.(*ast.RangeStmt)
			if !ok || rs.Value == nil || !strings.HasSuffix(exprStr(rs.X), "Root.ChildrenArray") {
				return true
			}
			found = true
			v := core.ObjOf(info, rs.Value)
			setParent, setMap, setArr, keyOK := false, false, false, false
			for _, st := range rs.Body.List {
				as, ok := st.(*ast.AssignStmt)
				if !ok || len(as.Lhs) != 1 {
					continue
				}
				l := exprStr(as.Lhs[0])
				switch {
				case strings.HasSuffix(l, ".Parent") && rootIdent(info, as.Lhs[0]) == v:
					setParent = true
				case strings.Contains(l, ".Children["):
					setMap = core.ObjOf(info, as.Rhs[0]) == v
					ix := ast.Unparen(as.Lhs[0]).(*ast.IndexExpr)
					if call, ok := ast.Unparen(ix.Index).(*ast.CallExpr); ok && core.IsCallTo(info, call, "strings.ToLower") && exprStr(call.Args[0]) == v.Name()+".ID" {
						keyOK = true
					}
				case strings.HasSuffix(l, ".ChildrenArray"):
					if call, ok := ast.Unparen(as.Rhs[0]).(*ast.CallExpr); ok && len(call.Args) == 2 && core.ObjOf(info, call.Args[1]) == v {
						setArr = true
					}
				}
			}
			c.Decide(setParent && setMap && setArr && keyOK, "C18.inject", "InjectNested:reattach-children", rs.Pos(), "Parent, Children[ToLower(ID)] and ChildrenArray updated together",
				fmt.Sprintf("re-attaching a nested root child must set Parent (%v), Children under strings.ToLower(ID) (%v, key %v) and ChildrenArray (%v) together", setParent, setMap, keyOK, setArr))
			return true
		})
		if !found {
			c.Fail("C18.inject", "InjectNested:reattach-children", in.Decl.Pos(), "no loop over nestedGraph.Root.ChildrenArray found")
		}
	}
	if ln := mustFunc(c, "d2layouts", "", "LayoutNested"); ln != nil {
		info := ln.Pkg.TypesInfo
		fl := core.NewFlow(ln.Pkg, ln.Decl.Body)
		// defer restoreOrder() before any ExtractSubgraph
		var deferStmt *ast.DeferStmt
		ast.Inspect(ln.Decl.Body, func(n ast.Node) bool {
			if d, ok := n.(*ast.DeferStmt); ok && deferStmt == nil {
				if o := core.ObjOf(info, d.Call.Fun); o != nil {
					for _, df := range defsOf(ln, o) {
						if call, ok := ast.Unparen(df.Rhs).(*ast.CallExpr); ok && core.IsCallTo(info, call, "d2layouts.SaveOrder") {
							deferStmt = d
						}
					}
				}
			}
			return true
		})
		okDefer := deferStmt != nil
		if okDefer {
			for _, call := range callsIn(ln, false, "d2layouts.ExtractSubgraph") {
				if !fl.DominatesNode(deferStmt, call) {
					okDefer = false
				}
			}
		}
		c.Decide(okDefer, "C18.order", "LayoutNested:defer-restoreOrder", ln.Decl.Pos(), "defer restoreOrder() (from SaveOrder) dominates every extraction", "the saved object/edge order is not restored on every exit: re-injected sub-graphs end up appended at the end")
		// extracted[id] = … paired with extractedOrder append
		var mapObj, orderObj types.Object
		ast.Inspect(ln.Decl.Body, func(n ast.Node) bool {
			as, ok := n.(*ast.AssignStmt)
			if !ok || len(as.Lhs) != 1 {
				return true
			}
			if ix, ok := ast.Unparen(as.Lhs[0]).(*ast.IndexExpr); ok {
				if o := core.ObjOf(info, ix.X); o != nil {
					if mt, ok := o.Type().Underlying().(*types.Map); ok && strings.HasSuffix(types.TypeString(mt.Elem(), nil), "d2graph.Graph") {
						mapObj = o
					}
				}
			}
			return true
		})
		pairs, stores := 0, 0
		if mapObj != nil {
			ast.Inspect(ln.Decl.Body, func(n ast.Node) bool {
				blk, ok := n.(*ast.BlockStmt)
				if !ok {
					return true
				}
				for i, st := range blk.List {
					as, ok := st.(*ast.AssignStmt)
					if !ok || len(as.Lhs) != 1 {
						continue
					}
					ix, ok := ast.Unparen(as.Lhs[0]).(*ast.IndexExpr)
					if !ok || core.ObjOf(info, ix.X) != mapObj {
						continue
					}
					stores++
					// a sibling statement appends the same id to a []string
					for j, st2 := range blk.List {
						if j == i {
							continue
						}
						as2, ok := st2.(*ast.AssignStmt)
						if !ok || len(as2.Rhs) != 1 {
							continue
						}
						call, ok := ast.Unparen(as2.Rhs[0]).(*ast.CallExpr)
						if !ok || len(call.Args) != 2 {
							continue
						}
						if id, ok := call.Fun.(*ast.Ident); ok && id.Name == "append" && exprStr(call.Args[1]) == exprStr(ix.Index) {
							orderObj = core.ObjOf(info, call.Args[0])
							pairs++
							break
						}
					}
				}
				return true
			})
		}
		c.Decide(mapObj != nil && stores > 0 && pairs == stores, "C18.order", "LayoutNested:extracted-paired-with-order", ln.Decl.Pos(), fmt.Sprintf("%d stores, each paired with an append of the same id", stores),
			fmt.Sprintf("%d of %d stores into the extracted map have no matching append to the order list: that sub-graph is never re-injected (its objects disappear)", stores-pairs, stores))
		// injection loop ranges over the order slice
		rangesOrder := false
		ast.Inspect(ln.Decl.Body, func(n ast.Node) bool {
			if rs, ok := n.(*ast.RangeStmt); ok && orderObj != nil && core.ObjOf(info, rs.X) == orderObj {
				if len(callsInNode(info, rs.Body, "d2layouts.InjectNested")) > 0 {
					rangesOrder = true
				}
			}
			return true
		})
		c.Decide(rangesOrder, "C18.order", "LayoutNested:inject-in-extraction-order", ln.Decl.Pos(), "InjectNested is called in a loop over the order list", "re-injection does not follow the recorded extraction order (ranging over the map would make element order depend on map iteration)")
	}
	checkNearSets(c, "C18.near-sets")
}

func callsInNode(info *types.Info, n ast.Node, names ...string) []*ast.CallExpr {
	var out []*ast.CallExpr
	for _, call := range core.Calls(n, false) {
		if core.IsCallTo(info, call, names...) {
			out = append(out, call)
		}
	}
	return out
}

// checkNearSets: the d2near sets partition d2ast.NearConstantsArray.
func checkNearSets(c *core.Check, rule string) map[string]bool {
	all := literalKeys(c, "d2ast", "NearConstantsArray")
	sets := map[string]map[string]bool{}
	for _, name := range []string{"HorizontalCenterNears", "VerticalCenterNears", "NonCenterNears"} {
		sets[name] = literalKeys(c, "d2layouts/d2near", name)
	}
	if all == nil {
		return nil
	}
	union := map[string]bool{}
	names := sortedKeys(sets)
	for i, a := range names {
		if sets[a] == nil {
			return all
		}
		for k := range sets[a] {
			union[k] = true
		}
		for _, b := range names[i+1:] {
			var both []string
			for k := range sets[a] {
				if sets[b][k] {
					both = append(both, k)
				}
			}
			c.Decide(len(both) == 0, rule, "near-sets:disjoint:"+a+"/"+b, token.NoPos, "disjoint", fmt.Sprintf("%v is in both sets: that near graph is placed and re-attached twice", both))
		}
	}
	d1, d2 := setDiff(all, union), setDiff(union, all)
	c.Decide(len(d1) == 0 && len(d2) == 0, rule, "near-sets:union=NearConstantsArray", token.NoPos, fmt.Sprintf("%d constants", len(all)),
		fmt.Sprintf("constants in no placement set (never re-attached: the shape disappears): %v; unknown constants: %v", d1, d2))
	return all
}

// ---- linear forms ------------------------------------------------------------------------------

type linForm map[string]*big.Rat // atom → coefficient; "" is the constant term

func (a linForm) add(b linForm, k *big.Rat) linForm {
	out := linForm{}
	for x, c := range a {
		out[x] = new(big.Rat).Set(c)
	}
	for x, c := range b {
		t := new(big.Rat).Mul(c, k)
		if out[x] == nil {
			out[x] = t
		} else {
			out[x].Add(out[x], t)
		}
	}
	for x, c := range out {
		if c.Sign() == 0 {
			delete(out, x)
		}
	}
	return out
}

func (a linForm) String() string {
	var parts []string
	for _, x := range sortedKeys(a) {
		n := x
		if n == "" {
			n = "1"
		}
		parts = append(parts, a[x].RatString()+"·"+n)
	}
	if len(parts) == 0 {
		return "0"
	}
	return strings.Join(parts, " + ")
}

// linearize turns a Go arithmetic expression into a linear form; env substitutes local variables.
func linearize(info *types.Info, e ast.Expr, env map[types.Object]linForm) (linForm, bool) {
	e = ast.Unparen(e)
	if tv, ok := info.Types[e]; ok && tv.Value != nil {
		if r, ok := ratOf(tv.Value); ok {
			return linForm{"": r}, true
		}
	}
	switch x := e.(type) {
	case *ast.Ident:
		if o := info.Uses[x]; o != nil {
			if lf, ok := env[o]; ok {
				return lf, true
			}
			return linForm{x.Name: big.NewRat(1, 1)}, true
		}
	case *ast.SelectorExpr:
		return linForm{exprStr(x): big.NewRat(1, 1)}, true
	case *ast.CallExpr:
		// float64(x) conversions
		if tv, ok := info.Types[x.Fun]; ok && tv.IsType() && len(x.Args) == 1 {
			return linearize(info, x.Args[0], env)
		}
	case *ast.UnaryExpr:
		if x.Op == token.SUB {
			l, ok := linearize(info, x.X, env)
			if !ok {
				return nil, false
			}
			return linForm{}.add(l, big.NewRat(-1, 1)), true
		}
	case *ast.BinaryExpr:
		l, ok1 := linearize(info, x.X, env)
		r, ok2 := linearize(info, x.Y, env)
		if !ok1 || !ok2 {
			return nil, false
		}
		switch x.Op {
		case token.ADD:
			return l.add(r, big.NewRat(1, 1)), true
		case token.SUB:
			return l.add(r, big.NewRat(-1, 1)), true
		case token.MUL:
			if c, ok := constOnly(l); ok {
				return linForm{}.add(r, c), true
			}
			if c, ok := constOnly(r); ok {
				return linForm{}.add(l, c), true
			}
		case token.QUO:
			if c, ok := constOnly(r); ok && c.Sign() != 0 {
				return linForm{}.add(l, new(big.Rat).Inv(c)), true
			}
		}
	}
	return nil, false
}

func constOnly(l linForm) (*big.Rat, bool) {
	if len(l) == 0 {
		return big.NewRat(0, 1), true
	}
	if len(l) == 1 && l[""] != nil {
		return l[""], true
	}
	return nil, false
}

func ratOf(v constant.Value) (*big.Rat, bool) {
	switch v.Kind() {
	case constant.Int, constant.Float:
		r, ok := new(big.Rat).SetString(v.ExactString())
		return r, ok
	}
	return nil, false
}

func runC24(c *core.Check) {
	c.Rule("C24.sets", "near sets partition NearConstantsArray; place() has a case per constant")
	c.Rule("C24.affine", "per case, the assigned coordinates put the shape pad outside the box on the named side(s) and centred where the name says center")
	c.Rule("C24.label-adjust", "outside-label adjustments move the shape further out on its own side, along the matching axis")
	c.Rule("C24.order", "centre sets are placed before the corner set")
	c.Rule("C24.inf-reset", "boundingBox resets every ±Inf accumulator pair with a top-level test before returning")
	// a constant-near graph is never laid out as an ordinary nested graph: every test for the default graph type in
	// the nested-layout driver also excludes constant nears (directly or through GraphInfo.isDefault)
	c.Rule("C24.near-not-default", "tests for the default graph type exclude constant-near graphs")
	if lpk := c.P.Pkg("d2layouts"); lpk != nil {
		nd := 0
		for _, fi := range c.P.Funcs(lpk) {
			info := fi.Pkg.TypesInfo
			var fl *core.Flow
			ast.Inspect(fi.Decl.Body, func(n ast.Node) bool {
				be, ok := n.(*ast.BinaryExpr)
				if !ok || be.Op != token.EQL || !strings.HasSuffix(exprStr(be.X), ".DiagramType") || exprStr(be.Y) != "DefaultGraphType" {
					return true
				}
				nd++
				if fl == nil {
					fl = core.NewFlow(fi.Pkg, fi.Decl.Body)
				}
				recv := strings.TrimSuffix(exprStr(be.X), ".DiagramType")
				okn := false
				// same conjunction
				ast.Inspect(fi.Decl.Body, func(m ast.Node) bool {
					if conj, ok := m.(*ast.BinaryExpr); ok && conj.Op == token.LAND && conj.Pos() <= be.Pos() && be.End() <= conj.End() {
						if strings.Contains(exprStr(conj), "!"+recv+".IsConstantNear") {
							okn = true
						}
					}
					return true
				})
				for _, g := range fl.GuardsOfNode(be) {
					for _, a := range g.Atoms() {
						if !a.True && exprStr(a.Cond) == recv+".IsConstantNear" {
							okn = true
						}
					}
				}
				_ = info
				c.Decide(okn, "C24.near-not-default", "default-test:"+fname(fi), be.Pos(), "conjoined with !"+recv+".IsConstantNear", "a nested graph is treated as an ordinary (default) graph without excluding constant-near graphs: a near container inside a grid is laid out as a grid cell and never placed on its side of the diagram")
				return true
			})
		}
		if nd == 0 {
			c.Fail("C24.near-not-default", "default-test:none", token.NoPos, "no test for DefaultGraphType found in d2layouts")
		}
	} else {
		c.Broken("d2layouts not loaded")
	}
	all := checkNearSets(c, "C24.sets")
	pl := mustFunc(c, "d2layouts/d2near", "", "place")
	if pl == nil || all == nil {
		return
	}
	info := pl.Pkg.TypesInfo
	// environment: w := br.X - tl.X ; h := br.Y - tl.Y
	env := map[types.Object]linForm{}
	for _, st := range pl.Decl.Body.List {
		as, ok := st.(*ast.AssignStmt)
		if !ok || as.Tok != token.DEFINE || len(as.Lhs) != 1 || len(as.Rhs) != 1 {
			continue
		}
		if lf, ok := linearize(info, as.Rhs[0], env); ok {
			if o := info.Defs[as.Lhs[0].(*ast.Ident)]; o != nil {
				env[o] = lf
			}
		}
	}
	var padVal *big.Rat
	if po := pl.Pkg.Types.Scope().Lookup("pad"); po != nil {
		if cn, ok := po.(*types.Const); ok {
			padVal, _ = ratOf(cn.Val())
		}
	}
	c.Decide(padVal != nil && padVal.Sign() > 0, "C24.affine", "pad>0", pl.Decl.Pos(), "pad is a positive constant", "pad is not a positive constant: shapes are placed touching or inside the diagram")
	cases := caseClauses(pl, func(e ast.Expr) bool { return true })
	cmpSet := map[string]bool{}
	for k := range cases {
		cmpSet[k] = true
	}
	d1 := setDiff(all, cmpSet)
	c.Decide(len(d1) == 0, "C24.sets", "place:case-per-constant", pl.Decl.Pos(), fmt.Sprintf("%d cases", len(cases)), fmt.Sprintf("no case for %v: that shape is placed at (0,0) inside the diagram", d1))
	atom := func(s string) linForm { return linForm{s: big.NewRat(1, 1)} }
	one := big.NewRat(1, 1)
	neg := big.NewRat(-1, 1)
	half := big.NewRat(1, 2)
	for _, name := range sortedKeys(cases) {
		cc := cases[name]
		if !all[name] {
			continue
		}
		var xf, yf linForm
		for _, st := range cc.Body {
			as, ok := st.(*ast.AssignStmt)
			if !ok {
				continue
			}
			for i, l := range as.Lhs {
				if i >= len(as.Rhs) {
					continue
				}
				lf, ok := linearize(info, as.Rhs[i], env)
				if !ok {
					continue
				}
				switch exprStr(l) {
				case "x":
					xf = lf
				case "y":
					yf = lf
				}
			}
		}
		key := "place:" + name
		if xf == nil || yf == nil {
			c.Fail("C24.affine", key, cc.Pos(), "cannot read the x, y assignment of this case as linear expressions")
			continue
		}
		parts := strings.Split(name, "-")
		vert, horiz := parts[0], parts[1]
		check := func(what string, lhs linForm, want linForm) {
			diff := lhs.add(want, neg)
			c.Decide(len(diff) == 0, "C24.affine", key+":"+what, cc.Pos(), what+" holds identically", fmt.Sprintf("%s fails: difference is %s (should vanish identically)", what, diff))
		}
		padF := linForm{"": padVal}
		switch horiz {
		case "left":
			check("tl.X − (x + Width) = pad", atom("tl.X").add(xf, neg).add(atom("obj.Width"), neg), padF)
		case "right":
			check("x − br.X = pad", xf.add(atom("br.X"), neg), padF)
		case "center":
			check("x + Width/2 = (tl.X + br.X)/2", xf.add(atom("obj.Width"), half), linForm{}.add(atom("tl.X"), half).add(atom("br.X"), half))
		}
		switch vert {
		case "top":
			check("tl.Y − (y + Height) = pad", atom("tl.Y").add(yf, neg).add(atom("obj.Height"), neg), padF)
		case "bottom":
			check("y − br.Y = pad", yf.add(atom("br.Y"), neg), padF)
		case "center":
			check("y + Height/2 = (tl.Y + br.Y)/2", yf.add(atom("obj.Height"), half), linForm{}.add(atom("tl.Y"), half).add(atom("br.Y"), half))
		}
		_ = one
	}
	// label adjustments
	nadj := 0
	ast.Inspect(pl.Decl.Body, func(n ast.Node) bool {
		is, ok := n.(*ast.IfStmt)
		if !ok {
			return true
		}
		call, ok := ast.Unparen(is.Cond).(*ast.CallExpr)
		if !ok || !core.IsCallTo(info, call, "strings.Contains") || len(call.Args) != 2 {
			return true
		}
		tv, ok := info.Types[call.Args[1]]
		if !ok || tv.Value == nil {
			return true
		}
		side := constant.StringVal(tv.Value)
		wantVar, wantOp, wantDim := "", token.ILLEGAL, ""
		switch side {
		case "bottom":
			wantVar, wantOp, wantDim = "y", token.ADD_ASSIGN, "Height"
		case "top":
			wantVar, wantOp, wantDim = "y", token.SUB_ASSIGN, "Height"
		case "right":
			wantVar, wantOp, wantDim = "x", token.ADD_ASSIGN, "Width"
		case "left":
			wantVar, wantOp, wantDim = "x", token.SUB_ASSIGN, "Width"
		default:
			return true
		}
		for _, st := range is.Body.List {
			as, ok := st.(*ast.AssignStmt)
			if !ok || len(as.Lhs) != 1 {
				continue
			}
			nadj++
			ok2 := exprStr(as.Lhs[0]) == wantVar && as.Tok == wantOp && strings.HasSuffix(strings.TrimSuffix(exprStr(as.Rhs[0]), ")"), "."+wantDim)
			c.Decide(ok2, "C24.label-adjust", "place:adjust-"+side, as.Pos(), wantVar+" "+wantOp.String()+" label "+wantDim, fmt.Sprintf("for a shape placed on the %s the outside label must move it further %s along %s by the label's %s; found %s %s %s", side, side, wantVar, wantDim, exprStr(as.Lhs[0]), as.Tok, exprStr(as.Rhs[0])))
		}
		return true
	})
	if nadj < 4 {
		c.Fail("C24.label-adjust", "place:adjust:count", pl.Decl.Pos(), fmt.Sprintf("found %d label adjustments, expected 4", nadj))
	}
	// order of sets in Layout
	if lay := mustFunc(c, "d2layouts/d2near", "", "Layout"); lay != nil {
		okOrder := false
		ast.Inspect(lay.Decl.Body, func(n ast.Node) bool {
			rs, ok := n.(*ast.RangeStmt)
			if !ok {
				return true
			}
			cl, ok := ast.Unparen(rs.X).(*ast.CompositeLit)
			if !ok || len(cl.Elts) != 3 {
				return true
			}
			okOrder = exprStr(cl.Elts[2]) == "NonCenterNears"
			return true
		})
		c.Decide(okOrder, "C24.order", "Layout:centers-before-corners", lay.Decl.Pos(), "NonCenterNears is placed last", "corner nears must be placed after the centre nears so that they clear them")
	}
	checkInfReset(c, "C24.inf-reset")
}

// checkInfReset: d2near.boundingBox resets each ±Inf accumulator pair by a top-level test.
func checkInfReset(c *core.Check, rule string) {
	if bb := mustFunc(c, "d2layouts/d2near", "", "boundingBox"); bb != nil {
		binfo := bb.Pkg.TypesInfo
		infVars := map[types.Object]bool{}
		ast.Inspect(bb.Decl.Body, func(n ast.Node) bool {
			as, ok := n.(*ast.AssignStmt)
			if ok && as.Tok == token.DEFINE && len(as.Lhs) == 1 && len(as.Rhs) == 1 {
				if call, ok := as.Rhs[0].(*ast.CallExpr); ok && core.IsCallTo(binfo, call, "math.Inf") {
					infVars[binfo.Defs[as.Lhs[0].(*ast.Ident)]] = true
				}
			}
			return true
		})
		reset := map[types.Object]bool{}
		for _, st := range bb.Decl.Body.List { // top level only
			is, ok := st.(*ast.IfStmt)
			if !ok {
				continue
			}
			mentions := map[types.Object]bool{}
			ast.Inspect(is.Cond, func(m ast.Node) bool {
				if call, ok := m.(*ast.CallExpr); ok && core.IsCallTo(binfo, call, "math.IsInf") && len(call.Args) == 2 {
					if o := core.ObjOf(binfo, call.Args[0]); o != nil {
						mentions[o] = true
					}
				}
				return true
			})
			for _, bs := range is.Body.List {
				if as, ok := bs.(*ast.AssignStmt); ok {
					for i, l := range as.Lhs {
						if o := core.ObjOf(binfo, l); o != nil && mentions[o] && i < len(as.Rhs) && isConst(binfo, as.Rhs[i]) {
							reset[o] = true
						}
					}
				}
			}
		}
		var missing []string
		for o := range infVars {
			if !reset[o] {
				missing = append(missing, o.Name())
			}
		}
		sort.Strings(missing)
		c.Decide(len(infVars) >= 4 && len(missing) == 0, rule, "boundingBox:inf-reset", bb.Decl.Pos(), fmt.Sprintf("%d accumulators reset at top level", len(infVars)),
			fmt.Sprintf("accumulators %v start at ±Inf and are not reset by an unconditional top-level test: when nothing contributes along that axis the next near shape is placed at ±Inf", missing))
	}
}

// ---- parallel slices -------------------------------------------------------------------------------

// checkParallelSlices: in every function of the package, when a slice B is indexed by the key of a range
// over another slice variable A (B[i] in `for i … := range A`), A and B are parallel. Every append to A must
// sit next to an append to B in the same block, and when whole slices are appended (append(A, xs...),
// append(B, ys...)) xs and ys must be results of the same call (the nearest preceding definition of both).
func checkParallelSlices(c *core.Check, rule, rel string) {
	pk := c.P.Pkg(rel)
	if pk == nil {
		c.Broken("%s not loaded", rel)
		return
	}
	npairs := 0
	calleePairs := map[*core.FuncInfo][][2]int{}
	funcs := c.P.Funcs(pk)
	// two passes: the first discovers result pairs of callees, the second checks every function
	for pass := 0; pass < 2; pass++ {
		if pass == 1 {
			npairs = 0
		}
		for _, fi := range funcs {
			info := fi.Pkg.TypesInfo
			pairs := map[[2]types.Object]bool{}
			if pass == 1 {
				res := fi.Obj.Type().(*types.Signature).Results()
				for _, ij := range calleePairs[fi] {
					if ij[0] < res.Len() && ij[1] < res.Len() && res.At(ij[0]).Name() != "" {
						pairs[[2]types.Object{res.At(ij[0]), res.At(ij[1])}] = true
					}
				}
			}
			ast.Inspect(fi.Decl.Body, func(n ast.Node) bool {
				rs, ok := n.(*ast.RangeStmt)
				if !ok || rs.Key == nil {
					return true
				}
				a := core.ObjOf(info, rs.X)
				k := core.ObjOf(info, rs.Key)
				if a == nil || k == nil {
					return true
				}
				if _, isSlice := a.Type().Underlying().(*types.Slice); !isSlice {
					return true
				}
				ast.Inspect(rs.Body, func(m ast.Node) bool {
					ix, ok := m.(*ast.IndexExpr)
					if !ok || core.ObjOf(info, ix.Index) != k {
						return true
					}
					b := core.ObjOf(info, ix.X)
					if b == nil || b == a {
						return true
					}
					if _, isSlice := b.Type().Underlying().(*types.Slice); isSlice {
						pairs[[2]types.Object{a, b}] = true
					}
					return true
				})
				return true
			})
			// the pair may be two results of one call to a function of this package: its named results are parallel too
			for pr := range pairs {
				da, db := defsOf(fi, pr[0]), defsOf(fi, pr[1])
				for _, x := range da {
					for _, y := range db {
						if x.Stmt == y.Stmt && x.Multi && y.Multi {
							if call, ok := x.Rhs.(*ast.CallExpr); ok {
								if callee := c.P.Decl(core.CalleeOf(info, call)); callee != nil && callee.Pkg == fi.Pkg {
									calleePairs[callee] = append(calleePairs[callee], [2]int{x.Index, y.Index})
								}
							}
						}
					}
				}
			}
			appendTo := func(st ast.Stmt, o types.Object) (*ast.CallExpr, bool) {
				as, ok := st.(*ast.AssignStmt)
				if !ok || len(as.Lhs) != 1 || len(as.Rhs) != 1 || core.ObjOf(info, as.Lhs[0]) != o {
					return nil, false
				}
				call, ok := ast.Unparen(as.Rhs[0]).(*ast.CallExpr)
				if !ok || exprStr(call.Fun) != "append" || len(call.Args) < 2 || core.ObjOf(info, call.Args[0]) != o {
					return nil, false
				}
				return call, true
			}
			nearestDef := func(o types.Object, before token.Pos) ast.Node {
				var best ast.Node
				for _, d := range defsOf(fi, o) {
					if d.Stmt.Pos() < before && (best == nil || d.Stmt.Pos() > best.Pos()) {
						best = d.Stmt
					}
				}
				return best
			}
			for pr := range pairs {
				a, b := pr[0], pr[1]
				ast.Inspect(fi.Decl.Body, func(n ast.Node) bool {
					blk, ok := n.(*ast.BlockStmt)
					if !ok {
						return true
					}
					for i, st := range blk.List {
						ca, ok := appendTo(st, a)
						if !ok || pass == 0 {
							continue
						}
						npairs++
						key := fmt.Sprintf("%s:%s‖%s", fname(fi), a.Name(), b.Name())
						var cb *ast.CallExpr
						for _, j := range []int{i + 1, i - 1} {
							if j >= 0 && j < len(blk.List) {
								if x, ok := appendTo(blk.List[j], b); ok {
									cb = x
								}
							}
						}
						if cb == nil {
							c.Fail(rule, key, st.Pos(), fmt.Sprintf("%s is appended to without a matching append to %s next to it: the two slices are read in lock-step, so later entries pair the wrong elements", a.Name(), b.Name()))
							continue
						}
						if ca.Ellipsis.IsValid() != cb.Ellipsis.IsValid() || len(ca.Args) != len(cb.Args) {
							c.Fail(rule, key, st.Pos(), "the paired appends add a different number of elements")
							continue
						}
						if !ca.Ellipsis.IsValid() {
							c.Pass(rule, key, st.Pos(), "element-wise paired appends")
							continue
						}
						xa, xb := core.ObjOf(info, ca.Args[1]), core.ObjOf(info, cb.Args[1])
						da, db := ast.Node(nil), ast.Node(nil)
						if xa != nil && xb != nil {
							da, db = nearestDef(xa, st.Pos()), nearestDef(xb, st.Pos())
						}
						// parameters/results of the enclosing function have no definition statement: accept only if both have none
						c.Decide(xa != nil && xb != nil && da == db, rule, key, st.Pos(), "both appended slices come from the same statement",
							fmt.Sprintf("%s and %s were last assigned by different statements: the entries appended to %s do not describe the entries appended to %s (connections are re-pointed to another connection's endpoints)", exprStr(ca.Args[1]), exprStr(cb.Args[1]), b.Name(), a.Name()))
					}
					return true
				})
			}
		}
	}
	if npairs < 3 {
		c.Fail(rule, "pairs", token.NoPos, fmt.Sprintf("only %d paired appends found in %s", npairs, rel))
	}
}

// checkNearAll: in d2near.Layout every loop that moves or re-attaches near graphs ranges over the function's
// []*Graph parameter itself, or over a slice that is only ever built by appending that parameter's range values.
func checkNearAll(c *core.Check, rule string) {
	fi := mustFunc(c, "d2layouts/d2near", "", "Layout")
	if fi == nil {
		return
	}
	info := fi.Pkg.TypesInfo
	var param types.Object
	sig := fi.Obj.Type().(*types.Signature)
	for i := 0; i < sig.Params().Len(); i++ {
		if types.TypeString(sig.Params().At(i).Type(), func(*types.Package) string { return "" }) == "[]*Graph" {
			param = sig.Params().At(i)
		}
	}
	if param == nil {
		c.Broken("d2near.Layout has no []*Graph parameter")
		return
	}
	var lossless func(o types.Object, depth int) bool
	lossless = func(o types.Object, depth int) bool {
		if o == param {
			return true
		}
		if depth > 3 || o == nil {
			return false
		}
		if _, isSlice := o.Type().Underlying().(*types.Slice); !isSlice {
			return false
		}
		ds := defsOf(fi, o)
		if len(ds) == 0 {
			return false
		}
		for _, d := range ds {
			if d.Rhs == nil {
				if vs, ok := d.Stmt.(*ast.ValueSpec); ok && len(vs.Values) == 0 {
					continue
				}
				return false
			}
			call, ok := ast.Unparen(d.Rhs).(*ast.CallExpr)
			if !ok || exprStr(call.Fun) != "append" || core.ObjOf(info, call.Args[0]) != o || len(call.Args) != 2 {
				return false
			}
			// appended value: range value of a loop over a lossless collection, not under a `seen`-style filter on a map
			v := core.ObjOf(info, call.Args[1])
			okSrc := false
			ast.Inspect(fi.Decl.Body, func(n ast.Node) bool {
				rs, ok := n.(*ast.RangeStmt)
				if ok && rs.Value != nil && core.ObjOf(info, rs.Value) == v && rs.Body.Pos() <= d.Stmt.Pos() && d.Stmt.End() <= rs.Body.End() {
					if lossless(core.ObjOf(info, rs.X), depth+1) {
						okSrc = true
					}
				}
				return true
			})
			if !okSrc {
				return false
			}
		}
		return true
	}
	n := 0
	ast.Inspect(fi.Decl.Body, func(nd ast.Node) bool {
		rs, ok := nd.(*ast.RangeStmt)
		if !ok || rs.Value == nil {
			return true
		}
		tv, ok := info.Types[rs.X]
		if !ok || types.TypeString(tv.Type, func(*types.Package) string { return "" }) != "[]*Graph" {
			return true
		}
		n++
		src := core.ObjOf(info, rs.X)
		c.Decide(lossless(src, 0), rule, fmt.Sprintf("Layout:loop-over:%s", exprStr(rs.X)), rs.Pos(), "ranges over every graph handed to Layout",
			"this loop ranges over a collection that need not contain every constant-near graph given to Layout (e.g. a map keyed by position keeps one graph per position): the others were already extracted from the board and are never re-attached")
		return true
	})
	if n < 2 {
		c.Fail(rule, "Layout:loops", fi.Decl.Pos(), fmt.Sprintf("found %d loops over near graphs, expected the parent-fixing, placing and re-attaching loops", n))
	}
}
