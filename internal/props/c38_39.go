package props

import (
	"fmt"
	"go/ast"
	"go/token"
	"go/types"
	"strings"

	"golang.org/x/tools/go/packages"

	"d2verif/internal/core"
)

// C38 and C39 — structural necessary conditions of Delete, Rename and Move. Neither check compares two
// graphs; each clause is a shape of the editing code that must hold on every path for the behaviour
// to be possible at all (a reference that is never visited keeps the deleted name alive, a map node
// that reaches neither half of a split is lost, an index that is dereferenced unguarded crashes the edit).

func init() {
	register(&Prop{
		ID:       "C38",
		Title:    "Delete removes exactly the target and keeps its children",
		Patterns: []string{"./d2oracle", "./d2graph"},
		Explanation: "Decides seven structural necessary conditions of Delete, not the before/after comparison of diagrams: " +
			"(1) index guard — the optional connection index of a key (d2ast.Key.EdgeIndex is nil for a key without index, its Int is nil for a glob index) is read in d2oracle and d2graph only under a test that it is present (dominating nil test, reset-to-a-fresh-index idiom, or the key was validated by FindEdges, whose own test is an obligation), and `*….EdgeIndex.Int` only under a test of Int: an unguarded read crashes the deletion of a connection that has a glob-indexed reference; " +
			"(2) renumbering — in Delete the statement that lowers the index written in a reference of a later parallel connection is reached for every reference (nothing but the presence tests of the index filters the references) of every connection whose Index is greater than the deleted one's, and for no other; " +
			"(3) every reference — the loop of deleteObject over the object's references covers all of them, and on every path through its body the reference loses the deleted name (the path element at KeyPathIndex is spliced out, or the connection is removed by deleteEdge, or the whole key is removed); an extra step of the loop index is only the documented chain de-duplication; " +
			"(4) children are hoisted — a key of the deleted object is dropped from its scope (deleteFromMap) only after hoistRefChildren moved its children to the parent, or when it has no value, or for table/class shapes whose children are columns; " +
			"(5) the other end survives — where a connection is removed because one end is deleted, ensureNode is called for the opposite end (Src when the deleted reference is the destination, Dst otherwise, with the matching before/after cursor) immediately before deleteEdge; " +
			"(6) order of steps — Delete renames would-be name conflicts (renameConflictsToParent) before deleteObject on every path, and no success return after deleteObject avoids updateNear (near references follow the hoisted children); " +
			"(7) delete-in-loop — a loop that removes the current node from the map it is indexing (directly or through deleteFromMap) steps its index back, so the node that moved into the slot is examined too (a second declaration of the same attribute is reset as well).",
		NotCovered: "that the diagram after the edit equals the diagram before minus the target (a comparison of two compilations); which attribute a reserved key path denotes (the field deleters match by name; see DESIGN §7); name generation for hoisted children; board-scoped deletes (C41)",
		Technique:  "static analysis: nil-guard dominance, guard inventory of the renumbering statement, exactly-once path enumeration over the reference loop, must-pass-before/after queries on go/cfg, mirrored-arm comparison",
		Run:        runC38,
	})
	register(&Prop{
		ID:       "C39",
		Title:    "Rename and Move relocate objects without losing anything",
		Patterns: []string{"./d2oracle", "./d2graph"},
		Explanation: "Decides seven structural necessary conditions of Rename and Move, not the before/after comparison of diagrams: " +
			"(1) partition — filterReserved, which splits the map of a moved key into the part that moves and the part that stays, appends every node of the map to exactly one list on every path through its loop, and every list is stored into a result; " +
			"(2) removed keys are re-added — in move a key removed from its scope (deleteFromMap(ref.Scope, ref.MapKey)) is followed on every path by appendUniqueMapKey of a key into the destination scope, except at the two reviewed places that drop a redundant reference; " +
			"(3) values are carried — an assignment in move that overwrites the value of an existing key (ref.MapKey.Value = …) is preceded on every path by a statement that reads the old value into another place; " +
			"(4) near references follow — every success return of move outside the connection branch passes updateNear, called with the old key, the new key (in this order) and move's own includeDescendants flag; " +
			"(5) descendants flag — hoistRefChildren and renameConflictsToParent run in move only when includeDescendants is false (children that are not moved stay behind), Rename calls move with the constant false and Move hands its parameter through; " +
			"(6) unique destination — the destination key that move parses is the result of generateUniqueKey, so a move onto an existing name cannot merge two objects; " +
			"(7) every reference is renamed — the statement that writes the new name into a reference's key path, and the statements that write the new arrowheads of a renamed connection, are not conditioned on the reference inside their loops.",
		NotCovered: "that every object, connection, label and attribute of the diagram before the edit exists afterwards (a comparison of two compilations); the four-way case analysis of cross-scope key rewriting (transplant/split/extend/slice) beyond the clauses above; underscore re-resolution; board-scoped moves (C41)",
		Technique:  "static analysis: exactly-once path enumeration, must-pass-after/before queries on go/cfg, guard inventory (flag discipline), argument provenance",
		Run:        runC39,
	})
}

// ---- shared helpers -------------------------------------------------------------------------------

// isEdgeIndexSel: e selects the field EdgeIndex of a d2ast.Key.
func isEdgeIndexSel(info *types.Info, e ast.Expr) bool {
	sel, ok := ast.Unparen(e).(*ast.SelectorExpr)
	return ok && sel.Sel.Name == "EdgeIndex" && core.FieldIs(info, sel, "d2ast", "Key", "EdgeIndex")
}

// flowFor returns the flow graph of the innermost body (declaration or literal) containing n.
func flowFor(fi *core.FuncInfo, cache map[*ast.BlockStmt]*core.Flow, n ast.Node) *core.Flow {
	bodies := core.BodiesOf(fi.Decl)
	bi := core.InnermostBody(bodies, n)
	if bi < 0 {
		return nil
	}
	b := bodies[bi].Block
	if cache[b] == nil {
		cache[b] = core.NewFlow(fi.Pkg, b)
	}
	return cache[b]
}

// establishedByReset: an earlier `if A == nil || A.F == nil { A = &T{…} }` (or `A.F = …`) that dominates node
// makes `want` non-nil: the condition tests want (as one disjunct) and the body assigns want or a prefix of it.
func establishedByReset(fl *core.Flow, info *types.Info, node ast.Node, want string) bool {
	found := false
	ast.Inspect(fl.Body, func(n ast.Node) bool {
		is, ok := n.(*ast.IfStmt)
		if !ok || found || is.End() > node.Pos() || is.Else != nil {
			return true
		}
		tests := false
		for _, a := range (core.Guard{Cond: is.Cond, True: false}).Atoms() {
			// atoms of the false edge of a disjunction: each disjunct false
			if x, nonNil, ok := a.NilTest(info); ok && nonNil && exprStr(x) == want {
				tests = true
			}
		}
		if !tests {
			return true
		}
		assigns := false
		for _, st := range is.Body.List {
			if as, ok := st.(*ast.AssignStmt); ok && len(as.Lhs) == 1 && as.Tok == token.ASSIGN {
				l := exprStr(as.Lhs[0])
				if l == want || strings.HasPrefix(want, l+".") {
					assigns = true
				}
			}
		}
		if assigns && fl.DominatesNode(is.Cond, node) {
			found = true
		}
		return true
	})
	return found
}

// validatedByCallee: node is reached only on the true edge of `ok`, where `…, ok := F(…, root, …)` and the
// in-repository function F begins with a top-level `if <param><suffix> == nil || … { return …, false }`.
func validatedByCallee(c *core.Check, fi *core.FuncInfo, fl *core.Flow, node ast.Node, base ast.Expr) (bool, string) {
	info := fi.Pkg.TypesInfo
	root := rootIdent(info, base)
	if root == nil {
		return false, ""
	}
	suffix := strings.TrimPrefix(exprStr(base), root.Name())
	for _, g := range fl.GuardsOfNode(node) {
		for _, a := range g.Atoms() {
			okObj := core.ObjOf(info, a.Cond)
			if okObj == nil || !a.True {
				continue
			}
			for _, d := range defsOf(fi, okObj) {
				if d.Rhs == nil {
					continue
				}
				call, isCall := ast.Unparen(d.Rhs).(*ast.CallExpr)
				if !isCall {
					continue
				}
				f := core.CalleeOf(info, call)
				if f == nil {
					continue
				}
				callee := c.P.Decl(f)
				if callee == nil || callee.Decl.Body == nil {
					continue
				}
				sig := f.Type().(*types.Signature)
				for i, arg := range call.Args {
					if core.ObjOf(info, arg) != root || i >= sig.Params().Len() {
						continue
					}
					want := sig.Params().At(i).Name() + suffix
					for _, st := range callee.Decl.Body.List {
						is, ok := st.(*ast.IfStmt)
						if !ok {
							// statements before the test must not return success
							if _, isRet := st.(*ast.ReturnStmt); isRet {
								break
							}
							continue
						}
						tests := false
						for _, at := range (core.Guard{Cond: is.Cond, True: false}).Atoms() {
							if x, nonNil, ok := at.NilTest(callee.Pkg.TypesInfo); ok && nonNil && exprStr(x) == want {
								tests = true
							}
						}
						if !tests || len(is.Body.List) == 0 {
							continue
						}
						if ret, ok := is.Body.List[len(is.Body.List)-1].(*ast.ReturnStmt); ok && len(ret.Results) > 0 {
							if id, ok := ret.Results[len(ret.Results)-1].(*ast.Ident); ok && id.Name == "false" {
								return true, "validated by " + core.FuncName(f) + ", which returns false when " + want + " is nil"
							}
						}
					}
				}
			}
		}
	}
	return false, ""
}

// innermostIfCond returns the condition text of the innermost if statement whose body or else-branch contains n
// (with "else of " when n is in the else-branch), or "" at top level.
func innermostIfCond(body *ast.BlockStmt, n ast.Node) string {
	best := ""
	var span token.Pos = -1
	ast.Inspect(body, func(x ast.Node) bool {
		is, ok := x.(*ast.IfStmt)
		if !ok {
			return true
		}
		in := func(b ast.Node) bool { return b != nil && b.Pos() <= n.Pos() && n.End() <= b.End() }
		if in(is.Body) {
			if s := is.Body.End() - is.Body.Pos(); span < 0 || s < span {
				span, best = s, exprStr(is.Cond)
			}
		} else if is.Else != nil && in(is.Else) {
			if _, chained := is.Else.(*ast.IfStmt); !chained {
				if s := is.Else.End() - is.Else.Pos(); span < 0 || s < span {
					span, best = s, "else of "+exprStr(is.Cond)
				}
			}
		}
		return true
	})
	return best
}

// enclosingLoops lists the for/range statements of body that contain n, outermost first.
func enclosingLoops(body *ast.BlockStmt, n ast.Node) []ast.Stmt {
	var out []ast.Stmt
	ast.Inspect(body, func(x ast.Node) bool {
		switch l := x.(type) {
		case *ast.ForStmt:
			if l.Body.Pos() <= n.Pos() && n.End() <= l.Body.End() {
				out = append(out, l)
			}
		case *ast.RangeStmt:
			if l.Body.Pos() <= n.Pos() && n.End() <= l.Body.End() {
				out = append(out, l)
			}
		}
		return true
	})
	return out
}

func loopBody(l ast.Stmt) *ast.BlockStmt {
	switch x := l.(type) {
	case *ast.ForStmt:
		return x.Body
	case *ast.RangeStmt:
		return x.Body
	}
	return nil
}

// mentions reports whether e contains an identifier that refers to obj.
func mentions(info *types.Info, e ast.Node, obj types.Object) bool {
	found := false
	ast.Inspect(e, func(n ast.Node) bool {
		if id, ok := n.(*ast.Ident); ok && obj != nil && (info.Uses[id] == obj || info.Defs[id] == obj) {
			found = true
		}
		return !found
	})
	return found
}

// refVarOf: the loop iterates over <X>.References; returns the variable bound to the current reference
// (range value, or `ref := X.References[i]` as a statement of the body) and the index variable of a for loop.
func refVarOf(info *types.Info, l ast.Stmt) (ref types.Object, idx types.Object, over string) {
	isRefs := func(e ast.Expr) bool {
		sel, ok := ast.Unparen(e).(*ast.SelectorExpr)
		return ok && sel.Sel.Name == "References"
	}
	switch x := l.(type) {
	case *ast.RangeStmt:
		if isRefs(x.X) && x.Value != nil {
			return core.ObjOf(info, x.Value), core.ObjOf(info, x.Key), exprStr(x.X)
		}
	case *ast.ForStmt:
		for _, st := range x.Body.List {
			as, ok := st.(*ast.AssignStmt)
			if !ok || as.Tok != token.DEFINE || len(as.Lhs) != 1 || len(as.Rhs) != 1 {
				continue
			}
			ix, ok := ast.Unparen(as.Rhs[0]).(*ast.IndexExpr)
			if ok && isRefs(ix.X) {
				return core.ObjOf(info, as.Lhs[0]), core.ObjOf(info, ix.Index), exprStr(ix.X)
			}
		}
	}
	return nil, nil, ""
}

// ---- C38 ------------------------------------------------------------------------------------------

// c38IndexExceptions: reviewed reads of the connection index that no idiom decides.
var c38IndexExceptions = map[string]string{}

func runC38(c *core.Check) {
	c.Rule("C38.index-guard", "the optional connection index of a key is read only under a test that it is present")
	c.Rule("C38.renumber", "deleting a connection lowers the index in every reference of every later parallel connection, and in no other")
	c.Rule("C38.every-ref", "deleteObject removes the deleted name from every reference of the object on every path")
	c.Rule("C38.hoist-before-drop", "a key of the deleted object is dropped only after its children were hoisted")
	c.Rule("C38.other-end", "removing a connection with a deleted end keeps the opposite end as a node")
	c.Rule("C38.order", "conflict renames precede the deletion; near references are updated after it")
	c.Rule("C38.delete-in-loop", "a loop that deletes the current element of the slice it indexes steps the index back or leaves the loop")
	pk := c.P.Pkg("d2oracle")
	gk := c.P.Pkg("d2graph")
	if pk == nil || gk == nil {
		c.Broken("d2oracle/d2graph not loaded")
		return
	}
	c38IndexGuard(c, []*packages.Package{gk, pk})
	c38Renumber(c)
	c38DeleteObject(c)
	c38Order(c)
	checkDeleteInLoop(c, "C38.delete-in-loop", "d2oracle", true)
}

func c38IndexGuard(c *core.Check, pkgs []*packages.Package) {
	const rule = "C38.index-guard"
	nField, nDeref := 0, 0
	for _, pk := range pkgs {
		info := pk.TypesInfo
		for _, fi := range c.P.Funcs(pk) {
			cache := map[*ast.BlockStmt]*core.Flow{}
			seen := map[string]int{}
			decide := func(node ast.Node, base ast.Expr, what string) {
				key := fmt.Sprintf("index-guard:%s:%s %s", fname(fi), what, exprStr(base))
				seen[key]++
				if seen[key] > 1 {
					key = fmt.Sprintf("%s#%d", key, seen[key])
				}
				fl := flowFor(fi, cache, node)
				if fl == nil {
					c.Fail(rule, key, node.Pos(), "cannot locate the read in a flow graph")
					return
				}
				if ok, how := guardedNonNil(fl, info, node, base); ok {
					c.Pass(rule, key, node.Pos(), how)
					return
				}
				if establishedByReset(fl, info, node, exprStr(base)) {
					c.Pass(rule, key, node.Pos(), "an earlier `if … == nil { fresh index }` establishes it")
					return
				}
				if ok, how := validatedByCallee(c, fi, fl, node, base); ok {
					c.Pass(rule, key, node.Pos(), how)
					return
				}
				if r, ok := c38IndexExceptions[key]; ok {
					c.Except(rule, key, node.Pos(), r)
					return
				}
				c.Fail(rule, key, node.Pos(), exprStr(base)+" can be nil here (a key without index has no EdgeIndex, a glob index `[*]` has no Int): the edit crashes instead of deleting")
			}
			ast.Inspect(fi.Decl.Body, func(n ast.Node) bool {
				switch x := n.(type) {
				case *ast.SelectorExpr:
					if isEdgeIndexSel(info, x.X) {
						if s, ok := info.Selections[x]; ok && s.Kind() == types.FieldVal {
							nField++
							decide(x, ast.Unparen(x.X), "field "+x.Sel.Name+" of")
						}
					}
				case *ast.StarExpr:
					if sel, ok := ast.Unparen(x.X).(*ast.SelectorExpr); ok && sel.Sel.Name == "Int" && isEdgeIndexSel(info, sel.X) {
						nDeref++
						decide(x, sel, "deref of")
					}
				}
				return true
			})
		}
	}
	if nField < 6 || nDeref < 3 {
		c.Fail("floor", "floor:"+rule, token.NoPos, fmt.Sprintf("only %d field reads and %d dereferences of Key.EdgeIndex found in d2graph/d2oracle (confirmed by hand: 8 and 3)", nField, nDeref))
	}
}

func c38Renumber(c *core.Check) {
	const rule = "C38.renumber"
	fi := mustFunc(c, "d2oracle", "", "Delete")
	if fi == nil {
		return
	}
	info := fi.Pkg.TypesInfo
	fl := core.NewFlow(fi.Pkg, fi.Decl.Body)
	n := 0
	ast.Inspect(fi.Decl.Body, func(nd ast.Node) bool {
		dec, ok := nd.(*ast.IncDecStmt)
		if !ok || dec.Tok != token.DEC {
			return true
		}
		st, ok := ast.Unparen(dec.X).(*ast.StarExpr)
		if !ok {
			return true
		}
		sel, ok := ast.Unparen(st.X).(*ast.SelectorExpr)
		if !ok || sel.Sel.Name != "Int" || !isEdgeIndexSel(info, sel.X) {
			return true
		}
		n++
		key := "renumber:Delete"
		if n > 1 {
			key = fmt.Sprintf("%s#%d", key, n)
		}
		loops := enclosingLoops(fi.Decl.Body, dec)
		if len(loops) < 2 {
			c.Fail(rule, key, dec.Pos(), "the index is lowered outside a loop over the references of the parallel connections")
			return true
		}
		inner, outer := loops[len(loops)-1], loops[len(loops)-2]
		ref, _, over := refVarOf(info, inner)
		if ref == nil || rootIdent(info, sel) != ref {
			c.Fail(rule, key, dec.Pos(), "the index lowered does not belong to the reference the inner loop is visiting")
			return true
		}
		rs, isRange := outer.(*ast.RangeStmt)
		var loopEdge types.Object
		if isRange && rs.Value != nil {
			loopEdge = core.ObjOf(info, rs.Value)
		}
		if loopEdge == nil || !strings.HasPrefix(over, loopEdge.Name()+".") {
			c.Fail(rule, key, dec.Pos(), "the inner loop does not visit the references of the connection the outer loop is visiting")
			return true
		}
		ob := loopBody(outer)
		var bad []string
		rel := ""
		for _, g := range fl.GuardsOfNode(dec) {
			if g.Cond.Pos() < ob.Pos() || g.Cond.End() > ob.End() {
				continue // a condition outside the two loops: when renumbering happens at all
			}
			for _, a := range g.Atoms() {
				if x, _, ok := a.NilTest(info); ok && strings.Contains(exprStr(x), "EdgeIndex") {
					continue
				}
				if s, ok := ast.Unparen(a.Cond).(*ast.SelectorExpr); ok && s.Sel.Name == "Glob" && isEdgeIndexSel(info, s.X) {
					continue
				}
				if be, ok := ast.Unparen(a.Cond).(*ast.BinaryExpr); ok {
					// loop condition of the index loop
					if id := core.ObjOf(info, be.X); id != nil {
						if _, isInt := id.Type().Underlying().(*types.Basic); isInt && !mentions(info, be, ref) {
							if fs, ok := inner.(*ast.ForStmt); ok && fs.Cond == a.Cond {
								continue
							}
						}
					}
					lx, okx := ast.Unparen(be.X).(*ast.SelectorExpr)
					ly, oky := ast.Unparen(be.Y).(*ast.SelectorExpr)
					if okx && oky && core.FieldIs(info, lx, "d2graph", "Edge", "Index") && core.FieldIs(info, ly, "d2graph", "Edge", "Index") {
						op := be.Op
						if !a.True {
							op = map[token.Token]token.Token{token.LEQ: token.GTR, token.LSS: token.GEQ, token.GTR: token.LEQ, token.GEQ: token.LSS, token.EQL: token.NEQ, token.NEQ: token.EQL}[op]
						}
						// normalise to loopEdge.Index OP deleted.Index
						if rootIdent(info, ly) == loopEdge && rootIdent(info, lx) != loopEdge {
							op = map[token.Token]token.Token{token.GTR: token.LSS, token.LSS: token.GTR, token.GEQ: token.LEQ, token.LEQ: token.GEQ, token.NEQ: token.NEQ, token.EQL: token.EQL}[op]
						} else if rootIdent(info, lx) != loopEdge {
							bad = append(bad, exprStr(a.Cond))
							continue
						}
						rel = op.String()
						continue
					}
				}
				pol := ""
				if !a.True {
					pol = "!"
				}
				bad = append(bad, pol+"("+exprStr(a.Cond)+")")
			}
		}
		switch {
		case len(bad) > 0:
			c.Fail(rule, key, dec.Pos(), "the renumbering of later parallel connections is filtered by "+strings.Join(bad, ", ")+": a reference that keeps its old index then names another connection")
		case rel != ">":
			c.Fail(rule, key, dec.Pos(), fmt.Sprintf("indices are lowered for connections with Index %q the deleted one's; it must be exactly those with a greater Index", rel))
		default:
			c.Pass(rule, key, dec.Pos(), "every reference (index present) of every connection with a greater Index is lowered by one")
		}
		return true
	})
	if n == 0 {
		c.Fail("floor", "floor:"+rule, token.NoPos, "Delete no longer lowers the index of later parallel connections (no `*….EdgeIndex.Int--` found)")
	}
}

func c38DeleteObject(c *core.Check) {
	fi := mustFunc(c, "d2oracle", "", "deleteObject")
	if fi == nil {
		return
	}
	info := fi.Pkg.TypesInfo
	fl := core.NewFlow(fi.Pkg, fi.Decl.Body)
	// the loop over the object's references that rewrites them: the one whose body calls deleteEdge
	var loop *ast.ForStmt
	ast.Inspect(fi.Decl.Body, func(n ast.Node) bool {
		if fs, ok := n.(*ast.ForStmt); ok && loop == nil {
			if ref, _, _ := refVarOf(info, fs); ref != nil && len(callsInNode(info, fs.Body, "d2oracle.deleteEdge")) > 0 {
				loop = fs
			}
		}
		return true
	})
	if loop == nil {
		c.Fail("floor", "floor:C38.every-ref", token.NoPos, "deleteObject has no index loop over the object's references that calls deleteEdge")
		return
	}
	ref, idx, over := refVarOf(info, loop)
	// (3a) the loop header covers every index
	hdr := fmt.Sprintf("%s; %s; %s", nodeStr(loop.Init), exprStr(loop.Cond), nodeStr(loop.Post))
	full := false
	if idx != nil {
		down := fmt.Sprintf("%s := len(%s) - 1; %s >= 0; %s--", idx.Name(), over, idx.Name(), idx.Name())
		up := fmt.Sprintf("%s := 0; %s < len(%s); %s++", idx.Name(), idx.Name(), over, idx.Name())
		full = hdr == down || hdr == up
	}
	c.Decide(full, "C38.every-ref", "every-ref:deleteObject:header", loop.Pos(), "the loop runs over every index of "+over, "the loop header `"+hdr+"` does not cover every reference of the object")
	// (3b) on every path the reference loses the name
	splice := func(st ast.Stmt) bool {
		switch s := st.(type) {
		case *ast.AssignStmt:
			if len(s.Lhs) == 1 && len(s.Rhs) == 1 && exprStr(s.Lhs[0]) == ref.Name()+".Key.Path" {
				r := strings.ReplaceAll(exprStr(s.Rhs[0]), " ", "")
				want := fmt.Sprintf("append(%s.Key.Path[:%s.KeyPathIndex],%s.Key.Path[%s.KeyPathIndex+1:]...)", ref.Name(), ref.Name(), ref.Name(), ref.Name())
				return r == want
			}
		case *ast.ExprStmt:
			if call, ok := s.X.(*ast.CallExpr); ok {
				if core.IsCallTo(info, call, "d2oracle.deleteEdge") && len(call.Args) == 4 && exprStr(call.Args[2]) == ref.Name()+".MapKey" && exprStr(call.Args[3]) == ref.Name()+".MapKeyEdgeIndex" {
					return true
				}
				if core.IsCallTo(info, call, "d2oracle.deleteFromMap") && len(call.Args) == 2 && exprStr(call.Args[0]) == ref.Name()+".Scope" && exprStr(call.Args[1]) == ref.Name()+".MapKey" {
					return true
				}
			}
		}
		return false
	}
	miss := false
	for o := range appendCounts(loop.Body.List, splice) {
		if o.count == 0 {
			miss = true
		}
	}
	c.Decide(!miss, "C38.every-ref", "every-ref:deleteObject:paths", loop.Body.Pos(), "every path through the body splices the name out of the reference, removes its connection or removes its key", "some path through the loop body leaves the reference untouched: the deleted name stays in the source and the object comes back on recompile")
	// (3c) extra steps of the index
	nstep := 0
	ast.Inspect(loop.Body, func(n ast.Node) bool {
		d, ok := n.(*ast.IncDecStmt)
		if !ok || core.ObjOf(info, d.X) != idx {
			return true
		}
		// the inner loop over map nodes has its own index variable; idx is the reference index
		nstep++
		okGuard := false
		for _, g := range fl.GuardsOfNode(d) {
			for _, a := range g.Atoms() {
				if be, ok := ast.Unparen(a.Cond).(*ast.BinaryExpr); ok && a.True && be.Op == token.EQL {
					l, r := exprStr(be.X), exprStr(be.Y)
					if strings.HasSuffix(l, ".MapKey") && strings.HasSuffix(r, ".MapKey") && (l == ref.Name()+".MapKey" || r == ref.Name()+".MapKey") {
						okGuard = true
					}
				}
			}
		}
		c.Decide(okGuard, "C38.every-ref", fmt.Sprintf("every-ref:deleteObject:step#%d", nstep), d.Pos(), "the extra step skips only the second reference of the same key (middle of a chain)", "the reference index is stepped inside the body without the same-key test: a reference is skipped")
		return true
	})
	// (4) hoist before drop
	ndrop := 0
	ast.Inspect(loop.Body, func(n ast.Node) bool {
		blk, ok := n.(*ast.BlockStmt)
		if !ok {
			return true
		}
		for i, st := range blk.List {
			es, ok := st.(*ast.ExprStmt)
			if !ok {
				continue
			}
			call, ok := es.X.(*ast.CallExpr)
			if !ok || !core.IsCallTo(info, call, "d2oracle.deleteFromMap") || len(call.Args) != 2 || exprStr(call.Args[0]) != ref.Name()+".Scope" {
				continue
			}
			ndrop++
			key := fmt.Sprintf("hoist:deleteObject:drop#%d", ndrop)
			how := ""
			if i > 0 {
				if pes, ok := blk.List[i-1].(*ast.ExprStmt); ok {
					if pc, ok := pes.X.(*ast.CallExpr); ok && core.IsCallTo(info, pc, "d2oracle.hoistRefChildren") && len(pc.Args) == 3 && core.ObjOf(info, pc.Args[2]) == ref {
						how = "hoistRefChildren(…, " + ref.Name() + ") runs immediately before"
					}
				}
			}
			if how == "" {
				for _, g := range fl.GuardsOfNode(call) {
					for _, a := range g.Atoms() {
						t := exprStr(a.Cond)
						if a.True && (strings.Contains(t, "ShapeSQLTable") || strings.Contains(t, "ShapeClass")) {
							how = "table/class shape: the children are columns and go with it"
						}
						if x, nonNil, ok := a.NilTest(info); ok && !nonNil && exprStr(x) == ref.Name()+".MapKey.Value.Unbox()" {
							how = "the key has no value, so no children"
						}
					}
				}
				// `a || b` true: either disjunct may hold — accept when every disjunct is a table/class test
				if how == "" {
					for _, g := range fl.GuardsOfNode(call) {
						if g.True && allDisjuncts(g.Cond, func(e ast.Expr) bool {
							t := exprStr(e)
							return strings.Contains(t, "ShapeSQLTable") || strings.Contains(t, "ShapeClass")
						}) {
							how = "table/class shape: the children are columns and go with it"
						}
					}
				}
			}
			c.Decide(how != "", "C38.hoist-before-drop", key, call.Pos(), how, "the key is removed from its scope together with its map: the children of the deleted object are deleted with it instead of moving to the parent")
		}
		return true
	})
	if ndrop < 3 {
		c.Fail("floor", "floor:C38.hoist-before-drop", token.NoPos, fmt.Sprintf("only %d places in deleteObject drop a key of the object (confirmed by hand: 3)", ndrop))
	}
	// (5) the other end
	nEdgeDel := 0
	ast.Inspect(loop.Body, func(n ast.Node) bool {
		blk, ok := n.(*ast.BlockStmt)
		if !ok {
			return true
		}
		for i, st := range blk.List {
			es, ok := st.(*ast.ExprStmt)
			if !ok {
				continue
			}
			call, ok := es.X.(*ast.CallExpr)
			if !ok || !core.IsCallTo(info, call, "d2oracle.deleteEdge") {
				continue
			}
			nEdgeDel++
			key := fmt.Sprintf("other-end:deleteObject:deleteEdge#%d", nEdgeDel)
			detail := "no `if ref.MapKeyEdgeDest() { ensureNode(… Src …) } else { ensureNode(… Dst …) }` immediately before deleteEdge: the opposite end, if it exists only through this connection, disappears with it"
			okEnd := false
			if i > 0 {
				if is, ok := blk.List[i-1].(*ast.IfStmt); ok {
					okEnd, detail = otherEndIf(info, is, ref, detail)
				}
			}
			c.Decide(okEnd, "C38.other-end", key, call.Pos(), "ensureNode keeps Src when the deleted end is the destination and Dst otherwise", detail)
		}
		return true
	})
	if nEdgeDel < 2 {
		c.Fail("floor", "floor:C38.other-end", token.NoPos, fmt.Sprintf("only %d deleteEdge calls in deleteObject (confirmed by hand: 2)", nEdgeDel))
	}
}

func allDisjuncts(e ast.Expr, pred func(ast.Expr) bool) bool {
	e = ast.Unparen(e)
	if be, ok := e.(*ast.BinaryExpr); ok && be.Op == token.LOR {
		return allDisjuncts(be.X, pred) && allDisjuncts(be.Y, pred)
	}
	return pred(e)
}

// otherEndIf: `if ref.MapKeyEdgeDest() { ensureNode(…, E.Src, true) } else { ensureNode(…, E.Dst, false) }`.
func otherEndIf(info *types.Info, is *ast.IfStmt, ref types.Object, deflt string) (bool, string) {
	cond := ast.Unparen(is.Cond)
	neg := false
	if u, ok := cond.(*ast.UnaryExpr); ok && u.Op == token.NOT {
		neg, cond = true, ast.Unparen(u.X)
	}
	call, ok := cond.(*ast.CallExpr)
	if !ok {
		return false, deflt
	}
	f := core.CalleeOf(info, call)
	if f == nil || f.Name() != "MapKeyEdgeDest" || rootIdent(info, call.Fun) != ref {
		return false, deflt
	}
	els, ok := is.Else.(*ast.BlockStmt)
	if !ok {
		return false, "the test of MapKeyEdgeDest has no else arm: one of the two ends is never ensured"
	}
	arm := func(b *ast.BlockStmt) (end string, before string, ok bool) {
		calls := callsInNode(info, b, "d2oracle.ensureNode")
		if len(calls) != 1 || len(calls[0].Args) != 7 {
			return "", "", false
		}
		sel, isSel := ast.Unparen(calls[0].Args[5]).(*ast.SelectorExpr)
		if !isSel {
			return "", "", false
		}
		return sel.Sel.Name, exprStr(calls[0].Args[6]), true
	}
	dEnd, dBefore, ok1 := arm(is.Body)
	oEnd, oBefore, ok2 := arm(els)
	if neg {
		dEnd, oEnd, dBefore, oBefore = oEnd, dEnd, oBefore, dBefore
	}
	if !ok1 || !ok2 {
		return false, "an arm of the MapKeyEdgeDest test does not call ensureNode exactly once"
	}
	if dEnd != "Src" || oEnd != "Dst" {
		return false, fmt.Sprintf("when the deleted reference is the destination ensureNode is given %s, otherwise %s: it must keep the opposite end (Src, then Dst)", dEnd, oEnd)
	}
	if dBefore != "true" || oBefore != "false" {
		return false, fmt.Sprintf("the cursor flags are %s/%s: a kept Src goes before the connection (true), a kept Dst after it (false)", dBefore, oBefore)
	}
	return true, ""
}

func nodeStr(n ast.Node) string {
	switch s := n.(type) {
	case nil:
		return ""
	case *ast.AssignStmt:
		var l, r []string
		for _, e := range s.Lhs {
			l = append(l, exprStr(e))
		}
		for _, e := range s.Rhs {
			r = append(r, exprStr(e))
		}
		return strings.Join(l, ", ") + " " + s.Tok.String() + " " + strings.Join(r, ", ")
	case *ast.IncDecStmt:
		return exprStr(s.X) + s.Tok.String()
	case ast.Expr:
		return exprStr(s)
	}
	return fmt.Sprintf("%T", n)
}

func c38Order(c *core.Check) {
	const rule = "C38.order"
	fi := mustFunc(c, "d2oracle", "", "Delete")
	if fi == nil {
		return
	}
	info := fi.Pkg.TypesInfo
	fl := core.NewFlow(fi.Pkg, fi.Decl.Body)
	dels := callsIn(fi, false, "d2oracle.deleteObject")
	if len(dels) == 0 {
		c.Fail("floor", "floor:"+rule, token.NoPos, "Delete no longer calls deleteObject")
		return
	}
	for i, call := range dels {
		sfx := ""
		if i > 0 {
			sfx = fmt.Sprintf("#%d", i+1)
		}
		b, ix, ok := fl.Locate(call)
		if !ok {
			c.Fail(rule, "order:Delete:rename-before-delete"+sfx, call.Pos(), "deleteObject call not in the flow graph")
			continue
		}
		must, _ := fl.MustPassBefore(b, ix, func(n ast.Node) bool {
			return core.Contains(n, func(x ast.Node) bool { return core.IsCallTo(info, x, "d2oracle.renameConflictsToParent") })
		})
		c.Decide(must, rule, "order:Delete:rename-before-delete"+sfx, call.Pos(), "renameConflictsToParent runs on every path before deleteObject", "a path reaches deleteObject without renameConflictsToParent: a hoisted child that takes a name already used in the parent merges with that object")
		// success exits after the deletion pass updateNear
		bad := ""
		for _, ex := range fl.Exits() {
			if ex.Ret == nil || len(ex.Ret.Results) == 0 || core.IsNil(info, ex.Ret.Results[0]) {
				continue
			}
			reach, _ := fl.ReachableFromAvoiding(b, ix, ex.Blk, ex.Idx, func(n ast.Node) bool {
				return core.Contains(n, func(x ast.Node) bool { return core.IsCallTo(info, x, "d2oracle.updateNear") })
			})
			if reach {
				bad = c.P.Pos(ex.Ret.Pos())
			}
		}
		c.Decide(bad == "", rule, "order:Delete:near-after-delete"+sfx, call.Pos(), "every success return after deleteObject passes updateNear", "the success return at "+bad+" is reached after deleteObject without updateNear: `near` keys that named the deleted object or its hoisted children keep the old name")
	}
}

// ---- C39 ------------------------------------------------------------------------------------------

// c39DropExceptions: places of move that remove a key without re-adding it, keyed by the innermost condition.
var c39DropExceptions = map[string]string{
	"readded:move:under(len(getCommonPath(scopePath, ak2)) != len(scopePath))": "slice case: reached only for an explicit reference without a map that is not among the most nested ones (isExplicit && !mostNestedRefs) — the object is declared by another reference, and this one lives in a scope that is not an ancestor of the destination, so it cannot be rewritten in place",
	"readded:move:under(exists)": "slice case: an equal key already stands in the destination scope (D2OracleEquals), the reference is a duplicate",
}

func runC39(c *core.Check) {
	c.Rule("C39.partition", "filterReserved puts every node of the map into exactly one of its lists")
	c.Rule("C39.readded", "a key that move removes from its scope is appended to the destination scope")
	c.Rule("C39.value-carried", "move overwrites the value of an existing key only after reading the old value into another place")
	c.Rule("C39.near", "every success return of move passes updateNear(old, new, includeDescendants)")
	c.Rule("C39.flag", "children are hoisted and conflicts renamed only when descendants are not moved; the flag is handed through")
	c.Rule("C39.unique", "the destination key move works with is the result of generateUniqueKey")
	c.Rule("C39.every-ref", "the new name (arrowheads) is written into every reference")
	c39Partition(c)
	mv := mustFunc(c, "d2oracle", "", "move")
	if mv == nil {
		return
	}
	c39Move(c, mv)
}

func c39Partition(c *core.Check) {
	const rule = "C39.partition"
	fi := mustFunc(c, "d2oracle", "", "filterReserved")
	if fi == nil {
		return
	}
	info := fi.Pkg.TypesInfo
	var loop *ast.RangeStmt
	ast.Inspect(fi.Decl.Body, func(n ast.Node) bool {
		if rs, ok := n.(*ast.RangeStmt); ok && loop == nil {
			if sel, ok := ast.Unparen(rs.X).(*ast.SelectorExpr); ok && sel.Sel.Name == "Nodes" {
				loop = rs
			}
		}
		return true
	})
	if loop == nil || loop.Value == nil {
		c.Fail("floor", "floor:"+rule, token.NoPos, "filterReserved has no range loop over the nodes of the map")
		return
	}
	node := core.ObjOf(info, loop.Value)
	lists := map[types.Object]bool{}
	hit := func(st ast.Stmt) bool {
		as, ok := st.(*ast.AssignStmt)
		if !ok || len(as.Lhs) != 1 || len(as.Rhs) != 1 {
			return false
		}
		call, ok := ast.Unparen(as.Rhs[0]).(*ast.CallExpr)
		if !ok || len(call.Args) != 2 {
			return false
		}
		if id, ok := call.Fun.(*ast.Ident); !ok || id.Name != "append" {
			return false
		}
		l := core.ObjOf(info, as.Lhs[0])
		if l == nil || core.ObjOf(info, call.Args[0]) != l || core.ObjOf(info, call.Args[1]) != node {
			return false
		}
		lists[l] = true
		return true
	}
	var bad []string
	for o := range appendCounts(loop.Body.List, hit) {
		if o.count != 1 {
			bad = append(bad, fmt.Sprint(o.count))
		}
	}
	c.Decide(len(bad) == 0, rule, "partition:filterReserved:exactly-once", loop.Pos(), "every path through the loop body appends the node to exactly one list", "some path through the loop appends the node to "+strings.Join(bad, " / ")+" lists: a node of the moved key's map (a spread substitution, an import) is lost or duplicated by the split")
	// every list reaches a result: it is read outside its own append statements
	for l := range lists {
		used := false
		ast.Inspect(fi.Decl.Body, func(n ast.Node) bool {
			if as, ok := n.(*ast.AssignStmt); ok && len(as.Lhs) == 1 && core.ObjOf(info, as.Lhs[0]) == l {
				// skip the list's own appends, but look into other right-hand sides
				return false
			}
			if id, ok := n.(*ast.Ident); ok && info.Uses[id] == l {
				if loop.Body.Pos() <= id.Pos() && id.End() <= loop.Body.End() {
					return true
				}
				used = true
			}
			return true
		})
		c.Decide(used, rule, "partition:filterReserved:stored:"+l.Name(), l.Pos(), "the list is stored after the loop", "the list "+l.Name()+" is filled but never stored into a result")
	}
	if len(lists) < 2 {
		c.Fail("floor", "floor:"+rule, token.NoPos, "fewer than two lists receive nodes in filterReserved")
	}
}

func c39Move(c *core.Check, fi *core.FuncInfo) {
	info := fi.Pkg.TypesInfo
	fl := core.NewFlow(fi.Pkg, fi.Decl.Body)
	sig := fi.Obj.Type().(*types.Signature)
	param := func(name string) types.Object {
		for i := 0; i < sig.Params().Len(); i++ {
			if sig.Params().At(i).Name() == name {
				return sig.Params().At(i)
			}
		}
		return nil
	}
	// the parameters by position: move(g, boardPath, key, newKey, includeDescendants)
	if sig.Params().Len() != 5 {
		c.Broken("move no longer has five parameters")
		return
	}
	pKey, pNew, pDesc := sig.Params().At(2), sig.Params().At(3), sig.Params().At(4)
	_ = param
	containsCall := func(name string) core.NodePred {
		return func(n ast.Node) bool {
			return core.Contains(n, func(x ast.Node) bool { return core.IsCallTo(info, x, name) })
		}
	}

	// (2) removed keys are re-added
	nrm := 0
	seen := map[string]int{}
	for _, call := range callsIn(fi, false, "d2oracle.deleteFromMap") {
		if len(call.Args) != 2 || !strings.HasSuffix(exprStr(call.Args[0]), ".Scope") || !strings.HasSuffix(exprStr(call.Args[1]), ".MapKey") {
			continue
		}
		nrm++
		key := "readded:move:under(" + innermostIfCond(fi.Decl.Body, call) + ")"
		seen[key]++
		if seen[key] > 1 {
			key = fmt.Sprintf("%s#%d", key, seen[key])
		}
		b, ix, ok := fl.Locate(call)
		if !ok {
			c.Fail("C39.readded", key, call.Pos(), "call not in the flow graph")
			continue
		}
		// does some path from the removal reach the end of the loop iteration / a success exit without appendUniqueMapKey?
		loops := enclosingLoops(fi.Decl.Body, call)
		escaped := false
		if len(loops) > 0 {
			// next iteration = the loop's range/for head; approximate by: any success exit reachable avoiding the append
			for _, ex := range fl.Exits() {
				if ex.Ret == nil || len(ex.Ret.Results) == 0 || core.IsNil(info, ex.Ret.Results[0]) {
					continue
				}
				if reach, _ := fl.ReachableFromAvoiding(b, ix, ex.Blk, ex.Idx, containsCall("d2oracle.appendUniqueMapKey")); reach {
					escaped = true
				}
			}
		}
		if !escaped && len(loops) > 0 {
			c.Pass("C39.readded", key, call.Pos(), "every path from the removal to a success return appends a key to a scope")
		} else if r, ok := c39DropExceptions[key]; ok {
			c.Except("C39.readded", key, call.Pos(), r)
		} else {
			c.Fail("C39.readded", key, call.Pos(), "the key is removed from its scope and a success return is reachable without appendUniqueMapKey: the moved object's key (label, attributes, children) is lost")
		}
	}
	if nrm < 3 {
		c.Fail("floor", "floor:C39.readded", token.NoPos, fmt.Sprintf("only %d removals of a reference's key in move (confirmed by hand: 3)", nrm))
	}

	// (3) values are carried
	nov := 0
	ast.Inspect(fi.Decl.Body, func(n ast.Node) bool {
		as, ok := n.(*ast.AssignStmt)
		if !ok || as.Tok != token.ASSIGN || len(as.Lhs) != 1 {
			return true
		}
		lhs := exprStr(as.Lhs[0])
		if !strings.HasSuffix(lhs, ".MapKey.Value") {
			return true
		}
		root := rootIdent(info, as.Lhs[0])
		if root == nil {
			return true
		}
		// only keys of the existing source: references (loop variables / locals bound to a d2graph.Reference)
		if nt, ok := root.Type().(*types.Named); !ok || nt.Obj().Name() != "Reference" {
			return true
		}
		nov++
		key := fmt.Sprintf("value-carried:move:%s = %s", lhs, exprStr(as.Rhs[0]))
		b, ix, ok := fl.Locate(as)
		if !ok {
			c.Fail("C39.value-carried", key, as.Pos(), "assignment not in the flow graph")
			return true
		}
		// start the query at the head of the innermost loop iteration when inside a loop: an earlier iteration's read does not count
		reads := func(x ast.Node) bool {
			st, isStmt := x.(ast.Stmt)
			if !isStmt || x == ast.Node(as) {
				return false
			}
			found := false
			ast.Inspect(st, func(y ast.Node) bool {
				if a2, ok := y.(*ast.AssignStmt); ok {
					for _, r := range a2.Rhs {
						// a test of the value (… == nil) is not a copy of it
						if b, isBasic := info.TypeOf(r).Underlying().(*types.Basic); isBasic && b.Info()&types.IsBoolean != 0 {
							continue
						}
						if strings.Contains(exprStr(r), lhs) {
							found = true
						}
					}
					return false
				}
				if call, ok := y.(*ast.CallExpr); ok {
					for _, a := range call.Args {
						if strings.Contains(exprStr(a), lhs) {
							found = true
						}
					}
				}
				return true
			})
			return found
		}
		carried := false
		loops := enclosingLoops(fi.Decl.Body, as)
		if len(loops) == 0 {
			carried, _ = fl.MustPassBefore(b, ix, reads)
		} else {
			// from the first statement of the iteration
			first := loopBody(loops[len(loops)-1]).List[0]
			if sb, si, ok := fl.Locate(first); ok {
				reach, _ := fl.ReachableFromAvoiding(sb, si-1, b, ix, reads)
				carried = !reach
			}
		}
		c.Decide(carried, "C39.value-carried", key, as.Pos(), "the old value is read into another place on every path before it is overwritten", "a path overwrites "+lhs+" without having stored the old value anywhere: the key's label, map or attributes are lost by the move")
		return true
	})
	if nov < 3 {
		c.Fail("floor", "floor:C39.value-carried", token.NoPos, fmt.Sprintf("only %d overwrites of a reference's value in move (confirmed by hand: 3)", nov))
	}

	// (4) near references follow
	nears := callsIn(fi, false, "d2oracle.updateNear")
	if len(nears) == 0 {
		c.Fail("C39.near", "near:move:call", fi.Decl.Pos(), "move does not call updateNear")
	}
	for _, call := range nears {
		okArgs := len(call.Args) == 5
		if okArgs {
			a2, ok2 := ast.Unparen(call.Args[2]).(*ast.UnaryExpr)
			a3, ok3 := ast.Unparen(call.Args[3]).(*ast.UnaryExpr)
			okArgs = ok2 && ok3 && a2.Op == token.AND && a3.Op == token.AND && core.ObjOf(info, a2.X) == pKey && core.ObjOf(info, a3.X) == pNew && core.ObjOf(info, call.Args[4]) == pDesc
		}
		c.Decide(okArgs, "C39.near", "near:move:args", call.Pos(), "updateNear(prevG, g, &key, &newKey, includeDescendants)", "updateNear is not called with the old key, the new key and move's own includeDescendants flag in this order")
	}
	nex := 0
	for _, ex := range fl.Exits() {
		if ex.Ret == nil || len(ex.Ret.Results) == 0 || core.IsNil(info, ex.Ret.Results[0]) {
			continue
		}
		// the no-op return of the input graph (key == newKey) and the connection branch do not move an object
		if core.ObjOf(info, ex.Ret.Results[0]) != nil {
			continue
		}
		isEdgeBranch := false
		if ex.Idx < len(fl.G.Blocks[ex.Blk].Nodes) {
			for _, g := range fl.GuardsOfNode(ex.Ret) {
				for _, a := range g.Atoms() {
					if be, ok := ast.Unparen(a.Cond).(*ast.BinaryExpr); ok && a.True && be.Op == token.GTR && strings.HasSuffix(exprStr(be.X), ".Edges)") && exprStr(be.Y) == "0" {
						isEdgeBranch = true
					}
				}
			}
		}
		if isEdgeBranch {
			continue
		}
		nex++
		reach, _ := fl.ReachableAvoiding(ex.Blk, ex.Idx, containsCall("d2oracle.updateNear"))
		c.Decide(!reach, "C39.near", fmt.Sprintf("near:move:exit#%d", nex), ex.Ret.Pos(), "the success return is reached only through updateNear", "a success return of the object branch is reachable without updateNear: `near` keys that name the moved object keep the old name and the diagram no longer compiles or points elsewhere")
	}
	if nex < 2 {
		c.Fail("floor", "floor:C39.near", token.NoPos, fmt.Sprintf("only %d success returns of the object branch of move (confirmed by hand: 2)", nex))
	}

	// (5) descendants flag
	for _, name := range []string{"d2oracle.hoistRefChildren", "d2oracle.renameConflictsToParent"} {
		calls := callsIn(fi, false, name)
		if len(calls) == 0 {
			c.Fail("C39.flag", "flag:move:"+name, fi.Decl.Pos(), "move no longer calls "+name)
		}
		for i, call := range calls {
			key := "flag:move:" + name
			if i > 0 {
				key = fmt.Sprintf("%s#%d", key, i+1)
			}
			under := false
			for _, g := range fl.GuardsOfNode(call) {
				for _, a := range g.Atoms() {
					if core.ObjOf(info, a.Cond) == pDesc && !a.True {
						under = true
					}
				}
			}
			c.Decide(under, "C39.flag", key, call.Pos(), "runs only when includeDescendants is false", name+" runs although the descendants move along: children are hoisted out of (or renamed in) an object that takes them with it")
		}
	}
	for _, caller := range []struct {
		fn   string
		want string
	}{{"Rename", "false"}, {"Move", ""}} {
		cf := mustFunc(c, "d2oracle", "", caller.fn)
		if cf == nil {
			continue
		}
		calls := callsIn(cf, false, "d2oracle.move")
		if len(calls) == 0 {
			c.Fail("C39.flag", "flag:"+caller.fn+":move-arg", cf.Decl.Pos(), caller.fn+" no longer calls move")
		}
		for _, call := range calls {
			ok := len(call.Args) == 5
			if ok && caller.want != "" {
				ok = exprStr(call.Args[4]) == caller.want
			} else if ok {
				csig := cf.Obj.Type().(*types.Signature)
				ok = core.ObjOf(info, call.Args[4]) == csig.Params().At(csig.Params().Len()-1)
			}
			c.Decide(ok, "C39.flag", "flag:"+caller.fn+":move-arg", call.Pos(), "the descendants flag handed to move is "+map[bool]string{true: "the constant false", false: "the caller's own parameter"}[caller.want != ""], caller.fn+" hands another descendants flag to move than its contract says")
		}
	}

	// (6) unique destination
	{
		var gen *ast.AssignStmt
		ast.Inspect(fi.Decl.Body, func(n ast.Node) bool {
			as, ok := n.(*ast.AssignStmt)
			if !ok || len(as.Rhs) != 1 || len(as.Lhs) < 1 {
				return true
			}
			if call, ok := ast.Unparen(as.Rhs[0]).(*ast.CallExpr); ok && core.IsCallTo(info, call, "d2oracle.generateUniqueKey") && core.ObjOf(info, as.Lhs[0]) == pNew && len(call.Args) >= 2 && core.ObjOf(info, call.Args[1]) == pNew {
				gen = as
			}
			return true
		})
		nparse := 0
		for _, call := range callsIn(fi, false, "d2parser.ParseMapKey") {
			if len(call.Args) != 1 || core.ObjOf(info, call.Args[0]) != pNew {
				continue
			}
			nparse++
			ok := gen != nil && fl.DominatesNode(gen, call)
			c.Decide(ok, "C39.unique", "unique:move:parse", call.Pos(), "newKey is replaced by generateUniqueKey's result before it is parsed", "the destination key is parsed as given: moving onto an existing name merges the moved object with the one already there")
		}
		if nparse == 0 {
			c.Fail("floor", "floor:C39.unique", token.NoPos, "move no longer parses its destination key with ParseMapKey")
		}
	}

	// (7) every reference
	nw := 0
	ast.Inspect(fi.Decl.Body, func(n ast.Node) bool {
		as, ok := n.(*ast.AssignStmt)
		if !ok || as.Tok != token.ASSIGN || len(as.Lhs) != 1 {
			return true
		}
		lhs := exprStr(as.Lhs[0])
		isName := false
		if ix, ok := ast.Unparen(as.Lhs[0]).(*ast.IndexExpr); ok {
			isName = strings.HasSuffix(exprStr(ix.X), ".Key.Path") && strings.HasSuffix(exprStr(ix.Index), ".KeyPathIndex")
		}
		isArrow := strings.HasSuffix(lhs, ".SrcArrow") || strings.HasSuffix(lhs, ".DstArrow")
		if !isName && !isArrow {
			return true
		}
		loops := enclosingLoops(fi.Decl.Body, as)
		if len(loops) == 0 {
			return true
		}
		inner := loops[len(loops)-1]
		ref, _, _ := refVarOf(info, inner)
		if ref == nil || rootIdent(info, as.Lhs[0]) != ref {
			return true
		}
		nw++
		lb := loopBody(inner)
		var bad []string
		for _, g := range fl.GuardsOfNode(as) {
			if g.Cond.Pos() < lb.Pos() || g.Cond.End() > lb.End() {
				continue
			}
			if mentions(info, g.Cond, ref) {
				bad = append(bad, exprStr(g.Cond))
			}
		}
		c.Decide(len(bad) == 0, "C39.every-ref", "every-ref:move:"+lhs, as.Pos(), "written for every reference of the loop", "the write is conditioned on the reference ("+strings.Join(bad, ", ")+"): references that fail the test keep the old name and split the object in two")
		return true
	})
	if nw < 3 {
		c.Fail("floor", "floor:C39.every-ref", token.NoPos, fmt.Sprintf("only %d per-reference writes of the new name/arrowheads found in move (confirmed by hand: 3)", nw))
	}
}
