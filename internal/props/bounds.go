package props

import (
	"os"
	"fmt"
	"go/ast"
	"go/constant"
	"go/token"
	"go/types"
	"strings"

	"d2verif/internal/core"
)

// Bounds engine (E1): inventory of every index and slice expression on a slice, string or
// pointer-to-array in a set of functions, each discharged by one of the idioms below or left open.
// The idioms are syntactic forms whose soundness is argued in DESIGN.md; each checks that the
// variables it relies on are not reassigned between the establishing test and the use.

type boundsSite struct {
	fi   *core.FuncInfo
	node ast.Expr
	kind string // index | slice
	key  string
	ok   bool
	how  string
}

func isIndexable(t types.Type) bool {
	switch u := t.Underlying().(type) {
	case *types.Slice:
		return true
	case *types.Basic:
		return u.Info()&types.IsString != 0
	case *types.Pointer:
		_, ok := u.Elem().Underlying().(*types.Array)
		return ok
	case *types.Array:
		return true
	}
	return false
}

// need describes `len(X) >= n + c` style requirements: the use is safe when len(X) ≥ min.
type lenFact struct {
	x   string // text of the measured expression
	min int64  // len(x) ≥ min is known
}

// lenFactsOf extracts what a guard atom says about len(X) for any X: returns (text of X, lower bound established).
func lenFactOf(info *types.Info, a core.Guard) (string, int64, bool) {
	be, ok := ast.Unparen(a.Cond).(*ast.BinaryExpr)
	if !ok {
		return "", 0, false
	}
	// s != "" (or s == "" on the false edge) ⇒ len(s) ≥ 1
	if be.Op == token.NEQ || be.Op == token.EQL {
		for _, pr := range [][2]ast.Expr{{be.X, be.Y}, {be.Y, be.X}} {
			if tv, ok := info.Types[pr[1]]; ok && tv.Value != nil && tv.Value.Kind() == constant.String && constant.StringVal(tv.Value) == "" {
				if (be.Op == token.NEQ) == a.True {
					return exprStr(pr[0]), 1, true
				}
			}
		}
	}
	lenArg := func(e ast.Expr) (string, bool) {
		call, ok := ast.Unparen(e).(*ast.CallExpr)
		if !ok || len(call.Args) != 1 {
			return "", false
		}
		if id, ok := call.Fun.(*ast.Ident); !ok || id.Name != "len" {
			return "", false
		}
		return exprStr(call.Args[0]), true
	}
	constOf := func(e ast.Expr) (int64, bool) {
		tv, ok := info.Types[e]
		if !ok || tv.Value == nil || tv.Value.Kind() != constant.Int {
			return 0, false
		}
		v, ok := constant.Int64Val(tv.Value)
		return v, ok
	}
	op := be.Op
	x, okx := lenArg(be.X)
	cv, okc := constOf(be.Y)
	if !okx || !okc {
		// constant on the left: flip
		x, okx = lenArg(be.Y)
		cv, okc = constOf(be.X)
		if !okx || !okc {
			return "", 0, false
		}
		switch op {
		case token.LSS:
			op = token.GTR
		case token.GTR:
			op = token.LSS
		case token.LEQ:
			op = token.GEQ
		case token.GEQ:
			op = token.LEQ
		}
	}
	if !a.True {
		switch op {
		case token.LSS:
			op = token.GEQ
		case token.GEQ:
			op = token.LSS
		case token.GTR:
			op = token.LEQ
		case token.LEQ:
			op = token.GTR
		case token.EQL:
			op = token.NEQ
		case token.NEQ:
			op = token.EQL
		}
	}
	switch op {
	case token.GTR:
		return x, cv + 1, true
	case token.GEQ:
		return x, cv, true
	case token.EQL:
		return x, cv, true
	case token.NEQ:
		if cv == 0 {
			return x, 1, true
		}
	}
	return "", 0, false
}

// varsIn lists the variables an expression mentions.
func varsIn(info *types.Info, e ast.Expr) map[types.Object]bool {
	out := map[types.Object]bool{}
	ast.Inspect(e, func(n ast.Node) bool {
		if id, ok := n.(*ast.Ident); ok {
			if v, ok := info.Uses[id].(*types.Var); ok {
				out[v] = true
			}
		}
		return true
	})
	return out
}

// modifiedBetween: some variable of vars (or a field path starting at it, when the assignment's
// left side has the same text as one of texts) is assigned in the source interval (from, to), or
// anywhere inside the innermost loop that contains `to` but not `from`.
func modifiedBetween(fi *core.FuncInfo, vars map[types.Object]bool, texts []string, from, to token.Pos) bool {
	info := fi.Pkg.TypesInfo
	// loops containing `to` but not `from`
	var loops []ast.Node
	ast.Inspect(fi.Decl.Body, func(n ast.Node) bool {
		switch n.(type) {
		case *ast.ForStmt, *ast.RangeStmt:
			if n.Pos() <= to && to < n.End() && !(n.Pos() <= from && from < n.End()) {
				loops = append(loops, n)
			}
		}
		return true
	})
	inScope := func(p token.Pos) bool {
		if p > from && p < to {
			return true
		}
		for _, l := range loops {
			if l.Pos() <= p && p < l.End() {
				return true
			}
		}
		return false
	}
	hit := false
	touch := func(lhs ast.Expr, pos token.Pos) {
		if !inScope(pos) {
			return
		}
		t := exprStr(lhs)
		for _, want := range texts {
			if t == want || strings.HasPrefix(want, t+".") || strings.HasPrefix(want, t+"[") {
				hit = true
			}
		}
		if id, ok := ast.Unparen(lhs).(*ast.Ident); ok {
			if o := core.ObjOf(info, id); o != nil && vars[o] {
				hit = true
			}
		}
	}
	ast.Inspect(fi.Decl.Body, func(n ast.Node) bool {
		switch s := n.(type) {
		case *ast.AssignStmt:
			for _, l := range s.Lhs {
				touch(l, s.End()-1) // takes effect after the right-hand side was evaluated
			}
		case *ast.IncDecStmt:
			touch(s.X, s.End()-1)
		case *ast.UnaryExpr:
			if s.Op == token.AND {
				touch(s.X, s.Pos()) // address taken: could be written through the pointer
			}
		case *ast.RangeStmt:
			if s.Key != nil {
				touch(s.Key, s.Pos())
			}
			if s.Value != nil {
				touch(s.Value, s.Pos())
			}
		}
		return true
	})
	return hit
}

// modifiedOnPath: a statement that assigns one of vars (or an expression whose text is a prefix of one of
// texts) can execute after `anchor` (the test or definition that established a fact) and before `use`,
// i.e. there is a CFG path from the modification to the use that does not re-execute the anchor.
func modifiedOnPath(fi *core.FuncInfo, fl *core.Flow, anchor ast.Node, use ast.Node, vars map[types.Object]bool, texts []string) bool {
	info := fi.Pkg.TypesInfo
	ub, ui, ok := fl.Locate(use)
	if !ok {
		return true
	}
	// a short-circuit guard inside the same expression is evaluated immediately before the use:
	// no statement runs in between (calls inside the expression are assumed not to reassign the operands)
	if un := fl.G.Blocks[ub].Nodes[ui]; un.Pos() <= anchor.Pos() && anchor.End() <= un.End() {
		return false
	}
	barrier := func(n ast.Node) bool { return n == anchor }
	hit := false
	check := func(lhs ast.Expr, stmt ast.Node) {
		if hit {
			return
		}
		match := false
		t := exprStr(lhs)
		for _, want := range texts {
			if t == want || strings.HasPrefix(want, t+".") || strings.HasPrefix(want, t+"[") {
				match = true
			}
		}
		if id, ok := ast.Unparen(lhs).(*ast.Ident); ok {
			if o := core.ObjOf(info, id); o != nil && vars[o] {
				match = true
			}
		}
		if !match || stmt == anchor {
			return
		}
		mb, mi, ok := fl.Locate(stmt)
		if !ok {
			// inside a nested function literal: it may run at any time
			hit = true
			return
		}
		if mb == ub && mi == ui {
			// the statement containing the use: its assignment happens after the use was evaluated;
			// it matters only if the use can be reached again without passing the anchor
			if r, _ := fl.ReachableFromAvoiding(mb, mi, ub, ui, barrier); r {
				hit = true
			}
			return
		}
		if r, _ := fl.ReachableFromAvoiding(mb, mi, ub, ui, barrier); r {
			// the modification must itself be after the anchor: if the anchor dominates the use and the
			// path from the modification avoids the anchor, the modification lies between them
			hit = true
		}
	}
	body := fl.Body
	ast.Inspect(body, func(n ast.Node) bool {
		switch s := n.(type) {
		case *ast.AssignStmt:
			for _, l := range s.Lhs {
				check(l, s)
			}
		case *ast.IncDecStmt:
			check(s.X, s)
		case *ast.UnaryExpr:
			if s.Op == token.AND {
				check(s.X, s)
			}
		case *ast.RangeStmt:
			if s.Key != nil {
				check(s.Key, s.Key)
			}
			if s.Value != nil {
				check(s.Value, s.Value)
			}
		}
		return true
	})
	return hit
}

// intConst returns the constant integer value of e.
func intConst(info *types.Info, e ast.Expr) (int64, bool) {
	tv, ok := info.Types[e]
	if !ok || tv.Value == nil || tv.Value.Kind() != constant.Int {
		return 0, false
	}
	return constant.Int64Val(tv.Value)
}

// lenMinus recognises len(X)-c (c ≥ 0) and returns (text of X, c).
func lenMinus(info *types.Info, e ast.Expr) (string, int64, bool) {
	e = ast.Unparen(e)
	if call, ok := e.(*ast.CallExpr); ok && len(call.Args) == 1 {
		if id, ok := call.Fun.(*ast.Ident); ok && id.Name == "len" {
			return exprStr(call.Args[0]), 0, true
		}
	}
	if be, ok := e.(*ast.BinaryExpr); ok && be.Op == token.SUB {
		if x, c0, ok := lenMinus(info, be.X); ok {
			if c, ok := intConst(info, be.Y); ok && c >= 0 {
				return x, c0 + c, true
			}
		}
	}
	return "", 0, false
}

func boundsSites(p *core.Prog, fis []*core.FuncInfo, strIdxOK map[token.Pos]bool) []*boundsSite {
	var out []*boundsSite
	for _, fi := range fis {
		if fi.Decl == nil || fi.Decl.Body == nil {
			continue
		}
		info := fi.Pkg.TypesInfo
		bodies := core.BodiesOf(fi.Decl)
		flows := map[int]*core.Flow{}
		flowOf := func(n ast.Node) *core.Flow {
			bi := core.InnermostBody(bodies, n)
			if bi < 0 {
				bi = 0
			}
			if flows[bi] == nil {
				flows[bi] = core.NewFlow(fi.Pkg, bodies[bi].Block)
			}
			return flows[bi]
		}
		counts := map[string]int{}
		add := func(n ast.Expr, kind string, ok bool, how string) {
			k := kind + ":" + fname(fi) + ":" + exprStr(n)
			counts[k]++
			if counts[k] > 1 {
				k = fmt.Sprintf("%s#%d", k, counts[k])
			}
			out = append(out, &boundsSite{fi: fi, node: n, kind: kind, key: k, ok: ok, how: how})
		}
		// guards with the facts they establish, per node (computed lazily)
		factsAt := func(n ast.Node) (facts []lenFact, atoms []core.Guard) {
			for _, g := range flowOf(n).GuardsOfNode(n) {
				for _, a := range g.Atoms() {
					atoms = append(atoms, a)
					if x, m, ok := lenFactOf(info, a); ok {
						if !modifiedOnPath(fi, flowOf(n), a.Cond, n, varsInText(fi, a.Cond), []string{x}) {
							facts = append(facts, lenFact{x, m})
						}
					}
				}
			}
			return
		}
		need := func(n ast.Node, x string, min int64) (bool, string) {
			if min <= 0 {
				return true, "no lower bound needed"
			}
			facts, atoms := factsAt(n)
			for _, f := range facts {
				if f.x == x && f.min >= min {
					return true, fmt.Sprintf("dominating test establishes len(%s) ≥ %d", x, f.min)
				}
			}
			// len(x) != c on the path raises a known bound len(x) ≥ c to c+1 (if len == 0 {return}; if len == 1 {return})
			{
				best := int64(0)
				for _, f := range facts {
					if f.x == x && f.min > best {
						best = f.min
					}
				}
				changed := true
				for changed {
					changed = false
					for _, a := range atoms {
						be, ok := ast.Unparen(a.Cond).(*ast.BinaryExpr)
						if !ok {
							continue
						}
						ne := (be.Op == token.NEQ && a.True) || (be.Op == token.EQL && !a.True)
						if !ne {
							continue
						}
						if lx, c0, ok := lenMinus(info, be.X); ok && lx == x && c0 == 0 {
							if cv, ok := intConst(info, be.Y); ok && cv == best && !modifiedOnPath(fi, flowOf(n), a.Cond, n, varsInText(fi, a.Cond), []string{x}) {
								best++
								changed = true
							}
						}
					}
				}
				if best >= min {
					return true, fmt.Sprintf("dominating tests exclude every length below %d", best)
				}
			}
			// strings.Split / SplitN results are never empty
			if min == 1 {
				if id, ok := n.(*ast.IndexExpr); ok {
					if o := core.ObjOf(info, id.X); o != nil {
						if d := singleDef(fi, o); d != nil {
							if call, ok := ast.Unparen(d.Rhs).(*ast.CallExpr); ok && core.IsCallTo(info, call, "strings.Split", "strings.SplitN", "strings.SplitAfter") {
								return true, "result of strings.Split (at least one element)"
							}
						}
					}
				}
			}
			// X.F where X := callee() whose deferred closure nils out results with an empty F, and X != nil dominates
			if dot := strings.LastIndex(x, "."); dot > 0 && min == 1 {
				base, field := x[:dot], x[dot+1:]
				for _, a := range atoms {
					e, nonNil, ok := a.NilTest(info)
					if !ok || !nonNil || exprStr(e) != base {
						continue
					}
					o := core.ObjOf(info, e)
					d := singleDef(fi, o)
					if d == nil {
						continue
					}
					if call, ok := ast.Unparen(d.Rhs).(*ast.CallExpr); ok {
						if f := core.CalleeOf(info, call); f != nil {
							if nonEmptyOrNilResult(p.Decl(f)) == field {
								return true, "non-nil result of " + core.FuncName(f) + ", which never returns an empty " + field
							}
						}
					}
				}
			}
			// inside `switch X { case "…", "…": … }`: X equals one of the constants
			{
				var minLen int64 = -1
				ast.Inspect(fi.Decl.Body, func(m ast.Node) bool {
					sw, ok := m.(*ast.SwitchStmt)
					if !ok || sw.Tag == nil || exprStr(sw.Tag) != x {
						return true
					}
					for _, cl := range sw.Body.List {
						cc := cl.(*ast.CaseClause)
						if cc.List == nil || !(cc.Pos() <= n.Pos() && n.End() <= cc.End()) {
							continue
						}
						ml := int64(1 << 30)
						for _, ce := range cc.List {
							tv, ok := info.Types[ce]
							if !ok || tv.Value == nil || tv.Value.Kind() != constant.String {
								ml = -1
								break
							}
							if l := int64(len(constant.StringVal(tv.Value))); l < ml {
								ml = l
							}
						}
						if ml >= 0 && ml != 1<<30 {
							minLen = ml
						}
					}
					return true
				})
				if minLen >= min {
					// the tag must not be reassigned inside the clause before the use: rely on modifiedOnPath-free simple check
					return true, fmt.Sprintf("inside a case of switch %s whose constants have length ≥ %d", x, minLen)
				}
			}
			// X, err := R.Peek(n); err == nil ⇒ len(X) == n
			if id, ok := n.(*ast.IndexExpr); ok {
				if o := core.ObjOf(info, id.X); o != nil {
					for _, d := range defsOf(fi, o) {
						call, ok := d.Rhs.(*ast.CallExpr)
						if !ok || !d.Multi || d.Index != 0 || !core.IsCallTo(info, call, "bufio.(*Reader).Peek") {
							continue
						}
						nPeek, ok := intConst(info, call.Args[0])
						if !ok || nPeek < min || len(defsOf(fi, o)) != 1 {
							continue
						}
						errObj := resultVar(fi, call, 0)
						for _, a := range atoms {
							e, nonNil, ok := a.NilTest(info)
							if ok && !nonNil && core.ObjOf(info, e) == errObj && errObj != nil {
								return true, fmt.Sprintf("bufio.Reader.Peek(%d) returned without error", nPeek)
							}
						}
					}
				}
			}
			return false, ""
		}
		// E < len(X) style guard for a non-constant index expression
		idxGuard := func(n ast.Node, idx ast.Expr, x string, strict bool) (bool, string) {
			it := exprStr(idx)
			_, atoms := factsAt(n)
			for _, a := range atoms {
				be, ok := ast.Unparen(a.Cond).(*ast.BinaryExpr)
				if !ok {
					continue
				}
				l, r := exprStr(be.X), exprStr(be.Y)
				op := be.Op
				if !a.True {
					switch op {
					case token.LSS:
						op = token.GEQ
					case token.GEQ:
						op = token.LSS
					case token.GTR:
						op = token.LEQ
					case token.LEQ:
						op = token.GTR
					default:
						continue
					}
				}
				lenx := "len(" + x + ")"
				okForm := false
				switch {
				case l == it && r == lenx && op == token.LSS:
					okForm = true
				case l == lenx && r == it && op == token.GTR:
					okForm = true
				case !strict && l == it && r == lenx && op == token.LEQ:
					okForm = true
				case !strict && l == lenx && r == it && op == token.GEQ:
					okForm = true
				// idx+1 < len(x) covers x[idx] too
				case l == it+" + 1" && r == lenx && (op == token.LSS || op == token.LEQ):
					okForm = true
				}
				if okForm && !modifiedOnPath(fi, flowOf(n), a.Cond, n, varsInText(fi, a.Cond), []string{x}) {
					return true, "dominating test " + exprStr(a.Cond)
				}
			}
			return false, ""
		}
		nonNeg := func(idx ast.Expr) bool {
			// a variable that is a range key, or only ever assigned non-negative constants and incremented, or a len() expression
			idx = ast.Unparen(idx)
			if c, ok := intConst(info, idx); ok {
				return c >= 0
			}
			if _, _, ok := lenMinus(info, idx); ok {
				return false // len(x)-c may be negative: callers handle through need()
			}
			if be, ok := idx.(*ast.BinaryExpr); ok && be.Op == token.ADD {
				return nonNegExpr(fi, be.X) && nonNegExpr(fi, be.Y)
			}
			return nonNegExpr(fi, idx)
		}
		var rangeStack []*ast.RangeStmt
		var visit func(n ast.Node) bool
		visit = func(n ast.Node) bool {
			switch x := n.(type) {
			case *ast.RangeStmt:
				rangeStack = append(rangeStack, x)
				ast.Inspect(x.Body, visit)
				if x.Key != nil {
					ast.Inspect(x.Key, visit)
				}
				ast.Inspect(x.X, visit)
				rangeStack = rangeStack[:len(rangeStack)-1]
				return false
			case *ast.IndexExpr:
				tv, ok := info.Types[x.X]
				if !ok || !isIndexable(tv.Type) {
					return true
				}
				if _, isArr := tv.Type.Underlying().(*types.Array); isArr {
					if _, ok := intConst(info, x.Index); ok {
						return true // the compiler checks constant indices of arrays
					}
				}
				xs := exprStr(x.X)
				// I1: range key over the same expression
				if id, ok := ast.Unparen(x.Index).(*ast.Ident); ok {
					for _, rs := range rangeStack {
						if rs.Key != nil && core.ObjOf(info, rs.Key) == core.ObjOf(info, id) && exprStr(rs.X) == xs {
							if !modifiedBetween(fi, map[types.Object]bool{core.ObjOf(info, id): true}, []string{xs}, rs.Body.Pos(), x.Pos()) && !shrunkIn(fi, rs.Body, xs) {
								add(x, "index", true, "range key of the same slice")
								return true
							}
						}
					}
				}
				// constant index
				if c, ok := intConst(info, x.Index); ok {
					if okk, how := need(x, xs, c+1); okk {
						add(x, "index", true, how)
						return true
					}
					add(x, "index", false, fmt.Sprintf("needs len(%s) ≥ %d", xs, c+1))
					return true
				}
				// len(X)-c
				if lx, c, ok := lenMinus(info, x.Index); ok && lx == xs && c >= 1 {
					if okk, how := need(x, xs, c); okk {
						add(x, "index", true, how)
						return true
					}
					add(x, "index", false, fmt.Sprintf("needs len(%s) ≥ %d", xs, c))
					return true
				}
				// I4: idx < len(X) guard with idx non-negative
				if okk, how := idxGuard(x, x.Index, xs, true); okk && nonNeg(x.Index) {
					add(x, "index", true, how)
					return true
				}
				// I10: range key over A indexes B after a dominating len(A) == len(B)
				if id, ok := ast.Unparen(x.Index).(*ast.Ident); ok {
					for _, rs := range rangeStack {
						if rs.Key == nil || core.ObjOf(info, rs.Key) != core.ObjOf(info, id) {
							continue
						}
						as := exprStr(rs.X)
						_, atoms := factsAt(rs)
						for _, a := range atoms {
							be, ok := ast.Unparen(a.Cond).(*ast.BinaryExpr)
							if !ok {
								continue
							}
							eq := (be.Op == token.EQL && a.True) || (be.Op == token.NEQ && !a.True)
							l, r := exprStr(be.X), exprStr(be.Y)
							if eq && ((l == "len("+as+")" && r == "len("+xs+")") || (r == "len("+as+")" && l == "len("+xs+")")) &&
								!modifiedOnPath(fi, flowOf(x), a.Cond, x, varsIn(info, a.Cond), []string{as, xs}) {
								add(x, "index", true, "range key of "+as+" after "+exprStr(a.Cond))
								return true
							}
						}
					}
				}
				// I11: counted loops and length aliases: index i+k with i bounded below by its initial value and above by a
				// dominating comparison with len(X)-c (aliases of len expressions resolved)
				if okk, how := affineIndex(fi, flowOf(x), info, x, xs); okk {
					add(x, "index", true, how)
					return true
				}
				add(x, "index", false, "no idiom matched")
				return true
			case *ast.SliceExpr:
				tv, ok := info.Types[x.X]
				if !ok || !isIndexable(tv.Type) {
					return true
				}
				xs := exprStr(x.X)
				okAll := true
				why := ""
				how := []string{}
				checkBound := func(b ast.Expr, isHigh bool) {
					if b == nil {
						return
					}
					if c, ok := intConst(info, b); ok {
						if c == 0 {
							return
						}
						if okk, h := need(x, xs, c); okk {
							how = append(how, h)
							return
						}
						okAll = false
						why = fmt.Sprintf("needs len(%s) ≥ %d", xs, c)
						return
					}
					if lx, c, ok := lenMinus(info, b); ok && lx == xs {
						if c == 0 {
							return
						}
						if okk, h := need(x, xs, c); okk {
							how = append(how, h)
							return
						}
						okAll = false
						why = fmt.Sprintf("needs len(%s) ≥ %d", xs, c)
						return
					}
					if okk, h := idxGuard(x, b, xs, false); okk && nonNeg(b) {
						how = append(how, h)
						return
					}
					{
						_, atoms := factsAt(x)
						if okk, h := finderBound(fi, flowOf(x), atoms, b, xs, x); okk {
							how = append(how, h)
							return
						}
					}
					// size returned by utf8.Decode(Last)RuneInString(X) applied to X
					if id, ok := ast.Unparen(b).(*ast.Ident); ok {
						if o := core.ObjOf(info, id); o != nil {
							var ds []defSite
							for _, d := range defsOf(fi, o) {
								if vs, ok := d.Stmt.(*ast.ValueSpec); ok && len(vs.Values) == 0 {
									continue // `var size int`: zero is a valid bound as well
								}
								if gd, ok := d.Stmt.(*ast.DeclStmt); ok && d.Rhs == nil {
									_ = gd
									continue
								}
								ds = append(ds, d)
							}
							if len(ds) == 1 && ds[0].Multi && ds[0].Index == 1 {
								if call, ok := ds[0].Rhs.(*ast.CallExpr); ok && core.IsCallTo(info, call, "unicode/utf8.DecodeLastRuneInString", "unicode/utf8.DecodeRuneInString", "unicode/utf8.DecodeRune", "unicode/utf8.DecodeLastRune") &&
									exprStr(call.Args[0]) == xs && !modifiedOnPath(fi, flowOf(x), ds[0].Stmt, x, varsIn(info, call.Args[0]), []string{xs}) {
									how = append(how, "size of a rune decoded from the same string")
									return
								}
							}
						}
					}
					// len(prefix) after HasPrefix(x, prefix)
					if call, ok := ast.Unparen(b).(*ast.CallExpr); ok && len(call.Args) == 1 && exprStr(call.Fun) == "len" {
						_, atoms := factsAt(x)
						for _, a := range atoms {
							if ac, ok := ast.Unparen(a.Cond).(*ast.CallExpr); ok && a.True && core.IsCallTo(info, ac, "strings.HasPrefix", "strings.HasSuffix") &&
								exprStr(ac.Args[0]) == xs && exprStr(ac.Args[1]) == exprStr(call.Args[0]) {
								how = append(how, "dominating "+exprStr(ac))
								return
							}
						}
					}
					okAll = false
					why = "bound " + exprStr(b) + ": no idiom matched"
				}
				// x[a:b]: a ≤ b is not checked separately unless both constant
				checkBound(x.Low, false)
				checkBound(x.High, true)
				if x.Max != nil {
					checkBound(x.Max, true)
				}
				if x.Low != nil && x.High != nil {
					lc, ok1 := intConst(info, x.Low)
					hc, ok2 := intConst(info, x.High)
					if !(ok1 && ok2 && lc <= hc) && !(ok1 && lc == 0) {
						// low ≤ high must also hold
						if !(exprStr(x.Low) == "0") {
							if okk, _ := lowLeHigh(fi, flowOf(x), x); !okk {
								okAll = false
								why = "low ≤ high not established"
							}
						}
					}
				}
				if okAll {
					h := "trivial bounds"
					if len(how) > 0 {
						h = strings.Join(how, "; ")
					}
					add(x, "slice", true, h)
				} else {
					add(x, "slice", false, why)
				}
				return true
			}
			return true
		}
		ast.Inspect(fi.Decl.Body, visit)
	}
	return out
}

// lenForm resolves e to len(X)+c following single-definition aliases (n := len(x); last := len(x)-1).
func lenForm(fi *core.FuncInfo, e ast.Expr, depth int) (x string, c int64, ok bool) {
	info := fi.Pkg.TypesInfo
	e = ast.Unparen(e)
	if call, isCall := e.(*ast.CallExpr); isCall && len(call.Args) == 1 {
		if id, isId := call.Fun.(*ast.Ident); isId && id.Name == "len" {
			return exprStr(call.Args[0]), 0, true
		}
	}
	if be, isBin := e.(*ast.BinaryExpr); isBin && (be.Op == token.SUB || be.Op == token.ADD) {
		if k, isConst := intConst(info, be.Y); isConst {
			if x, c0, ok := lenForm(fi, be.X, depth); ok {
				if be.Op == token.SUB {
					return x, c0 - k, true
				}
				return x, c0 + k, true
			}
		}
	}
	if id, isId := e.(*ast.Ident); isId && depth < 3 {
		if d := singleDef(fi, core.ObjOf(info, id)); d != nil {
			if x, c, ok := lenForm(fi, d.Rhs, depth+1); ok {
				// the measured slice must not change between the alias and its use: checked by the caller through modifiedOnPath on X
				return x, c, true
			}
		}
	}
	return "", 0, false
}

// idxForm splits an index expression into variable + constant offset (i, i+k, i-k) or a length form.
func idxForm(info *types.Info, e ast.Expr) (v types.Object, k int64, ok bool) {
	e = ast.Unparen(e)
	if id, isId := e.(*ast.Ident); isId {
		if o, isVar := info.Uses[id].(*types.Var); isVar {
			return o, 0, true
		}
		return nil, 0, false
	}
	if be, isBin := e.(*ast.BinaryExpr); isBin && (be.Op == token.ADD || be.Op == token.SUB) {
		if c, isConst := intConst(info, be.Y); isConst {
			if v, k0, ok := idxForm(info, be.X); ok {
				if be.Op == token.SUB {
					return v, k0 - c, true
				}
				return v, k0 + c, true
			}
		}
	}
	return nil, 0, false
}

// varBounds: constant lower bound of an integer variable from its definitions: one initial constant definition and
// otherwise only increments (lower bound = initial value) — or, with decrements, no bound from definitions.
func varLowerBound(fi *core.FuncInfo, o types.Object) (int64, bool) {
	info := fi.Pkg.TypesInfo
	if o == nil || isParam(fi, o) {
		return 0, false
	}
	var init *int64
	for _, d := range defsOf(fi, o) {
		switch st := d.Stmt.(type) {
		case *ast.IncDecStmt:
			if st.Tok != token.INC {
				return 0, false
			}
		case *ast.RangeStmt:
			if st.Key != nil && core.ObjOf(info, st.Key) == o {
				z := int64(0)
				if init == nil || *init > 0 {
					init = &z
				}
				continue
			}
			return 0, false
		case *ast.AssignStmt:
			if d.Rhs == nil {
				return 0, false
			}
			if st.Tok == token.ADD_ASSIGN {
				if c, ok := intConst(info, d.Rhs); ok && c >= 0 {
					continue
				}
				return 0, false
			}
			c, ok := intConst(info, d.Rhs)
			if !ok {
				return 0, false
			}
			if init == nil || c < *init {
				cc := c
				init = &cc
			}
		default:
			return 0, false
		}
	}
	if init == nil {
		return 0, false
	}
	return *init, true
}

// affineIndex decides X[i+k] (or X[len(X)-c] through an alias) from dominating comparisons.
func affineIndex(fi *core.FuncInfo, fl *core.Flow, info *types.Info, x *ast.IndexExpr, xs string) (bool, string) {
	var atoms []core.Guard
	for _, g := range fl.GuardsOfNode(x) {
		atoms = append(atoms, g.Atoms()...)
	}
	stable := func(a core.Guard) bool {
		return !modifiedOnPath(fi, fl, a.Cond, x, varsIn(info, a.Cond), []string{xs})
	}
	// normalise an atom to  lhs <op> rhs  with polarity applied
	type cmp struct {
		l, r ast.Expr
		op   token.Token
		g    core.Guard
	}
	var cmps []cmp
	for _, a := range atoms {
		be, ok := ast.Unparen(a.Cond).(*ast.BinaryExpr)
		if !ok {
			continue
		}
		op := be.Op
		if !a.True {
			switch op {
			case token.LSS:
				op = token.GEQ
			case token.GEQ:
				op = token.LSS
			case token.GTR:
				op = token.LEQ
			case token.LEQ:
				op = token.GTR
			case token.EQL:
				op = token.NEQ
			case token.NEQ:
				op = token.EQL
			default:
				continue
			}
		}
		cmps = append(cmps, cmp{be.X, be.Y, op, a})
	}
	// case A: the index is a length form len(X)-c (directly or through an alias): needs len(X) ≥ c and c ≥ 1
	if lx, c, ok := lenForm(fi, x.Index, 0); ok && lx == xs && c <= -1 {
		need := -c
		for _, cm := range cmps {
			if fx, m, ok := lenFactOf(info, cm.g); ok && fx == xs && m >= need && stable(cm.g) {
				return true, fmt.Sprintf("index is len(%s)%d; dominating test establishes len ≥ %d", xs, c, m)
			}
		}
		// a comparison of the alias itself: last >= 0
		if v, _, ok := idxForm(info, x.Index); ok && v != nil {
			for _, cm := range cmps {
				if core.ObjOf(info, cm.l) == v {
					if k, isConst := intConst(info, cm.r); isConst && ((cm.op == token.GEQ && k >= 0) || (cm.op == token.GTR && k >= -1)) && stable(cm.g) {
						return true, "index is an alias of len(" + xs + ")-c tested non-negative"
					}
				}
			}
		}
		return false, ""
	}
	v, k, ok := idxForm(info, x.Index)
	if !ok || v == nil {
		return false, ""
	}
	// range key over A while X := make([]T, len(A))
	if k == 0 {
		for _, d := range defsOf(fi, v) {
			rs, isRange := d.Stmt.(*ast.RangeStmt)
			if !isRange || rs.Key == nil || core.ObjOf(info, rs.Key) != v || !(rs.Body.Pos() <= x.Pos() && x.End() <= rs.Body.End()) {
				continue
			}
			if xo := core.ObjOf(info, x.X); xo != nil {
				if xd := singleDef(fi, xo); xd != nil {
					if mk, isCall := ast.Unparen(xd.Rhs).(*ast.CallExpr); isCall && exprStr(mk.Fun) == "make" && len(mk.Args) >= 2 && exprStr(mk.Args[1]) == "len("+exprStr(rs.X)+")" {
						if !modifiedOnPath(fi, fl, xd.Stmt, x, varsIn(info, rs.X), []string{xs, exprStr(rs.X)}) {
							return true, "range key of " + exprStr(rs.X) + "; " + xs + " was made with that length"
						}
					}
				}
			}
		}
	}
	// lower bound: i+k ≥ 0
	lowOK, lowHow := false, ""
	if lb, ok := varLowerBound(fi, v); ok && lb+k >= 0 {
		lowOK, lowHow = true, fmt.Sprintf("%s ≥ %d by its definitions", v.Name(), lb)
	}
	if !lowOK && k >= 0 && clampedNonNeg(fi, v, x.Pos()) {
		lowOK, lowHow = true, v.Name()+" is clamped at zero"
	}
	for _, cm := range cmps {
		if core.ObjOf(info, cm.l) == v && !lowOK {
			if c, isConst := intConst(info, cm.r); isConst && stable(cm.g) {
				if (cm.op == token.GEQ && c+k >= 0) || (cm.op == token.GTR && c+1+k >= 0) {
					lowOK, lowHow = true, "dominating "+exprStr(cm.g.Cond)
				}
			}
		}
	}
	if !lowOK {
		return false, ""
	}
	// upper bound: i+k < len(X)
	for _, cm := range cmps {
		if core.ObjOf(info, cm.l) != v {
			continue
		}
		lx, c, ok := lenForm(fi, cm.r, 0)
		if !ok {
			// X := make([]T, n) and the comparison is with that very n
			if rid, isId := ast.Unparen(cm.r).(*ast.Ident); isId {
				if xo := core.ObjOf(info, x.X); xo != nil {
					if d := singleDef(fi, xo); d != nil {
						if mk, isCall := ast.Unparen(d.Rhs).(*ast.CallExpr); isCall && exprStr(mk.Fun) == "make" && len(mk.Args) >= 2 && core.ObjOf(info, mk.Args[1]) == core.ObjOf(info, rid) && core.ObjOf(info, rid) != nil {
							if !modifiedOnPath(fi, fl, d.Stmt, x, map[types.Object]bool{core.ObjOf(info, rid): true}, []string{xs}) {
								lx, c, ok = xs, 0, true
							}
						}
					}
				}
			}
		}
		if !ok || lx != xs || !stable(cm.g) {
			continue
		}
		// i < len+c  ⇒ i+k < len iff k ≤ -c ;  i <= len+c ⇒ i+k < len iff k < -c
		if (cm.op == token.LSS && k <= -c) || (cm.op == token.LEQ && k < -c) {
			return true, lowHow + "; dominating " + exprStr(cm.g.Cond)
		}
	}
	// i := P - c0 (c0 ≥ 1) with a dominating P <= len(X), then only decremented
	{
		var initRhs ast.Expr
		onlyDec := true
		ninit := 0
		for _, d := range defsOf(fi, v) {
			switch st := d.Stmt.(type) {
			case *ast.IncDecStmt:
				if st.Tok != token.DEC {
					onlyDec = false
				}
			case *ast.AssignStmt:
				if d.Rhs == nil {
					onlyDec = false
				} else {
					initRhs = d.Rhs
					ninit++
				}
			default:
				onlyDec = false
			}
		}
		if onlyDec && ninit == 1 && k <= 0 {
			if be, ok := ast.Unparen(initRhs).(*ast.BinaryExpr); ok && be.Op == token.SUB {
				if c0, isConst := intConst(info, be.Y); isConst && c0 >= 1 {
					if po := core.ObjOf(info, be.X); po != nil {
						for _, cm := range cmps {
							if core.ObjOf(info, cm.l) != po {
								continue
							}
							lx, c, ok := lenForm(fi, cm.r, 0)
							if ok && lx == xs && stable(cm.g) && ((cm.op == token.LEQ && c <= 0) || (cm.op == token.LSS && c <= 1)) {
								return true, lowHow + "; " + v.Name() + " starts at " + exprStr(initRhs) + " with " + exprStr(cm.g.Cond) + " and only decreases"
							}
						}
					}
				}
			}
		}
	}
	// decreasing loops: i := len(X)-c0 (c0 ≥ 1), only decremented
	if init, onlyDec := decreasingFromLen(fi, v, xs); onlyDec && k <= init-0 && k+(-init) < 0 {
		return true, lowHow + "; " + v.Name() + " starts at len(" + xs + ")" + fmt.Sprint(-init) + " and only decreases"
	}
	return false, ""
}

// decreasingFromLen: v := len(X)-c0 once, otherwise only v-- : returns c0.
func decreasingFromLen(fi *core.FuncInfo, v types.Object, xs string) (int64, bool) {
	var c0 int64
	seen := false
	for _, d := range defsOf(fi, v) {
		switch st := d.Stmt.(type) {
		case *ast.IncDecStmt:
			if st.Tok != token.DEC {
				return 0, false
			}
		case *ast.AssignStmt:
			if d.Rhs == nil || seen {
				return 0, false
			}
			lx, c, ok := lenForm(fi, d.Rhs, 0)
			if !ok || lx != xs || c > -1 {
				return 0, false
			}
			c0, seen = -c, true
		default:
			return 0, false
		}
	}
	return c0, seen
}

// singleDef returns the only definition of a local variable (nil when it has several or none).
func singleDef(fi *core.FuncInfo, o types.Object) *defSite {
	if o == nil || isParam(fi, o) {
		return nil
	}
	ds := defsOf(fi, o)
	if len(ds) != 1 || ds[0].Rhs == nil {
		return nil
	}
	return &ds[0]
}

var byteFinders = map[string]bool{"strings.IndexByte": true, "strings.LastIndexByte": true, "strings.IndexRune": true, "bytes.IndexByte": true, "bytes.LastIndexByte": true, "bytes.IndexRune": true}

// finderBound recognises a slice bound derived from a search of the sliced string itself:
//
//	v            needs v != -1 (a dominating test)
//	v + 1        always in range for byte/rune finders and for constant non-empty needles
//	v + len(sub) needs v != -1, sub being the needle
func finderBound(fi *core.FuncInfo, fl *core.Flow, atoms []core.Guard, b ast.Expr, xs string, use ast.Node) (bool, string) {
	info := fi.Pkg.TypesInfo
	b = ast.Unparen(b)
	var vid *ast.Ident
	plus := ""
	switch x := b.(type) {
	case *ast.Ident:
		vid = x
	case *ast.BinaryExpr:
		if x.Op != token.ADD {
			return false, ""
		}
		id, ok := ast.Unparen(x.X).(*ast.Ident)
		if !ok {
			return false, ""
		}
		vid = id
		plus = exprStr(x.Y)
	default:
		return false, ""
	}
	o := core.ObjOf(info, vid)
	d := singleDef(fi, o)
	if d == nil {
		return false, ""
	}
	call, ok := ast.Unparen(d.Rhs).(*ast.CallExpr)
	if !ok || len(call.Args) < 2 {
		return false, ""
	}
	f := core.CalleeOf(info, call)
	if f == nil || !indexFinders[core.FuncName(f)] {
		return false, ""
	}
	if exprStr(call.Args[0]) != xs {
		return false, ""
	}
	if modifiedOnPath(fi, fl, d.Stmt, use, varsIn(info, call.Args[0]), []string{xs}) {
		return false, ""
	}
	found := false
	for _, a := range atoms {
		be, ok := ast.Unparen(a.Cond).(*ast.BinaryExpr)
		if !ok || core.ObjOf(info, be.X) != o {
			continue
		}
		c, ok := intConst(info, be.Y)
		if !ok {
			continue
		}
		op := be.Op
		if !a.True {
			switch op {
			case token.EQL:
				op = token.NEQ
			case token.NEQ:
				op = token.EQL
			case token.LSS:
				op = token.GEQ
			case token.GEQ:
				op = token.LSS
			case token.GTR:
				op = token.LEQ
			case token.LEQ:
				op = token.GTR
			}
		}
		if (op == token.NEQ && c == -1) || (op == token.GEQ && c >= 0) || (op == token.GTR && c >= -1) {
			found = true
		}
	}
	name := core.FuncName(f)
	switch {
	case plus == "":
		if found {
			return true, "offset from " + name + " of the same string, tested against -1"
		}
	case plus == "1":
		needleConst := false
		if tv, ok := info.Types[call.Args[1]]; ok && tv.Value != nil && tv.Value.Kind() == constant.String && constant.StringVal(tv.Value) != "" {
			needleConst = true
		}
		if byteFinders[name] || needleConst || found {
			return true, "offset+1 from " + name + " of the same string (−1 gives 0)"
		}
	case plus == "len("+exprStr(call.Args[1])+")":
		if found {
			return true, "offset+len(needle) from " + name + " of the same string, tested against -1"
		}
	}
	return false, ""
}

// nonEmptyOrNilResult: the function's deferred closure turns an empty <result>.<field> into a nil result,
// so a non-nil result has len(result.field) ≥ 1. Returns the field name.
func nonEmptyOrNilResult(fi *core.FuncInfo) string {
	if fi == nil || fi.Decl == nil || fi.Decl.Type.Results == nil || len(fi.Decl.Type.Results.List) != 1 || len(fi.Decl.Type.Results.List[0].Names) != 1 {
		return ""
	}
	res := fi.Decl.Type.Results.List[0].Names[0].Name
	field := ""
	for _, st := range fi.Decl.Body.List {
		ds, ok := st.(*ast.DeferStmt)
		if !ok {
			continue
		}
		lit, ok := ds.Call.Fun.(*ast.FuncLit)
		if !ok || len(lit.Body.List) == 0 {
			continue
		}
		is, ok := lit.Body.List[0].(*ast.IfStmt)
		if !ok {
			continue
		}
		cond := exprStr(is.Cond)
		if !strings.HasPrefix(cond, "len("+res+".") || !strings.HasSuffix(cond, ") == 0") {
			continue
		}
		for _, b := range is.Body.List {
			if as, ok := b.(*ast.AssignStmt); ok && len(as.Lhs) == 1 && exprStr(as.Lhs[0]) == res && exprStr(as.Rhs[0]) == "nil" {
				field = strings.TrimSuffix(strings.TrimPrefix(cond, "len("+res+"."), ") == 0")
			}
		}
	}
	// the result must not be reassigned after the deferred closure ran: only the closure and plain `return` statements touch it
	return field
}

func varsInText(fi *core.FuncInfo, e ast.Expr) map[types.Object]bool {
	return varsIn(fi.Pkg.TypesInfo, e)
}

// shrunkIn: the slice text xs is assigned inside body (so a range key may exceed the new length).
func shrunkIn(fi *core.FuncInfo, body ast.Node, xs string) bool {
	hit := false
	ast.Inspect(body, func(n ast.Node) bool {
		if as, ok := n.(*ast.AssignStmt); ok {
			for _, l := range as.Lhs {
				if exprStr(l) == xs {
					hit = true
				}
			}
		}
		return true
	})
	return hit
}

// clampedNonNeg: a statement `if v < 0 { v = c }` (c ≥ 0) precedes the use at top level of the function body, and v is
// not assigned a possibly negative value afterwards (only the clamp and definitions before it exist).
func clampedNonNeg(fi *core.FuncInfo, o types.Object, usePos token.Pos) bool {
	info := fi.Pkg.TypesInfo
	var clampEnd token.Pos
	for _, st := range fi.Decl.Body.List {
		is, ok := st.(*ast.IfStmt)
		if !ok || is.End() > usePos || len(is.Body.List) != 1 || is.Else != nil {
			continue
		}
		be, ok := ast.Unparen(is.Cond).(*ast.BinaryExpr)
		if !ok || core.ObjOf(info, be.X) != o || be.Op != token.LSS {
			continue
		}
		if cv, ok := intConst(info, be.Y); !ok || cv != 0 {
			continue
		}
		if as, ok := is.Body.List[0].(*ast.AssignStmt); ok && len(as.Lhs) == 1 && core.ObjOf(info, as.Lhs[0]) == o {
			if cv, ok := intConst(info, as.Rhs[0]); ok && cv >= 0 {
				clampEnd = is.End()
			}
		}
	}
	if clampEnd == token.NoPos {
		return false
	}
	for _, d := range defsOf(fi, o) {
		if d.Stmt.Pos() > clampEnd {
			return false
		}
	}
	return true
}

// nonNegExpr: e is a variable whose every definition in the function is a non-negative constant,
// a len() call, a range key, or an increment/addition of non-negative values; or a call to len.
func nonNegExpr(fi *core.FuncInfo, e ast.Expr) bool {
	info := fi.Pkg.TypesInfo
	e = ast.Unparen(e)
	if c, ok := intConst(info, e); ok {
		return c >= 0
	}
	if call, ok := e.(*ast.CallExpr); ok {
		if id, ok := call.Fun.(*ast.Ident); ok && id.Name == "len" {
			return true
		}
		return false
	}
	id, ok := e.(*ast.Ident)
	if !ok {
		return false
	}
	o := core.ObjOf(info, id)
	if o == nil {
		return false
	}
	if clampedNonNeg(fi, o, e.Pos()) {
		return true
	}
	if isParam(fi, o) {
		return false
	}
	ds := defsOf(fi, o)
	if len(ds) == 0 {
		return false
	}
	for _, d := range ds {
		switch st := d.Stmt.(type) {
		case *ast.RangeStmt:
			if st.Key != nil && core.ObjOf(info, st.Key) == o {
				continue
			}
			return false
		case *ast.IncDecStmt:
			if st.Tok == token.INC {
				continue
			}
			return false
		case *ast.AssignStmt:
			if d.Rhs == nil {
				return false
			}
			if st.Tok == token.ADD_ASSIGN {
				if nonNegExprShallow(fi, d.Rhs, o) {
					continue
				}
				return false
			}
			if st.Tok != token.ASSIGN && st.Tok != token.DEFINE {
				return false
			}
			if !nonNegExprShallow(fi, d.Rhs, o) {
				return false
			}
		default:
			if d.Rhs == nil || !nonNegExprShallow(fi, d.Rhs, o) {
				return false
			}
		}
	}
	return true
}

func nonNegExprShallow(fi *core.FuncInfo, e ast.Expr, self types.Object) bool {
	info := fi.Pkg.TypesInfo
	e = ast.Unparen(e)
	if c, ok := intConst(info, e); ok {
		return c >= 0
	}
	switch x := e.(type) {
	case *ast.CallExpr:
		if id, ok := x.Fun.(*ast.Ident); ok && id.Name == "len" {
			return true
		}
	case *ast.BinaryExpr:
		if x.Op == token.ADD || x.Op == token.MUL {
			return nonNegExprShallow(fi, x.X, self) && nonNegExprShallow(fi, x.Y, self)
		}
	case *ast.Ident:
		if core.ObjOf(info, x) == self {
			return true
		}
	}
	return false
}

// lowLeHigh: for x[a:b] with non-constant bounds, a dominating test a <= b / a < b, or b is len-based and a is guarded against it.
func lowLeHigh(fi *core.FuncInfo, fl *core.Flow, x *ast.SliceExpr) (bool, string) {
	lo, hi := exprStr(x.Low), exprStr(x.High)
	for _, g := range fl.GuardsOfNode(x) {
		for _, a := range g.Atoms() {
			be, ok := ast.Unparen(a.Cond).(*ast.BinaryExpr)
			if !ok {
				continue
			}
			l, r := exprStr(be.X), exprStr(be.Y)
			op := be.Op
			if !a.True {
				switch op {
				case token.LSS:
					op = token.GEQ
				case token.GEQ:
					op = token.LSS
				case token.GTR:
					op = token.LEQ
				case token.LEQ:
					op = token.GTR
				default:
					continue
				}
			}
			if (l == lo && r == hi && (op == token.LSS || op == token.LEQ)) || (l == hi && r == lo && (op == token.GTR || op == token.GEQ)) {
				return true, exprStr(a.Cond)
			}
		}
	}
	return false, ""
}

func init() {
	dumpers["bounds"] = func(p *core.Prog) {
		rels := []string{"d2parser", "d2ast", "d2format"}
		if extra := os.Getenv("D2VERIF_BOUNDS_PKGS"); extra != "" {
			rels = strings.Split(extra, ",")
		}
		strOK := map[token.Pos]bool{}
		for _, u := range strIndexUses(p, rels) {
			if u.ok {
				strOK[u.pos] = true
			}
		}
		for _, rel := range rels {
			pk := p.Pkg(rel)
			if pk == nil {
				continue
			}
			nok, nopen := 0, 0
			for _, s := range boundsSites(p, p.Funcs(pk), strOK) {
				st := "OPEN"
				if s.ok {
					st = "ok"
					nok++
				} else {
					nopen++
				}
				fmt.Printf("%-5s %-28s %-60s %s\n", st, p.Pos(s.node.Pos()), s.key, s.how)
			}
			fmt.Printf("== %s: %d discharged, %d open\n", rel, nok, nopen)
		}
	}
}
