package props

import (
	"fmt"
	"go/ast"
	"go/token"
	"go/types"
	"strings"

	"golang.org/x/tools/go/packages"

	"d2verif/internal/core"
)

// The geometric layout properties (C19–C23, C29) are numeric: whether boxes enclose, ends touch outlines or cells
// align is not visible in the shape of the code. What is visible, and is a genuine necessary condition, is that the
// arithmetic stays within one axis (no X/Width term added to or compared with a Y/Height term, no Y value stored
// into an X place) and that running bounds are accumulated monotonically. These clauses are claimed and nothing else.

const geomNotCovered = "the geometric statement itself (enclosure, non-overlap, distances, alignment, sizes): numeric facts about the results of layout that no rule here bounds"

// axisExceptions: reviewed mixes, keyed by the engine's site key.
var axisExceptions = map[string]string{
	"axis:d2graph.(*Graph).SetDimensions:paddingX += labelHeight":                                                         "intended: `Evenly pad enough to fit label above icon` — the label's height is added to both paddings",
	"axis:d2renderers/d2svg.arrowheadMarker:math.Cos(rotationAngle) * origin.X - math.Sin(rotationAngle) * origin.Y":      "rotation matrix",
	"axis:d2renderers/d2svg.arrowheadMarker:math.Sin(rotationAngle) * origin.X + math.Cos(rotationAngle) * origin.Y":      "rotation matrix",
	"axis:lib/geo.(*Point).Transpose:p.X = p.Y":                                                                           "transposition swaps the axes by definition",
	"axis:lib/geo.(*Point).Transpose:p.Y = p.X":                                                                           "transposition swaps the axes by definition",
	"axis:lib/geo.(Ellipse).Intersections:y1 - m * x1":                                                                    "line equation y = m·x + b",
	"axis:lib/shape.LimitAR:width > aspectRatio * height":                                                                 "aspect-ratio limit compares the two extents by definition",
	"axis:lib/shape.LimitAR:height = math.Round(width / aspectRatio)":                                                     "aspect-ratio limit",
	"axis:lib/shape.LimitAR:height > aspectRatio * width":                                                                 "aspect-ratio limit",
	"axis:lib/shape.LimitAR:width = math.Round(height / aspectRatio)":                                                     "aspect-ratio limit",
}

func relIn(rels ...string) func(rel string) bool {
	return func(rel string) bool {
		for _, r := range rels {
			if rel == r || (strings.HasSuffix(r, "/...") && (rel == strings.TrimSuffix(r, "/...") || strings.HasPrefix(rel, strings.TrimSuffix(r, "...")))) {
				return true
			}
		}
		return false
	}
}

func pkgsMatching(c *core.Check, match func(rel string) bool) []*packages.Package {
	var out []*packages.Package
	for _, pk := range c.P.RepoPkgs() {
		if match(core.RelPkg(pk.PkgPath)) {
			out = append(out, pk)
		}
	}
	return out
}

// runAxisClause reports axis mixes of the selected functions; floor guards against a vacuous rule.
func runAxisClause(c *core.Check, rule string, pkgs []*packages.Package, only func(fi *core.FuncInfo) bool, floor int) {
	mixes, n := axisMixes(c.P, pkgs, only)
	for _, m := range mixes {
		if r := axisExceptions[m.key]; r != "" {
			c.Except(rule, m.key, m.node.Pos(), r)
			continue
		}
		c.Fail(rule, m.key, m.node.Pos(), m.what+": "+strings.TrimPrefix(m.key, "axis:")+" — geometry computed for one axis leaks into the other; the result is wrong whenever widths and heights differ")
	}
	if n < floor {
		c.Fail(rule, "axis:inventory", token.NoPos, fmt.Sprintf("only %d axis-typed expressions found, expected at least %d", n, floor))
	} else {
		c.Pass(rule, "axis:inventory", token.NoPos, fmt.Sprintf("%d sums, differences, comparisons and stores with operands of a known axis, all within one axis (except the reviewed ones)", n))
	}
}

func runMirrorClause(c *core.Check, rule string, pkgs []*packages.Package, floor int) {
	c.Rule(rule, "if/else arms that are copies of each other up to identifiers are consistent one-to-one renamings")
	issues, n := mirrorArmIssues(c.P, pkgs)
	for _, m := range issues {
		c.Fail(rule, m.Key, m.Pos, "the else arm is the then arm with identifiers renamed, but the renaming is not one-to-one ("+m.Text+"): one of the arms was only half renamed")
	}
	c.Decide(n >= floor, rule, "mirror:inventory", token.NoPos, fmt.Sprintf("%d if/else statements whose arms differ only in identifiers, all consistent one-to-one renamings", n), fmt.Sprintf("only %d mirrored if/else statements found, expected at least %d", n, floor))
}

func runCeilClause(c *core.Check, rule string, pkgs []*packages.Package) {
	c.Rule(rule, "a ceiling division (a + d - 1) / e divides by the d it added")
	issues, n := ceilDivIssues(c.P, pkgs)
	for _, m := range issues {
		c.Fail(rule, m.Key, m.Pos, m.Text+": the count derived from it is too small or too large, so cells overflow the grid or leave it short")
	}
	c.Pass(rule, "ceildiv:inventory", token.NoPos, fmt.Sprintf("%d integer divisions of the form (a + d - 1) / e, all with e = d", n))
}

func runDirectionClause(c *core.Check, rule string, pkgs []*packages.Package) {
	c.Rule(rule, "in a function with a direction flag, a displacement along one axis sits under a test of the flag")
	issues, nflags, nsites := directionGuardIssues(c.P, pkgs)
	for _, is := range issues {
		c.Fail(rule, is.Key, is.Pos, "a displacement along one axis that is not under a test of the function's direction flag is applied for both layout directions: "+is.Text)
	}
	c.Decide(nflags >= 3 && nsites >= 10, rule, "direction:sites", token.NoPos, fmt.Sprintf("%d direction flags, %d axis-specific displacements, all under a test of the flag", nflags, nsites), fmt.Sprintf("only %d flags / %d sites found", nflags, nsites))
}

func runTwinAssignClause(c *core.Check, rule string, pkgs []*packages.Package) {
	c.Rule(rule, "computations repeated under the same condition for two elements stay the same computation")
	issues, n := twinAssignIssues(c.P, pkgs)
	for _, is := range issues {
		c.Fail(rule, is.Key, is.Pos, "the same condition guards two assignments to the same variable, written once per element, and the two right-hand sides are no longer the same computation: "+is.Text)
	}
	c.PassTrivial(rule, "twin-assign:inventory", token.NoPos, fmt.Sprintf("%d pairs of twin assignments", n))
}

func runPermutedClause(c *core.Check, rule string, pkgs []*packages.Package) {
	c.Rule(rule, "the two arms of a direction switch that consist of the same steps have them in the same order")
	issues, n := permutedArmIssues(c.P, pkgs)
	for _, is := range issues {
		c.Fail(rule, is.Key, is.Pos, "the else arm consists of the same statements as the then arm (up to identifiers) in another order (first difference at "+is.Text+"): one arm reads a value before the step that sets it, e.g. advances the cursor by a cell's old height")
	}
	c.PassTrivial(rule, "permuted:inventory", token.NoPos, fmt.Sprintf("%d if/else statements whose arms are the same steps, all in the same order", n))
}

func runBoundsClause(c *core.Check, rule string, pkgs []*packages.Package, floor int) {
	issues, nacc, nupd := runningBoundIssues(c.P, pkgs)
	for _, m := range issues {
		c.Fail(rule, m.key, m.node.Pos(), m.what)
	}
	if nacc < floor {
		c.Fail(rule, "bound:inventory", token.NoPos, fmt.Sprintf("only %d running bounds found, expected at least %d", nacc, floor))
	} else {
		c.Pass(rule, "bound:inventory", token.NoPos, fmt.Sprintf("%d running bounds with %d min/max updates: one direction each (or chosen by the two arms of a condition), never overwritten inside the accumulating loop, operands of the same axis", nacc, nupd))
	}
}

func init() {
	register(&Prop{
		ID: "C19", Title: "Containers enclose their children and siblings do not overlap",
		Patterns:    []string{"./d2layouts/...", "./d2graph", "./lib/geo"},
		Explanation: "Decides two necessary conditions only: (1) axis consistency of the container-fitting, spacing and positioning arithmetic of the layout packages (d2layouts and its engines, d2graph's layout helpers, lib/geo): no sum, difference or comparison mixes a horizontal with a vertical quantity and no value of one axis is stored into a place of the other, apart from ten reviewed cases; (2) every running bound in those packages (min/max accumulators used to fit containers and compute extents) is accumulated monotonically in one direction and never overwritten inside its loop; (3) mirrored arms — an if/else on a boolean switch whose two short arms are copies of each other up to identifiers (rows/columns, X/Y, Width/Height) is a consistent one-to-one renaming, and a ceiling division (a + d - 1) / e divides by the d it added; (4) in a function with a direction flag (a bool parameter that selects an X arm or a Y arm), every displacement along a single axis is under a test of that flag; (5) a call passing a displacement (dx, dy) whose two components have the same shape takes both from the same source (margin.Left, margin.Top — not another object's); (6) twin assignments: two ifs of one function with the same condition that assign the same variable have the same right-hand side up to a one-to-one renaming.",
		NotCovered:  geomNotCovered,
		Technique:   "static analysis: name-typed axis inference over arithmetic (E15), monotone-accumulator check, sibling-arm comparison",
		Run: func(c *core.Check) {
			c.Rule("C19.axis", "layout arithmetic stays within one axis")
			c.Rule("C19.bounds", "running bounds are accumulated monotonically")
			pk := pkgsMatching(c, relIn("d2layouts/...", "d2graph", "lib/geo"))
			runAxisClause(c, "C19.axis", pk, nil, 700)
			runMirrorClause(c, "C19.mirror", pk, 10)
			runCeilClause(c, "C19.ceil-division", pk)
			runPermutedClause(c, "C19.permuted-arms", pk)
			runDirectionClause(c, "C19.direction", pk)
			runTwinAssignClause(c, "C19.twin-assign", pk)
			{
				c.Rule("C19.paired-args", "the two components of one displacement come from the same source")
				issues, n := pairedArgIssues(c.P, pk, true)
				for _, m := range issues {
					c.Fail("C19.paired-args", m.Key, m.Pos, "the call passes a displacement (dx, dy) whose two components have the same shape but different sources ("+m.Text+"): one component was taken from another object's box or margin")
				}
				c.Decide(n >= 2, "C19.paired-args", "pair:inventory", token.NoPos, fmt.Sprintf("%d calls passing a (dx, dy) pair of same-shaped components, all from one source", n), "no displacement calls found")
			}
			runBoundsClause(c, "C19.bounds", pk, 15)
		},
	})
	register(&Prop{
		ID: "C20", Title: "Connections start at their source and end at their destination",
		Patterns:    []string{"./d2layouts/...", "./d2graph", "./lib/geo", "./lib/shape", "./lib/label"},
		Explanation: "Decides: (1) provenance of stored routes — in both layout engines the route stored for an edge at the end of the per-edge loop is reached only after Edge.TraceToShape was applied to those points, and wherever a straight centre-to-centre route is created (nested and grid edge routing) it is traced before the function moves on; (2) axis consistency of the tracing arithmetic (d2graph/layout.go, lib/geo, lib/shape, lib/label); (3) the divert flags of TraceToShape do not leak from the source end to the destination end (rule of C27); (2b) the same axis rule over the two engines' own route and endpoint adjustments (dagre, ELK); (4) endpoint index agreement — code guarded by `e.Src == o` touches the first route point (or its neighbours), code guarded by `e.Dst == o` the last one, in both engines and in d2graph.",
		NotCovered:  geomNotCovered,
		Technique:   "static analysis: must-pass-through on go/cfg, name-typed axis inference",
		Run:         runC20,
	})
	register(&Prop{
		ID: "C21", Title: "Explicit sizes are honoured and automatic sizes fit the label",
		Patterns:    []string{"./d2graph", "./lib/shape", "./d2target"},
		Explanation: "Decides (1) constant-family agreement in lib/shape: where package constants form families that differ in one word (CLOUD_WIDE_…, CLOUD_TALL_…, CLOUD_SQUARE_…), a branch whose condition names one member uses only that member's constants in its body — the fit function and the inner-box function of a shape pick the same case; (2) axis consistency of the sizing code (Graph.SetDimensions, Object.GetDefaultSize, SizeToContent, the GetDimensionsToFit / GetInnerBox implementations of lib/shape): widths are computed from widths and horizontal paddings, heights from heights and vertical paddings, and each is stored into the extent of its own axis; the one intended exception (label height added to both paddings of shapes with icons) is reviewed.",
		NotCovered:  geomNotCovered + "; that an explicit width/height reaches the object unchanged",
		Technique:   "static analysis: name-typed axis inference over arithmetic (E15)",
		Run: func(c *core.Check) {
			c.Rule("C21.axis", "sizing arithmetic stays within one axis")
			c.Rule("C21.constant-family", "a branch selected by one member of a constant family uses that member's constants")
			pk := pkgsMatching(c, relIn("d2graph", "lib/shape"))
			runAxisClause(c, "C21.axis", pk, nil, 250)
			runMirrorClause(c, "C21.mirror", pk, 0)
			constantFamilies(c, "C21.constant-family", pkgsMatching(c, relIn("lib/shape")))
		},
	})
	register(&Prop{
		ID: "C22", Title: "Grid cells follow declaration order, align, keep gaps and never overlap",
		Patterns:    []string{"./d2layouts/d2grid", "./d2graph"},
		Explanation: "Decides: (1) axis consistency of the grid layout arithmetic (cursor advances, gaps, row/column extents); (2) monotone running bounds; (3) the cells are taken from the container's ChildrenArray (declaration order) and d2grid never sorts or re-orders them (no sort call on the cell list, no iteration over a map of cells); (4) mirrored arms — the short row/column arms of an if/else on a boolean switch (gd.rowDirected …) are consistent one-to-one renamings of each other, and a ceiling division (a + d - 1) / e divides by the d it added (the grid's capacity derivation); (5) permuted arms — when the two arms of a boolean switch consist of the same statements up to identifiers, a pair of steps where one sets a place and the other reads it is in the same order in both arms (layoutEvenly sizes a cell before it advances the cursor by the cell's height, in both directions).",
		NotCovered:  geomNotCovered + "; the search for the best dynamic layout",
		Technique:   "static analysis: name-typed axis inference, monotone-accumulator check, who-may-sort",
		Run: func(c *core.Check) {
			c.Rule("C22.axis", "grid arithmetic stays within one axis")
			c.Rule("C22.bounds", "running bounds are accumulated monotonically")
			c.Rule("C22.order", "cells come from ChildrenArray and are never re-ordered")
			pk := pkgsMatching(c, relIn("d2layouts/d2grid"))
			runAxisClause(c, "C22.axis", pk, nil, 50)
			runBoundsClause(c, "C22.bounds", pk, 2)
			noReorder(c, "C22.order", "d2layouts/d2grid", "gridDiagram", "objects", "ChildrenArray")
			runMirrorClause(c, "C22.mirror", pk, 4)
			runCeilClause(c, "C22.ceil-division", pk)
			runPermutedClause(c, "C22.permuted-arms", pk)
		},
	})
	register(&Prop{
		ID: "C23", Title: "Sequence diagrams keep actor and message order",
		Patterns:    []string{"./d2layouts/d2sequence", "./d2graph"},
		Explanation: "Decides: (1) axis consistency of the sequence-diagram arithmetic (actor steps along X, message steps along Y, span and note boxes); (2) monotone running bounds; (3) ordering discipline — actors and messages are only ever ordered by their earliest source line (the comparator of every sort applied to them calls the earliest-line helpers) and never iterated through a map.",
		NotCovered:  geomNotCovered + "; ties of the (unstable) source-line sort for actors first mentioned on the same line",
		Technique:   "static analysis: name-typed axis inference, monotone-accumulator check, comparator inspection",
		Run: func(c *core.Check) {
			c.Rule("C23.axis", "sequence arithmetic stays within one axis")
			c.Rule("C23.bounds", "running bounds are accumulated monotonically")
			c.Rule("C23.order", "actors and messages are ordered by source line only")
			pk := pkgsMatching(c, relIn("d2layouts/d2sequence"))
			runAxisClause(c, "C23.axis", pk, nil, 50)
			runBoundsClause(c, "C23.bounds", pk, 1)
			// "is a descendant of" by ID prefix needs the path separator: api is not an ancestor of api_cache
			c.Rule("C23.prefix-boundary", "ancestor tests by ID prefix include the separator")
			npre := 0
			for _, p2 := range pk {
				for _, fi := range c.P.Funcs(p2) {
					info := fi.Pkg.TypesInfo
					for _, call := range core.Calls(fi.Decl.Body, true) {
						if !core.IsCallTo(info, call, "strings.HasPrefix") || len(call.Args) != 2 {
							continue
						}
						isAbs := func(e ast.Expr) bool {
							cl, ok := ast.Unparen(e).(*ast.CallExpr)
							if !ok {
								return false
							}
							sel, ok := cl.Fun.(*ast.SelectorExpr)
							return ok && sel.Sel.Name == "AbsID"
						}
						hasAbs := false
						ast.Inspect(call.Args[1], func(m ast.Node) bool {
							if e, ok := m.(ast.Expr); ok && isAbs(e) {
								hasAbs = true
							}
							return true
						})
						if !isAbs(call.Args[0]) || !hasAbs {
							continue
						}
						npre++
						okB := false
						if be, ok := ast.Unparen(call.Args[1]).(*ast.BinaryExpr); ok && be.Op == token.ADD && isAbs(be.X) {
							if tv, ok := info.Types[be.Y]; ok && tv.Value != nil && tv.Value.ExactString() == `"."` {
								okB = true
							}
						}
						c.Decide(okB, "C23.prefix-boundary", "prefix:"+fname(fi)+":"+exprStr(call.Args[1]), call.Pos(), "prefix is <ancestor ID> + \".\"", "an object is taken for a descendant of another because its ID merely starts with the other's ID (api / api_cache): a message between two different actors is routed as a self-loop")
					}
				}
			}
			if npre < 3 {
				c.Fail("C23.prefix-boundary", "prefix:sites", token.NoPos, fmt.Sprintf("only %d ancestor tests by prefix found", npre))
			}
			// sorts in newSequenceDiagram use the earliest-line comparators
			if fi := mustFunc(c, "d2layouts/d2sequence", "", "newSequenceDiagram"); fi != nil {
				n := 0
				for _, call := range core.Calls(fi.Decl.Body, false) {
					name := exprStr(call.Fun)
					if !strings.HasPrefix(name, "slices.Sort") && !strings.HasPrefix(name, "sort.") {
						continue
					}
					arg := exprStr(call.Args[0])
					if arg != "objects" && arg != "messages" && !strings.Contains(arg, "actors") {
						continue
					}
					n++
					byLine := false
					ast.Inspect(call.Args[len(call.Args)-1], func(m ast.Node) bool {
						if cl, ok := m.(*ast.CallExpr); ok && strings.Contains(exprStr(cl.Fun), "EarliestLineNum") {
							byLine = true
						}
						return true
					})
					c.Decide(byLine, "C23.order", "newSequenceDiagram:sort("+arg+")", call.Pos(), "ordered by the earliest source line", "actors or messages are sorted by something other than their first line in the source: they no longer appear in declaration order")
				}
				if n == 0 {
					c.Pass("C23.order", "newSequenceDiagram:no-sort", fi.Decl.Pos(), "actors and messages keep the order they are given in")
				}
			}
		},
	})
	register(&Prop{
		ID: "C29", Title: "Bounding box and SVG viewport enclose everything drawn",
		Patterns:    []string{"./d2target", "./d2renderers/d2svg", "./lib/geo", "./lib/label"},
		Explanation: "Decides: (1) the bounds reported by d2target (Diagram.BoundingBox, NestedBoundingBox and helpers) and used by d2svg are running minima/maxima updated only with min/max of themselves, in one direction each, with terms of their own axis, and never overwritten inside the accumulating loops; (2) axis consistency of every term fed to them and of d2svg's viewport arithmetic; (3) NestedBoundingBox folds over all three board lists (layers, scenarios, steps) with all four bounds; (4) the viewport of d2svg is the bounding box moved out by the same padding on both sides of each axis (left = x − pad, width = extent + 2·pad, likewise vertically).; the loops of BoundingBox and NestedBoundingBox over shapes, connections, route points and nested boards skip nothing (no continue, break or return in them). Also: the style flags under which d2svg.drawShape enlarges the box an outside label is placed against are the flags under which Diagram.BoundingBox moves the label or enlarges its box, and every optional part of a connection that d2svg.drawConnection draws when present (label, arrowhead labels, icon) is mentioned by BoundingBox.",
		NotCovered:  geomNotCovered + "; that every drawn element is among the terms fed to the bounds (drawing code and bounds code are separate)",
		Technique:   "static analysis: monotone-accumulator check, name-typed axis inference, linear-form check of the viewport",
		Run:         runC29,
	})
}

// noReorder: the field <typ>.<field> of package rel is assigned only from a ChildrenArray-like source and no sort call takes it.
func noReorder(c *core.Check, rule, rel, typ, field, source string) {
	pk := c.P.Pkg(rel)
	if pk == nil {
		c.Broken("%s not loaded", rel)
		return
	}
	f := structField(c.P, rel, typ, field)
	if f == nil {
		c.Fail(rule, rel+":"+typ+"."+field, token.NoPos, "field not found")
		return
	}
	nw := 0
	for _, fi := range c.P.Funcs(pk) {
		info := fi.Pkg.TypesInfo
		ast.Inspect(fi.Decl.Body, func(n ast.Node) bool {
			switch x := n.(type) {
			case *ast.KeyValueExpr:
				if id, ok := x.Key.(*ast.Ident); ok && info.Uses[id] == f {
					nw++
					c.Decide(strings.HasSuffix(exprStr(x.Value), "."+source), rule, "write:"+fname(fi)+":"+field, x.Pos(), "initialised with "+exprStr(x.Value), field+" is initialised with "+exprStr(x.Value)+", not with the container's "+source+": the cells are no longer in declaration order")
				}
			case *ast.AssignStmt:
				for _, l := range x.Lhs {
					if ix, ok := l.(*ast.IndexExpr); ok && core.FieldOf(info, ix.X) == f {
						c.Fail(rule, "element-write:"+fname(fi)+":"+field, x.Pos(), "elements of the cell list are overwritten in place: cells are no longer placed in declaration order")
					}
				}
				for i, l := range x.Lhs {
					if core.FieldOf(info, l) == f && i < len(x.Rhs) {
						nw++
						c.Decide(strings.HasSuffix(exprStr(x.Rhs[i]), "."+source), rule, "write:"+fname(fi)+":"+field, x.Pos(), "assigned "+exprStr(x.Rhs[i]), field+" is reassigned with "+exprStr(x.Rhs[i]))
					}
				}
			case *ast.CallExpr:
				name := exprStr(x.Fun)
				if (strings.HasPrefix(name, "sort.") || strings.HasPrefix(name, "slices.Sort")) && len(x.Args) > 0 && core.FieldOf(info, x.Args[0]) == f {
					c.Fail(rule, "sort:"+fname(fi)+":"+field, x.Pos(), "the cell list is sorted: cells are no longer placed in declaration order")
				}
			}
			return true
		})
	}
	if nw == 0 {
		c.Fail(rule, "write:none:"+field, token.NoPos, "no initialisation of "+typ+"."+field+" found")
	}
}

func runC20(c *core.Check) {
	c.Rule("C20.traced", "stored routes have been traced to the shapes' borders")
	c.Rule("C20.axis", "tracing arithmetic stays within one axis")
	c.Rule("C20.flags", "divert flags do not leak between the two ends")
	// engines
	for _, spec := range []struct{ rel, fn string }{{"d2layouts/d2dagrelayout", ""}, {"d2layouts/d2elklayout", ""}} {
		pk := c.P.Pkg(spec.rel)
		if pk == nil {
			c.Broken("%s not loaded", spec.rel)
			continue
		}
		found := false
		for _, fi := range c.P.Funcs(pk) {
			calls := callsIn(fi, true, "d2graph.(*Edge).TraceToShape")
			if len(calls) == 0 {
				continue
			}
			found = true
			info := fi.Pkg.TypesInfo
			bodies := core.BodiesOf(fi.Decl)
			for _, tc := range calls {
				bi := core.InnermostBody(bodies, tc)
				fl := core.NewFlow(fi.Pkg, bodies[bi].Block)
				// enclosing loop
				var loop ast.Node
				ast.Inspect(bodies[bi].Block, func(n ast.Node) bool {
					switch n.(type) {
					case *ast.RangeStmt, *ast.ForStmt:
						if n.Pos() <= tc.Pos() && tc.End() <= n.End() {
							loop = n
						}
					}
					return true
				})
				if loop == nil {
					c.Fail("C20.traced", "engine:"+fname(fi)+":loop", tc.Pos(), "TraceToShape is not called in a per-edge loop")
					continue
				}
				// the last Route store in that loop
				var last *ast.AssignStmt
				ast.Inspect(loop, func(n ast.Node) bool {
					if as, ok := n.(*ast.AssignStmt); ok && len(as.Lhs) == 1 && strings.HasSuffix(exprStr(as.Lhs[0]), ".Route") {
						if last == nil || as.Pos() > last.Pos() {
							last = as
						}
					}
					return true
				})
				if last == nil || last.Pos() < tc.Pos() {
					c.Fail("C20.traced", "engine:"+fname(fi)+":store-after-trace", tc.Pos(), "no route is stored after TraceToShape in the per-edge loop: the traced points are not what ends up in edge.Route")
					continue
				}
				lb, li, ok := fl.Locate(last)
				pass := false
				if ok {
					pass, _ = fl.MustPassBefore(lb, li, func(n ast.Node) bool {
						cl, isCall := n.(*ast.CallExpr)
						return isCall && core.IsCallTo(info, cl, "d2graph.(*Edge).TraceToShape")
					})
				}
				c.Decide(pass, "C20.traced", "engine:"+fname(fi)+":store-after-trace", last.Pos(), "every path to the final store of edge.Route passes TraceToShape", "the engine can store an edge's route without having traced its ends onto the shapes: the connection then starts or ends at the point the engine returned (a box or a centre), not on the border")
			}
		}
		if !found {
			c.Fail("C20.traced", "engine:"+spec.rel+":no-trace", token.NoPos, "no call of TraceToShape in "+spec.rel)
		}
	}
	// centre-to-centre routes
	n := 0
	for _, pk := range pkgsMatching(c, relIn("d2layouts/...")) {
		for _, fi := range c.P.Funcs(pk) {
			info := fi.Pkg.TypesInfo
			var fl *core.Flow
			ast.Inspect(fi.Decl.Body, func(nd ast.Node) bool {
				as, ok := nd.(*ast.AssignStmt)
				if !ok || len(as.Lhs) != 1 || !strings.HasSuffix(exprStr(as.Lhs[0]), ".Route") {
					return true
				}
				centre := false
				ast.Inspect(as.Rhs[0], func(m ast.Node) bool {
					if cl, ok := m.(*ast.CallExpr); ok {
						if sel, ok := cl.Fun.(*ast.SelectorExpr); ok && sel.Sel.Name == "Center" {
							centre = true
						}
					}
					return true
				})
				if !centre {
					return true
				}
				n++
				if fl == nil {
					fl = core.NewFlow(fi.Pkg, fi.Decl.Body)
				}
				// the next statement(s) in the same block trace it
				traced := false
				ast.Inspect(fi.Decl.Body, func(m ast.Node) bool {
					blk, ok := m.(*ast.BlockStmt)
					if !ok {
						return true
					}
					for i, st := range blk.List {
						if st == ast.Stmt(as) {
							for _, nx := range blk.List[i+1:] {
								for _, cl := range core.Calls(nx, false) {
									if core.IsCallTo(info, cl, "d2graph.(*Edge).TraceToShape") && len(cl.Args) > 0 && exprStr(cl.Args[0]) == exprStr(as.Lhs[0]) {
										traced = true
									}
								}
							}
						}
					}
					return true
				})
				c.Decide(traced, "C20.traced", "straight:"+fname(fi), as.Pos(), "followed by TraceToShape on that route", "a centre-to-centre route is stored without being traced to the borders of its shapes")
				return true
			})
		}
	}
	if n < 2 {
		c.Fail("C20.traced", "straight:sites", token.NoPos, fmt.Sprintf("only %d centre-to-centre routes found", n))
	}
	// endpoint index agreement: under `e.Src == o` the first route point belongs to o, under `e.Dst == o` the last one
	c.Rule("C20.endpoint-index", "code guarded by e.Src == o touches route[0]; code guarded by e.Dst == o touches the last route point")
	nend := 0
	for _, pk := range pkgsMatching(c, relIn("d2layouts/...", "d2graph")) {
		for _, fi := range c.P.Funcs(pk) {
			info := fi.Pkg.TypesInfo
			var fl *core.Flow
			counts := map[string]int{}
			ast.Inspect(fi.Decl.Body, func(nd ast.Node) bool {
				ix, ok := nd.(*ast.IndexExpr)
				if !ok || !strings.HasSuffix(exprStr(ix.X), ".Route") {
					return true
				}
				edge := strings.TrimSuffix(exprStr(ix.X), ".Route")
				if fl == nil {
					fl = core.NewFlow(fi.Pkg, fi.Decl.Body)
				}
				src, dst := false, false
				for _, g := range fl.GuardsOfNode(ix) {
					for _, a := range g.Atoms() {
						be, ok := ast.Unparen(a.Cond).(*ast.BinaryExpr)
						if !ok || be.Op != token.EQL || !a.True {
							continue
						}
						l, r := exprStr(be.X), exprStr(be.Y)
						if l == edge+".Src" || r == edge+".Src" {
							src = true
						}
						if l == edge+".Dst" || r == edge+".Dst" {
							dst = true
						}
					}
				}
				if src == dst {
					return true // unguarded, or a self-loop branch (both ends)
				}
				nend++
				isFirst := false
				if cv, ok := intConst(info, ix.Index); ok && cv == 0 {
					isFirst = true
				}
				isLast := false
				if lx, cc, ok := lenForm(fi, ix.Index, 0); ok && lx == exprStr(ix.X) && cc == -1 {
					isLast = true
				}
				want, okE := "route[0]", isFirst
				end := "Src"
				if dst {
					want, okE, end = "the last route point", isLast, "Dst"
				}
				// interior points next to the end (second, second-to-last) are used for directions; accept them too
				if !okE {
					if src {
						if cv, ok := intConst(info, ix.Index); ok && cv <= 2 {
							okE = true
						}
					} else if lx, cc, ok := lenForm(fi, ix.Index, 0); ok && lx == exprStr(ix.X) && cc >= -3 && cc <= -1 {
						okE = true
					}
				}
				key := fmt.Sprintf("endpoint:%s:%s[%s]|%s", fname(fi), exprStr(ix.X), exprStr(ix.Index), end)
				counts[key]++
				if counts[key] > 1 {
					key = fmt.Sprintf("%s#%d", key, counts[key])
				}
				c.Decide(okE, "C20.endpoint-index", key, ix.Pos(), "touches "+want, fmt.Sprintf("under %s.%s == … the code touches %s instead of %s: the adjustment meant for this end is applied to the other end, which then leaves its shape", edge, end, exprStr(ix), want))
				return true
			})
		}
	}
	if nend < 12 {
		c.Fail("C20.endpoint-index", "endpoint:sites", token.NoPos, fmt.Sprintf("only %d end-specific route accesses found", nend))
	}
	runDirectionClause(c, "C20.direction", pkgsMatching(c, relIn("d2layouts/...", "d2graph")))
	onlyTrace := func(fi *core.FuncInfo) bool {
		rel := core.RelPkg(fi.Pkg.PkgPath)
		if rel != "d2graph" {
			return true
		}
		return strings.Contains(c.P.Pos(fi.Decl.Pos()), "d2graph/layout.go")
	}
	runAxisClause(c, "C20.axis", pkgsMatching(c, relIn("d2graph", "lib/geo", "lib/shape", "lib/label")), onlyTrace, 300)
	// the engines move shapes aside and back around the tracing of each route (label and 3d/multiple adjustments)
	c.Rule("C20.axis-engines", "the engines' route and endpoint adjustments stay within one axis")
	runAxisClause(c, "C20.axis-engines", pkgsMatching(c, relIn("d2layouts/d2dagrelayout", "d2layouts/d2elklayout")), nil, 100)
	// flags
	sub := core.NewSubCheck(c)
	runC27(sub)
	for _, o := range sub.Obligations() {
		if o.Rule == "C27.trace" {
			c.Adopt("C20.flags", o)
		}
	}
	c.Floor("C20.flags", 3)
}

func runC29(c *core.Check) {
	c.Rule("C29.bounds", "reported bounds are monotone running minima/maxima of terms of their own axis")
	c.Rule("C29.axis", "bounds and viewport arithmetic stays within one axis")
	c.Rule("C29.nested", "NestedBoundingBox folds over layers, scenarios and steps")
	c.Rule("C29.viewport", "the viewport is the bounding box grown by the same padding on both sides")
	pk := pkgsMatching(c, relIn("d2target", "d2renderers/d2svg"))
	runBoundsClause(c, "C29.bounds", pk, 8)
	runAxisClause(c, "C29.axis", pk, nil, 300)
	runMirrorClause(c, "C29.mirror", pk, 0)
	runTwinAssignClause(c, "C29.twin-assign", pk)
	runC29Agreement(c)
	c.Rule("C29.visit-all", "the bounding-box loops visit every shape, connection and nested board")
	nv := 0
	for _, name := range []string{"BoundingBox", "NestedBoundingBox"} {
		if fi := mustFunc(c, "d2target", "Diagram", name); fi != nil {
			nv += loopsVisitAll(c, "C29.visit-all", fi, []string{"Shapes", "Connections", "Layers", "Scenarios", "Steps", "Route"}, "whatever is skipped is not inside the reported bounds, so it is drawn outside the viewport")
		}
	}
	if nv < 4 {
		c.Fail("C29.visit-all", "visit-all:inventory", token.NoPos, fmt.Sprintf("only %d loops over shapes/connections/boards found in the bounding-box functions", nv))
	}
	if nb := mustFunc(c, "d2target", "Diagram", "NestedBoundingBox"); nb != nil {
		lists := map[string]int{}
		ast.Inspect(nb.Decl.Body, func(n ast.Node) bool {
			rs, ok := n.(*ast.RangeStmt)
			if !ok {
				return true
			}
			sel, ok := rs.X.(*ast.SelectorExpr)
			if !ok {
				return true
			}
			nupd := 0
			ast.Inspect(rs.Body, func(m ast.Node) bool {
				if as, ok := m.(*ast.AssignStmt); ok && len(as.Rhs) == 1 {
					if call, ok := as.Rhs[0].(*ast.CallExpr); ok && minMaxKind(nb.Pkg.TypesInfo, call) != "" {
						nupd++
					}
				}
				return true
			})
			lists[sel.Sel.Name] = nupd
			return true
		})
		c.Decide(lists["Layers"] == 4 && lists["Scenarios"] == 4 && lists["Steps"] == 4, "C29.nested", "NestedBoundingBox:three-lists-four-bounds", nb.Decl.Pos(), "layers, scenarios, steps × (min x, min y, max x, max y)", fmt.Sprintf("NestedBoundingBox does not fold all four bounds over all three board lists (%v): boards of the missing kind or extent are cut off by the common viewport of animated and multi-board output", lists))
	}
	// style flags contribute independently: a shape may have a shadow and be 3D or multiple at once, and d2svg draws each
	c.Rule("C29.independent-flags", "each boolean style of a shape extends the bounds independently of the others")
	c.Rule("C29.label-guards", "the bounds include an arrowhead label under no stronger a condition than the one d2svg draws it under")
	if bb := mustFunc(c, "d2target", "Diagram", "BoundingBox"); bb != nil {
		info := bb.Pkg.TypesInfo
		fl := core.NewFlow(bb.Pkg, bb.Decl.Body)
		isFlag := func(e ast.Expr) string {
			sel, ok := ast.Unparen(e).(*ast.SelectorExpr)
			if !ok {
				return ""
			}
			if v := core.FieldOf(info, sel); v != nil {
				if b, ok := v.Type().Underlying().(*types.Basic); ok && b.Kind() == types.Bool && v.Pkg() != nil && core.RelPkg(v.Pkg().Path()) == "d2target" {
					return v.Name()
				}
			}
			return ""
		}
		nflag := 0
		seen := map[string]bool{}
		ast.Inspect(bb.Decl.Body, func(n ast.Node) bool {
			as, ok := n.(*ast.AssignStmt)
			if !ok || len(as.Rhs) != 1 {
				return true
			}
			call, ok := as.Rhs[0].(*ast.CallExpr)
			if !ok || minMaxKind(info, call) == "" {
				return true
			}
			pos, neg := "", ""
			for _, g := range fl.GuardsOfNode(as) {
				for _, a := range g.Atoms() {
					if f := isFlag(a.Cond); f != "" {
						if a.True {
							pos = f
						} else {
							neg = f
						}
					}
				}
			}
			if pos == "" || seen[pos] {
				return true
			}
			seen[pos] = true
			nflag++
			c.Decide(neg == "", "C29.independent-flags", "BoundingBox:"+pos, as.Pos(), "extends the bounds whenever "+pos+" is set", "the extent added for "+pos+" is only included when "+neg+" is not set: a shape with both styles is drawn with both offsets but the bounding box (and the viewport) accounts for one of them")
			return true
		})
		if nflag < 3 {
			c.Fail("C29.independent-flags", "BoundingBox:flags", bb.Decl.Pos(), fmt.Sprintf("only %d boolean styles extend the bounds, expected shadow, 3d and multiple", nflag))
		}
		// label guards
		var drawFn *core.FuncInfo
		if spk := c.P.Pkg("d2renderers/d2svg"); spk != nil {
			for _, fi := range c.P.Funcs(spk) {
				if len(callsIn(fi, false, "d2renderers/d2svg.renderArrowheadLabel")) >= 2 {
					drawFn = fi
				}
			}
		}
		if drawFn == nil {
			c.Fail("C29.label-guards", "draw-site", token.NoPos, "the function of d2svg that draws arrowhead labels was not found")
		} else {
			dfl := core.NewFlow(drawFn.Pkg, drawFn.Decl.Body)
			norm := func(e ast.Expr) string {
				s := exprStr(e)
				// drop the root identifier (connection / conn / c)
				if i := strings.Index(s, "."); i > 0 {
					s = s[i:]
				}
				return s
			}
			for _, end := range []string{"SrcLabel", "DstLabel"} {
				draw := map[string]bool{}
				for _, call := range callsIn(drawFn, false, "d2renderers/d2svg.renderArrowheadLabel") {
					if len(call.Args) < 2 || !strings.Contains(exprStr(call.Args[1]), "."+end+".") {
						continue
					}
					for _, g := range dfl.GuardsOfNode(call) {
						for _, a := range g.Atoms() {
							if a.True {
								draw[norm(a.Cond)] = true
							}
						}
					}
				}
				var extra []string
				found := false
				ast.Inspect(bb.Decl.Body, func(n ast.Node) bool {
					as, ok := n.(*ast.AssignStmt)
					if !ok || len(as.Rhs) != 1 || !strings.Contains(exprStr(as.Rhs[0]), "."+end+".LabelWidth") {
						return true
					}
					found = true
					for _, g := range fl.GuardsOfNode(as) {
						for _, a := range g.Atoms() {
							if !strings.Contains(exprStr(a.Cond), "connection") && !strings.Contains(exprStr(a.Cond), end) {
								continue
							}
							k := norm(a.Cond)
							if !a.True {
								k = "!(" + k + ")"
							}
							if !draw[k] {
								extra = append(extra, exprStr(a.Cond))
							}
						}
					}
					return true
				})
				c.Decide(found && len(draw) > 0 && len(extra) == 0, "C29.label-guards", "BoundingBox:"+end, bb.Decl.Pos(), "same condition as the drawing code", fmt.Sprintf("the bounds include the %s only under the extra condition %v, which the drawing code does not have: the label is drawn but can lie outside the bounding box and the viewport", end, extra))
			}
		}
	}
	if dm := mustFunc(c, "d2renderers/d2svg", "", "dimensions"); dm != nil {
		info := dm.Pkg.TypesInfo
		want := map[string]string{"left": "-1·pad + 1·tl.X", "top": "-1·pad + 1·tl.Y", "width": "1·br.X + 2·pad + -1·tl.X", "height": "1·br.Y + 2·pad + -1·tl.Y"}
		got := map[string]string{}
		for _, st := range dm.Decl.Body.List {
			as, ok := st.(*ast.AssignStmt)
			if !ok || len(as.Lhs) != 1 || len(as.Rhs) != 1 {
				continue
			}
			id, ok := as.Lhs[0].(*ast.Ident)
			if !ok || want[id.Name] == "" || got[id.Name] != "" {
				continue
			}
			if lf, ok := linearize(info, as.Rhs[0], nil); ok {
				got[id.Name] = lf.String()
			} else {
				got[id.Name] = "non-linear: " + exprStr(as.Rhs[0])
			}
		}
		for _, k := range []string{"left", "top", "width", "height"} {
			c.Decide(got[k] == want[k], "C29.viewport", "dimensions:"+k, dm.Decl.Pos(), k+" = "+want[k], fmt.Sprintf("the viewport's %s is %s, expected %s: the padding is not the same on both sides, or another axis is used", k, got[k], want[k]))
		}
	}
}

// constantFamilies: package constants NAME_<K>_REST that differ only in the word K form a family. In
// `if cond { body }`, when cond mentions a constant with family word K1 and the body (not nested else-branches)
// mentions a constant of the same prefix with family word K2 ≠ K1, the branch mixes two cases.
func constantFamilies(c *core.Check, rule string, pkgs []*packages.Package) {
	nif := 0
	for _, pk := range pkgs {
		// discover families
		type pat struct {
			key string
			pos int
		}
		groups := map[pat]map[string]bool{}
		sc := pk.Types.Scope()
		var names []string
		for _, n := range sc.Names() {
			if _, ok := sc.Lookup(n).(*types.Const); ok && strings.Contains(n, "_") && strings.ToUpper(n) == n {
				names = append(names, n)
			}
		}
		for _, n := range names {
			toks := strings.Split(n, "_")
			for i := range toks {
				cp := append([]string{}, toks...)
				cp[i] = "*"
				k := pat{strings.Join(cp, "_"), i}
				if groups[k] == nil {
					groups[k] = map[string]bool{}
				}
				groups[k][toks[i]] = true
			}
		}
		// family word of a constant name: (prefix, word) for positions where a group has ≥ 2 members
		famOf := func(n string) (string, string, bool) {
			toks := strings.Split(n, "_")
			for i := 1; i < len(toks); i++ {
				cp := append([]string{}, toks...)
				cp[i] = "*"
				if g := groups[pat{strings.Join(cp, "_"), i}]; len(g) >= 2 {
					return strings.Join(toks[:i], "_"), toks[i], true
				}
			}
			return "", "", false
		}
		for _, fi := range c.P.Funcs(pk) {
			info := fi.Pkg.TypesInfo
			constsIn := func(n ast.Node) map[[2]string]bool {
				out := map[[2]string]bool{}
				ast.Inspect(n, func(m ast.Node) bool {
					if _, isIf := m.(*ast.IfStmt); isIf && m != n {
						return false // nested decisions pick their own case
					}
					if id, ok := m.(*ast.Ident); ok {
						if k, ok := info.Uses[id].(*types.Const); ok && k.Pkg() == pk.Types {
							if pre, w, ok := famOf(k.Name()); ok {
								out[[2]string{pre, w}] = true
							}
						}
					}
					return true
				})
				return out
			}
			ast.Inspect(fi.Decl.Body, func(n ast.Node) bool {
				is, ok := n.(*ast.IfStmt)
				if !ok {
					return true
				}
				cc := constsIn(is.Cond)
				if len(cc) == 0 {
					return true
				}
				nif++
				bc := constsIn(is.Body)
				for ck := range cc {
					for bk := range bc {
						if ck[0] == bk[0] && ck[1] != bk[1] {
							c.Fail(rule, fmt.Sprintf("family:%s:%s_%s→%s_%s", fname(fi), ck[0], ck[1], bk[0], bk[1]), is.Pos(),
								fmt.Sprintf("the branch is selected by a %s_%s… constant but computes with %s_%s… constants: this function and its siblings (fit vs. inner box) pick different cases for the same input, so the fitted size does not match the text area", ck[0], ck[1], bk[0], bk[1]))
						}
					}
				}
				return true
			})
		}
	}
	if nif < 4 {
		c.Fail(rule, "family:sites", token.NoPos, fmt.Sprintf("only %d branches on family constants found", nif))
	} else {
		c.Pass(rule, "family:sites", token.NoPos, fmt.Sprintf("%d branches on family constants use their own member's constants", nif))
	}
}

// runC29Agreement — the bounding box and the renderer agree on what moves or adds drawn material:
// (1) the boolean style flags of a shape under which d2svg.drawShape enlarges the box an outside label is placed
// against (3d, multiple) are the flags under which Diagram.BoundingBox moves the label it accounts for;
// (2) every optional part of a connection that d2svg.drawConnection draws when it is present (label, arrowhead
// labels, icon) is mentioned by the connection loop of Diagram.BoundingBox.
func runC29Agreement(c *core.Check) {
	c.Rule("C29.label-flags", "the style flags that move an outside label in the renderer are the flags that move it in BoundingBox")
	c.Rule("C29.connection-parts", "every optional part of a connection that the renderer draws is accounted for by BoundingBox")
	draw := mustFunc(c, "d2renderers/d2svg", "", "drawShape")
	drawConn := mustFunc(c, "d2renderers/d2svg", "", "drawConnection")
	bb := mustFunc(c, "d2target", "Diagram", "BoundingBox")
	if draw == nil || drawConn == nil || bb == nil {
		return
	}
	// (1) flags guarding writes to a *geo.Box local in drawShape vs flags guarding writes to a label point in BoundingBox
	flagsGuarding := func(fi *core.FuncInfo, isTarget func(info *types.Info, lhs ast.Expr) bool) map[string]token.Pos {
		info := fi.Pkg.TypesInfo
		fl := core.NewFlow(fi.Pkg, fi.Decl.Body)
		out := map[string]token.Pos{}
		ast.Inspect(fi.Decl.Body, func(n ast.Node) bool {
			if _, isLit := n.(*ast.FuncLit); isLit {
				return false
			}
			as, ok := n.(*ast.AssignStmt)
			if !ok || len(as.Lhs) != 1 || as.Tok == token.DEFINE || !isTarget(info, as.Lhs[0]) {
				return true
			}
			for _, g := range fl.GuardsOfNode(as) {
				for _, a := range g.Atoms() {
					if !a.True {
						continue
					}
					sel, ok := ast.Unparen(a.Cond).(*ast.SelectorExpr)
					if !ok {
						continue
					}
					f := core.FieldOf(info, sel)
					if f == nil || !core.FieldIs(info, sel, "d2target", "Shape", f.Name()) {
						continue
					}
					if b, ok := f.Type().Underlying().(*types.Basic); ok && b.Kind() == types.Bool {
						if _, dup := out[f.Name()]; !dup {
							out[f.Name()] = as.Pos()
						}
					}
				}
			}
			return true
		})
		return out
	}
	isGeoBoxField := func(info *types.Info, lhs ast.Expr) bool {
		root := rootIdent(info, lhs)
		if root == nil {
			return false
		}
		t := root.Type()
		if p, ok := t.(*types.Pointer); ok {
			t = p.Elem()
		}
		n, ok := t.(*types.Named)
		return ok && n.Obj().Name() == "Box" && n.Obj().Pkg() != nil && strings.HasSuffix(n.Obj().Pkg().Path(), "/lib/geo") && root.Name() == "box"
	}
	isLabelPoint := func(info *types.Info, lhs ast.Expr) bool {
		root := rootIdent(info, lhs)
		if root == nil {
			return false
		}
		t := root.Type()
		if p, ok := t.(*types.Pointer); ok {
			t = p.Elem()
		}
		n, ok := t.(*types.Named)
		return ok && n.Obj().Name() == "Point" && strings.HasPrefix(strings.ToLower(root.Name()), "label")
	}
	rFlags := flagsGuarding(draw, isGeoBoxField)
	// BoundingBox may move the label point itself or, like the renderer, enlarge the box the label is placed against
	bFlags := flagsGuarding(bb, func(info *types.Info, lhs ast.Expr) bool { return isLabelPoint(info, lhs) || isGeoBoxField(info, lhs) })
	if len(rFlags) < 2 {
		c.Fail("floor", "floor:C29.label-flags", token.NoPos, fmt.Sprintf("only %d style flags enlarge the label box in drawShape (confirmed by hand: ThreeDee, Multiple)", len(rFlags)))
	}
	for _, f := range sortedKeys(rFlags) {
		_, ok := bFlags[f]
		c.Decide(ok, "C29.label-flags", "label-flags:"+f, rFlags[f], "BoundingBox moves the label under the same flag", "drawShape places an outside label against a box enlarged when "+f+" is set, BoundingBox never moves the label for "+f+": the label is drawn outside the reported bounds by the offset")
	}
	for _, f := range sortedKeys(bFlags) {
		if _, ok := rFlags[f]; !ok {
			c.Fail("C29.label-flags", "label-flags:"+f, bFlags[f], "BoundingBox moves the label when "+f+" is set, the renderer does not")
		}
	}
	// (2) optional parts of a connection
	parts := map[string]token.Pos{}
	{
		info := drawConn.Pkg.TypesInfo
		ast.Inspect(drawConn.Decl.Body, func(n ast.Node) bool {
			is, ok := n.(*ast.IfStmt)
			if !ok {
				return true
			}
			for _, a := range (core.Guard{Cond: is.Cond, True: true}).Atoms() {
				be, ok := ast.Unparen(a.Cond).(*ast.BinaryExpr)
				if !ok || !a.True || be.Op != token.NEQ {
					continue
				}
				sel, ok := ast.Unparen(be.X).(*ast.SelectorExpr)
				if !ok {
					continue
				}
				f := core.FieldOf(info, sel)
				if f == nil || !isConnExpr(info, sel.X) {
					continue
				}
				isPresence := core.IsNil(info, be.Y)
				if lit, ok := ast.Unparen(be.Y).(*ast.BasicLit); ok && lit.Value == `""` {
					isPresence = true
				}
				_, isPtr := f.Type().Underlying().(*types.Pointer)
				isStr := false
				if b, ok := f.Type().Underlying().(*types.Basic); ok && b.Kind() == types.String {
					isStr = true
				}
				if isPresence && (isPtr || (isStr && f.Name() == "Label")) {
					if _, dup := parts[f.Name()]; !dup {
						parts[f.Name()] = is.Pos()
					}
				}
			}
			return true
		})
	}
	if len(parts) < 4 {
		c.Fail("floor", "floor:C29.connection-parts", token.NoPos, fmt.Sprintf("only %d optional connection parts found in drawConnection (confirmed by hand: Label, SrcLabel, DstLabel, Icon)", len(parts)))
	}
	mentioned := map[string]bool{}
	{
		info := bb.Pkg.TypesInfo
		ast.Inspect(bb.Decl.Body, func(n ast.Node) bool {
			if sel, ok := n.(*ast.SelectorExpr); ok {
				if f := core.FieldOf(info, sel); f != nil && isConnExpr(info, sel.X) {
					mentioned[f.Name()] = true
				}
			}
			return true
		})
	}
	for _, f := range sortedKeys(parts) {
		c.Decide(mentioned[f], "C29.connection-parts", "connection-parts:"+f, parts[f], "BoundingBox reads Connection."+f, "drawConnection draws the connection's "+f+" when it is present, BoundingBox has no term for it: it is drawn outside the reported bounds")
	}
}

// isConnExpr: e has type d2target.Connection (or a pointer to it); fields promoted from embedded structs count.
func isConnExpr(info *types.Info, e ast.Expr) bool {
	t := info.TypeOf(e)
	if t == nil {
		return false
	}
	if p, ok := t.(*types.Pointer); ok {
		t = p.Elem()
	}
	n, ok := t.(*types.Named)
	return ok && n.Obj().Name() == "Connection" && n.Obj().Pkg() != nil && strings.HasSuffix(n.Obj().Pkg().Path(), "/d2target")
}
