package props

import (
	"fmt"
	"go/ast"
	"go/token"
	"go/types"
	"sort"
	"strings"

	"golang.org/x/tools/go/packages"

	"d2verif/internal/core"
)

func init() {
	register(&Prop{
		ID:       "C11",
		Title:    "Parallel connections are indexed consecutively; indexed references hit one",
		Patterns: []string{"./d2graph", "./d2ir", "./d2compiler"},
		Explanation: "Decides four structural necessary conditions of the numbering, not the numbering itself: " +
			"(1) count before append — in d2graph.Object.Connect the new edge's index is computed (Edge.initIndex) on every path before the edge is appended to Graph.Edges, and in d2ir.Map.createEdge2 the edges are counted (GetEdges) before the new edge is appended to Map.Edges: counting after the append numbers from 1; Edge.Index of d2graph is written nowhere else on the compile path; " +
			"(2) identity fields agree — the fields initIndex compares to decide that two connections are parallel are exactly the fields Edge.AbsID (with ArrowString) prints besides the index (Src, Dst, SrcArrow, DstArrow), each compared with the same field of the other edge: a field printed but not compared gives two connections the same ID, a field compared but not printed too; " +
			"(3) EdgeID.Match compares the two indices with each other when both are given, and returns false from that comparison: otherwise an indexed reference hits every parallel connection; " +
			"(4) in d2ir's _compileEdges the branch in which the lookup of a non-glob indexed ID found nothing reports an error before moving on; (5) every function of d2ir that resolves a connection ID (EdgeID.resolve: underscores and common container) uses only the resolved ID and map afterwards; (6) the result of DeleteEdge for a `null` written with an index is examined (a missing index is an error there too), and either DeleteEdge renumbers the later parallel connections or createEdge2 numbers one past the highest existing index (never the count); (7) every function of d2ir that compares two paths element by element (EdgeID.Match and its helpers) also compares their lengths.",
		NotCovered: "that the numbers are consecutive for a given history (index arithmetic in d2ir.GetEdges / d2oracle renumbering); renumbering after deletes (C38); uniqueness of IDs across boards",
		Technique:  "static analysis: must-precede on go/cfg, who-may-write, writer/reader field-set agreement, guarded error discipline",
		Run:        runC11,
	})
}

func runC11(c *core.Check) {
	c.Rule("C11.count-before-append", "the index of a new connection is computed before the connection joins the list that is counted")
	c.Rule("C11.identity-fields", "initIndex compares exactly the fields AbsID prints, field by field")
	c.Rule("C11.match-index", "EdgeID.Match compares the two indices with each other")
	c.Rule("C11.missing-index-error", "a non-glob indexed reference that matches nothing is an error")

	// (1a) d2graph
	connect := mustFunc(c, "d2graph", "Object", "Connect")
	initIdx := mustFunc(c, "d2graph", "Edge", "initIndex")
	absID := mustFunc(c, "d2graph", "Edge", "AbsID")
	if connect == nil || initIdx == nil || absID == nil {
		return
	}
	{
		info := connect.Pkg.TypesInfo
		fl := core.NewFlow(connect.Pkg, connect.Decl.Body)
		napp := 0
		ast.Inspect(connect.Decl.Body, func(n ast.Node) bool {
			as, ok := n.(*ast.AssignStmt)
			if !ok || len(as.Lhs) != 1 || !core.FieldIs(info, as.Lhs[0], "d2graph", "Graph", "Edges") {
				return true
			}
			napp++
			b, i, ok := fl.Locate(as)
			if !ok {
				c.Broken("Connect: append to Graph.Edges not in the flow graph")
				return true
			}
			must, _ := fl.MustPassBefore(b, i, func(x ast.Node) bool {
				return core.Contains(x, func(y ast.Node) bool { return core.IsCallTo(info, y, "d2graph.(*Edge).initIndex") })
			})
			c.Decide(must, "C11.count-before-append", "d2graph.(*Object).Connect:initIndex≺append", as.Pos(), "every path to the append passes initIndex", "the edge is appended to Graph.Edges on a path that has not computed its index yet (initIndex would then count the edge itself, or never run): parallel connections are numbered from 1 or all get 0")
			return true
		})
		if napp == 0 {
			c.Fail("C11.count-before-append", "d2graph.(*Object).Connect:append", connect.Decl.Pos(), "Connect no longer appends to Graph.Edges: the rule cannot be instantiated")
		}
	}
	// who-may-write Edge.Index on the compile path
	for _, rel := range []string{"d2graph", "d2compiler"} {
		pk := c.P.Pkg(rel)
		if pk == nil {
			continue
		}
		for _, fi := range c.P.Funcs(pk) {
			if fi.Decl.Body == nil {
				continue
			}
			info := fi.Pkg.TypesInfo
			counts := 0
			ast.Inspect(fi.Decl.Body, func(n ast.Node) bool {
				var lhs []ast.Expr
				switch s := n.(type) {
				case *ast.AssignStmt:
					lhs = s.Lhs
				case *ast.IncDecStmt:
					lhs = []ast.Expr{s.X}
				}
				for _, l := range lhs {
					if core.FieldIs(info, l, "d2graph", "Edge", "Index") {
						counts++
						key := fmt.Sprintf("index-writer:%s", fname(fi))
						if counts > 1 {
							key = fmt.Sprintf("%s#%d", key, counts)
						}
						c.Decide(fi == initIdx, "C11.count-before-append", key, n.Pos(), "the only writer of Edge.Index", fname(fi)+" writes Edge.Index outside initIndex: the index no longer is the count of earlier parallel connections")
					}
				}
				return true
			})
		}
	}
	// (1b) d2ir
	if ce := mustFunc(c, "d2ir", "Map", "createEdge2"); ce != nil {
		info := ce.Pkg.TypesInfo
		fl := core.NewFlow(ce.Pkg, ce.Decl.Body)
		napp := 0
		ast.Inspect(ce.Decl.Body, func(n ast.Node) bool {
			as, ok := n.(*ast.AssignStmt)
			if !ok || len(as.Lhs) != 1 || !core.FieldIs(info, as.Lhs[0], "d2ir", "Map", "Edges") {
				return true
			}
			napp++
			b, i, ok := fl.Locate(as)
			if !ok {
				return true
			}
			must, _ := fl.MustPassBefore(b, i, func(x ast.Node) bool {
				return core.Contains(x, func(y ast.Node) bool { return core.IsCallTo(info, y, "d2ir.(*Map).GetEdges") })
			})
			c.Decide(must, "C11.count-before-append", "d2ir.(*Map).createEdge2:GetEdges≺append", as.Pos(), "every path to the append passes the count", "the new edge is appended to Map.Edges before the existing parallel edges are counted")
			return true
		})
		if napp == 0 {
			c.Fail("C11.count-before-append", "d2ir.(*Map).createEdge2:append", ce.Decl.Pos(), "createEdge2 no longer appends to Map.Edges: the rule cannot be instantiated")
		}
	}

	// (2) identity fields
	{
		info := initIdx.Pkg.TypesInfo
		edgeFieldsRead := func(fi *core.FuncInfo, seen map[*core.FuncInfo]bool) map[string]bool {
			out := map[string]bool{}
			var walk func(fi *core.FuncInfo)
			walk = func(fi *core.FuncInfo) {
				if seen[fi] {
					return
				}
				seen[fi] = true
				ast.Inspect(fi.Decl.Body, func(n ast.Node) bool {
					switch x := n.(type) {
					case *ast.SelectorExpr:
						if fv := core.FieldOf(fi.Pkg.TypesInfo, x); fv != nil && core.FieldIs(fi.Pkg.TypesInfo, x, "d2graph", "Edge", fv.Name()) {
							out[fv.Name()] = true
						}
					case *ast.CallExpr:
						// follow methods of Edge called on the receiver (ArrowString)
						if callee := core.CalleeOf(fi.Pkg.TypesInfo, x); callee != nil && callee.Pkg() == fi.Pkg.Types {
							if sig := callee.Type().(*types.Signature); sig.Recv() != nil && strings.HasSuffix(sig.Recv().Type().String(), "d2graph.Edge") {
								if h := c.P.Decl(callee); h != nil && h.Decl.Body != nil {
									walk(h)
								}
							}
						}
					}
					return true
				})
			}
			walk(fi)
			return out
		}
		printed := edgeFieldsRead(absID, map[*core.FuncInfo]bool{})
		delete(printed, "Index")
		// comparisons of initIndex
		compared := map[string]bool{}
		ok := true
		why := ""
		ast.Inspect(initIdx.Decl.Body, func(n ast.Node) bool {
			be, isBin := n.(*ast.BinaryExpr)
			if !isBin || be.Op != token.EQL {
				return true
			}
			lf, rf := core.FieldOf(info, be.X), core.FieldOf(info, be.Y)
			if lf == nil || rf == nil {
				return true
			}
			if lf != rf {
				ok, why = false, fmt.Sprintf("%s compares %s with %s", exprStr(be), lf.Name(), rf.Name())
				return true
			}
			lsel, rsel := ast.Unparen(be.X).(*ast.SelectorExpr), ast.Unparen(be.Y).(*ast.SelectorExpr)
			if core.ObjOf(info, lsel.X) == core.ObjOf(info, rsel.X) {
				ok, why = false, fmt.Sprintf("%s compares an edge with itself", exprStr(be))
			}
			compared[lf.Name()] = true
			return true
		})
		names := func(m map[string]bool) string {
			var s []string
			for k := range m {
				s = append(s, k)
			}
			sort.Strings(s)
			return strings.Join(s, ",")
		}
		if ok && names(printed) != names(compared) {
			ok, why = false, fmt.Sprintf("AbsID prints {%s} besides the index but initIndex compares {%s}", names(printed), names(compared))
		}
		c.Decide(ok && len(compared) >= 2, "C11.identity-fields", "initIndex~AbsID", initIdx.Decl.Pos(), "compares {"+names(compared)+"}, the fields AbsID prints besides the index", "the parallel-connection test and the connection ID disagree ("+why+"): two connections of a board can get the same ID, or parallel connections are not numbered consecutively")
	}

	// (6) a null with an index that matches nothing is reported, and deletion keeps the numbering dense
	if ce := mustFunc(c, "d2ir", "compiler", "_compileEdges"); ce != nil {
		info := ce.Pkg.TypesInfo
		nd := 0
		ast.Inspect(ce.Decl.Body, func(n ast.Node) bool {
			call, ok := n.(*ast.CallExpr)
			if !ok || !core.IsCallTo(info, call, "d2ir.(*Map).DeleteEdge") {
				return true
			}
			nd++
			// the result is looked at (not an expression statement)
			used := true
			ast.Inspect(ce.Decl.Body, func(m ast.Node) bool {
				if es, ok := m.(*ast.ExprStmt); ok && ast.Unparen(es.X) == ast.Expr(call) {
					used = false
				}
				return true
			})
			key := "d2ir.(*compiler)._compileEdges:DeleteEdge-result"
			if nd > 1 {
				key = fmt.Sprintf("%s#%d", key, nd)
			}
			// inside the loop over matched edges (for _, e := range ea) the edge exists by construction
			inMatched := false
			ast.Inspect(ce.Decl.Body, func(m ast.Node) bool {
				if rs, ok := m.(*ast.RangeStmt); ok && call.Pos() > rs.Body.Pos() && call.End() < rs.Body.End() && len(call.Args) == 1 && rs.Value != nil && rootIdent(info, call.Args[0]) == core.ObjOf(info, rs.Value) && strings.HasSuffix(exprStr(call.Args[0]), ".ID") {
					inMatched = true
				}
				return true
			})
			if inMatched {
				c.Pass("C11.missing-index-error", key, call.Pos(), "deletes an edge that the lookup just returned")
				return true
			}
			c.Decide(used, "C11.missing-index-error", key, call.Pos(), "the result of DeleteEdge is examined", "the result of DeleteEdge is dropped: `(a -> b)[5]: null` for a connection that does not exist is silently accepted")
			return true
		})
	}
	c.Rule("C11.delete-renumbers", "deleting a connection never frees an index that a later declaration hands out again: DeleteEdge renumbers, or creation numbers one past the highest existing index")
	if de := mustFunc(c, "d2ir", "Map", "DeleteEdge"); de != nil {
		info := de.Pkg.TypesInfo
		renumbers := false
		ast.Inspect(de.Decl.Body, func(n ast.Node) bool {
			var lhs ast.Expr
			switch x := n.(type) {
			case *ast.IncDecStmt:
				lhs = x.X
			case *ast.AssignStmt:
				if len(x.Lhs) == 1 && x.Tok != token.DEFINE {
					lhs = x.Lhs[0]
				}
			}
			if lhs != nil && strings.Contains(exprStr(lhs), ".Index") {
				renumbers = true
			}
			return true
		})
		_ = info
		// or: the index of a new connection is one past the highest existing index, not the count
		if ce := mustFunc(c, "d2ir", "Map", "createEdge2"); ce != nil && !renumbers {
			ast.Inspect(ce.Decl.Body, func(n ast.Node) bool {
				as, ok := n.(*ast.AssignStmt)
				if !ok || len(as.Lhs) != 1 || len(as.Rhs) != 1 {
					return true
				}
				be, ok := ast.Unparen(as.Rhs[0]).(*ast.BinaryExpr)
				if !ok || be.Op != token.ADD {
					return true
				}
				if v, isC := intConst(ce.Pkg.TypesInfo, be.Y); !isC || v != 1 {
					return true
				}
				if st, ok := ast.Unparen(be.X).(*ast.StarExpr); ok && strings.HasSuffix(exprStr(st.X), ".Index") {
					renumbers = true
				}
				return true
			})
		}
		c.Decide(renumbers, "C11.delete-renumbers", "d2ir.(*Map).DeleteEdge:renumber", de.Decl.Pos(), "later parallel connections are renumbered, or new connections are numbered one past the highest existing index", "DeleteEdge removes the connection and leaves the indices of the later parallel connections as they are, while createEdge2 numbers a new connection with the count of the existing ones: after `a -> b; a -> b; (a -> b)[0]: null; a -> b` two connections carry index 1 and (a -> b)[1] refers to both")
	}

	// (5) resolved supersedes: after eid.resolve(m) the resolved ID and map are the ones to use
	c.Rule("C11.resolved-supersedes", "after EdgeID.resolve the unresolved ID and map are not used again")
	if pk := c.P.Pkg("d2ir"); pk != nil {
		info := pk.TypesInfo
		nres := 0
		for _, fi := range c.P.Funcs(pk) {
			if fi.Decl.Body == nil {
				continue
			}
			ast.Inspect(fi.Decl.Body, func(n ast.Node) bool {
				as, ok := n.(*ast.AssignStmt)
				if !ok || len(as.Rhs) != 1 || len(as.Lhs) < 2 {
					return true
				}
				call, ok := ast.Unparen(as.Rhs[0]).(*ast.CallExpr)
				if !ok || !core.IsCallTo(info, call, "d2ir.(*EdgeID).resolve") || len(call.Args) != 1 {
					return true
				}
				nres++
				sel, _ := ast.Unparen(call.Fun).(*ast.SelectorExpr)
				var stale []types.Object
				if sel != nil {
					if o := core.ObjOf(info, sel.X); o != nil && core.ObjOf(info, as.Lhs[0]) != o {
						stale = append(stale, o)
					}
				}
				if o := core.ObjOf(info, call.Args[0]); o != nil && core.ObjOf(info, as.Lhs[1]) != o {
					stale = append(stale, o)
				}
				bad := ""
				ast.Inspect(fi.Decl.Body, func(m ast.Node) bool {
					id, ok := m.(*ast.Ident)
					if !ok || id.Pos() <= as.End() {
						return true
					}
					for _, o := range stale {
						if info.Uses[id] == o && bad == "" {
							bad = fmt.Sprintf("%s is used at line %d", id.Name, c.P.Fset.Position(id.Pos()).Line)
						}
					}
					return true
				})
				c.Decide(bad == "", "C11.resolved-supersedes", "resolved:"+fname(fi), as.Pos(), "only the resolved ID and map are used afterwards (or they shadow the originals)",
					fmt.Sprintf("%s resolved the underscores and the common prefix of the connection ID and then goes back to the unresolved value (%s): for an ID written with _ or with a shared container the lookup runs in the wrong map — the indexed reference or deletion is ignored or hits another connection", fname(fi), bad))
				return true
			})
		}
		if nres < 3 {
			c.Fail("C11.resolved-supersedes", "resolved:inventory", token.NoPos, fmt.Sprintf("only %d calls of EdgeID.resolve found", nres))
		}
	}

	// (7) the element-wise path comparisons behind Match and the other ID predicates compare lengths too
	c.Rule("C11.slice-equality", "element-wise comparisons of two paths also compare their lengths")
	if pk := c.P.Pkg("d2ir"); pk != nil {
		issues, n := sliceEqualityIssues(c.P, []*packages.Package{pk})
		for _, is := range issues {
			c.Fail("C11.slice-equality", is.Key, is.Pos, is.Text+": (a -> b)[0] then also matches connections of a.x -> b.y, and an indexed reference changes more than one connection")
		}
		c.Decide(n >= 2, "C11.slice-equality", "slice-equality:inventory", token.NoPos, fmt.Sprintf("%d element-wise path comparisons in d2ir, each with a length comparison", n), "no element-wise comparisons found")
	}

	// (3) Match
	if m := mustFunc(c, "d2ir", "EdgeID", "Match"); m != nil {
		info := m.Pkg.TypesInfo
		fl := core.NewFlow(m.Pkg, m.Decl.Body)
		found := false
		ast.Inspect(m.Decl.Body, func(n ast.Node) bool {
			be, ok := n.(*ast.BinaryExpr)
			if !ok || (be.Op != token.NEQ && be.Op != token.EQL) {
				return true
			}
			isIdx := func(e ast.Expr) (types.Object, bool) {
				st, ok := ast.Unparen(e).(*ast.StarExpr)
				if !ok || !core.FieldIs(info, st.X, "d2ir", "EdgeID", "Index") {
					return nil, false
				}
				return core.ObjOf(info, ast.Unparen(st.X).(*ast.SelectorExpr).X), true
			}
			lo, lok := isIdx(be.X)
			ro, rok := isIdx(be.Y)
			if !lok || !rok || lo == ro {
				return true
			}
			// a `return false` must be control-dependent on this comparison
			ast.Inspect(m.Decl.Body, func(r ast.Node) bool {
				ret, ok := r.(*ast.ReturnStmt)
				if !ok || len(ret.Results) != 1 || exprStr(ret.Results[0]) != "false" {
					return true
				}
				for _, g := range fl.GuardsOfNode(ret) {
					for _, a := range g.Atoms() {
						if a.Cond == ast.Expr(be) && a.True == (be.Op == token.NEQ) {
							found = true
						}
					}
				}
				return true
			})
			return true
		})
		c.Decide(found, "C11.match-index", "d2ir.(*EdgeID).Match:index", m.Decl.Pos(), "returns false when the two indices differ", "Match does not reject an ID whose index differs from the requested one: a reference such as (a -> b)[1] changes every parallel connection, not exactly one")
	}

	// (4) missing index is an error
	if ce := mustFunc(c, "d2ir", "compiler", "_compileEdges"); ce != nil {
		info := ce.Pkg.TypesInfo
		fl := core.NewFlow(ce.Pkg, ce.Decl.Body)
		n := 0
		ast.Inspect(ce.Decl.Body, func(x ast.Node) bool {
			ifs, ok := x.(*ast.IfStmt)
			if !ok {
				return true
			}
			be, ok := ast.Unparen(ifs.Cond).(*ast.BinaryExpr)
			if !ok || be.Op != token.EQL {
				return true
			}
			call, ok := ast.Unparen(be.X).(*ast.CallExpr)
			if !ok || exprStr(call.Fun) != "len" || len(call.Args) != 1 {
				return true
			}
			if v, ok := intConst(info, be.Y); !ok || v != 0 {
				return true
			}
			// the slice comes from GetEdges
			fromGet := false
			if id, ok := ast.Unparen(call.Args[0]).(*ast.Ident); ok {
				obj := info.Uses[id]
				ast.Inspect(ce.Decl.Body, func(y ast.Node) bool {
					as, ok := y.(*ast.AssignStmt)
					if !ok || len(as.Lhs) != 1 || len(as.Rhs) != 1 {
						return true
					}
					if core.ObjOf(info, as.Lhs[0]) == obj && core.IsCallTo(info, ast.Unparen(as.Rhs[0]), "d2ir.(*Map).GetEdges") {
						fromGet = true
					}
					return true
				})
			}
			if !fromGet {
				return true
			}
			n++
			// inside the body: an errorf call whose only extra guards concern the glob flag
			okErr := false
			for _, ec := range core.Calls(ifs.Body, false) {
				if !core.IsCallTo(info, ec, "d2ir.(*compiler).errorf") {
					continue
				}
				good := true
				for _, g := range fl.GuardsOfNode(ec) {
					if g.Cond.Pos() < ifs.Body.Pos() || g.Cond.End() > ifs.Body.End() {
						continue // guards of the enclosing code
					}
					for _, a := range g.Atoms() {
						s := exprStr(a.Cond)
						if !(strings.HasSuffix(s, ".Glob") && !a.True) && !(strings.Contains(s, ".Index != nil") && a.True) {
							good = false
						}
					}
				}
				if good {
					okErr = true
				}
			}
			key := "d2ir.(*compiler)._compileEdges:empty-lookup"
			if n > 1 {
				key = fmt.Sprintf("%s#%d", key, n)
			}
			c.Decide(okErr, "C11.missing-index-error", key, ifs.Pos(), "reports an error unless the ID is a glob", "the branch for a lookup that matched nothing no longer reports an error for a plain indexed reference: (a -> b)[7] on a diagram with one such connection is silently ignored")
			return true
		})
		if n == 0 {
			c.Fail("C11.missing-index-error", "d2ir.(*compiler)._compileEdges:empty-lookup", ce.Decl.Pos(), "no `len(<GetEdges result>) == 0` branch found in _compileEdges")
		}
	}
}
