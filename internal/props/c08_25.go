package props

import (
	"go/ast"
	"go/types"
	"strings"

	"golang.org/x/tools/go/packages"

	"d2verif/internal/core"
)

func init() {
	register(&Prop{
		ID:       "C08",
		Title:    "Compilation is deterministic",
		Patterns: []string{"./..."},
		Explanation: "Decides, over every repository package in the import closure of d2compiler (the compile path): (1) no iteration-order leak — every `range` over a map is classified from its body as order-insensitive, sorted-before-use, or leaking, and a leaking one fails unless a reviewed reason is on file; " +
			"(2) no run-time write to package-level state other than self-synchronising objects or state guarded by its mutex at every access (SSA store/map-update/mutating-method inventory); (3) no read of clock, random source, environment or PID; " +
			"(4) every success return of d2compiler.Compile is preceded by SortObjectsByAST and SortEdgesByAST on the returned graph. Also: memo-key completeness — a function that returns early with a remembered value and stores one later is keyed by every parameter its computation reads.",
		NotCovered: "ties in unstable sorts with index-dependent comparators (deterministic in Go's implementation, not by contract); data races on non-package state when one graph is compiled concurrently with itself",
		Technique:  "static analysis: effect classification of map-range bodies, SSA global-write inventory, call inventory, must-pass-through on go/cfg",
		Run:        runC08,
	})
	register(&Prop{
		ID:       "C25",
		Title:    "Rendering is deterministic regardless of scheduling",
		Patterns: []string{"./..."},
		Explanation: "Decides, over every repository package in the import closure of d2lib and the SVG renderers (layout, export, render, fonts, text measurement): (1) the only run-time-written package state is self-synchronising (sync.Map, mutexes, loggers) or is accessed under its mutex at *every* read and write, in every package (must-lockset dataflow); no JS runtime, ruler or option struct is kept in a package-level variable; " +
			"(2) no iteration-order leak in any `range` over a map (classified as in C08; reviewed reasons for the rest); (3) no clock/random/environment read that can reach output bytes. Also: memo-key completeness — a function that returns early with a remembered value and stores one later is keyed by every parameter its computation reads and by every field of its receiver that the computation reads and that code outside constructors and outside the computation assigns.",
		NotCovered: "byte equality itself; determinism inside goja/dagre.js/elk.js/rough.js; unstable-sort ties; one suspected order dependence in dagre's shiftReachableDown is excluded from the claim (map mutated while ranged over; not demonstrated, see DESIGN.md)",
		Technique:  "static analysis: SSA global-write inventory, must-lockset dataflow across packages, effect classification of map-range bodies",
		Run:        runC25,
	})
}

// reviewed reasons for map ranges the classifier cannot discharge; key = function + ranged expression.
var orderExceptions = map[string]string{
	"d2graph.CompareSerializedObject|other.Children":                      "test-support comparison helper; returns on the first difference found, which differs only in which error is reported, never on the compile path",
	"d2graph.CompareSerializedObject|obj.Children":                        "test-support comparison helper; returns on the first difference found, never on the compile path",
	"d2layouts/d2dagrelayout.shiftReachableDown|shifted":                  "movedObjects is used only as a set: for each element an existential test over all the others, result stored in a map",
	"d2layouts/d2dagrelayout.shiftReachableDown|grown":                    "movedObjects is used only as a set: for each element an existential test over all the others, result stored in a map",
	"d2layouts/d2dagrelayout.shiftReachableDown|seen":                     "UNDECIDED, excluded from the claim: the body grows ancestors and calls processQueue, which inserts into the ranged map; suspected order dependence that has not been demonstrated with an input (DESIGN.md §C25)",
	"lib/font.(*utf8FontFile).parseSymbols|usedRunes":                     "two runes may share a glyph, but the stored rune is only folded into maxRune, which is never used; only the key set (glyph ids) reaches the output, and it is sorted",
	"d2renderers/d2ascii/asciiroute.DrawRoute|turnDir":                     "debug logging only; output is not built in this loop",
}

func mapRangeKey(mr mapRange) string {
	return fname(mr.fi) + "|" + exprStr(mr.rs.X)
}

func checkMapRanges(c *core.Check, rule string, pkgs []*packages.Package) {
	for _, mr := range mapRangesIn(c.P, pkgs) {
		key := "maprange:" + mapRangeKey(mr)
		switch mr.class {
		case "insensitive", "sorted-after":
			c.Pass(rule, key, mr.rs.Pos(), mr.class+": "+mr.why)
		default:
			if r := orderExceptions[mapRangeKey(mr)]; r != "" {
				c.Except(rule, key, mr.rs.Pos(), r)
			} else {
				c.Fail(rule, key, mr.rs.Pos(), "iteration order of a Go map can reach the result: "+mr.why)
			}
		}
	}
}

// self-synchronising or immutable-after-init package state (by type of the global).
func selfSynchronising(t types.Type) (bool, string) {
	s := types.TypeString(t, nil)
	switch {
	case s == "sync.Map", s == "sync.Mutex", s == "sync.RWMutex", s == "sync.Once":
		return true, s
	case strings.HasPrefix(s, "oss.terrastruct.com/d2/lib/syncmap.SyncMap["):
		return true, "syncmap.SyncMap (wraps *sync.Map)"
	case s == "*log/slog.Logger", s == "*net/http.Client", s == "*regexp.Regexp":
		return true, s + " (safe for concurrent use)"
	}
	return false, s
}

// lockedGlobals: package state that must be accessed under a mutex (package path, var, mutex var).
var lockedGlobals = []struct{ pkg, name, mu string }{
	{"d2renderers/d2fonts", "FontFamilies", "FontFamiliesMu"},
}

func checkGlobals(c *core.Check, rule string, pkgs []*packages.Package) {
	var rels []string
	for _, pk := range pkgs {
		rels = append(rels, pk.PkgPath)
	}
	locked := map[string]string{}
	for _, lg := range lockedGlobals {
		locked[lg.pkg+"."+lg.name] = lg.mu
	}
	for _, w := range globalWrites(c.P, rels) {
		gname := core.RelPkg(w.global.Pkg.Pkg.Path()) + "." + w.global.Name()
		key := "global-write:" + gname + "@" + strings.TrimPrefix(w.fn.String(), core.Mod+"/")
		elem := w.global.Type().(*types.Pointer).Elem()
		if ok, why := selfSynchronising(elem); ok {
			c.Pass(rule, key, w.pos, "self-synchronising: "+why)
			continue
		}
		if _, ok := locked[gname]; ok {
			c.Pass(rule, key, w.pos, "mutex-guarded state (every access checked by the lockset rule)")
			continue
		}
		c.Fail(rule, key, w.pos, "package-level variable "+gname+" is written at run time ("+w.what+") and is neither self-synchronising nor in the lock table: results can depend on what ran before or concurrently")
	}
	// lockset over every access of the locked globals, in every loaded repository package
	for _, lg := range lockedGlobals {
		gp := c.P.Pkg(lg.pkg)
		if gp == nil {
			c.Broken("lock table: package %s not loaded", lg.pkg)
			continue
		}
		gv, _ := gp.Types.Scope().Lookup(lg.name).(*types.Var)
		mv, _ := gp.Types.Scope().Lookup(lg.mu).(*types.Var)
		if gv == nil || mv == nil {
			c.Broken("lock table: %s.%s / %s not found", lg.pkg, lg.name, lg.mu)
			continue
		}
		n := 0
		for _, pk := range c.P.RepoPkgs() {
			uses := false
			for id, o := range pk.TypesInfo.Uses {
				_ = id
				if o == types.Object(gv) {
					uses = true
					break
				}
			}
			if !uses {
				continue
			}
			la := newLockAnalysis(c.P, pk)
			for _, fi := range c.P.Funcs(pk) {
				if fi.Decl.Name.Name == "init" {
					continue
				}
				ast.Inspect(fi.Decl.Body, func(nd ast.Node) bool {
					id, ok := nd.(*ast.Ident)
					if !ok || pk.TypesInfo.Uses[id] != types.Object(gv) {
						return true
					}
					n++
					key := "locked-global:" + lg.pkg + "." + lg.name + "@" + fname(fi)
					held, _, ok := la.heldAt(fi, id)
					if ok && held[mv] {
						c.Pass(rule, key, id.Pos(), "lockset ∋ "+lg.mu)
					} else {
						c.Fail(rule, key, id.Pos(), lg.name+" is accessed without "+lg.mu+" held while AddFontFamily appends to it under the lock: data race, and which families a ruler sees depends on scheduling")
					}
					return true
				})
			}
		}
		if n == 0 {
			c.Fail(rule, "locked-global:"+lg.pkg+"."+lg.name+":no-access", gv.Pos(), "lock table entry matches no access")
		}
	}
}

var nondetCalls = map[string]bool{
	"time.Now": true, "time.Since": true, "time.Until": true, "os.Getenv": true, "os.LookupEnv": true, "os.Environ": true, "os.Getpid": true, "os.Hostname": true,
	"math/rand.Int": true, "math/rand.Intn": true, "math/rand.Float64": true, "math/rand.Seed": true, "math/rand.Perm": true, "math/rand.Shuffle": true, "math/rand.New": true,
	"crypto/rand.Read": true, "os.Getwd": true,
}

// reviewed environment/clock reads; key = function → reason.
var nondetExceptions = map[string]string{
	"d2lib.getLayout":                                   "D2_LAYOUT selects the layout engine when none is configured: configuration input, constant for a process and part of 'the same options'",
	"d2lib.Compile":                                     "D2_LAYOUT selects the layout engine when none is configured: configuration input",
	"d2renderers/d2ascii.(*ASCIIartist).Render":         "DEBUG_ASCII only enables debug logging",
	"d2renderers/d2ascii.NewASCIIartist":                "DEBUG_ASCII only enables debug logging",
	"lib/env.Test":                                      "TEST_MODE: test-only switches (e.g. fixed IDs), configuration constant for a process",
	"lib/env.Dev":                                       "DEV_MODE: configuration constant for a process",
	"lib/env.Debug":                                     "DEBUG: logging only",
	"lib/env.SkipGraphDiffTests":                        "test harness switch",
	"lib/env.Timeout":                                   "D2_TIMEOUT bounds run time, does not feed output",
	"lib/png.(*Playwright).Cleanup":                     "PNG export (browser), not the SVG path",
	"lib/png.InitPlaywright":                            "PNG export (browser), not the SVG path",
	"lib/memfs.(*MemoryFS).addFile":                     "in-memory FS mod time for d2js; file times are never read by the compiler",
	"lib/memfs.New":                                     "in-memory FS mod time for d2js",
}

func checkNondetCalls(c *core.Check, rule string, pkgs []*packages.Package) {
	for _, pk := range pkgs {
		for _, fi := range c.P.Funcs(pk) {
			for _, call := range core.Calls(fi.Decl.Body, true) {
				f := core.CalleeOf(pk.TypesInfo, call)
				if f == nil || !nondetCalls[core.FuncName(f)] {
					continue
				}
				key := "nondet:" + fname(fi) + "→" + core.FuncName(f)
				if r, ok := nondetExceptions[fname(fi)]; ok {
					c.Except(rule, key, call.Pos(), r)
				} else {
					c.Fail(rule, key, call.Pos(), "reads clock/random/environment on the deterministic path: the result can differ between runs or processes")
				}
			}
		}
	}
}

func runC08(c *core.Check) {
	c.Rule("C08.order", "every range over a map in the compile path is order-insensitive, sorted before use, or carries a reviewed reason")
	c.Rule("C08.globals", "no run-time write to package-level state other than self-synchronising or mutex-guarded state")
	c.Rule("C08.nondet", "no clock/random/environment/PID read in the compile path")
	c.Rule("C08.sorted", "d2compiler.Compile: every success return is preceded by SortObjectsByAST and SortEdgesByAST on the returned graph")
	root := c.P.Pkg("d2compiler")
	if root == nil {
		c.Broken("d2compiler not loaded")
		return
	}
	scope := importClosure(c.P, root)
	if len(scope) < 8 {
		c.Broken("compile-path import closure has only %d packages", len(scope))
	}
	c.Note("scope: %d packages in the import closure of d2compiler", len(scope))
	checkMapRanges(c, "C08.order", scope)
	checkGlobals(c, "C08.globals", scope)
	checkNondetCalls(c, "C08.nondet", scope)
	c.Floor("C08.order", 8)
	c.Rule("C08.memo-key", "a memo (early return of a remembered value, later store) is keyed by every input its computation reads")
	c.Note("memo-key: %d functions of memo shape in scope", checkMemoKeys(c, "C08.memo-key", scope, c.P.RepoPkgs()))

	comp := mustFunc(c, "d2compiler", "", "Compile")
	if comp == nil {
		return
	}
	info := comp.Pkg.TypesInfo
	fl := core.NewFlow(comp.Pkg, comp.Decl.Body)
	n := 0
	for _, ex := range fl.Exits() {
		if ex.Ret == nil || len(ex.Ret.Results) != 3 || !core.IsNil(info, ex.Ret.Results[2]) {
			continue
		}
		g := core.ObjOf(info, ex.Ret.Results[0])
		if g == nil {
			if core.IsNil(info, ex.Ret.Results[0]) {
				continue
			}
			c.Fail("C08.sorted", "Compile:success-return", ex.Ret.Pos(), "success return does not return a named graph variable")
			continue
		}
		n++
		for _, m := range []string{"SortObjectsByAST", "SortEdgesByAST"} {
			ok, _ := fl.MustPassBefore(ex.Blk, ex.Idx, func(nd ast.Node) bool {
				return sortsGraph(c, info, nd, g, m, 0)
			})
			c.Decide(ok, "C08.sorted", "Compile:"+m+"≺success-return", ex.Ret.Pos(), "sorted on every success path", "a success return of Compile is reachable without "+m+": object/edge order then follows IR map traversal, not the source")
		}
	}
	if n == 0 {
		c.Fail("C08.sorted", "Compile:no-success-return", comp.Decl.Pos(), "no success return found")
	}
}

func runC25(c *core.Check) {
	c.Rule("C25.globals", "package-level state written at run time is self-synchronising or accessed under its mutex at every read and write")
	c.Rule("C25.order", "every range over a map on the layout/export/render path is order-insensitive, sorted before use, or carries a reviewed reason")
	c.Rule("C25.nondet", "no clock/random/environment read on the render path (configuration switches reviewed)")
	seen := map[string]bool{}
	var scope []*packages.Package
	for _, rootRel := range []string{"d2lib", "d2renderers/d2svg", "d2renderers/d2svg/appendix", "d2renderers/d2sketch", "d2renderers/d2animate", "d2renderers/d2fonts", "lib/textmeasure", "d2renderers/d2ascii"} {
		root := c.P.Pkg(rootRel)
		if root == nil {
			c.Broken("render-path root %s not loaded", rootRel)
			continue
		}
		for _, pk := range importClosure(c.P, root) {
			if !seen[pk.PkgPath] {
				seen[pk.PkgPath] = true
				scope = append(scope, pk)
			}
		}
	}
	c.Note("scope: %d packages in the import closure of d2lib and the renderers", len(scope))
	if len(scope) < 25 {
		c.Broken("render-path import closure has only %d packages", len(scope))
	}
	checkGlobals(c, "C25.globals", scope)
	checkMapRanges(c, "C25.order", scope)
	checkNondetCalls(c, "C25.nondet", scope)
	c.Rule("C25.memo-key", "a memo (early return of a remembered value, later store) is keyed by every input and every mode of its object that the computation reads")
	c.Note("memo-key: %d functions of memo shape in scope", checkMemoKeys(c, "C25.memo-key", scope, c.P.RepoPkgs()))
	c.Floor("C25.order", 15)
	c.Floor("C25.globals", 3)
}
