package props

import (
	"fmt"
	"go/types"
	"strings"

	"d2verif/internal/core"
)

func init() {
	register(&Prop{
		ID:       "C30",
		Title:    "Rendered SVG is well-formed and user text cannot inject markup",
		Patterns: []string{"./d2renderers/...", "./d2themes/...", "./lib/color", "./lib/svg", "./d2target", "./lib/textmeasure", "./lib/jsrunner"},
		Explanation: "Decides an injection clause over all renderer packages (d2svg, appendix, d2sketch, d2animate, d2themes, lib/color, lib/svg): every operand of every markup-bearing format call and every write to the output is classified by backward slicing over SSA " +
			"(constants, numeric verbs, sanitisers, validated colours, renderer-built markup, struct fields joined over all their stores, buffers joined over all their writes, function results summarised symbolically in their parameters and resolved over in-repo call sites); " +
			"an operand provably derived from a user-controlled d2target/color field (every string-carrying field is user-controlled unless the reviewed table says validated/internal) that reaches an attribute, tag or text position without a sanitiser is a violation. " +
			"In-repo sanitisers (svg.EscapeText, svg.SVGID, UniqueGradientID) are not trusted by name: their bodies are analysed with a tainted parameter and must return a sanitised value on every path. The colour-validation regexes that 'validated' fields rely on must be anchored (shared with C16).",
		NotCovered: "tag balance / well-formedness of the whole document; HTML produced by goldmark and MathJax (trusted producers); characters illegal in XML beyond what encoding/xml.EscapeText replaces; operands the slice cannot classify are counted as unknown in the evidence, not reported",
		Trust:      []string{"encoding/xml.EscapeText, html.EscapeString, base32/base64/hex encoders and numeric formatting produce attribute- and text-safe output", "goldmark / MathJax / chroma output is well-formed"},
		Technique:  "static analysis: context-sensitive backward taint slicing on go/ssa with per-verb XML context from the constant format string",
		Run:        runC30,
	})
}

func xmlTaintConfig() *taintConfig {
	return &taintConfig{
		sanitizers: map[string]bool{
			"html.EscapeString":                              true,
			"(*encoding/base64.Encoding).EncodeToString":     true,
			"(*encoding/base32.Encoding).EncodeToString":     true,
			"encoding/hex.EncodeToString":                    true,
			"strconv.Itoa": true, "strconv.FormatFloat": true, "strconv.FormatInt": true, "strconv.FormatBool": true,
			"net/url.QueryEscape": true, "net/url.PathEscape": true,
			"(hash.Hash).Sum":                                true,
		},
		passthrough: map[string][]int{
			"strings.ToLower": {0}, "strings.ToUpper": {0}, "strings.TrimSpace": {0}, "strings.TrimSuffix": {0}, "strings.TrimPrefix": {0},
			"strings.Repeat": {0}, "strings.Title": {0}, "strings.TrimRight": {0}, "strings.TrimLeft": {0}, "strings.Trim": {0},
			"strings.ReplaceAll": {0, 2}, "strings.Replace": {0, 2}, "strings.Join": {0, 1}, "strings.Split": {0}, "strings.Fields": {0}, "strings.SplitN": {0},
			"strings.TrimFunc": {0}, "strings.Map": {1}, "strings.Clone": {0}, "bytes.TrimSpace": {0}, "bytes.Join": {0, 1},
			"bytes.ReplaceAll": {0, 2}, "bytes.Replace": {0, 2},
			"(*regexp.Regexp).ReplaceAllString": {1, 2}, "(*regexp.Regexp).FindStringSubmatch": {1}, "(*regexp.Regexp).FindAllStringSubmatch": {1},
			"(*regexp.Regexp).FindString": {1}, "(*regexp.Regexp).ReplaceAllLiteralString": {1, 2},
			"oss.terrastruct.com/util-go/go2.Pointer": {0},
			"golang.org/x/text/cases.Caser.String": {1},
		},
		fieldKinds: map[string]Kind{
			// validated by color.ValidColor at compile time (named colour, hex literal, theme code, or gradient)
			"d2target.Shape.Fill": KValid, "d2target.Shape.Stroke": KValid, "d2target.Shape.Color": KValid,
			"d2target.Connection.Fill": KValid, "d2target.Connection.Stroke": KValid, "d2target.Connection.Color": KValid,
			"d2target.Text.Color": KValid, "d2target.Text.LabelFill": KValid, "d2target.ThemeOverrides.*": KValid,
			// members of constant sets (validated keywords) or set by the exporter from constants
			"d2target.Shape.Type": KConst, "d2target.Shape.LabelPosition": KConst, "d2target.Shape.IconPosition": KConst, "d2target.Shape.TooltipPosition": KConst,
			"d2target.Shape.FillPattern": KValid, "d2target.Shape.FontFamily": KValid,
			"d2target.Connection.LabelPosition": KConst, "d2target.Connection.IconPosition": KConst, "d2target.Connection.FontFamily": KValid,
			"d2target.Connection.SrcArrow": KConst, "d2target.Connection.DstArrow": KConst,
			"d2target.Shape.PrimaryAccentColor": KConst, "d2target.Shape.SecondaryAccentColor": KConst, "d2target.Shape.NeutralAccentColor": KConst,
			"d2target.Shape.BorderRadius": KNum,
			"d2target.Diagram.FontFamily":  KConst,
			"d2target.Diagram.MonoFontFamily": KConst,
			// gradient IDs are "grad-" + sha1 hex
			"lib/color.Gradient.ID": KSan, "lib/color.Gradient.Type": KConst,
		},
		modelType: func(t *types.Named) bool {
			if t.Obj().Pkg() == nil {
				return false
			}
			switch core.RelPkg(t.Obj().Pkg().Path()) {
			case "d2target":
				return true
			case "lib/color":
				return t.Obj().Name() == "Gradient" || t.Obj().Name() == "ColorStop"
			}
			return false
		},
		bufWriters: map[string]Kind{
			"encoding/xml.EscapeText": KSan,
			"(hash.Hash).Write":       KSan,
		},
	}
}

var xmlScope = []string{"d2renderers/d2svg", "d2renderers/d2svg/appendix", "d2renderers/d2sketch", "d2renderers/d2animate", "d2themes", "lib/color", "lib/svg"}

func runC30(c *core.Check) {
	c.Rule("C30.sink", "no operand of a markup-bearing format call or output write is derived from a user-controlled field without a sanitiser for its XML context")
	c.Rule("C30.sanitiser", "in-repo sanitisers return a sanitised value on every path when their parameter is tainted")
	c.Rule("C30.regex", "colour-validation regexes are anchored at both ends (validated colours are emitted unescaped)")
	e := newTaintEngine(c.P, xmlTaintConfig(), xmlScope)
	if len(e.funcs) < 100 {
		c.Broken("renderer scope has only %d functions", len(e.funcs))
	}
	reports := e.xmlSinks()
	counts := map[Kind]int{}
	for _, r := range reports {
		counts[r.kind.k]++
		fname := strings.TrimPrefix(r.fn.String(), core.Mod+"/")
		key := fmt.Sprintf("sink:%s:%s:%s", fname, r.what, r.operand)
		switch {
		case r.kind.k == KTainted:
			srcs := r.kind.srcs
			if len(srcs) == 0 {
				srcs = []string{"?"}
			}
			for _, src := range srcs {
				c.Fail("C30.sink", key+"←"+src, r.pos, fmt.Sprintf("%s position receives user-controlled %s (%s): the string reaches the SVG without escaping, so a crafted value adds attributes or elements", r.ctx, src, r.kind.why))
			}
		case r.kind.k == KUnknown:
			o := c.PassTrivial("C30.sink", key, r.pos, "unclassified ("+r.kind.why+"): not provably user data")
			_ = o
		case r.kind.k == KConst || r.kind.k == KNum:
			c.PassTrivial("C30.sink", key, r.pos, r.kind.k.String())
		default:
			c.Pass("C30.sink", key, r.pos, fmt.Sprintf("%s in %s position", r.kind.k, r.ctx))
		}
	}
	c.Note("sink operands: %d total; const %d, numeric %d, sanitised %d, validated %d, markup %d, unclassified %d, tainted %d", len(reports),
		counts[KConst], counts[KNum], counts[KSan], counts[KValid], counts[KMarkup], counts[KUnknown], counts[KTainted])
	c.Floor("C30.sink", 150)

	// sanitiser integrity: analyse each in-repo sanitiser with a tainted parameter
	for _, s := range []struct{ pkg, name string }{{"lib/svg", "EscapeText"}, {"lib/svg", "SVGID"}, {"lib/color", "UniqueGradientID"}} {
		fi := mustFunc(c, s.pkg, "", s.name)
		if fi == nil {
			continue
		}
		fn := c.P.SSAFunc(fi)
		k := e.fnKind(fn, 0, 0)
		ok := k.deps == 0 && k.k <= KSan
		c.Decide(ok, "C30.sanitiser", "sanitiser:"+s.pkg+"."+s.name, fi.Decl.Pos(), "every return is an encoder/escaper output: "+k.k.String(),
			fmt.Sprintf("the result can carry the raw argument (kind %s, flows-from-parameter=%v %s): every caller that relies on it for escaping becomes an injection point", k.k, k.deps != 0, k.why))
	}
	checkColorRegexes2(c, "C30.regex")
}

// checkColorRegexes2 runs the shared anchoring rule under another rule id.
func checkColorRegexes2(c *core.Check, rule string) {
	before := len(c.Obs)
	checkColorRegexes(c)
	for _, o := range c.Obs[before:] {
		if o.Rule == "C16.regex" {
			c.Count["C16.regex"]--
			o.Rule = rule
			c.Count[rule]++
		}
		if o.Rule == "floor" && strings.Contains(o.Key, "C16.regex") {
			o.Key = strings.Replace(o.Key, "C16.regex", rule, 1)
		}
	}
}
