package props

import (
	"fmt"
	"go/ast"
	"go/token"
	"go/types"
	"sort"
	"strings"

	"golang.org/x/tools/go/packages"

	"d2verif/internal/core"
)

func init() {
	register(&Prop{
		ID:       "C27",
		Title:    "Fitted shapes contain their content; traced ends land on the outline",
		Patterns: []string{"./lib/shape", "./d2graph", "./d2target", "./lib/geo", "./lib/label"},
		Explanation: "Decides structural necessary conditions, not the fit inequality: (1) every shape-type constant of lib/shape has a constructor arm in NewShape and every DSL shape name of d2target maps to such a constant; (2) method-set pairing: a shape type that gives its text area another box than its own (overrides GetInnerBox) also overrides GetDimensionsToFit (so the fitted size accounts for that text area) and Perimeter (so ends are traced onto its real outline) — or is listed as rectangular by construction; " +
			"(3) in Edge.TraceToShape the flags that divert an end to an outside label or icon are not carried over from the source end to the destination end: on every path from a `flag = true` of the source half to the test that guards tracing the destination onto its outline, the flag is reset; both ends are traced by TraceToShapeBorder with that end's own shape and points;" +
			" (4) axis twins: the helper pairs getTipWidth/getTipHeight, getArcWidth/getArcHeight and Orientation.IsHorizontal/IsVertical — confirmed mirror images of each other — stay token-for-token mirror images (identifiers renamed one-to-one, literal operands of products and sums in either order).",
		NotCovered: "the fit inequality itself and the outline distance (numeric properties of the per-shape formulas, e.g. the callout tip arithmetic)",
		Technique:  "static analysis: switch exhaustiveness, method-set pairing, typestate (stale-flag) reachability on go/cfg, sibling (axis-twin) agreement",
		Run:        runC27,
	})
}

// rectangularByConstruction: shape types whose inner box differs from the outer box only by padding conventions and whose outline is the box.
var rectangularByConstruction = map[string]string{}

func runC27(c *core.Check) {
	c.Rule("C27.constructors", "every shape type has a constructor arm; every DSL shape maps to a shape type")
	c.Rule("C27.pairing", "a shape with its own inner box also has its own fit and its own perimeter")
	c.Rule("C27.trace", "the divert-to-label/icon flags do not leak from the source end to the destination end; each end is traced with its own shape")
	pk := c.P.Pkg("lib/shape")
	if pk == nil {
		c.Broken("lib/shape not loaded")
		return
	}
	// (4) axis twins: helper pairs named …Width/…Height (…Horizontal/…Vertical) that were confirmed to be mirror
	// images of each other stay mirror images — the outline, the inner box and the fitted size use both.
	c.Rule("C27.axis-twins", "helper pairs named for the two axes are token-for-token mirror images")
	{
		expected := map[string]string{
			"lib/shape.getTipWidth":              "callout tip: half the box when the box is smaller than twice the default tip, for both axes",
			"lib/shape.getArcWidth":              "cylinder/queue arc depth: same clamp for both orientations",
			"lib/geo.(Orientation).IsHorizontal": "orientation classification",
		}
		nt := 0
		var tw []*packages.Package
		for _, rel := range []string{"lib/shape", "lib/geo"} {
			if p := c.P.Pkg(rel); p != nil {
				tw = append(tw, p)
			}
		}
		for _, tp := range axisTwins(c.P, tw) {
			if expected[fname(tp.A)] == "" {
				continue
			}
			nt++
			c.Decide(tp.Mirror, "C27.axis-twins", "twins:"+fname(tp.A)+"~"+tp.B.Decl.Name.Name, tp.B.Decl.Pos(), "mirror images ("+expected[fname(tp.A)]+")",
				fmt.Sprintf("%s and %s are no longer mirror images of each other (%s): the shape's outline, inner box and fitted size treat width and height differently, so content can overflow or an end can miss the outline for boxes where only one of the two clamps applies", fname(tp.A), tp.B.Decl.Name.Name, tp.Why))
		}
		if nt < 2 {
			c.Fail("C27.axis-twins", "twins:inventory", token.NoPos, fmt.Sprintf("only %d of the confirmed axis-twin pairs found", nt))
		}
	}
	// (1)
	var typeConsts []*types.Const
	sc := pk.Types.Scope()
	for _, n := range sc.Names() {
		if k, ok := sc.Lookup(n).(*types.Const); ok && strings.HasSuffix(n, "_TYPE") {
			typeConsts = append(typeConsts, k)
		}
	}
	ns := mustFunc(c, "lib/shape", "", "NewShape")
	if ns != nil {
		arms := map[types.Object]bool{}
		ast.Inspect(ns.Decl.Body, func(n ast.Node) bool {
			if cc, ok := n.(*ast.CaseClause); ok {
				for _, e := range cc.List {
					if o := core.ObjOf(ns.Pkg.TypesInfo, e); o != nil {
						arms[o] = true
					}
				}
			}
			return true
		})
		for _, k := range typeConsts {
			c.Decide(arms[k], "C27.constructors", "NewShape:"+k.Name(), ns.Decl.Pos(), "has an arm", "NewShape has no arm for "+k.Name()+": the shape silently falls back to the default (rectangular) geometry for sizing and tracing")
		}
		if len(typeConsts) < 20 {
			c.Fail("C27.constructors", "types", ns.Decl.Pos(), fmt.Sprintf("only %d *_TYPE constants found", len(typeConsts)))
		}
	}
	// DSL mapping
	if tpk := c.P.Pkg("d2target"); tpk != nil {
		var shapesLit, mapLit *ast.CompositeLit
		for _, f := range tpk.Syntax {
			ast.Inspect(f, func(n ast.Node) bool {
				vs, ok := n.(*ast.ValueSpec)
				if !ok {
					return true
				}
				for i, nm := range vs.Names {
					if i >= len(vs.Values) {
						continue
					}
					if cl, ok := vs.Values[i].(*ast.CompositeLit); ok {
						switch nm.Name {
						case "Shapes":
							shapesLit = cl
						case "DSL_SHAPE_TO_SHAPE_TYPE":
							mapLit = cl
						}
					}
				}
				return true
			})
		}
		if shapesLit == nil || mapLit == nil {
			c.Fail("C27.constructors", "dsl-map", token.NoPos, "d2target.Shapes / DSL_SHAPE_TO_SHAPE_TYPE not found")
		} else {
			mapped := map[string]string{}
			for _, el := range mapLit.Elts {
				if kv, ok := el.(*ast.KeyValueExpr); ok {
					mapped[exprStr(kv.Key)] = exprStr(kv.Value)
				}
			}
			var missing []string
			for _, el := range shapesLit.Elts {
				if _, ok := mapped[exprStr(el)]; !ok {
					missing = append(missing, exprStr(el))
				}
			}
			sort.Strings(missing)
			c.Decide(len(missing) == 0 && len(shapesLit.Elts) > 15, "C27.constructors", "DSL_SHAPE_TO_SHAPE_TYPE:covers-Shapes", mapLit.Pos(), fmt.Sprintf("%d DSL shapes mapped", len(shapesLit.Elts)), fmt.Sprintf("DSL shapes without a shape type: %v (they are sized and traced as rectangles)", missing))
		}
	}
	// (2) pairing
	methods := map[string]map[string]bool{}
	for _, fi := range c.P.Funcs(pk) {
		if fi.Decl.Recv == nil || len(fi.Decl.Recv.List) == 0 {
			continue
		}
		rt := exprStr(fi.Decl.Recv.List[0].Type)
		rt = strings.TrimPrefix(rt, "*")
		if methods[rt] == nil {
			methods[rt] = map[string]bool{}
		}
		methods[rt][fi.Obj.Name()] = true
	}
	np := 0
	for _, rt := range sortedKeys(methods) {
		m := methods[rt]
		if rt == "baseShape" || !m["GetInnerBox"] {
			continue
		}
		np++
		for _, need := range []string{"GetDimensionsToFit", "Perimeter"} {
			key := rt + ":" + need
			if !m[need] && rectangularByConstruction[key] != "" {
				c.Except("C27.pairing", key, token.NoPos, rectangularByConstruction[key])
				continue
			}
			c.Decide(m[need], "C27.pairing", key, token.NoPos, "overridden together with GetInnerBox", rt+" has its own GetInnerBox but inherits the rectangular "+need+": the fitted size ignores the reduced text area (content overflows), or ends are traced onto the bounding box instead of the outline")
		}
	}
	if np < 10 {
		c.Fail("C27.pairing", "shapes", token.NoPos, fmt.Sprintf("only %d shape types with their own inner box found", np))
	}
	// (3) stale flags
	tr := mustFunc(c, "d2graph", "Edge", "TraceToShape")
	if tr == nil {
		return
	}
	info := tr.Pkg.TypesInfo
	fl := core.NewFlow(tr.Pkg, tr.Decl.Body)
	calls := callsIn(tr, false, "lib/shape.TraceToShapeBorder")
	if len(calls) != 2 {
		c.Fail("C27.trace", "TraceToShape:border-calls", tr.Decl.Pos(), fmt.Sprintf("%d calls of TraceToShapeBorder, expected one per end", len(calls)))
		return
	}
	first, second := calls[0], calls[1]
	if second.Pos() < first.Pos() {
		first, second = second, first
	}
	// each end uses its own shape: the shape variables derive from edge.Src / edge.Dst
	endOf := func(call *ast.CallExpr) string {
		if o := core.ObjOf(info, call.Args[0]); o != nil {
			if d := singleDef(tr, o); d != nil {
				s := exprStr(d.Rhs)
				switch {
				case strings.Contains(s, ".Src."):
					return "Src"
				case strings.Contains(s, ".Dst."):
					return "Dst"
				}
			}
		}
		return "?"
	}
	c.Decide(endOf(first) == "Src" && endOf(second) == "Dst", "C27.trace", "TraceToShape:own-shape", first.Pos(), "first call traces with the source's shape, second with the destination's", fmt.Sprintf("the ends are traced with the shapes of %s and %s", endOf(first), endOf(second)))
	// flags read by the guard of the second call
	flags := map[types.Object]bool{}
	for _, g := range fl.GuardsOfNode(second) {
		for _, a := range g.Atoms() {
			if o := core.ObjOf(info, a.Cond); o != nil {
				if b, ok := o.Type().Underlying().(*types.Basic); ok && b.Kind() == types.Bool {
					flags[o] = true
				}
			}
		}
	}
	if len(flags) == 0 {
		c.Fail("C27.trace", "TraceToShape:flags", second.Pos(), "the destination trace is not guarded by the divert flags any more; the rule needs review")
		return
	}
	sb, si, okS := fl.Locate(second)
	if !okS {
		c.Broken("TraceToShape: destination trace call not locatable")
		return
	}
	for o := range flags {
		stale := false
		var where token.Pos
		ast.Inspect(tr.Decl.Body, func(n ast.Node) bool {
			as, ok := n.(*ast.AssignStmt)
			if !ok || len(as.Lhs) != 1 || core.ObjOf(info, as.Lhs[0]) != o || exprStr(as.Rhs[0]) != "true" || as.Pos() > first.Pos() {
				return true
			}
			mb, mi, okL := fl.Locate(as)
			if !okL {
				return true
			}
			reach, _ := fl.ReachableFromAvoiding(mb, mi, sb, si, func(x ast.Node) bool {
				r, ok := x.(*ast.AssignStmt)
				if !ok {
					return false
				}
				for i, l := range r.Lhs {
					if core.ObjOf(info, l) == o && i < len(r.Rhs) && exprStr(r.Rhs[i]) == "false" {
						return true
					}
				}
				return false
			})
			// reaching the second call itself requires the flag false, so look at its guard instead: reachability of the guard condition
			if !reach {
				// the guard node
				for _, b := range fl.G.Blocks {
					for i, nd := range b.Nodes {
						if e, ok := nd.(ast.Expr); ok && e.Pos() <= second.Pos() && strings.Contains(exprStr(e), o.Name()) && e.Pos() > first.End() {
							_ = i
							if r2, _ := fl.ReachableFromAvoiding(mb, mi, int(b.Index), i, func(x ast.Node) bool {
								r, ok := x.(*ast.AssignStmt)
								if !ok {
									return false
								}
								for j, l := range r.Lhs {
									if core.ObjOf(info, l) == o && j < len(r.Rhs) && exprStr(r.Rhs[j]) == "false" {
										return true
									}
								}
								return false
							}); r2 {
								reach = true
							}
						}
					}
				}
			}
			if reach {
				stale = true
				where = as.Pos()
			}
			return true
		})
		c.Decide(!stale, "C27.trace", "TraceToShape:flag-reset:"+o.Name(), where, "reset to false between the source half and the destination half", o.Name()+" set while handling the source end is still set when the destination end is handled: the destination end is then neither clipped to the box nor traced onto the outline (it stays on the bounding box of a non-rectangular shape)")
	}
}
