package props

import (
	"d2verif/internal/core"
)

func init() {
	register(&Prop{
		ID:       "C42",
		Title:    "Editor support returns exact reference ranges and board positions",
		Patterns: []string{"./d2lsp", "./d2ast"},
		Explanation: "Decides the crash-freedom clause only: every index and slice expression in d2lsp (completion, board-at-position and reference lookup) is in range for any text and any line/column, including negative ones — by an idiom of the bounds engine (dominating length tests, clamped parameters, range keys, searches tested against -1, case-constant lengths) or by a reviewed invariant.",
		NotCovered: "exactness of the reference ranges and of the board reported for a position (a comparison with the source text); nil dereferences of AST boxes (elements of parsed key paths are non-empty by the parser rule C01.unbox)",
		Trust:      []string{"the reviewed invariants of the exceptions table"},
		Technique:  "static analysis: bounds-idiom discharge over the typed AST with go/cfg guard dominance",
		Run:        runC42,
	})
}

var c42Exceptions = map[string]string{
	"index:d2lsp.getKeywordContext:lines[keyRange.End.Line]":   "keyRange is the range of a key parsed from this text (or a prefix of it); its End is a committed parser position, whose line number is at most the number of newlines in the text, and lines = strings.Split(text, \"\\n\") has one more element than that",
	"index:d2lsp.getKeywordContext:lines[keyRange.End.Line]#2": "same",
}

func runC42(c *core.Check) {
	c.Rule("C42.bounds", "every index/slice expression of d2lsp is in range for any text and position")
	pk := c.P.Pkg("d2lsp")
	if pk == nil {
		c.Broken("d2lsp not loaded")
		return
	}
	for _, s := range boundsSites(c.P, c.P.Funcs(pk), nil) {
		switch {
		case s.ok:
			c.Pass("C42.bounds", s.key, s.node.Pos(), s.how)
		case c42Exceptions[s.key] != "":
			c.Except("C42.bounds", s.key, s.node.Pos(), c42Exceptions[s.key])
		default:
			c.Fail("C42.bounds", s.key, s.node.Pos(), exprStr(s.node)+" can be out of range ("+s.how+"): a completion or lookup request at some position panics")
		}
	}
	c.Floor("C42.bounds", 12)
}
