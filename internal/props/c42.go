package props

import (
	"golang.org/x/tools/go/packages"

	"fmt"
	"go/ast"
	"go/token"
	"go/types"

	"d2verif/internal/core"
)

func init() {
	register(&Prop{
		ID:       "C42",
		Title:    "Editor support returns exact reference ranges and board positions",
		Patterns: []string{"./d2lsp", "./d2ast"},
		Explanation: "Decides two clauses. Crash freedom: every index and slice expression in d2lsp (completion, board-at-position and reference lookup) is in range for any text and any line/column, including negative ones — by an idiom of the bounds engine (dominating length tests, clamped parameters, range keys, searches tested against -1, case-constant lengths) or by a reviewed invariant. Board at position: the predicate by which getBoardPathAtPosition decides that a block contains the queried position touches its inputs only through comparisons of Line, Column and Byte, so its verdict depends only on the order type of (pos, Start, End); the check interprets the predicate's source (and Position.Before's) over a representative of every order type and requires Start <= pos < End in (line, column) order, with the position's byte offset neutralised by every caller. Also: memo-key completeness for d2lsp — a remembered compilation is found by a key that names every input the compilation reads (the file set included).",
		NotCovered: "exactness of the reference ranges (a comparison with the source text) and completeness of the declarations returned; that the recursion of board-at-position returns the innermost board; nil dereferences of AST boxes (elements of parsed key paths are non-empty by the parser rule C01.unbox)",
		Trust:      []string{"the reviewed invariants of the exceptions table"},
		Technique:  "static analysis: bounds-idiom discharge over the typed AST with go/cfg guard dominance; order-type abstract interpretation of a comparison-only predicate",
		Run:        runC42,
	})
}

var c42Exceptions = map[string]string{
	"index:d2lsp.getKeywordContext:lines[keyRange.End.Line]":   "keyRange is the range of a key parsed from this text (or a prefix of it); its End is a committed parser position, whose line number is at most the number of newlines in the text, and lines = strings.Split(text, \"\\n\") has one more element than that",
	"index:d2lsp.getKeywordContext:lines[keyRange.End.Line]#2": "same",
}

func runC42(c *core.Check) {
	c.Rule("C42.bounds", "every index/slice expression of d2lsp is in range for any text and position")
	pk := c.P.Pkg("d2lsp")
	if pk == nil {
		c.Broken("d2lsp not loaded")
		return
	}
	for _, s := range boundsSites(c.P, c.P.Funcs(pk), nil) {
		switch {
		case s.ok:
			c.Pass("C42.bounds", s.key, s.node.Pos(), s.how)
		case c42Exceptions[s.key] != "":
			c.Except("C42.bounds", s.key, s.node.Pos(), c42Exceptions[s.key])
		default:
			c.Fail("C42.bounds", s.key, s.node.Pos(), exprStr(s.node)+" can be out of range ("+s.how+"): a completion or lookup request at some position panics")
		}
	}
	c.Floor("C42.bounds", 12)
	runC42Containment(c)
	c.Rule("C42.memo-key", "a memo in d2lsp (early return of a remembered value, later store) is keyed by every input its computation reads")
	c.Note("memo-key: %d functions of memo shape in d2lsp", checkMemoKeys(c, "C42.memo-key", []*packages.Package{pk}, c.P.RepoPkgs()))
}

// runC42Containment decides the "block contains the position" test of board-at-position by order types.
func runC42Containment(c *core.Check) {
	c.Rule("C42.containment", "the test that a block contains the queried position is Start <= pos < End in (line, column) order, for every order type of the three positions")
	pk := c.P.Pkg("d2lsp")
	isNamed := func(t types.Type, name string) bool {
		n, ok := t.(*types.Named)
		return ok && n.Obj().Name() == name && n.Obj().Pkg() != nil && n.Obj().Pkg().Path() == "oss.terrastruct.com/d2/d2ast"
	}
	npred := 0
	for _, fi := range c.P.Funcs(pk) {
		if fi.Decl.Body == nil {
			continue
		}
		info := fi.Pkg.TypesInfo
		ast.Inspect(fi.Decl.Body, func(n ast.Node) bool {
			lit, ok := n.(*ast.FuncLit)
			if !ok {
				return true
			}
			sig, _ := info.TypeOf(lit).(*types.Signature)
			if sig == nil || sig.Params().Len() != 1 || sig.Results().Len() != 1 || !isNamed(sig.Params().At(0).Type(), "Range") {
				return true
			}
			if b, ok := sig.Results().At(0).Type().Underlying().(*types.Basic); !ok || b.Kind() != types.Bool {
				return true
			}
			if len(lit.Type.Params.List) != 1 || len(lit.Type.Params.List[0].Names) != 1 {
				return true
			}
			rangeObj := info.Defs[lit.Type.Params.List[0].Names[0]]
			// the free Position variable of the literal
			var posObj types.Object
			multi := false
			ast.Inspect(lit.Body, func(m ast.Node) bool {
				id, ok := m.(*ast.Ident)
				if !ok {
					return true
				}
				o, ok := info.Uses[id].(*types.Var)
				if !ok || o.IsField() || !isNamed(o.Type(), "Position") {
					return true
				}
				if o.Pos() >= lit.Pos() && o.Pos() < lit.End() {
					return true
				}
				if posObj != nil && posObj != o {
					multi = true
				}
				posObj = o
				return true
			})
			if posObj == nil || multi {
				return true
			}
			npred++
			key := fmt.Sprintf("containment:%s", fname(fi))
			neutral, why := posByteNeutralised(c, fi, posObj)
			counter, undecided, norders := containmentVerdict(c.P, info, lit.Body.List, rangeObj, posObj, neutral)
			switch {
			case undecided != "":
				if !neutral && why != "" {
					undecided += " (" + why + ")"
				}
				c.Fail("C42.containment", key, lit.Pos(), "the containment test could not be decided by order types: "+undecided)
			case counter != "":
				c.Fail("C42.containment", key, lit.Pos(), "the containment test is not Start <= pos < End: "+counter+"; the board reported for such a cursor position is not the innermost board containing it")
			default:
				c.Pass("C42.containment", key, lit.Pos(), fmt.Sprintf("agrees with Start <= pos < End on all %d order types of (pos, Start, End) with Start <= End (Position.Before interpreted from its source)", norders))
			}
			return true
		})
	}
	if npred == 0 {
		c.Fail("C42.containment", "containment:predicates", token.NoPos, "no func(d2ast.Range) bool predicate over a position found in d2lsp")
	}
}

// posByteNeutralised: the position variable is a parameter of fi, and every call of fi from another function
// passes a variable whose Byte field was set to -1 on every path to the call; recursive calls pass it on unchanged.
func posByteNeutralised(c *core.Check, fi *core.FuncInfo, posObj types.Object) (bool, string) {
	pidx := -1
	i := 0
	for _, f := range fi.Decl.Type.Params.List {
		for _, nm := range f.Names {
			if fi.Pkg.TypesInfo.Defs[nm] == posObj {
				pidx = i
			}
			i++
		}
	}
	if pidx < 0 {
		return false, "the position is not a parameter of the enclosing function"
	}
	ncalls := 0
	for _, caller := range c.P.Funcs(fi.Pkg) {
		if caller.Decl.Body == nil {
			continue
		}
		info := caller.Pkg.TypesInfo
		var fl *core.Flow
		bad := ""
		ast.Inspect(caller.Decl.Body, func(n ast.Node) bool {
			call, ok := n.(*ast.CallExpr)
			if !ok || core.CalleeOf(info, call) != fi.Obj || pidx >= len(call.Args) {
				return true
			}
			arg, ok := ast.Unparen(call.Args[pidx]).(*ast.Ident)
			if !ok {
				bad = "a caller passes " + exprStr(call.Args[pidx])
				return true
			}
			if caller == fi {
				if info.Uses[arg] != posObj {
					bad = "the recursive call passes another position"
				}
				return true
			}
			ncalls++
			if fl == nil {
				fl = core.NewFlow(caller.Pkg, caller.Decl.Body)
			}
			set := false
			ast.Inspect(caller.Decl.Body, func(m ast.Node) bool {
				as, ok := m.(*ast.AssignStmt)
				if !ok || len(as.Lhs) != 1 || len(as.Rhs) != 1 || as.Tok != token.ASSIGN {
					return true
				}
				sel, ok := as.Lhs[0].(*ast.SelectorExpr)
				if !ok || sel.Sel.Name != "Byte" {
					return true
				}
				id, ok := sel.X.(*ast.Ident)
				if !ok || info.Uses[id] != info.Uses[arg] {
					return true
				}
				if v, ok := intConst(info, as.Rhs[0]); ok && v == -1 && fl.DominatesNode(as, call) {
					set = true
				}
				return true
			})
			if !set {
				bad = fname(caller) + " calls it without setting " + arg.Name + ".Byte = -1 first"
			}
			return true
		})
		if bad != "" {
			return false, bad
		}
	}
	if ncalls == 0 {
		return false, "no caller found"
	}
	return true, ""
}
