package props

import (
	"go/ast"
	"go/constant"
	"go/token"
	"go/types"
	"strings"
	"unicode"

	"d2verif/internal/core"
)

// A small abstract interpreter for string-classifying functions (E8 classifier/generator agreement).
// One string variable ranges over a class of strings; every other value is a constant or unknown.
// Conditions evaluate to true / false / unknown; unknown follows both branches. The result is the set
// of return expressions that are feasible for the class. Nothing is executed: the predicates below are
// the abstract transfer functions of ==, strings.EqualFold, strings.ContainsAny/ContainsRune on the class.

type tri int

const (
	triFalse tri = iota
	triTrue
	triUnknown
)

func triNot(t tri) tri {
	switch t {
	case triFalse:
		return triTrue
	case triTrue:
		return triFalse
	}
	return triUnknown
}

// strClass: the strings equal to Word under simple case folding; Exact: exactly Word; otherwise every
// member except Word itself. Word consists of letters only.
type strClass struct {
	Word  string
	Exact bool
}

func (c strClass) String() string {
	if c.Exact {
		return "\"" + c.Word + "\""
	}
	return "case variants of \"" + c.Word + "\""
}

type absVal struct {
	cls   *strClass
	konst constant.Value
	tri   tri // for bool results when konst == nil
	isTri bool
}

type absEnv struct {
	p     *core.Prog
	vars  map[types.Object]absVal
	depth int
}

type absReturn struct {
	expr ast.Expr // nil for a bare return
	val  absVal
	fi   *core.FuncInfo
}

func (e *absEnv) evalBool(info *types.Info, x ast.Expr) tri {
	v := e.eval(info, x)
	if v.konst != nil && v.konst.Kind() == constant.Bool {
		if constant.BoolVal(v.konst) {
			return triTrue
		}
		return triFalse
	}
	if v.isTri {
		return v.tri
	}
	return triUnknown
}

func foldEq(a, b string) bool { return strings.EqualFold(a, b) }

func (e *absEnv) eval(info *types.Info, x ast.Expr) absVal {
	x = ast.Unparen(x)
	if tv, ok := info.Types[x]; ok && tv.Value != nil {
		return absVal{konst: tv.Value}
	}
	switch n := x.(type) {
	case *ast.Ident:
		if o := info.Uses[n]; o != nil {
			if v, ok := e.vars[o]; ok {
				return v
			}
		}
	case *ast.UnaryExpr:
		if n.Op == token.NOT {
			return absVal{isTri: true, tri: triNot(e.evalBool(info, n.X))}
		}
	case *ast.BinaryExpr:
		switch n.Op {
		case token.LAND:
			a := e.evalBool(info, n.X)
			if a == triFalse {
				return absVal{isTri: true, tri: triFalse}
			}
			b := e.evalBool(info, n.Y)
			if b == triFalse {
				return absVal{isTri: true, tri: triFalse}
			}
			if a == triTrue && b == triTrue {
				return absVal{isTri: true, tri: triTrue}
			}
			return absVal{isTri: true, tri: triUnknown}
		case token.LOR:
			a := e.evalBool(info, n.X)
			if a == triTrue {
				return absVal{isTri: true, tri: triTrue}
			}
			b := e.evalBool(info, n.Y)
			if b == triTrue {
				return absVal{isTri: true, tri: triTrue}
			}
			if a == triFalse && b == triFalse {
				return absVal{isTri: true, tri: triFalse}
			}
			return absVal{isTri: true, tri: triUnknown}
		case token.EQL, token.NEQ, token.GTR, token.LSS, token.GEQ, token.LEQ:
			// len(<class>) compared with a constant: members of a class are non-empty words
			if t, ok := e.lenCompare(info, n); ok {
				return absVal{isTri: true, tri: t}
			}
			if n.Op != token.EQL && n.Op != token.NEQ {
				return absVal{}
			}
			a, b := e.eval(info, n.X), e.eval(info, n.Y)
			t := triUnknown
			switch {
			case a.konst != nil && b.konst != nil:
				if constant.Compare(a.konst, token.EQL, b.konst) {
					t = triTrue
				} else {
					t = triFalse
				}
			case a.cls != nil && b.konst != nil && b.konst.Kind() == constant.String:
				t = a.cls.eqConst(constant.StringVal(b.konst))
			case b.cls != nil && a.konst != nil && a.konst.Kind() == constant.String:
				t = b.cls.eqConst(constant.StringVal(a.konst))
			}
			if n.Op == token.NEQ {
				t = triNot(t)
			}
			return absVal{isTri: true, tri: t}
		}
	case *ast.CallExpr:
		f := core.CalleeOf(info, n)
		if f == nil {
			return absVal{}
		}
		switch core.FuncName(f) {
		case "strings.EqualFold":
			a, b := e.eval(info, n.Args[0]), e.eval(info, n.Args[1])
			if a.cls == nil {
				a, b = b, a
			}
			if a.cls != nil && b.konst != nil && b.konst.Kind() == constant.String {
				if foldEq(a.cls.Word, constant.StringVal(b.konst)) {
					return absVal{isTri: true, tri: triTrue}
				}
				return absVal{isTri: true, tri: triFalse}
			}
			if a.konst != nil && b.konst != nil && a.konst.Kind() == constant.String && b.konst.Kind() == constant.String {
				if foldEq(constant.StringVal(a.konst), constant.StringVal(b.konst)) {
					return absVal{isTri: true, tri: triTrue}
				}
				return absVal{isTri: true, tri: triFalse}
			}
		case "strings.ToLower":
			a := e.eval(info, n.Args[0])
			if a.cls != nil {
				return absVal{konst: constant.MakeString(strings.ToLower(a.cls.Word))}
			}
		case "strings.ContainsAny", "strings.ContainsRune", "strings.Contains", "strings.IndexByte", "strings.IndexRune":
			a := e.eval(info, n.Args[0])
			b := e.evalConstSet(info, n.Args[1])
			if a.cls != nil && b != nil {
				// members of the class consist of letters that fold to the word's letters
				hit := false
				for _, r := range b {
					for _, w := range a.cls.Word {
						if unicode.SimpleFold(r) == unicode.SimpleFold(w) || unicode.ToLower(r) == unicode.ToLower(w) {
							hit = true
						}
					}
				}
				if !hit {
					if strings.HasPrefix(core.FuncName(f), "strings.Index") {
						return absVal{konst: constant.MakeInt64(-1)}
					}
					return absVal{isTri: true, tri: triFalse}
				}
			}
		default:
			// a function of the repository: interpret it
			if e.depth < 3 {
				if callee := e.p.Decl(f); callee != nil && callee.Decl.Body != nil {
					sub := &absEnv{p: e.p, vars: map[types.Object]absVal{}, depth: e.depth + 1}
					sig := f.Type().(*types.Signature)
					for i := 0; i < sig.Params().Len() && i < len(n.Args); i++ {
						sub.vars[sig.Params().At(i)] = e.eval(info, n.Args[i])
					}
					rets := sub.run(callee)
					if len(rets) > 0 {
						all := rets[0].val
						same := true
						for _, r := range rets[1:] {
							if !sameAbs(r.val, all) {
								same = false
							}
						}
						if same {
							return all
						}
						if sig.Results().Len() == 1 && types.Identical(sig.Results().At(0).Type(), types.Typ[types.Bool]) {
							return absVal{isTri: true, tri: triUnknown}
						}
					}
				}
			}
		}
	}
	return absVal{}
}

// lenCompare decides len(x) <op> 0 (and 0 <op> len(x)) for x ranging over a class: every member is non-empty.
func (e *absEnv) lenCompare(info *types.Info, n *ast.BinaryExpr) (tri, bool) {
	isLenOfClass := func(x ast.Expr) bool {
		call, ok := ast.Unparen(x).(*ast.CallExpr)
		if !ok || len(call.Args) != 1 {
			return false
		}
		if id, ok := call.Fun.(*ast.Ident); !ok || id.Name != "len" {
			return false
		}
		return e.eval(info, call.Args[0]).cls != nil
	}
	zero := func(x ast.Expr) bool {
		tv, ok := info.Types[x]
		if !ok || tv.Value == nil {
			return false
		}
		v, ok := constant.Int64Val(tv.Value)
		return ok && v == 0
	}
	op := n.Op
	switch {
	case isLenOfClass(n.X) && zero(n.Y):
	case isLenOfClass(n.Y) && zero(n.X):
		switch op {
		case token.GTR:
			op = token.LSS
		case token.LSS:
			op = token.GTR
		case token.GEQ:
			op = token.LEQ
		case token.LEQ:
			op = token.GEQ
		}
	default:
		return triUnknown, false
	}
	// len > 0 holds
	switch op {
	case token.EQL, token.LSS, token.LEQ:
		return triFalse, true
	case token.NEQ, token.GTR, token.GEQ:
		return triTrue, true
	}
	return triUnknown, false
}

func sameAbs(a, b absVal) bool {
	if a.konst != nil && b.konst != nil {
		return constant.Compare(a.konst, token.EQL, b.konst)
	}
	if a.isTri && b.isTri {
		return a.tri == b.tri && a.tri != triUnknown
	}
	// bool constants vs tri
	ab, aok := absBool(a)
	bb, bok := absBool(b)
	return aok && bok && ab == bb
}

func absBool(a absVal) (bool, bool) {
	if a.konst != nil && a.konst.Kind() == constant.Bool {
		return constant.BoolVal(a.konst), true
	}
	if a.isTri && a.tri != triUnknown {
		return a.tri == triTrue, true
	}
	return false, false
}

func (c strClass) eqConst(lit string) tri {
	if !foldEq(lit, c.Word) {
		return triFalse
	}
	if c.Exact {
		if lit == c.Word {
			return triTrue
		}
		return triFalse
	}
	if lit == c.Word {
		return triFalse
	}
	return triUnknown // one particular case variant
}

// evalConstSet returns the runes of a constant string/rune argument, or of a package-level variable
// initialised with string([]rune{…}) / a string literal.
func (e *absEnv) evalConstSet(info *types.Info, x ast.Expr) []rune {
	x = ast.Unparen(x)
	if tv, ok := info.Types[x]; ok && tv.Value != nil {
		switch tv.Value.Kind() {
		case constant.String:
			return []rune(constant.StringVal(tv.Value))
		case constant.Int:
			if v, ok := constant.Int64Val(tv.Value); ok {
				return []rune{rune(v)}
			}
		}
	}
	var obj types.Object
	switch n := x.(type) {
	case *ast.Ident:
		obj = info.Uses[n]
	case *ast.SelectorExpr:
		obj = info.Uses[n.Sel]
	}
	if v, ok := obj.(*types.Var); ok && v.Pkg() != nil && v.Parent() == v.Pkg().Scope() {
		return runeSetOfGlobal(e.p, v)
	}
	return nil
}

// runeSetOfGlobal reads `var X = string([]rune{'a', 'b'})` or `var X = "ab"`.
func runeSetOfGlobal(p *core.Prog, v *types.Var) []rune {
	for _, pk := range p.RepoPkgs() {
		if pk.Types != v.Pkg() {
			continue
		}
		for _, f := range pk.Syntax {
			for _, d := range f.Decls {
				gd, ok := d.(*ast.GenDecl)
				if !ok {
					continue
				}
				for _, sp := range gd.Specs {
					vs, ok := sp.(*ast.ValueSpec)
					if !ok {
						continue
					}
					for i, name := range vs.Names {
						if pk.TypesInfo.Defs[name] != v || i >= len(vs.Values) {
							continue
						}
						val := ast.Unparen(vs.Values[i])
						if tv, ok := pk.TypesInfo.Types[val]; ok && tv.Value != nil && tv.Value.Kind() == constant.String {
							return []rune(constant.StringVal(tv.Value))
						}
						if call, ok := val.(*ast.CallExpr); ok && len(call.Args) == 1 {
							if cl, ok := ast.Unparen(call.Args[0]).(*ast.CompositeLit); ok {
								var out []rune
								for _, el := range cl.Elts {
									if tv, ok := pk.TypesInfo.Types[el]; ok && tv.Value != nil {
										if r, ok := constant.Int64Val(tv.Value); ok {
											out = append(out, rune(r))
										}
									}
								}
								return out
							}
						}
					}
				}
			}
		}
	}
	return nil
}

// run interprets the function body and returns the feasible returns.
func (e *absEnv) run(fi *core.FuncInfo) []absReturn {
	var rets []absReturn
	e.block(fi, fi.Decl.Body.List, &rets)
	return rets
}

// block interprets statements; returns false when every path through them has returned (or the flow is cut).
func (e *absEnv) block(fi *core.FuncInfo, stmts []ast.Stmt, rets *[]absReturn) (fallsThrough bool) {
	info := fi.Pkg.TypesInfo
	for _, st := range stmts {
		switch s := st.(type) {
		case *ast.ReturnStmt:
			r := absReturn{fi: fi}
			if len(s.Results) > 0 {
				r.expr = s.Results[0]
				r.val = e.eval(info, s.Results[0])
			}
			*rets = append(*rets, r)
			return false
		case *ast.IfStmt:
			if s.Init != nil {
				e.block(fi, []ast.Stmt{s.Init}, rets)
			}
			t := e.evalBool(info, s.Cond)
			ft := false
			if t != triFalse {
				if e.block(fi, s.Body.List, rets) {
					ft = true
				}
			}
			if t != triTrue {
				switch el := s.Else.(type) {
				case nil:
					ft = true
				case *ast.BlockStmt:
					if e.block(fi, el.List, rets) {
						ft = true
					}
				default:
					if e.block(fi, []ast.Stmt{el}, rets) {
						ft = true
					}
				}
			}
			if !ft {
				return false
			}
		case *ast.BlockStmt:
			if !e.block(fi, s.List, rets) {
				return false
			}
		case *ast.SwitchStmt:
			// tagless switch, or switch on an expression with constant cases
			ft := false
			matchedForSure := false
			hasDefault := false
			for _, cl := range s.Body.List {
				cc := cl.(*ast.CaseClause)
				if cc.List == nil {
					hasDefault = true
					continue
				}
				t := triFalse
				for _, ce := range cc.List {
					var ct tri
					if s.Tag == nil {
						ct = e.evalBool(info, ce)
					} else {
						ct = e.evalBool(info, &ast.BinaryExpr{X: s.Tag, Op: token.EQL, Y: ce})
						// synthetic node has no type info: compare abstractly
						a, b := e.eval(info, s.Tag), e.eval(info, ce)
						ct = triUnknown
						if a.konst != nil && b.konst != nil {
							if constant.Compare(a.konst, token.EQL, b.konst) {
								ct = triTrue
							} else {
								ct = triFalse
							}
						} else if a.cls != nil && b.konst != nil && b.konst.Kind() == constant.String {
							ct = a.cls.eqConst(constant.StringVal(b.konst))
						}
					}
					if ct == triTrue {
						t = triTrue
					} else if ct == triUnknown && t != triTrue {
						t = triUnknown
					}
				}
				if t == triFalse || matchedForSure {
					continue
				}
				if e.block(fi, cc.Body, rets) {
					ft = true
				}
				if t == triTrue {
					matchedForSure = true
				}
			}
			if !matchedForSure {
				if hasDefault {
					for _, cl := range s.Body.List {
						cc := cl.(*ast.CaseClause)
						if cc.List == nil {
							if e.block(fi, cc.Body, rets) {
								ft = true
							}
						}
					}
				} else {
					ft = true
				}
			}
			if !ft {
				return false
			}
		case *ast.RangeStmt:
			// unroll loops over literal lists of constants; other loops: interpret the body once with the
			// loop variables unknown and assume it may also be skipped
			if cl, ok := ast.Unparen(s.X).(*ast.CompositeLit); ok && s.Value != nil {
				allConst := true
				for _, el := range cl.Elts {
					if tv, ok := info.Types[el]; !ok || tv.Value == nil {
						allConst = false
					}
				}
				if allConst {
					vo := info.Defs[s.Value.(*ast.Ident)]
					cont := true
					for _, el := range cl.Elts {
						e.vars[vo] = absVal{konst: info.Types[el].Value}
						if !e.block(fi, s.Body.List, rets) {
							cont = false
							break
						}
					}
					delete(e.vars, vo)
					if !cont {
						return false
					}
					continue
				}
			}
			e.block(fi, s.Body.List, rets)
		case *ast.ForStmt:
			e.block(fi, s.Body.List, rets)
		case *ast.BranchStmt:
			// continue/break inside an unrolled or approximated loop: stop this pass of the body, the loop goes on
			return true
		case *ast.AssignStmt:
			for _, l := range s.Lhs {
				if id, ok := l.(*ast.Ident); ok {
					if o := info.ObjectOf(id); o != nil {
						if len(s.Lhs) == len(s.Rhs) && (s.Tok == token.DEFINE || s.Tok == token.ASSIGN) {
							// keep simple constant bindings, forget everything else
							v := e.eval(info, s.Rhs[0])
							if len(s.Lhs) == 1 && (v.konst != nil || v.cls != nil) {
								e.vars[o] = v
								continue
							}
						}
						delete(e.vars, o)
					}
				}
			}
		}
	}
	return true
}
