package props

import (
	"fmt"
	"go/ast"
	"go/constant"
	"go/token"
	"go/types"
	"math/big"
	"strings"

	"d2verif/internal/core"
)

func init() {
	register(&Prop{
		ID:       "C33",
		Title:    "Animated SVGs show exactly one board at a time, in order",
		Patterns: []string{"./d2renderers/d2animate"},
		Explanation: "Decides the timing arithmetic symbolically (linear forms over delay d, duration D, total cycle L and the transition t; no evaluation): (1) each of the four percentages of makeKeyframe is (numerator / float64(total)) * 100 with the division done in floating point on the total itself, and the numerators are before = max(0, d − t), start = d, end = d + D − t, after = d + D — so start − before ≤ t, end − start = D − t and after − end = t: the sequence is increasing whenever D ≥ t, and before is clamped at 0; " +
			"(2) the last-board branch is taken exactly when d + D reaches L (a comparison whose two sides differ by d + D − L, with no transition term), so only the board that ends the cycle keeps opacity 1 to 100%; " +
			"(3) call-site agreement in Wrap: board i gets makeKeyframe(i·T, T, n·T, i, hash) with i ranging over the boards (hence (i+1)·T ≤ n·T and every percentage ≤ 100, and consecutive boards' intervals [i·T, (i+1)·T] tile the cycle), and the animation attribute of board i names the same keyframes identifier (same format, same hash and index) with the same cycle length; (4) the transition is a positive constant.",
		NotCovered: "how browsers interpolate between keyframes; float rounding of the printed percentages (6 decimals); intervals shorter than the transition (T < 1 ms is rejected by the CLI, not here)",
		Technique:  "static analysis: linear normal-form arithmetic over the percentage expressions, call-site argument agreement, format/argument alignment",
		Run:        runC33,
	})
}

func runC33(c *core.Check) {
	c.Rule("C33.percentages", "the four keyframe percentages are the expected linear numerators divided by the cycle length in floating point")
	c.Rule("C33.last-board", "the last-board branch is taken exactly when the board's end reaches the cycle length")
	c.Rule("C33.call-site", "Wrap passes i·T, T, n·T and names the same keyframes in the animation attribute")
	mk := mustFunc(c, "d2renderers/d2animate", "", "makeKeyframe")
	wr := mustFunc(c, "d2renderers/d2animate", "", "Wrap")
	if mk == nil || wr == nil {
		return
	}
	info := mk.Pkg.TypesInfo
	sig := mk.Obj.Type().(*types.Signature)
	if sig.Params().Len() < 3 {
		c.Broken("makeKeyframe has fewer than three parameters")
		return
	}
	pd, pD, pL := sig.Params().At(0), sig.Params().At(1), sig.Params().At(2)
	env := map[types.Object]linForm{
		pd: {"d": big.NewRat(1, 1)},
		pD: {"D": big.NewRat(1, 1)},
		pL: {"L": big.NewRat(1, 1)},
	}
	// transition constant/variable
	var trObj types.Object
	if v := globalVar(c.P, "d2renderers/d2animate", "transitionDurationMS"); v != nil {
		trObj = v
		env[v] = linForm{"t": big.NewRat(1, 1)}
		// its initial value is a positive constant and it is never reassigned
		pos := false
		for _, f := range mk.Pkg.Syntax {
			ast.Inspect(f, func(n ast.Node) bool {
				if vs, ok := n.(*ast.ValueSpec); ok {
					for i, nm := range vs.Names {
						if mk.Pkg.TypesInfo.Defs[nm] == types.Object(v) && i < len(vs.Values) {
							if cv, ok := intConst(mk.Pkg.TypesInfo, vs.Values[i]); ok && cv > 0 {
								pos = true
							}
						}
					}
				}
				if as, ok := n.(*ast.AssignStmt); ok {
					for _, l := range as.Lhs {
						if core.ObjOf(mk.Pkg.TypesInfo, l) == types.Object(v) {
							pos = false
						}
					}
				}
				return true
			})
		}
		c.Decide(pos, "C33.percentages", "transition:positive-constant", v.Pos(), "initialised with a positive constant, never reassigned", "transitionDurationMS is not a positive constant any more")
	} else {
		c.Fail("C33.percentages", "transition:positive-constant", mk.Decl.Pos(), "transitionDurationMS not found")
	}
	_ = trObj
	want := map[string]struct {
		num     string
		clamped bool
	}{
		"percentageBefore": {"1·d + -1·t", true},
		"percentageStart":  {"1·d", false},
		"percentageEnd":    {"1·D + 1·d + -1·t", false},
		"percentageAfter":  {"1·D + 1·d", false},
	}
	// roles by position in the full @keyframes format (two `opacity: 0` blocks): hash, id, before, start, end, after
	role := map[types.Object]string{}
	ast.Inspect(mk.Decl.Body, func(n ast.Node) bool {
		cl, ok := n.(*ast.CallExpr)
		if !ok || !core.IsCallTo(info, cl, "fmt.Sprintf") || len(cl.Args) != 7 {
			return true
		}
		if tv, ok := info.Types[cl.Args[0]]; !ok || tv.Value == nil || strings.Count(constant.StringVal(tv.Value), "opacity: 0") != 2 {
			return true
		}
		for i, r := range []string{"percentageBefore", "percentageStart", "percentageEnd", "percentageAfter"} {
			if o := core.ObjOf(info, cl.Args[3+i]); o != nil {
				role[o] = r
			}
		}
		return true
	})
	if len(role) != 4 {
		c.Fail("C33.percentages", "makeKeyframe:format", mk.Decl.Pos(), "the @keyframes format with its four percentage arguments was not found")
	}
	seen := map[string]bool{}
	ast.Inspect(mk.Decl.Body, func(n ast.Node) bool {
		as, ok := n.(*ast.AssignStmt)
		if !ok || len(as.Lhs) != 1 || len(as.Rhs) != 1 {
			return true
		}
		id, ok := as.Lhs[0].(*ast.Ident)
		if !ok {
			return true
		}
		rname, isPct := role[core.ObjOf(info, id)]
		if !isPct {
			return true
		}
		w := want[rname]
		id = &ast.Ident{Name: rname, NamePos: id.NamePos}
		seen[id.Name] = true
		// (NUM / float64(total)) * 100
		why := ""
		okShape := false
		rhs := as.Rhs[0]
		for k := 0; k < 3; k++ {
			if o := core.ObjOf(info, rhs); o != nil {
				if d := singleDef(mk, o); d != nil {
					rhs = d.Rhs
					continue
				}
			}
			break
		}
		if mul, ok := ast.Unparen(rhs).(*ast.BinaryExpr); ok && mul.Op == token.MUL {
			if cv, ok := info.Types[mul.Y]; ok && cv.Value != nil && constant.Compare(cv.Value, token.EQL, constant.MakeInt64(100)) {
				if quo, ok := ast.Unparen(mul.X).(*ast.BinaryExpr); ok && quo.Op == token.QUO {
					// denominator: float64(totalMS)
					den, ok := ast.Unparen(quo.Y).(*ast.CallExpr)
					denOK := ok && len(den.Args) == 1 && core.ObjOf(info, den.Args[0]) == types.Object(pL)
					if denOK {
						if tv, ok := info.Types[den.Fun]; !ok || !tv.IsType() || !isFloat(tv.Type) {
							denOK = false
						}
					}
					if !denOK {
						why = "the divisor is " + exprStr(quo.Y) + ", not float64(total)"
					} else {
						num := ast.Unparen(quo.X)
						clamped := false
						if call, ok := num.(*ast.CallExpr); ok && core.IsCallTo(info, call, "math.Max") && len(call.Args) == 2 {
							if z, ok := info.Types[call.Args[0]]; ok && z.Value != nil && constant.Sign(z.Value) == 0 {
								clamped = true
								num = call.Args[1]
							}
						}
						// the numerator must be a float conversion of an integer linear form (or a float linear form)
						lf, ok := linearize(info, num, env)
						switch {
						case !ok:
							why = "numerator " + exprStr(num) + " is not linear in delay, duration and transition"
						case lf.String() != w.num:
							why = "numerator is " + lf.String() + ", expected " + w.num
						case w.clamped && !clamped:
							why = "the numerator d − t is not clamped at 0 (negative percentage for the first board)"
						default:
							okShape = true
						}
					}
				} else {
					why = "not a quotient times 100"
				}
			} else {
				why = "not scaled by the constant 100"
			}
		} else {
			why = "not of the form (numerator / float64(total)) * 100"
		}
		c.Decide(okShape, "C33.percentages", "makeKeyframe:"+id.Name, as.Pos(), "("+w.num+") / L · 100", id.Name+" is not ("+w.num+")/L·100 computed in floating point ("+why+"): keyframe percentages leave [0,100], stop increasing, or no longer put board i in the i-th interval")
		return true
	})
	for name := range want {
		if !seen[name] {
			c.Fail("C33.percentages", "makeKeyframe:"+name, mk.Decl.Pos(), name+" is no longer computed")
		}
	}
	// (2) last-board branch: the if whose body returns a format with exactly one `opacity: 0`
	var lastIf *ast.IfStmt
	ast.Inspect(mk.Decl.Body, func(n ast.Node) bool {
		is, ok := n.(*ast.IfStmt)
		if !ok {
			return true
		}
		ast.Inspect(is.Body, func(m ast.Node) bool {
			if bl, ok := m.(*ast.BasicLit); ok && bl.Kind == token.STRING && strings.Count(bl.Value, "opacity: 0") == 1 && strings.Contains(bl.Value, "@keyframes") {
				lastIf = is
			}
			return true
		})
		return true
	})
	if lastIf == nil {
		c.Fail("C33.last-board", "makeKeyframe:last-branch", mk.Decl.Pos(), "the branch that emits the last board's keyframes (no fade-out) was not found")
	} else {
		ok, why := false, ""
		if be, isBin := ast.Unparen(lastIf.Cond).(*ast.BinaryExpr); isBin && (be.Op == token.GEQ || be.Op == token.EQL || be.Op == token.LEQ) {
			l, ok1 := linearize(info, be.X, env)
			r, ok2 := linearize(info, be.Y, env)
			if ok1 && ok2 && allIntegerOperands(info, be) {
				diff := l.add(r, big.NewRat(-1, 1)).String()
				switch {
				case (be.Op == token.GEQ || be.Op == token.EQL) && diff == "1·D + -1·L + 1·d":
					ok = true
				case (be.Op == token.LEQ || be.Op == token.EQL) && diff == "-1·D + 1·L + -1·d":
					ok = true
				default:
					why = "it compares " + l.String() + " with " + r.String()
				}
			} else {
				why = "its operands are not integer linear forms"
			}
		} else {
			why = "it is not an integer comparison (" + exprStr(lastIf.Cond) + ")"
		}
		c.Decide(ok, "C33.last-board", "makeKeyframe:last-branch", lastIf.Pos(), "taken iff d + D ≥ L", "the last-board test is not `delay + duration reaches the cycle length` ("+why+"): for many boards or short intervals another board also takes this branch, is never faded out, and two boards are visible at once")
	}
	// (3) call site
	winfo := wr.Pkg.TypesInfo
	calls := callsIn(wr, false, "d2renderers/d2animate.makeKeyframe")
	if len(calls) != 1 {
		c.Fail("C33.call-site", "Wrap:makeKeyframe", wr.Decl.Pos(), fmt.Sprintf("%d calls of makeKeyframe in Wrap", len(calls)))
		return
	}
	call := calls[0]
	// enclosing range loop over the boards
	var loop *ast.RangeStmt
	ast.Inspect(wr.Decl.Body, func(n ast.Node) bool {
		if rs, ok := n.(*ast.RangeStmt); ok && rs.Body.Pos() <= call.Pos() && call.End() <= rs.Body.End() {
			loop = rs
		}
		return true
	})
	if loop == nil || loop.Key == nil {
		c.Fail("C33.call-site", "Wrap:loop", call.Pos(), "makeKeyframe is not called in a range loop over the boards with an index")
		return
	}
	iObj := core.ObjOf(winfo, loop.Key)
	boards := exprStr(loop.X)
	var tObj types.Object
	wsig := wr.Obj.Type().(*types.Signature)
	for i := 0; i < wsig.Params().Len(); i++ {
		if strings.Contains(strings.ToLower(wsig.Params().At(i).Name()), "interval") {
			tObj = wsig.Params().At(i)
		}
	}
	isProd := func(e ast.Expr, a func(ast.Expr) bool, b func(ast.Expr) bool) bool {
		be, ok := ast.Unparen(e).(*ast.BinaryExpr)
		return ok && be.Op == token.MUL && ((a(be.X) && b(be.Y)) || (a(be.Y) && b(be.X)))
	}
	isI := func(e ast.Expr) bool { return core.ObjOf(winfo, e) == iObj && iObj != nil }
	isT := func(e ast.Expr) bool { return core.ObjOf(winfo, e) == tObj && tObj != nil }
	isN := func(e ast.Expr) bool { return exprStr(ast.Unparen(e)) == "len("+boards+")" }
	okArgs := len(call.Args) >= 4 && isProd(call.Args[0], isI, isT) && isT(call.Args[1]) && isProd(call.Args[2], isN, isT) && isI(call.Args[3])
	c.Decide(okArgs, "C33.call-site", "Wrap:makeKeyframe(i·T, T, n·T, i)", call.Pos(), "delay i·T, duration T, cycle n·T, identifier i, i ranging over the boards",
		"Wrap does not pass (i·interval, interval, len(boards)·interval, i) to makeKeyframe: board i is no longer visible during the i-th interval of a cycle of n intervals")
	// the animation attribute
	okAttr := false
	var attrPos token.Pos
	ast.Inspect(wr.Decl.Body, func(n ast.Node) bool {
		cl, ok := n.(*ast.CallExpr)
		if !ok || !core.IsCallTo(winfo, cl, "fmt.Sprintf") || len(cl.Args) < 4 {
			return true
		}
		// the attribute may be written in a second loop over the same boards: its index plays the role of i there
		isI := isI
		ast.Inspect(wr.Decl.Body, func(m ast.Node) bool {
			if rs, ok := m.(*ast.RangeStmt); ok && rs.Key != nil && exprStr(rs.X) == boards && rs.Body.Pos() <= cl.Pos() && cl.End() <= rs.Body.End() {
				k := core.ObjOf(winfo, rs.Key)
				isI = func(e ast.Expr) bool { return core.ObjOf(winfo, e) == k && k != nil }
			}
			return true
		})
		tv, ok := winfo.Types[cl.Args[0]]
		if !ok || tv.Value == nil || !strings.Contains(constant.StringVal(tv.Value), "animation:") {
			return true
		}
		attrPos = cl.Pos()
		f := constant.StringVal(tv.Value)
		// same identifier format as the @keyframes rule
		kfFormat := ""
		ast.Inspect(mk.Decl.Body, func(m ast.Node) bool {
			if bl, ok := m.(*ast.BasicLit); ok && bl.Kind == token.STRING && strings.Contains(bl.Value, "@keyframes ") {
				s := bl.Value[strings.Index(bl.Value, "@keyframes ")+len("@keyframes "):]
				if i := strings.IndexAny(s, " {"); i > 0 {
					kfFormat = s[:i]
				}
			}
			return true
		})
		sameID := kfFormat != "" && strings.Contains(f, kfFormat+" ")
		hashArg := len(call.Args) >= 5 && exprStr(cl.Args[1]) == exprStr(call.Args[4])
		okAttr = sameID && hashArg && isI(cl.Args[2]) && isProd(cl.Args[3], isN, isT) && strings.Contains(f, "%dms")
		return true
	})
	c.Decide(okAttr, "C33.call-site", "Wrap:animation-attribute", attrPos, "same keyframes identifier (hash, i) and cycle length n·T in ms", "the animation attribute of board i does not name the keyframes rule generated for board i with the same cycle length")
}

func isFloat(t types.Type) bool {
	b, ok := t.Underlying().(*types.Basic)
	return ok && b.Info()&types.IsFloat != 0
}

// allIntegerOperands: both sides of the comparison are integer-typed (no rounding involved).
func allIntegerOperands(info *types.Info, be *ast.BinaryExpr) bool {
	for _, e := range []ast.Expr{be.X, be.Y} {
		tv, ok := info.Types[e]
		if !ok {
			return false
		}
		b, ok := tv.Type.Underlying().(*types.Basic)
		if !ok || b.Info()&types.IsInteger == 0 {
			return false
		}
		// no conversion from float inside
		bad := false
		ast.Inspect(e, func(n ast.Node) bool {
			if call, ok := n.(*ast.CallExpr); ok {
				if tv, ok := info.Types[call.Fun]; ok && tv.IsType() && len(call.Args) == 1 {
					if at, ok := info.Types[call.Args[0]]; ok && isFloat(at.Type) {
						bad = true
					}
				}
			}
			return true
		})
		if bad {
			return false
		}
	}
	return true
}
