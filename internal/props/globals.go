package props

import (
	"go/token"
	"go/types"
	"sort"
	"strings"

	"golang.org/x/tools/go/ssa"

	"d2verif/internal/core"
)

// E6a — inventory of run-time writes to package-level state of the repository.

type globalWrite struct {
	global *ssa.Global
	fn     *ssa.Function
	pos    token.Pos
	what   string
}

func rootGlobal(v ssa.Value, depth int) *ssa.Global {
	if depth > 10 {
		return nil
	}
	switch x := v.(type) {
	case *ssa.Global:
		return x
	case *ssa.FieldAddr:
		return rootGlobal(x.X, depth+1)
	case *ssa.IndexAddr:
		return rootGlobal(x.X, depth+1)
	case *ssa.UnOp:
		if x.Op == token.MUL {
			return rootGlobal(x.X, depth+1)
		}
	case *ssa.Field:
		return rootGlobal(x.X, depth+1)
	case *ssa.Slice:
		return rootGlobal(x.X, depth+1)
	case *ssa.Index:
		return rootGlobal(x.X, depth+1)
	}
	return nil
}

func inInit(f *ssa.Function) bool {
	for p := f; p != nil; p = p.Parent() {
		if p.Name() == "init" || strings.HasPrefix(p.Name(), "init#") {
			return true
		}
	}
	return false
}

// mutatingMethod reports whether a method called on (the address of) a global may change it:
// every pointer-receiver method except a reviewed list of read-only ones.
var readOnlyMethods = map[string]bool{
	"(*sync.Map).Load": true, "(*sync.Map).Range": true,
	"(*regexp.Regexp).MatchString": true, "(*regexp.Regexp).FindStringSubmatch": true, "(*regexp.Regexp).FindAllStringSubmatch": true,
	"(*regexp.Regexp).ReplaceAllString": true, "(*regexp.Regexp).ReplaceAllStringFunc": true, "(*regexp.Regexp).FindAllSubmatch": true,
	"(*regexp.Regexp).FindString": true, "(*regexp.Regexp).Match": true, "(*regexp.Regexp).FindStringSubmatchIndex": true,
	"(*regexp.Regexp).FindAllString": true, "(*regexp.Regexp).FindAllStringIndex": true, "(*regexp.Regexp).FindStringIndex": true,
	"(*regexp.Regexp).ReplaceAllLiteralString": true, "(*regexp.Regexp).SubexpNames": true, "(*regexp.Regexp).FindAllStringSubmatchIndex": true,
	"(*regexp.Regexp).Split": true, "(*regexp.Regexp).NumSubexp": true, "(*regexp.Regexp).ReplaceAll": true, "(*regexp.Regexp).FindSubmatch": true,
	"(*strings.Replacer).Replace": true, "(*net/http.Client).Do": true,
}

// globalWrites scans the SSA of the given packages for stores, map updates and mutating method
// calls whose target is rooted in a package-level variable of the repository, outside init.
func globalWrites(p *core.Prog, rels []string) []globalWrite {
	var out []globalWrite
	for _, rel := range rels {
		for _, f := range p.SrcFuncs(rel) {
			if inInit(f) {
				continue
			}
			for _, b := range f.Blocks {
				for _, in := range b.Instrs {
					var g *ssa.Global
					what := ""
					switch x := in.(type) {
					case *ssa.Store:
						g = rootGlobal(x.Addr, 0)
						what = "store"
					case *ssa.MapUpdate:
						g = rootGlobal(x.Map, 0)
						what = "map update"
					case ssa.CallInstruction:
						cc := x.Common()
						if cc.IsInvoke() {
							continue
						}
						callee := cc.StaticCallee()
						if callee == nil || callee.Signature.Recv() == nil || len(cc.Args) == 0 {
							// builtin delete(m, k)
							if bi, ok := cc.Value.(*ssa.Builtin); ok && bi.Name() == "delete" && len(cc.Args) > 0 {
								g = rootGlobal(cc.Args[0], 0)
								what = "delete"
							}
							break
						}
						if _, isPtr := callee.Signature.Recv().Type().(*types.Pointer); !isPtr {
							continue
						}
						name := callee.String()
						if readOnlyMethods[name] {
							continue
						}
						g = rootGlobal(cc.Args[0], 0)
						what = "method " + name
					}
					if g == nil || g.Pkg == nil {
						continue
					}
					path := g.Pkg.Pkg.Path()
					if path != core.Mod && !strings.HasPrefix(path, core.Mod+"/") {
						continue
					}
					out = append(out, globalWrite{global: g, fn: f, pos: in.Pos(), what: what})
				}
			}
		}
	}
	sort.Slice(out, func(i, j int) bool { return out[i].pos < out[j].pos })
	return out
}
