package props

import (
	"go/ast"
	"go/types"

	"golang.org/x/tools/go/packages"

	"d2verif/internal/core"
)

// lockAnalysis holds per-body locksets for all functions of one package, with entry locksets
// inherited from callers for unexported functions that are only ever called directly.
type lockAnalysis struct {
	p      *core.Prog
	pk     *packages.Package
	bodies map[*core.FuncInfo][]core.Body
	locks  map[*ast.BlockStmt]*core.BodyLocks
	entry  map[*types.Func]core.LockSet
}

func newLockAnalysis(p *core.Prog, pk *packages.Package) *lockAnalysis {
	la := &lockAnalysis{p: p, pk: pk, bodies: map[*core.FuncInfo][]core.Body{}, locks: map[*ast.BlockStmt]*core.BodyLocks{}, entry: map[*types.Func]core.LockSet{}}
	funcs := p.Funcs(pk)
	for _, fi := range funcs {
		la.bodies[fi] = core.BodiesOf(fi.Decl)
	}
	compute := func() {
		for _, fi := range funcs {
			for _, b := range la.bodies[fi] {
				entry := core.LockSet{}
				if b.Kind == "decl" {
					if e, ok := la.entry[fi.Obj]; ok {
						entry = e
					}
				}
				la.locks[b.Block] = core.ComputeLocks(pk, b.Block, entry)
			}
		}
	}
	compute()
	// which functions are referenced other than by a direct call (method values, go/defer targets)?
	info := pk.TypesInfo
	for round := 0; round < 3; round++ {
		callHeld := map[*types.Func][]core.LockSet{}
		escaped := map[*types.Func]bool{}
		for _, fi := range funcs {
			callFuns := map[ast.Expr]bool{}
			ast.Inspect(fi.Decl.Body, func(n ast.Node) bool {
				switch s := n.(type) {
				case *ast.GoStmt:
					if f := core.CalleeOf(info, s.Call); f != nil {
						escaped[f.Origin()] = true
					}
				case *ast.DeferStmt:
					if f := core.CalleeOf(info, s.Call); f != nil {
						escaped[f.Origin()] = true
					}
				case *ast.CallExpr:
					callFuns[ast.Unparen(s.Fun)] = true
					f := core.CalleeOf(info, s)
					if f == nil || f.Pkg() != pk.Types {
						return true
					}
					bi := core.InnermostBody(la.bodies[fi], s)
					bl := la.locks[la.bodies[fi][bi].Block]
					if held, ok := bl.HeldAt(s); ok {
						callHeld[f.Origin()] = append(callHeld[f.Origin()], held)
					}
				}
				return true
			})
			ast.Inspect(fi.Decl.Body, func(n ast.Node) bool {
				e, ok := n.(ast.Expr)
				if !ok || callFuns[e] {
					return true
				}
				switch x := e.(type) {
				case *ast.SelectorExpr:
					if f, ok := info.Uses[x.Sel].(*types.Func); ok && !isCallFun(callFuns, x) {
						escaped[f.Origin()] = true
					}
				case *ast.Ident:
					if f, ok := info.Uses[x].(*types.Func); ok && !isCallFun(callFuns, x) {
						escaped[f.Origin()] = true
					}
				}
				return true
			})
		}
		changed := false
		for _, fi := range funcs {
			if fi.Obj.Exported() || escaped[fi.Obj] || len(callHeld[fi.Obj]) == 0 {
				continue
			}
			var e core.LockSet
			for i, h := range callHeld[fi.Obj] {
				if i == 0 {
					e = h
				} else {
					ne := core.LockSet{}
					for k := range e {
						if h[k] {
							ne[k] = true
						}
					}
					e = ne
				}
			}
			old := la.entry[fi.Obj]
			if len(old) != len(e) {
				changed = true
			}
			la.entry[fi.Obj] = e
		}
		if !changed {
			break
		}
		compute()
	}
	return la
}

func isCallFun(callFuns map[ast.Expr]bool, e ast.Expr) bool {
	if callFuns[e] {
		return true
	}
	return false
}

// heldAt returns the must-held lockset at n inside fi.
func (la *lockAnalysis) heldAt(fi *core.FuncInfo, n ast.Node) (core.LockSet, core.Body, bool) {
	bs := la.bodies[fi]
	bi := core.InnermostBody(bs, n)
	if bi < 0 {
		return nil, core.Body{}, false
	}
	bl := la.locks[bs[bi].Block]
	h, ok := bl.HeldAt(n)
	return h, bs[bi], ok
}

// structField finds a field object by package, struct type name and field name (searching
// embedded structs of the same package).
func structField(p *core.Prog, pkgRel, typ, field string) *types.Var {
	pk := p.Pkg(pkgRel)
	if pk == nil {
		return nil
	}
	tn, ok := pk.Types.Scope().Lookup(typ).(*types.TypeName)
	if !ok {
		return nil
	}
	var find func(t types.Type, depth int) *types.Var
	find = func(t types.Type, depth int) *types.Var {
		st, ok := t.Underlying().(*types.Struct)
		if !ok || depth > 3 {
			return nil
		}
		for i := 0; i < st.NumFields(); i++ {
			if st.Field(i).Name() == field {
				return st.Field(i)
			}
		}
		for i := 0; i < st.NumFields(); i++ {
			if st.Field(i).Embedded() {
				if v := find(st.Field(i).Type(), depth+1); v != nil {
					return v
				}
			}
		}
		return nil
	}
	return find(tn.Type(), 0)
}

// fieldAccesses lists every selector expression in fi that resolves to field v.
func fieldAccesses(fi *core.FuncInfo, v *types.Var) []*ast.SelectorExpr {
	var out []*ast.SelectorExpr
	info := fi.Pkg.TypesInfo
	ast.Inspect(fi.Decl.Body, func(n ast.Node) bool {
		if sel, ok := n.(*ast.SelectorExpr); ok {
			if s, ok := info.Selections[sel]; ok && s.Kind() == types.FieldVal && s.Obj() == v {
				out = append(out, sel)
			}
		}
		return true
	})
	return out
}
