package props

import (
	"fmt"
	"go/ast"
	"go/token"
	"go/types"
	"strings"

	"d2verif/internal/core"
)

// The board-scope discipline of d2oracle. A nested board's graph is compiled from an AST that shares its key
// nodes with the boards it inherits from, so a write through obj.References, edge.References or a
// Scalar.MapKey of an inherited element lands in another board's text unless the code first establishes that
// the node belongs to the addressed board (ref.ScopeAST == baseAST, GetWriteableRefs / GetWriteableEdgeRefs).

// c41ScopeExceptions: reviewed instances where no decision is needed.
var c41ScopeExceptions = map[string]string{
	"attr-scope:_set:attrs.Label":   "the conversion of a connection's `a -> b: label` key into a map runs only when some writeable reference of the connection is a plain declaration or already has a map (otherwise _set returned through onlyInChain) and no writeable reference has a map; a plain declaration creates the connection in this board, so the label key is that declaration or a board-local override of it (probed: inherited labels take the onlyInChain exit)",
	"attr-scope:_set:attrs.Label#2": "same statement pair as attrs.Label",
	"element:d2oracle.Delete:e2": "e2 ranges over the parallel connections with a higher index than e, and this loop runs only when every reference of e is in the addressed board (all-or-null test on e just above); a connection with a higher index was declared after e, hence in the same board (inherited connections are numbered first), so its indexed references are board-local too",
}

func runC41Scope(c *core.Check) {
	c.Rule("C41.board-root", "a mutator that resolved the addressed board looks elements up on the board's graph, not on the root graph")
	c.Rule("C41.board-path-propagated", "calls between board-aware functions pass the board path on")
	c.Rule("C41.element-scope-decided", "a mutator decides (GetWriteableRefs / GetWriteableEdgeRefs) about every element whose references it walks")
	c.Rule("C41.helper-filter", "a helper that filters references by the writeable AST filters by board (ScopeAST), not only by file")
	c.Rule("C41.attr-scope", "an attribute's own key is rewritten in place only under a test that the key belongs to the addressed board")
	pk := c.P.Pkg("d2oracle")
	if pk == nil {
		return
	}
	info := pk.TypesInfo
	isNamed := func(t types.Type, pkgRel, name string) bool {
		if p, ok := t.(*types.Pointer); ok {
			t = p.Elem()
		}
		n, ok := t.(*types.Named)
		return ok && n.Obj().Name() == name && n.Obj().Pkg() != nil && n.Obj().Pkg().Path() == core.Mod+"/"+pkgRel
	}
	boardPathParam := func(fi *core.FuncInfo) (types.Object, int) {
		i := 0
		for _, f := range fi.Decl.Type.Params.List {
			for _, nm := range f.Names {
				if nm.Name == "boardPath" {
					return info.Defs[nm], i
				}
				i++
			}
		}
		return nil, -1
	}
	nroot, nprop, nelem := 0, 0, 0
	for _, fi := range c.P.Funcs(pk) {
		if fi.Decl.Body == nil || fi.Decl.Recv != nil {
			continue
		}
		// --- board-path-propagated: every call to a function with a boardPath parameter
		for _, call := range core.Calls(fi.Decl.Body, true) {
			callee := core.CalleeOf(info, call)
			if callee == nil || callee.Pkg() != pk.Types {
				continue
			}
			h := c.P.Decl(callee)
			if h == nil {
				continue
			}
			_, idx := boardPathParam(h)
			if idx < 0 || idx >= len(call.Args) || h.Decl.Body == nil || len(callsIn(h, false, "d2oracle.recompile")) == 0 {
				continue // only callees that edit and recompile; predictions and path navigation take sub-paths or nil legitimately
			}
			nprop++
			own, _ := boardPathParam(fi)
			arg := call.Args[idx]
			key := fmt.Sprintf("board-path:%s→%s", fname(fi), callee.Name())
			switch {
			case own != nil && rootIdent(info, arg) == own:
				c.Pass("C41.board-path-propagated", key, call.Pos(), "passes its own boardPath")
			case own == nil && !core.IsNil(info, arg):
				c.Pass("C41.board-path-propagated", key, call.Pos(), "passes "+exprStr(arg))
			default:
				c.Fail("C41.board-path-propagated", key, call.Pos(), fmt.Sprintf("%s calls %s with board path %s: the callee then treats the graph it is given as the root board and rewrites every reference, including those that live in the boards the addressed board inherits from", fname(fi), callee.Name(), exprStr(arg)))
			}
		}
		// the rest concerns mutators that resolve the board themselves
		var boardG types.Object
		var boardGPos token.Pos
		ast.Inspect(fi.Decl.Body, func(n ast.Node) bool {
			as, ok := n.(*ast.AssignStmt)
			if !ok || len(as.Lhs) != 1 || len(as.Rhs) != 1 {
				return true
			}
			if core.IsCallTo(info, ast.Unparen(as.Rhs[0]), "d2oracle.GetBoardGraph") {
				boardG = core.ObjOf(info, as.Lhs[0])
				boardGPos = as.End()
			}
			return true
		})
		if boardG == nil || len(callsIn(fi, false, "d2oracle.recompile")) == 0 {
			continue
		}
		// --- board-root
		var gParam types.Object
		if ps := fi.Obj.Type().(*types.Signature).Params(); ps.Len() > 0 && isNamed(ps.At(0).Type(), "d2graph", "Graph") {
			gParam = ps.At(0)
		}
		counts := map[string]int{}
		ast.Inspect(fi.Decl.Body, func(n ast.Node) bool {
			sel, ok := n.(*ast.SelectorExpr)
			if !ok || sel.Sel.Name != "Root" || gParam == nil || core.ObjOf(info, sel.X) != gParam || gParam == boardG || sel.Pos() < boardGPos {
				return true
			}
			nroot++
			key := fmt.Sprintf("board-root:%s:%s", fname(fi), exprStr(sel))
			counts[key]++
			if counts[key] > 1 {
				key = fmt.Sprintf("%s#%d", key, counts[key])
			}
			c.Fail("C41.board-root", key, sel.Pos(), fmt.Sprintf("%s resolved the addressed board (%s) and then uses %s, the root board's objects: the element found and edited belongs to the root board whatever board was addressed", fname(fi), boardG.Name(), exprStr(sel)))
			return true
		})
		// --- root graph handed to a helper after the board was resolved
		if gParam != nil && gParam != boardG {
			for _, call := range core.Calls(fi.Decl.Body, true) {
				if call.Pos() < boardGPos {
					continue
				}
				callee := core.CalleeOf(info, call)
				if callee == nil || callee.Pkg() != pk.Types {
					continue
				}
				switch callee.Name() {
				case "recompile", "ReplaceBoardNode", "GetBoardGraph":
					continue
				}
				for ai, a := range call.Args {
					if core.ObjOf(info, a) != gParam {
						continue
					}
					nroot++
					key := fmt.Sprintf("board-root:%s:%s(arg %d)", fname(fi), callee.Name(), ai)
					counts[key]++
					if counts[key] > 1 {
						key = fmt.Sprintf("%s#%d", key, counts[key])
					}
					h := c.P.Decl(callee)
					if h == nil || h.Decl.Body == nil {
						continue
					}
					// a callee that takes the board path as well resolves the board itself
					if _, idx := boardPathParam(h); idx >= 0 {
						c.Pass("C41.board-root", key, call.Pos(), "the callee receives the board path too")
						continue
					}
					// only callees that look elements up on the graph they are given (<param>.Root…)
					sig := callee.Type().(*types.Signature)
					if ai >= sig.Params().Len() {
						continue
					}
					hp := sig.Params().At(ai)
					looksUp := core.Contains(h.Decl.Body, func(y ast.Node) bool {
						sel, ok := y.(*ast.SelectorExpr)
						return ok && sel.Sel.Name == "Root" && core.ObjOf(h.Pkg.TypesInfo, sel.X) == types.Object(hp)
					})
					if !looksUp {
						continue
					}
					c.Fail("C41.board-root", key, call.Pos(), fmt.Sprintf("%s resolved the addressed board (%s) and then hands the root graph %s to %s: the helper searches or edits the root board's elements whatever board was addressed", fname(fi), boardG.Name(), gParam.Name(), callee.Name()))
				}
			}
		}
		// --- element-scope-decided
		// a decision about X: the writeable list of X is what the code goes on with (assigned to a variable that is
		// ranged over or indexed later), or its length is compared with len(X.References). Asking only whether the
		// writeable list is empty decides nothing about the references that are not writeable.
		decided := map[types.Object]token.Pos{}
		isW := func(e ast.Expr) (types.Object, *ast.CallExpr) {
			call, ok := ast.Unparen(e).(*ast.CallExpr)
			if !ok || len(call.Args) < 1 || !(core.IsCallTo(info, call, "d2oracle.GetWriteableRefs") || core.IsCallTo(info, call, "d2oracle.GetWriteableEdgeRefs")) {
				return nil, nil
			}
			return core.ObjOf(info, call.Args[0]), call
		}
		mark := func(o types.Object, pos token.Pos) {
			if o == nil {
				return
			}
			if p, ok := decided[o]; !ok || pos < p {
				decided[o] = pos
			}
		}
		wvars := map[types.Object]types.Object{} // variable holding a writeable list → element
		rawAlias := map[types.Object]types.Object{}
		ast.Inspect(fi.Decl.Body, func(n ast.Node) bool {
			as, ok := n.(*ast.AssignStmt)
			if !ok || len(as.Lhs) != 1 || len(as.Rhs) != 1 {
				return true
			}
			v := core.ObjOf(info, as.Lhs[0])
			if v == nil {
				return true
			}
			if o, _ := isW(as.Rhs[0]); o != nil {
				wvars[v] = o
				delete(rawAlias, v)
			} else if sel, ok := ast.Unparen(as.Rhs[0]).(*ast.SelectorExpr); ok && sel.Sel.Name == "References" {
				if _, isWv := wvars[v]; !isWv {
					rawAlias[v] = core.ObjOf(info, sel.X)
				}
			}
			return true
		})
		for v := range wvars {
			delete(rawAlias, v)
		}
		ast.Inspect(fi.Decl.Body, func(n ast.Node) bool {
			switch x := n.(type) {
			case *ast.RangeStmt:
				if o, ok := wvars[core.ObjOf(info, x.X)]; ok {
					mark(o, x.Pos())
				}
			case *ast.IndexExpr:
				if o, ok := wvars[core.ObjOf(info, x.X)]; ok {
					mark(o, x.Pos())
				}
			case *ast.BinaryExpr:
				// len(W) <op> len(X.References)
				lenOf := func(e ast.Expr) ast.Expr {
					call, ok := ast.Unparen(e).(*ast.CallExpr)
					if !ok || exprStr(call.Fun) != "len" || len(call.Args) != 1 {
						return nil
					}
					return call.Args[0]
				}
				for _, pair := range [][2]ast.Expr{{x.X, x.Y}, {x.Y, x.X}} {
					a, b := lenOf(pair[0]), lenOf(pair[1])
					if a == nil || b == nil {
						continue
					}
					var el types.Object
					if o, ok := wvars[core.ObjOf(info, a)]; ok {
						el = o
					} else if o, _ := isW(a); o != nil {
						el = o
					}
					if el == nil {
						continue
					}
					if sel, ok := ast.Unparen(b).(*ast.SelectorExpr); ok && sel.Sel.Name == "References" && core.ObjOf(info, sel.X) == el {
						mark(el, x.Pos())
					}
				}
			}
			return true
		})
		walked := map[types.Object]token.Pos{}
		note := func(e ast.Expr, pos token.Pos) {
			o := core.ObjOf(info, e)
			if o == nil || !(isNamed(o.Type(), "d2graph", "Object") || isNamed(o.Type(), "d2graph", "Edge")) {
				return
			}
			if p, ok := walked[o]; !ok || pos < p {
				walked[o] = pos
			}
		}
		ast.Inspect(fi.Decl.Body, func(n ast.Node) bool {
			switch x := n.(type) {
			case *ast.RangeStmt:
				if sel, ok := ast.Unparen(x.X).(*ast.SelectorExpr); ok && sel.Sel.Name == "References" && loopWritesThrough(info, x.Body, x.Value) {
					note(sel.X, x.Pos())
				}
				// a variable that only ever held X.References is X.References
				if el, ok := rawAlias[core.ObjOf(info, x.X)]; ok && el != nil {
					if loopWritesThrough(info, x.Body, x.Value) || loopWritesThrough(info, x.Body, x.Key) || rangeIndexWrites(info, x) {
						if p, seen := walked[el]; !seen || x.Pos() < p {
							walked[el] = x.Pos()
						}
					}
				}
			case *ast.ForStmt:
				// for i := …; …; … { ref := X.References[i]; … }
				ast.Inspect(x.Body, func(m ast.Node) bool {
					as, ok := m.(*ast.AssignStmt)
					if !ok || as.Tok != token.DEFINE || len(as.Lhs) != 1 || len(as.Rhs) != 1 {
						return true
					}
					ix, ok := ast.Unparen(as.Rhs[0]).(*ast.IndexExpr)
					if !ok {
						return true
					}
					if sel, ok := ast.Unparen(ix.X).(*ast.SelectorExpr); ok && sel.Sel.Name == "References" && loopWritesThrough(info, x.Body, as.Lhs[0]) {
						note(sel.X, x.Pos())
					}
					return true
				})
			case *ast.CallExpr:
				// getMostNestedRefs(X) hands X's references to the code that picks the landing scope
				if core.IsCallTo(info, x, "d2oracle.getMostNestedRefs") && len(x.Args) == 1 {
					note(x.Args[0], x.Pos())
				}
			}
			return true
		})
		for o, pos := range walked {
			nelem++
			key := fmt.Sprintf("element:%s:%s", fname(fi), o.Name())
			if r := c41ScopeExceptions[key]; r != "" {
				c.Except("C41.element-scope-decided", key, pos, r)
				continue
			}
			p, ok := decided[o]
			c.Decide(ok && p < pos, "C41.element-scope-decided", key, pos, "GetWriteable…Refs("+o.Name()+", …) is consulted first",
				fmt.Sprintf("%s rewrites AST nodes reached through %s.References (or picks the scope it inserts into from them) without ever asking which of these references belong to the addressed board: for an element the board inherited, the nodes are the parent board's", fname(fi), o.Name()))
		}
	}
	c.Decide(nprop >= 3, "C41.board-path-propagated", "board-path:inventory", token.NoPos, fmt.Sprintf("%d calls to board-aware functions", nprop), "no calls found")
	c.PassTrivial("C41.board-root", "board-root:inventory", token.NoPos, fmt.Sprintf("%d uses of the root graph's Root after the board was resolved", nroot))
	c.Decide(nelem >= 4, "C41.element-scope-decided", "element:inventory", token.NoPos, fmt.Sprintf("%d walked elements", nelem), fmt.Sprintf("only %d walked elements found", nelem))

	// --- helper-filter: helpers with a *d2ast.Map parameter that skip references by comparing with it
	nhelp := 0
	for _, fi := range c.P.Funcs(pk) {
		if fi.Decl.Body == nil || fi.Decl.Recv != nil {
			continue
		}
		var astParam types.Object
		ps := fi.Obj.Type().(*types.Signature).Params()
		for i := 0; i < ps.Len(); i++ {
			if isNamed(ps.At(i).Type(), "d2ast", "Map") {
				astParam = ps.At(i)
			}
		}
		if astParam == nil {
			continue
		}
		ast.Inspect(fi.Decl.Body, func(n ast.Node) bool {
			rs, ok := n.(*ast.RangeStmt)
			if !ok {
				return true
			}
			sel, ok := ast.Unparen(rs.X).(*ast.SelectorExpr)
			if !ok || sel.Sel.Name != "References" || !loopWritesThrough(info, rs.Body, rs.Value) {
				return true
			}
			// does the loop filter by the parameter at all?
			filters, byScope := false, false
			ast.Inspect(rs.Body, func(m ast.Node) bool {
				be, ok := m.(*ast.BinaryExpr)
				if !ok || (be.Op != token.EQL && be.Op != token.NEQ) {
					return true
				}
				mentions := func(e ast.Expr) bool {
					return core.Contains(e, func(y ast.Node) bool {
						id, ok := y.(*ast.Ident)
						return ok && info.Uses[id] == astParam
					})
				}
				if !mentions(be.X) && !mentions(be.Y) {
					return true
				}
				filters = true
				for _, side := range []ast.Expr{be.X, be.Y} {
					if s, ok := ast.Unparen(side).(*ast.SelectorExpr); ok && s.Sel.Name == "ScopeAST" {
						byScope = true
					}
				}
				return true
			})
			if !filters {
				return true
			}
			nhelp++
			key := fmt.Sprintf("helper-filter:%s:%s", fname(fi), exprStr(rs.X))
			c.Decide(byScope, "C41.helper-filter", key, rs.Pos(), "skips references whose ScopeAST is not the writeable AST",
				fmt.Sprintf("%s skips references of other files (%s.Range.Path) but not references of other boards of the same file (ref.ScopeAST != %s): deleting an attribute the board inherited removes it from the board it was declared in", fname(fi), astParam.Name(), astParam.Name()))
			return true
		})
	}
	c.Decide(nhelp >= 2, "C41.helper-filter", "helper-filter:inventory", token.NoPos, fmt.Sprintf("%d filtering helper loops", nhelp), fmt.Sprintf("only %d filtering helper loops found", nhelp))

	// --- attr-scope in _set
	set := mustFunc(c, "d2oracle", "", "_set")
	if set == nil {
		return
	}
	var baseAST types.Object
	{
		ps := set.Obj.Type().(*types.Signature).Params()
		for i := 0; i < ps.Len(); i++ {
			if isNamed(ps.At(i).Type(), "d2ast", "Map") {
				baseAST = ps.At(i)
			}
		}
	}
	if baseAST == nil {
		c.Broken("_set: no *d2ast.Map parameter")
		return
	}
	// predicates (closures bound to a local) whose body tests node identity against the base AST
	nodeIdentityTest := func(body ast.Node, depth int) bool { return false }
	var nit func(body ast.Node, finfo *types.Info, depth int) bool
	nit = func(body ast.Node, finfo *types.Info, depth int) bool {
		found := false
		ast.Inspect(body, func(n ast.Node) bool {
			if found {
				return false
			}
			switch x := n.(type) {
			case *ast.BinaryExpr:
				if x.Op == token.EQL || x.Op == token.NEQ {
					lt, rt := finfo.TypeOf(x.X), finfo.TypeOf(x.Y)
					if lt != nil && rt != nil && (isNamed(lt, "d2ast", "Key") && isNamed(rt, "d2ast", "Key") || isNamed(lt, "d2ast", "Map") && isNamed(rt, "d2ast", "Map")) {
						if !core.IsNil(finfo, x.X) && !core.IsNil(finfo, x.Y) {
							found = true
						}
					}
				}
			case *ast.CallExpr:
				if depth < 2 {
					if callee := core.CalleeOf(finfo, x); callee != nil && callee.Pkg() == pk.Types {
						if h := c.P.Decl(callee); h != nil && h.Decl.Body != nil && nit(h.Decl.Body, h.Pkg.TypesInfo, depth+1) {
							found = true
						}
					}
				}
			}
			return !found
		})
		return found
	}
	_ = nodeIdentityTest
	scopePreds := map[types.Object]bool{}
	scopeVars := map[types.Object]bool{}
	ast.Inspect(set.Decl.Body, func(n ast.Node) bool {
		as, ok := n.(*ast.AssignStmt)
		if !ok || len(as.Lhs) != 1 || len(as.Rhs) != 1 {
			return true
		}
		if lit, ok := ast.Unparen(as.Rhs[0]).(*ast.FuncLit); ok {
			mentionsBase := core.Contains(lit.Body, func(y ast.Node) bool {
				id, ok := y.(*ast.Ident)
				return ok && info.Uses[id] == baseAST
			})
			// the predicate refuses when a containment test against the base AST fails: `!F(baseAST, key)` (or a
			// ScopeAST comparison) somewhere in a condition — a positive use such as "the key lies under a glob of
			// the base AST" does not establish that the key belongs to the board
			refusesOutside := false
			ast.Inspect(lit.Body, func(y ast.Node) bool {
				switch x := y.(type) {
				case *ast.UnaryExpr:
					if x.Op != token.NOT {
						return true
					}
					call, ok := ast.Unparen(x.X).(*ast.CallExpr)
					if !ok {
						return true
					}
					passesBase := false
					for _, a := range call.Args {
						if core.ObjOf(info, a) == baseAST {
							passesBase = true
						}
					}
					if callee := core.CalleeOf(info, call); passesBase && callee != nil && callee.Pkg() == pk.Types {
						if h := c.P.Decl(callee); h != nil && h.Decl.Body != nil && nit(h.Decl.Body, h.Pkg.TypesInfo, 1) {
							refusesOutside = true
						}
					}
				case *ast.BinaryExpr:
					if (x.Op == token.EQL || x.Op == token.NEQ) && (strings.HasSuffix(exprStr(x.X), ".ScopeAST") || strings.HasSuffix(exprStr(x.Y), ".ScopeAST")) {
						refusesOutside = true
					}
				}
				return true
			})
			if mentionsBase && refusesOutside {
				scopePreds[core.ObjOf(info, as.Lhs[0])] = true
			}
		}
		return true
	})
	// boolean variables set to true under a node-identity comparison inside a loop over writeable references
	fl := core.NewFlow(set.Pkg, set.Decl.Body)
	ast.Inspect(set.Decl.Body, func(n ast.Node) bool {
		as, ok := n.(*ast.AssignStmt)
		if !ok || len(as.Lhs) != 1 || len(as.Rhs) != 1 || exprStr(as.Rhs[0]) != "true" {
			return true
		}
		for _, g := range fl.GuardsOfNode(as) {
			if nit(g.Cond, info, 2) {
				scopeVars[core.ObjOf(info, as.Lhs[0])] = true
			}
		}
		return true
	})
	nattr := 0
	counts := map[string]int{}
	judge := func(site ast.Node, scalar ast.Expr, what string) {
		nattr++
		key := fmt.Sprintf("attr-scope:_set:%s", exprStr(scalar))
		counts[key]++
		if counts[key] > 1 {
			key = fmt.Sprintf("%s#%d", key, counts[key])
		}
		// a condition that, when true, establishes that the key belongs to the addressed board
		var establishes func(cond ast.Expr) bool
		establishes = func(cond ast.Expr) bool {
			cond = ast.Unparen(cond)
			switch x := cond.(type) {
			case *ast.CallExpr:
				if scopePreds[core.ObjOf(info, x.Fun)] {
					return true
				}
				// a package function given the base AST itself that compares node identities
				if callee := core.CalleeOf(info, x); callee != nil && callee.Pkg() == pk.Types {
					passesBase := false
					for _, a := range x.Args {
						if core.ObjOf(info, a) == baseAST {
							passesBase = true
						}
					}
					if h := c.P.Decl(callee); passesBase && h != nil && h.Decl.Body != nil && nit(h.Decl.Body, h.Pkg.TypesInfo, 1) {
						return true
					}
				}
			case *ast.Ident:
				return scopeVars[info.Uses[x]]
			case *ast.BinaryExpr:
				switch x.Op {
				case token.LOR:
					return establishes(x.X) && establishes(x.Y)
				case token.LAND:
					return establishes(x.X) || establishes(x.Y)
				case token.EQL:
					// the addressed board is the root board: every key of the file's AST is its own
					l, r := ast.Unparen(x.X), ast.Unparen(x.Y)
					if core.ObjOf(info, l) == baseAST || core.ObjOf(info, r) == baseAST {
						other := r
						if core.ObjOf(info, r) == baseAST {
							other = l
						}
						if sel, ok := other.(*ast.SelectorExpr); ok && sel.Sel.Name == "AST" {
							return true
						}
					}
				}
			}
			return false
		}
		ok := false
		for _, g := range fl.GuardsOfNode(site) {
			for _, a := range g.Atoms() {
				if a.True && establishes(a.Cond) {
					ok = true
				}
			}
		}
		if r := c41ScopeExceptions[key]; r != "" && !ok {
			c.Except("C41.attr-scope", key, site.Pos(), r)
			return
		}
		c.Decide(ok, "C41.attr-scope", key, site.Pos(), "under a predicate that tests the key against the base AST",
			fmt.Sprintf("_set %s of %s in place; no test on the way establishes that this key node belongs to the addressed board, and for an attribute the board inherited the node is the parent board's: Set on a scenario changes the base board and every sibling", what, exprStr(scalar)))
	}
	ast.Inspect(set.Decl.Body, func(n ast.Node) bool {
		switch x := n.(type) {
		case *ast.CallExpr:
			sel, ok := ast.Unparen(x.Fun).(*ast.SelectorExpr)
			if !ok || sel.Sel.Name != "SetScalar" {
				return true
			}
			mkSel, ok := ast.Unparen(sel.X).(*ast.SelectorExpr)
			if !ok || mkSel.Sel.Name != "MapKey" {
				return true
			}
			if t := info.TypeOf(mkSel.X); t != nil && isNamed(t, "d2graph", "Scalar") {
				judge(x, mkSel.X, "overwrites the value of the key")
			}
		case *ast.AssignStmt:
			for _, l := range x.Lhs {
				s := exprStr(l)
				i := strings.Index(s, ".MapKey.")
				if i < 0 {
					continue
				}
				// the expression before .MapKey must be a Scalar of the graph
				var scalar ast.Expr
				ast.Inspect(l, func(m ast.Node) bool {
					if ms, ok := m.(*ast.SelectorExpr); ok && ms.Sel.Name == "MapKey" {
						if t := info.TypeOf(ms.X); t != nil && isNamed(t, "d2graph", "Scalar") {
							scalar = ms.X
						}
					}
					return true
				})
				if scalar != nil {
					judge(x, scalar, "rewrites "+s[i+1:])
				}
			}
		}
		return true
	})
	if nattr < 10 {
		c.Fail("C41.attr-scope", "attr-scope:inventory", token.NoPos, fmt.Sprintf("only %d in-place attribute rewrites found in _set", nattr))
	}
}

// loopWritesThrough: the loop body assigns through the loop variable, or passes something reached from it to a
// function of d2oracle or a method of a d2ast node (which may edit it).
func loopWritesThrough(info *types.Info, body *ast.BlockStmt, loopVar ast.Expr) bool {
	if loopVar == nil {
		return false
	}
	lv := core.ObjOf(info, loopVar)
	if lv == nil {
		return false
	}
	rooted := func(e ast.Expr) bool {
		return e != nil && rootIdent(info, e) == lv
	}
	writes := false
	ast.Inspect(body, func(n ast.Node) bool {
		switch x := n.(type) {
		case *ast.AssignStmt:
			for _, l := range x.Lhs {
				if _, isIdent := ast.Unparen(l).(*ast.Ident); !isIdent && rooted(l) {
					writes = true
				}
				if st, ok := ast.Unparen(l).(*ast.StarExpr); ok && rooted(st.X) {
					writes = true
				}
			}
			// a scope picked from the reference for later insertion
			if x.Tok == token.ASSIGN {
				for i, r := range x.Rhs {
					if i < len(x.Lhs) && rooted(r) {
						if t := info.TypeOf(r); t != nil && strings.HasSuffix(t.String(), "d2ast.Map") {
							writes = true
						}
					}
				}
			}
		case *ast.IncDecStmt:
			if rooted(x.X) {
				writes = true
			}
			if st, ok := ast.Unparen(x.X).(*ast.StarExpr); ok && rooted(st.X) {
				writes = true
			}
		case *ast.CallExpr:
			callee := core.CalleeOf(info, x)
			if callee == nil || callee.Pkg() == nil {
				return true
			}
			mut := strings.HasPrefix(callee.Name(), "delete") || strings.HasPrefix(callee.Name(), "Insert") || strings.HasPrefix(callee.Name(), "Set") || strings.HasPrefix(callee.Name(), "append") || strings.HasPrefix(callee.Name(), "ensure")
			if !mut {
				return true
			}
			for _, a := range x.Args {
				if rooted(a) {
					writes = true
				}
			}
			if sel, ok := ast.Unparen(x.Fun).(*ast.SelectorExpr); ok && rooted(sel.X) {
				writes = true
			}
		}
		return true
	})
	return writes
}

// rangeIndexWrites: `for i := range R { ref := R[i]; … }` with writes through ref.
func rangeIndexWrites(info *types.Info, rs *ast.RangeStmt) bool {
	found := false
	ast.Inspect(rs.Body, func(n ast.Node) bool {
		as, ok := n.(*ast.AssignStmt)
		if !ok || as.Tok != token.DEFINE || len(as.Lhs) != 1 || len(as.Rhs) != 1 {
			return true
		}
		ix, ok := ast.Unparen(as.Rhs[0]).(*ast.IndexExpr)
		if !ok || core.ObjOf(info, ix.X) != core.ObjOf(info, rs.X) {
			return true
		}
		if loopWritesThrough(info, rs.Body, as.Lhs[0]) {
			found = true
		}
		return true
	})
	return found
}
