package props

import (
	"fmt"
	"go/ast"
	"go/token"
	"go/types"
	"strings"

	"d2verif/internal/core"
)

func init() {
	register(&Prop{
		ID:       "C02",
		Title:    "Source positions are exact",
		Patterns: []string{"./d2parser", "./d2ast"},
		Explanation: "Decides the position bookkeeping discipline of the parser: (1) every AST node literal the parser builds with a Range gets its End set — by a deferred End.From, by a deferred closure, or by an assignment on the path — and every deferred End.From copies the committed position p.pos or a local that is only ever assigned from p.pos (never the reader/look-ahead positions, which run ahead of what was consumed); " +
			"(2) every Range.Start in such a literal is p.pos or p.pos moved back over a constant delimiter; (3) every Advance/Subtract/AdvanceString/SubtractString call of the parser passes p.utf16Pos as the mode (a literal false breaks UTF-16 positions only); " +
			"(4) Position.Advance and Position.Subtract compute the width of a rune by the same statements (sibling agreement), so moving forward and back over a rune cancel; (5) who-may-write: p.pos is assigned only in read, replay and commit; p.lookaheadPos only in read, peek and rewind; p.readerPos only in _readRune; (6) where a node's End is copied from a local that follows p.pos (the unquoted-string reader's position of the last non-space rune), every commit of consumed input is followed on every path by an update of that local, by the whitespace test guarding the update, or by a replay, before the reader loops or returns.",
		NotCovered: "that line, column and byte are numerically right for a given input; UTF-16 surrogate arithmetic beyond the Advance/Subtract symmetry; that a node's range text parses back to the node",
		Technique:  "static analysis: constructor/exit pairing, argument uniformity, sibling agreement (statement shape), who-may-write on the typed AST",
		Run:        runC02,
	})
}

func runC02(c *core.Check) {
	c.Rule("C02.end-set", "every node literal with a Range gets its End")
	c.Rule("C02.end-source", "a deferred End.From copies the committed position")
	c.Rule("C02.start-source", "Range.Start is p.pos or p.pos moved back over a constant")
	c.Rule("C02.utf16-mode", "position arithmetic passes p.utf16Pos")
	c.Rule("C02.width-symmetry", "Advance and Subtract compute the rune width identically")
	c.Rule("C02.pos-writers", "the parser's positions are written only by its primitives")
	pk := c.P.Pkg("d2parser")
	if pk == nil {
		c.Broken("d2parser not loaded")
		return
	}
	posF := structField(c.P, "d2parser", "parser", "pos")
	laF := structField(c.P, "d2parser", "parser", "lookaheadPos")
	rdF := structField(c.P, "d2parser", "parser", "readerPos")
	utfF := structField(c.P, "d2parser", "parser", "utf16Pos")
	if posF == nil || laF == nil || rdF == nil || utfF == nil {
		c.Broken("parser position fields not found")
		return
	}
	nlit := 0
	for _, fi := range c.P.Funcs(pk) {
		info := fi.Pkg.TypesInfo
		// locals only ever assigned from p.pos
		onlyFromPos := func(o types.Object) bool {
			ds := defsOf(fi, o)
			if len(ds) == 0 {
				return false
			}
			for _, d := range ds {
				if _, isAddr := d.Stmt.(*ast.UnaryExpr); isAddr && d.Rhs == nil {
					continue
				}
				if d.Rhs == nil || core.FieldOf(info, d.Rhs) != posF {
					return false
				}
			}
			return true
		}
		// deferred End.From calls
		endFor := map[types.Object]bool{}
		ast.Inspect(fi.Decl.Body, func(n ast.Node) bool {
			ds, ok := n.(*ast.DeferStmt)
			if !ok {
				return true
			}
			if core.IsCallTo(info, ds.Call, "d2ast.(*Position).From") {
				sel := ds.Call.Fun.(*ast.SelectorExpr)
				if !strings.HasSuffix(exprStr(sel.X), ".Range.End") {
					return true
				}
				v := rootIdent(info, sel.X)
				endFor[v] = true
				// source
				okSrc, what := false, exprStr(ds.Call.Args[0])
				if u, ok := ast.Unparen(ds.Call.Args[0]).(*ast.UnaryExpr); ok && u.Op == token.AND {
					if core.FieldOf(info, u.X) == posF {
						okSrc = true
					} else if o := core.ObjOf(info, u.X); o != nil && onlyFromPos(o) {
						okSrc = true
						what += " (a local only assigned from p.pos)"
					}
				}
				c.Decide(okSrc, "C02.end-source", "end:"+fname(fi)+":"+exprStr(sel.X), ds.Pos(), "copies "+what,
					"the node's End is copied from "+what+" instead of the committed position p.pos: the reader and look-ahead positions run ahead of what the node consumed, so the range ends after the node (outside its parent)")
				return true
			}
			// deferred closure assigning <v>.Range.End
			if lit, ok := ds.Call.Fun.(*ast.FuncLit); ok {
				ast.Inspect(lit.Body, func(m ast.Node) bool {
					if as, ok := m.(*ast.AssignStmt); ok {
						for _, l := range as.Lhs {
							if strings.HasSuffix(exprStr(l), ".Range.End") {
								endFor[rootIdent(info, l)] = true
							}
						}
					}
					return true
				})
			}
			return true
		})
		// plain assignments `x.Range.End = …`
		ast.Inspect(fi.Decl.Body, func(n ast.Node) bool {
			if as, ok := n.(*ast.AssignStmt); ok {
				for _, l := range as.Lhs {
					if strings.HasSuffix(exprStr(l), ".Range.End") {
						endFor[rootIdent(info, l)] = true
					}
				}
			}
			return true
		})
		// node literals
		ast.Inspect(fi.Decl.Body, func(n ast.Node) bool {
			as, ok := n.(*ast.AssignStmt)
			if !ok || len(as.Lhs) != 1 || len(as.Rhs) != 1 {
				return true
			}
			u, ok := ast.Unparen(as.Rhs[0]).(*ast.UnaryExpr)
			if !ok || u.Op != token.AND {
				return true
			}
			cl, ok := u.X.(*ast.CompositeLit)
			if !ok {
				return true
			}
			tv, ok := info.Types[cl]
			if !ok {
				return true
			}
			nt, ok := tv.Type.(*types.Named)
			if !ok || nt.Obj().Pkg() == nil || core.RelPkg(nt.Obj().Pkg().Path()) != "d2ast" {
				return true
			}
			var rng *ast.CompositeLit
			for _, el := range cl.Elts {
				if kv, ok := el.(*ast.KeyValueExpr); ok && exprStr(kv.Key) == "Range" {
					rng, _ = kv.Value.(*ast.CompositeLit)
				}
			}
			if rng == nil {
				return true
			}
			nlit++
			v := core.ObjOf(info, as.Lhs[0])
			key := "node:" + fname(fi) + ":" + nt.Obj().Name()
			c.Decide(endFor[v], "C02.end-set", key, cl.Pos(), "End is set by a deferred End.From / closure / assignment", "a "+nt.Obj().Name()+" node is built with a Start but its End is never set: its range ends at 0:0:0")
			for _, el := range rng.Elts {
				kv, ok := el.(*ast.KeyValueExpr)
				if !ok || exprStr(kv.Key) != "Start" {
					continue
				}
				okStart, how := false, ""
				e := ast.Unparen(kv.Value)
				if core.FieldOf(info, e) == posF {
					okStart, how = true, "p.pos"
				} else if call, ok := e.(*ast.CallExpr); ok && core.IsCallTo(info, call, "d2ast.(Position).Subtract", "d2ast.(Position).SubtractString") {
					if sel, ok := call.Fun.(*ast.SelectorExpr); ok && core.FieldOf(info, sel.X) == posF {
						if tv, ok := info.Types[call.Args[0]]; ok && tv.Value != nil {
							okStart, how = true, "p.pos moved back over the constant "+exprStr(call.Args[0])
						}
					}
				}
				c.Decide(okStart, "C02.start-source", key, kv.Pos(), how, "the node's Start is "+exprStr(kv.Value)+", not the committed position (moved back over the delimiter just consumed)")
			}
			return true
		})
		// utf16 mode
		for _, call := range core.Calls(fi.Decl.Body, true) {
			if !core.IsCallTo(info, call, "d2ast.(Position).Advance", "d2ast.(Position).Subtract", "d2ast.(Position).AdvanceString", "d2ast.(Position).SubtractString") {
				continue
			}
			mode := call.Args[len(call.Args)-1]
			c.Decide(core.FieldOf(info, mode) == utfF, "C02.utf16-mode", "mode:"+fname(fi)+":"+exprStr(call.Fun)+"("+exprStr(call.Args[0])+")", call.Pos(), "passes p.utf16Pos",
				"position arithmetic is done with mode "+exprStr(mode)+" instead of p.utf16Pos: positions are off for files read in the other mode (UTF-16 position mode counts code units)")
		}
		// writers
		ast.Inspect(fi.Decl.Body, func(n ast.Node) bool {
			as, ok := n.(*ast.AssignStmt)
			if !ok {
				return true
			}
			for _, l := range as.Lhs {
				f := core.FieldOf(info, l)
				allowed := map[*types.Var]map[string]bool{
					posF: {"read": true, "replay": true, "commit": true},
					laF:  {"read": true, "peek": true, "rewind": true},
					rdF:  {"_readRune": true},
				}
				if al, ok := allowed[f]; ok {
					c.Decide(al[fi.Obj.Name()], "C02.pos-writers", "write:"+fname(fi)+":"+exprStr(l), as.Pos(), "one of the position primitives", fi.Obj.Name()+" assigns "+exprStr(l)+" directly: positions move only through read/peek/commit/rewind/replay, which keep the look-ahead buffers and the three positions in step")
				}
			}
			return true
		})
	}
	// end tracker: where a node's End is copied from a local that follows p.pos (the unquoted-string reader keeps the
	// position of the last non-space rune), every commit of consumed input must be followed by an update of that local,
	// by the whitespace test that guards the update, or by a replay, before the reader loops or returns
	c.Rule("C02.end-tracker", "the local that tracks a node's end is updated after every commit")
	for _, fi := range c.P.Funcs(pk) {
		info := fi.Pkg.TypesInfo
		var tracker types.Object
		ast.Inspect(fi.Decl.Body, func(n ast.Node) bool {
			ds, ok := n.(*ast.DeferStmt)
			if !ok || !core.IsCallTo(info, ds.Call, "d2ast.(*Position).From") {
				return true
			}
			if u, ok := ast.Unparen(ds.Call.Args[0]).(*ast.UnaryExpr); ok && u.Op == token.AND {
				if o := core.ObjOf(info, u.X); o != nil && core.FieldOf(info, u.X) == nil {
					tracker = o
				}
			}
			return true
		})
		if tracker == nil {
			continue
		}
		isBarrier := func(n ast.Node) bool {
			switch x := n.(type) {
			case *ast.AssignStmt:
				for _, l := range x.Lhs {
					if core.ObjOf(info, l) == tracker {
						return true
					}
				}
			case *ast.CallExpr:
				if core.IsCallTo(info, x, "unicode.IsSpace", "d2parser.(*parser).replay") {
					return true
				}
			}
			return false
		}
		bodies := core.BodiesOf(fi.Decl)
		flows := map[int]*core.Flow{}
		ncommit := 0
		for _, call := range core.Calls(fi.Decl.Body, true) {
			if !core.IsCallTo(info, call, "d2parser.(*parser).commit") {
				continue
			}
			ncommit++
			bi := core.InnermostBody(bodies, call)
			if flows[bi] == nil {
				flows[bi] = core.NewFlow(fi.Pkg, bodies[bi].Block)
			}
			fl := flows[bi]
			cb, ci, ok := fl.Locate(call)
			if !ok {
				c.Fail("C02.end-tracker", "commit:"+fname(fi), call.Pos(), "commit not locatable in the flow graph")
				continue
			}
			leak := ""
			for _, ex := range fl.Exits() {
				if r, _ := fl.ReachableFromAvoiding(cb, ci, ex.Blk, ex.Idx, isBarrier); r {
					leak = "a return"
				}
			}
			// the head of the innermost enclosing loop
			var loop *ast.ForStmt
			ast.Inspect(bodies[bi].Block, func(n ast.Node) bool {
				if fs, ok := n.(*ast.ForStmt); ok && fs.Body.Pos() <= call.Pos() && call.End() <= fs.Body.End() {
					loop = fs
				}
				return true
			})
			if loop != nil && len(loop.Body.List) > 0 {
				if hb, hi, ok := fl.Locate(loop.Body.List[0]); ok {
					if r, _ := fl.ReachableFromAvoiding(cb, ci, hb, hi, isBarrier); r {
						leak = "the next loop iteration"
					}
				}
			}
			c.Decide(leak == "", "C02.end-tracker", "commit:"+fname(fi), call.Pos(), tracker.Name()+" is updated (or the whitespace test / a replay is passed) after this commit on every path", "after this commit the reader can reach "+leak+" without updating "+tracker.Name()+": the rune just consumed is part of the node's value but not of its range (the range ends one character early)")
		}
		if ncommit == 0 {
			c.Fail("C02.end-tracker", "commit:none:"+fname(fi), fi.Decl.Pos(), "no commit found in a function that tracks its end position")
		}
	}
	c.Floor("C02.end-set", 12)
	c.Floor("C02.utf16-mode", 20)
	if nlit == 0 {
		c.Fail("C02.end-set", "literals:none", token.NoPos, "no node literal found")
	}
	// symmetry
	adv, sub := mustFunc(c, "d2ast", "Position", "Advance"), mustFunc(c, "d2ast", "Position", "Subtract")
	if adv != nil && sub != nil {
		widthShape := func(fi *core.FuncInfo) string {
			info := fi.Pkg.TypesInfo
			var parts []string
			// statements that define or assign `size`
			ast.Inspect(fi.Decl.Body, func(n ast.Node) bool {
				switch s := n.(type) {
				case *ast.AssignStmt:
					for i, l := range s.Lhs {
						if id, ok := l.(*ast.Ident); ok && id.Name == "size" && i < len(s.Rhs) {
							parts = append(parts, "size"+s.Tok.String()+shapeOfExpr(info, s.Rhs[i]))
						}
					}
				case *ast.IfStmt:
					if strings.Contains(exprStr(s.Cond), "byUTF16") || strings.Contains(exprStr(s.Cond), "FFFD") {
						parts = append(parts, "if "+shapeOfExpr(info, s.Cond))
					}
				}
				return true
			})
			return strings.Join(parts, "; ")
		}
		a, s := widthShape(adv), widthShape(sub)
		c.Decide(a != "" && a == s, "C02.width-symmetry", "Advance~Subtract:size", adv.Decl.Pos(), "same width computation: "+a, fmt.Sprintf("Advance computes the rune width as {%s}, Subtract as {%s}: moving forward and back over the same rune no longer cancels, so positions drift", a, s))
		// both use size for Column and Byte
		for _, fi := range []*core.FuncInfo{adv, sub} {
			usesCol, usesByte := false, false
			ast.Inspect(fi.Decl.Body, func(n ast.Node) bool {
				if as, ok := n.(*ast.AssignStmt); ok && len(as.Lhs) == 1 && len(as.Rhs) == 1 && exprStr(as.Rhs[0]) == "size" {
					if strings.HasSuffix(exprStr(as.Lhs[0]), ".Column") {
						usesCol = true
					}
					if strings.HasSuffix(exprStr(as.Lhs[0]), ".Byte") {
						usesByte = true
					}
				}
				return true
			})
			c.Decide(usesCol && usesByte, "C02.width-symmetry", fname(fi)+":column-and-byte-by-size", fi.Decl.Pos(), "Column and Byte both move by size", "Column or Byte is not moved by the computed width")
		}
	}
}
