package props

import (
	"go/ast"
	"go/token"
	"go/types"

	"d2verif/internal/core"
)

func init() {
	register(&Prop{
		ID:       "C14",
		Title:    "Imports behave like inlining, and import cycles are always reported",
		Patterns: []string{"./d2ir"},
		Explanation: "Decides the cycle-detection and glob-forwarding shape of d2ir's import code: (1) every function that parses an import file (d2parser.Parse) and compiles it (compileMap) is dominated by a *guarded push* on the compiler's import stack whose success is tested; " +
			"(2) every append to the import stack is a guarded push — preceded by a scan of the same stack that compares each entry with the pushed path and returns on a hit; " +
			"(3) every successful push is popped on all exits (defer or explicit); (4) the file that is opened is the path that was pushed (so the cycle comparison talks about the file actually read); " +
			"(5) in the spread-import branch only glob contexts whose key HasTripleGlob are re-applied to the importing map.",
		NotCovered: "equivalence of an import with textual inlining (semantic), rebasing of links/icons, error text",
		Technique:  "static analysis: must-pass-through and guard queries on go/cfg, writer inventory of the importStack field",
		Run:        runC14,
	})
}

// pathStack returns the field when e selects a []string field of d2ir.compiler (importStack and
// any sibling stack of file paths such as the one peekImport keeps), else nil.
func pathStack(info *types.Info, e ast.Expr) *types.Var {
	v := core.FieldOf(info, e)
	if v == nil || v.Pkg() == nil || core.RelPkg(v.Pkg().Path()) != "d2ir" {
		return nil
	}
	sl, ok := v.Type().Underlying().(*types.Slice)
	if !ok {
		return nil
	}
	if b, ok := sl.Elem().Underlying().(*types.Basic); !ok || b.Kind() != types.String {
		return nil
	}
	sel := ast.Unparen(e).(*ast.SelectorExpr)
	if s, ok := info.Selections[sel]; ok {
		t := s.Recv()
		if p, ok := t.(*types.Pointer); ok {
			t = p.Elem()
		}
		if n, ok := t.(*types.Named); ok && n.Obj().Name() == "compiler" {
			return v
		}
	}
	return nil
}

func isImportStack(info *types.Info, e ast.Expr) bool { return pathStack(info, e) != nil }

type pushSite struct {
	fi      *core.FuncInfo
	assign  *ast.AssignStmt
	pushed  ast.Expr
	stack   *types.Var
	guarded bool
	why     string
}

func findPushSites(c *core.Check) (pushes []pushSite, pops map[*types.Func]bool, inlinePops map[*core.FuncInfo][]ast.Node) {
	pk := c.P.Pkg("d2ir")
	pops = map[*types.Func]bool{}
	inlinePops = map[*core.FuncInfo][]ast.Node{}
	info := pk.TypesInfo
	// a path stack is a []string field of the compiler that is popped somewhere (x = x[:len(x)-1])
	stacks := map[*types.Var]bool{}
	for _, fi := range c.P.Funcs(pk) {
		ast.Inspect(fi.Decl.Body, func(n ast.Node) bool {
			as, ok := n.(*ast.AssignStmt)
			if !ok || len(as.Lhs) != 1 || len(as.Rhs) != 1 || pathStack(info, as.Lhs[0]) == nil {
				return true
			}
			if r, ok := ast.Unparen(as.Rhs[0]).(*ast.SliceExpr); ok && pathStack(info, r.X) == pathStack(info, as.Lhs[0]) && r.Low == nil && r.High != nil {
				stacks[pathStack(info, as.Lhs[0])] = true
				pops[fi.Obj] = true
				inlinePops[fi] = append(inlinePops[fi], as)
			}
			return true
		})
	}
	if st := structField(c.P, "d2ir", "compiler", "importStack"); st != nil {
		stacks[st] = true
	} else {
		c.Broken("d2ir.compiler.importStack not found")
	}
	for _, fi := range c.P.Funcs(pk) {
		ast.Inspect(fi.Decl.Body, func(n ast.Node) bool {
			as, ok := n.(*ast.AssignStmt)
			if !ok || len(as.Lhs) != 1 || len(as.Rhs) != 1 || !stacks[pathStack(info, as.Lhs[0])] {
				return true
			}
			st := pathStack(info, as.Lhs[0])
			switch r := ast.Unparen(as.Rhs[0]).(type) {
			case *ast.CallExpr:
				if id, ok := r.Fun.(*ast.Ident); ok && id.Name == "append" && len(r.Args) == 2 && pathStack(info, r.Args[0]) == st {
					ps := pushSite{fi: fi, assign: as, pushed: r.Args[1], stack: st}
					ps.guarded, ps.why = isGuardedPush(fi, as, r.Args[1])
					pushes = append(pushes, ps)
					return true
				}
			case *ast.SliceExpr:
				if pathStack(info, r.X) == st && r.Low == nil && r.High != nil {
					return true
				}
			}
			pushes = append(pushes, pushSite{fi: fi, assign: as, stack: st, guarded: false, why: "unrecognised write to a path stack"})
			return true
		})
	}
	return
}

// isGuardedPush: a `for _, p := range <importStack>` loop dominates the push, and its body
// contains `if <pushed> == p { … return }`.
func isGuardedPush(fi *core.FuncInfo, push *ast.AssignStmt, pushed ast.Expr) (bool, string) {
	info := fi.Pkg.TypesInfo
	pobj := core.ObjOf(info, pushed)
	if pobj == nil {
		return false, "pushed value is not a plain variable"
	}
	fl := core.NewFlow(fi.Pkg, fi.Decl.Body)
	found := false
	why := "no scan of the import stack comparing entries with the pushed path (with return on a hit) dominates the push"
	ast.Inspect(fi.Decl.Body, func(n ast.Node) bool {
		rs, ok := n.(*ast.RangeStmt)
		if !ok || pathStack(info, rs.X) == nil || pathStack(info, rs.X) != pathStack(info, push.Lhs[0]) || rs.Value == nil {
			return true
		}
		vobj := core.ObjOf(info, rs.Value)
		hit := false
		ast.Inspect(rs.Body, func(m ast.Node) bool {
			is, ok := m.(*ast.IfStmt)
			if !ok {
				return true
			}
			be, ok := ast.Unparen(is.Cond).(*ast.BinaryExpr)
			if !ok || be.Op != token.EQL {
				return true
			}
			a, b := core.ObjOf(info, be.X), core.ObjOf(info, be.Y)
			if !((a == pobj && b == vobj) || (a == vobj && b == pobj)) {
				return true
			}
			if len(is.Body.List) > 0 {
				if _, ok := is.Body.List[len(is.Body.List)-1].(*ast.ReturnStmt); ok {
					hit = true
				}
			}
			return true
		})
		if !hit {
			return true
		}
		// the scan must be executed before the push on every path, with no reassignment of the pushed variable in between
		if fl.DominatesNode(rs.X, push) {
			reassigned := false
			for _, d := range defsOf(fi, pobj) {
				if d.Stmt.Pos() > rs.End() && d.Stmt.Pos() < push.Pos() {
					reassigned = true
				}
			}
			if reassigned {
				why = "the pushed variable is reassigned between the scan and the push"
			} else {
				found = true
			}
		}
		return true
	})
	return found, why
}

func runC14(c *core.Check) {
	c.Rule("C14.guarded-push", "every write to a path stack of the compiler (importStack, peekStack: []string fields) is a pop or an append dominated by a scan of the stack that returns when the pushed path is already present")
	c.Rule("C14.loader", "every function that parses and compiles an import file is dominated by a successful guarded push (call result tested, or inline)")
	c.Rule("C14.pop", "after a successful push every exit passes a pop (deferred or explicit)")
	c.Rule("C14.open-arg", "the path opened is the path pushed on the import stack")
	c.Rule("C14.spread-triple", "in compileMap's spread-import branch, glob contexts of the imported map are re-applied only under HasTripleGlob()")
	pk := c.P.Pkg("d2ir")
	if pk == nil {
		c.Broken("package d2ir not loaded")
		return
	}
	info := pk.TypesInfo
	pushes, popFns, inlinePops := findPushSites(c)
	pushFns := map[*types.Func]bool{}
	for _, ps := range pushes {
		key := "push:" + fname(ps.fi)
		if ps.guarded {
			c.Pass("C14.guarded-push", key, ps.assign.Pos(), "scan-then-append")
			pushFns[ps.fi.Obj] = true
		} else {
			c.Fail("C14.guarded-push", key, ps.assign.Pos(), ps.why)
		}
	}
	c.Floor("C14.guarded-push", 1)

	isPushCall := func(n ast.Node) bool {
		call, ok := n.(*ast.CallExpr)
		return ok && pushFns[calleeOrNil(info, call)]
	}
	isPop := func(fi *core.FuncInfo) core.NodePred {
		return func(n ast.Node) bool {
			if call, ok := n.(*ast.CallExpr); ok && popFns[calleeOrNil(info, call)] {
				return true
			}
			for _, ip := range inlinePops[fi] {
				if n == ip {
					return true
				}
			}
			return false
		}
	}

	for _, fi := range c.P.Funcs(pk) {
		parses := callsIn(fi, false, "d2parser.Parse")
		compiles := callsIn(fi, false, "d2ir.(*compiler).compileMap")
		if len(parses) == 0 || len(compiles) == 0 {
			continue
		}
		fl := core.NewFlow(fi.Pkg, fi.Decl.Body)
		for _, parse := range parses {
			key := "loader:" + fname(fi)
			// find the dominating push
			var pushNode ast.Node
			var okVar types.Object
			var pathVar types.Object
			inline := false
			for _, call := range core.Calls(fi.Decl.Body, false) {
				if isPushCall(call) && fl.DominatesNode(call, parse) {
					pushNode = call
					okVar = resultVar(fi, call, 0)
					pathVar = resultVar(fi, call, 1)
				}
			}
			if pushNode == nil {
				for _, ps := range pushes {
					if ps.fi == fi && ps.guarded && fl.DominatesNode(ps.assign, parse) {
						pushNode = ps.assign
						inline = true
						pathVar = core.ObjOf(info, ps.pushed)
					}
				}
			}
			if pushNode == nil {
				c.Fail("C14.loader", key, parse.Pos(), "this function opens, parses and compiles an import file without first pushing its path through the import-stack cycle check: a file that (transitively) imports itself recurses without bound")
				continue
			}
			tested := inline
			if !inline && okVar != nil {
				for _, g := range fl.GuardsOfNode(parse) {
					for _, a := range g.Atoms() {
						if core.ObjOf(info, a.Cond) == okVar && a.True {
							tested = true
						}
					}
				}
			}
			c.Decide(tested, "C14.loader", key, parse.Pos(), "push dominates the load and its success is tested", "the result of the import-stack push is not tested before loading the file")

			// pop on all exits after the push
			pb, pi, _ := fl.Locate(pushNode)
			popPred := isPop(fi)
			deferPop := func(n ast.Node) bool {
				if d, ok := n.(*ast.DeferStmt); ok {
					if popFns[calleeOrNil(info, d.Call)] {
						return true
					}
					if lit, ok := d.Call.Fun.(*ast.FuncLit); ok && core.Contains(lit.Body, popPred) {
						return true
					}
				}
				return popPred(n)
			}
			bad := 0
			for _, ex := range fl.Exits() {
				reach, _ := fl.ReachableFromAvoiding(pb, pi, ex.Blk, ex.Idx, deferPop)
				if !reach {
					continue
				}
				// allowed when the exit is on the failed-push branch
				failedBranch := false
				if okVar != nil {
					for _, g := range fl.GuardsOf(ex.Blk) {
						for _, a := range g.Atoms() {
							if core.ObjOf(info, a.Cond) == okVar && !a.True {
								failedBranch = true
							}
						}
					}
				}
				if !failedBranch {
					bad++
					pos := fi.Decl.End()
					if ex.Ret != nil {
						pos = ex.Ret.Pos()
					}
					c.Fail("C14.pop", "pop:"+fname(fi), pos, "an exit is reachable after a successful import-stack push without popping it: later imports of the same file are misreported as cycles")
				}
			}
			if bad == 0 {
				c.Pass("C14.pop", "pop:"+fname(fi), pushNode.Pos(), "every exit after the push passes a (deferred) pop")
			}

			// the file opened is the pushed path
			opens := 0
			for _, call := range core.Calls(fi.Decl.Body, false) {
				f := core.CalleeOf(info, call)
				if f == nil || f.Name() != "Open" || len(call.Args) != 1 {
					continue
				}
				if fn := core.FuncName(f); fn != "os.Open" && fn != "io/fs.(FS).Open" {
					continue
				}
				opens++
				c.Decide(pathVar != nil && core.ObjOf(info, call.Args[0]) == pathVar, "C14.open-arg", "open:"+fname(fi)+":"+core.FuncName(f), call.Pos(),
					"opens the pushed path", "the file opened is not the (normalised) path that went through the cycle check")
			}
			if opens == 0 {
				c.Fail("C14.open-arg", "open:"+fname(fi)+":none", fi.Decl.Pos(), "loader opens no file through os.Open/fs.FS.Open: slot unresolved")
			}
		}
	}
	c.Floor("C14.loader", 1)

	// spread branch
	cm := mustFunc(c, "d2ir", "compiler", "compileMap")
	if cm == nil {
		return
	}
	fl := core.NewFlow(cm.Pkg, cm.Decl.Body)
	ast.Inspect(cm.Decl.Body, func(n ast.Node) bool {
		rs, ok := n.(*ast.RangeStmt)
		if !ok || !core.FieldIs(info, rs.X, "d2ir", "Map", "globs") || rs.Value == nil {
			return true
		}
		vobj := core.ObjOf(info, rs.Value)
		for _, call := range core.Calls(rs.Body, false) {
			f := core.CalleeOf(info, call)
			if f == nil || (f.Name() != "compileKey" && f.Name() != "ensureGlobContext") {
				continue
			}
			guarded := false
			for _, g := range fl.GuardsOfNode(call) {
				for _, a := range g.Atoms() {
					if cc, ok := ast.Unparen(a.Cond).(*ast.CallExpr); ok && a.True && core.IsCallTo(info, cc, "d2ast.(*Key).HasTripleGlob") {
						if rootIdent(info, cc.Fun) == vobj {
							guarded = true
						}
					}
				}
			}
			c.Decide(guarded, "C14.spread-triple", "spread:"+f.Name(), call.Pos(), "guarded by HasTripleGlob() of the iterated glob context", "a glob context of the imported file is re-applied to the importing map without the triple-glob test")
		}
		return true
	})
	c.Floor("C14.spread-triple", 2)
}

func calleeOrNil(info *types.Info, call *ast.CallExpr) *types.Func {
	f := core.CalleeOf(info, call)
	if f == nil {
		return nil
	}
	return f.Origin()
}

// rootIdent returns the object of the left-most identifier of a selector/call chain.
func rootIdent(info *types.Info, e ast.Expr) types.Object {
	for {
		switch x := ast.Unparen(e).(type) {
		case *ast.SelectorExpr:
			e = x.X
		case *ast.CallExpr:
			e = x.Fun
		case *ast.IndexExpr:
			e = x.X
		case *ast.StarExpr:
			e = x.X
		case *ast.Ident:
			return core.ObjOf(info, x)
		default:
			return nil
		}
	}
}
