package props

import (
	"go/ast"
	"go/types"
	"sort"

	"golang.org/x/tools/go/packages"

	"d2verif/internal/core"
)

// E3 — type switches over sealed interfaces (interfaces of d2ast/d2ir with an unexported method).

type sealedSwitch struct {
	fi         *core.FuncInfo
	sw         *ast.TypeSwitchStmt
	iface      *types.Named
	uncovered  []string
	hasDefault bool
	// variables declared without initialiser before the switch, assigned in some arm, and used afterwards
	lateVars []string
}

func isSealed(t types.Type) *types.Named {
	nt, ok := t.(*types.Named)
	if !ok {
		return nil
	}
	it, ok := nt.Underlying().(*types.Interface)
	if !ok || nt.Obj().Pkg() == nil {
		return nil
	}
	rel := core.RelPkg(nt.Obj().Pkg().Path())
	if rel != "d2ast" && rel != "d2ir" {
		return nil
	}
	for i := 0; i < it.NumMethods(); i++ {
		if !it.Method(i).Exported() {
			return nt
		}
	}
	return nil
}

// implementers of a sealed interface: named non-interface types of the declaring package.
func implementers(nt *types.Named) []types.Type {
	it := nt.Underlying().(*types.Interface)
	var out []types.Type
	sc := nt.Obj().Pkg().Scope()
	for _, name := range sc.Names() {
		tn, ok := sc.Lookup(name).(*types.TypeName)
		if !ok || tn.IsAlias() {
			continue
		}
		if _, isIface := tn.Type().Underlying().(*types.Interface); isIface {
			continue
		}
		if types.Implements(types.NewPointer(tn.Type()), it) {
			out = append(out, types.NewPointer(tn.Type()))
		} else if types.Implements(tn.Type(), it) {
			out = append(out, tn.Type())
		}
	}
	return out
}

func sealedSwitchesIn(p *core.Prog, pk *packages.Package) []sealedSwitch {
	info := pk.TypesInfo
	var out []sealedSwitch
	for _, fi := range p.Funcs(pk) {
		ast.Inspect(fi.Decl.Body, func(n ast.Node) bool {
			blk, ok := n.(*ast.BlockStmt)
			if !ok {
				return true
			}
			for si, st := range blk.List {
				sw, ok := st.(*ast.TypeSwitchStmt)
				if !ok {
					continue
				}
				var subj ast.Expr
				switch a := sw.Assign.(type) {
				case *ast.AssignStmt:
					subj = a.Rhs[0].(*ast.TypeAssertExpr).X
				case *ast.ExprStmt:
					subj = a.X.(*ast.TypeAssertExpr).X
				}
				nt := isSealed(info.TypeOf(subj))
				if nt == nil {
					continue
				}
				ss := sealedSwitch{fi: fi, sw: sw, iface: nt}
				var caseTypes []types.Type
				for _, cl := range sw.Body.List {
					cc := cl.(*ast.CaseClause)
					if cc.List == nil {
						ss.hasDefault = true
					}
					for _, e := range cc.List {
						if t := info.TypeOf(e); t != nil {
							caseTypes = append(caseTypes, t)
						}
					}
				}
				for _, impl := range implementers(nt) {
					covered := false
					for _, ct := range caseTypes {
						if types.Identical(ct, impl) {
							covered = true
						} else if it, ok := ct.Underlying().(*types.Interface); ok && types.Implements(impl, it) {
							covered = true
						}
					}
					if !covered {
						ss.uncovered = append(ss.uncovered, types.TypeString(impl, func(p *types.Package) string { return p.Name() }))
					}
				}
				sort.Strings(ss.uncovered)
				// late-initialised variables: `var v T` among the preceding statements of the same block
				for _, prev := range blk.List[:si] {
					ds, ok := prev.(*ast.DeclStmt)
					if !ok {
						continue
					}
					gd, ok := ds.Decl.(*ast.GenDecl)
					if !ok {
						continue
					}
					for _, sp := range gd.Specs {
						vs, ok := sp.(*ast.ValueSpec)
						if !ok || len(vs.Values) != 0 {
							continue
						}
						for _, nm := range vs.Names {
							o := info.Defs[nm]
							assigned, usedAfter := false, false
							ast.Inspect(sw.Body, func(m ast.Node) bool {
								if as, ok := m.(*ast.AssignStmt); ok {
									for _, l := range as.Lhs {
										if core.ObjOf(info, l) == o {
											assigned = true
										}
									}
								}
								return true
							})
							for _, later := range blk.List[si+1:] {
								ast.Inspect(later, func(m ast.Node) bool {
									if id, ok := m.(*ast.Ident); ok && info.Uses[id] == o {
										usedAfter = true
									}
									return true
								})
							}
							// only nil-able variables whose value is consumed (dereferenced or stored) without a nil test
							switch o.Type().Underlying().(type) {
							case *types.Pointer, *types.Interface:
							default:
								usedAfter = false
							}
							if assigned && usedAfter {
								unguarded := false
								fl := core.NewFlow(pk, fi.Decl.Body)
								for _, later := range blk.List[si+1:] {
									ast.Inspect(later, func(m ast.Node) bool {
										switch x := m.(type) {
										case *ast.SelectorExpr:
											if core.ObjOf(info, x.X) == o {
												if ok, _ := guardedNonNil(fl, info, x, x.X); !ok {
													unguarded = true
												}
											}
										case *ast.CallExpr:
											if id, ok := x.Fun.(*ast.Ident); ok && id.Name == "append" {
												for _, a := range x.Args[1:] {
													if core.ObjOf(info, a) == o {
														if ok, _ := guardedNonNil(fl, info, x, a); !ok {
															unguarded = true
														}
													}
												}
											}
										}
										return true
									})
								}
								if unguarded {
									ss.lateVars = append(ss.lateVars, nm.Name)
								}
							}
						}
					}
				}
				out = append(out, ss)
			}
			return true
		})
	}
	return out
}
