package props

import (
	"fmt"
	"go/types"
	"strings"

	"golang.org/x/tools/go/ssa"

	"d2verif/internal/core"
)

func init() {
	register(&Prop{
		ID:       "C34",
		Title:    "Multi-board output stays inside the output location, one file per board",
		Patterns: []string{"./d2cli", "./d2target", "./lib/pptx", "./lib/pdf"},
		Explanation: "Decides path-injection clauses over d2cli: (1) no user-controlled string (board names: d2target.Diagram.Name and anything derived from it) reaches a file-system path sink (os.RemoveAll, os.MkdirAll, the Write helper, os.Create/WriteFile, ReadFile of outputs) unless it passed a function that replaces path separators and singles out the '..' component, as computed from that function's own constants; " +
			"(2) the folder that is removed before a board with sub-boards is written is that board's own folder: the os.RemoveAll argument depends on the board's name whenever the board has one (it is derived after the name was joined), never on a path computed before; (3) every write of a rendered board in d2cli goes through the Write helper (shared with C48).",
		NotCovered: "distinctness of file names for colliding board names (index, names differing only after a dot or by case), which needs reasoning about string values; symlinks",
		Technique:  "static analysis: backward taint slicing on go/ssa with path-sanitiser coverage sets; dependence query on the RemoveAll argument",
		Run:        runC34,
	})
}

func pathTaintConfig() *taintConfig {
	cfg := xmlTaintConfig()
	cfg.sanitizers = map[string]bool{"strconv.Itoa": true, "strconv.FormatInt": true}
	cfg.loopEscapers = true
	cfg.passthrough["path/filepath.Join"] = []int{0, 1, 2, 3}
	cfg.passthrough["path.Join"] = []int{0, 1, 2, 3}
	cfg.passthrough["path/filepath.Dir"] = []int{0}
	cfg.passthrough["path/filepath.Clean"] = []int{0}
	cfg.passthrough["path/filepath.Ext"] = []int{0}
	cfg.passthrough["path/filepath.Base"] = []int{0}
	cfg.passthrough["path/filepath.Abs"] = []int{0}
	cfg.fieldKinds = map[string]Kind{}
	cfg.modelType = func(t *types.Named) bool {
		return t.Obj().Pkg() != nil && core.RelPkg(t.Obj().Pkg().Path()) == "d2target" && t.Obj().Name() == "Diagram"
	}
	return cfg
}

var pathSinks = map[string]int{ // callee → index of the path argument
	"os.RemoveAll": 0, "os.Remove": 0, "os.MkdirAll": 0, "os.Mkdir": 0, "os.Create": 0, "os.WriteFile": 0, "os.OpenFile": 0, "os.Rename": 1,
	"oss.terrastruct.com/d2/d2cli.Write": 1,
	"(*oss.terrastruct.com/util-go/xmain.State).WritePath":       0,
	"(*oss.terrastruct.com/util-go/xmain.State).AtomicWritePath": 0,
}

func runC34(c *core.Check) {
	c.Rule("C34.path", "no board name reaches a file-system path sink without a sanitiser that replaces separators and handles '..'")
	c.Rule("C34.own-folder", "os.RemoveAll is applied to the board's own folder: its argument depends on the board name")
	e := newTaintEngine(c.P, pathTaintConfig(), []string{"d2cli"})
	required := escSlash | escDotDot
	nsink := 0
	for _, f := range e.funcs {
		for _, b := range f.Blocks {
			for _, in := range b.Instrs {
				ci, ok := in.(ssa.CallInstruction)
				if !ok {
					continue
				}
				cal := ci.Common().StaticCallee()
				if cal == nil {
					continue
				}
				idx, isSink := pathSinks[cal.String()]
				if !isSink || idx >= len(ci.Common().Args) {
					continue
				}
				nsink++
				arg := ci.Common().Args[idx]
				k := e.resolve(f, e.kind(arg, 0), 0)
				fname := strings.TrimPrefix(f.String(), core.Mod+"/")
				key := fmt.Sprintf("pathsink:%s→%s", fname, strings.TrimPrefix(cal.String(), core.Mod+"/"))
				switch {
				case k.k == KTainted && required&^k.esc != 0:
					for _, src := range k.srcs {
						c.Fail("C34.path", key+"←"+src, ci.Pos(), fmt.Sprintf("the path contains user-controlled %s with [%s] not neutralised: a board named \"../x\" (or \"..\") makes this call create, overwrite or delete outside the output location", src, pathEscNames(required&^k.esc)))
					}
				case k.k == KTainted:
					c.Pass("C34.path", key, ci.Pos(), "board name neutralised ("+pathEscNames(k.esc)+") before it reaches the path")
				default:
					c.PassTrivial("C34.path", key, ci.Pos(), k.k.String())
				}
				if cal.String() == "os.RemoveAll" {
					// the removed folder must be the board's own: its path depends on the board name
					// judged on the unresolved (per-invocation) kind: the name of *this* board, not a name that
					// arrived through the parent's path parameter
					dep := false
					for _, s := range e.kind(arg, 0).srcs {
						if s == "d2target.Diagram.Name" {
							dep = true
						}
					}
					c.Decide(dep, "C34.own-folder", "removeall:"+fname, ci.Pos(), "RemoveAll target is derived from the path that includes the board's name",
						"the folder removed before writing a board with sub-boards does not depend on the board's name: it is a path computed before the name was joined (the parent's folder), so earlier-rendered sibling boards are deleted")
				}
			}
		}
	}
	c.Note("path sinks in d2cli: %d", nsink)
	c.Floor("C34.path", 5)
	c.Floor("C34.own-folder", 1)
}

func pathEscNames(m uint8) string {
	var out []string
	if m&escSlash != 0 {
		out = append(out, "/")
	}
	if m&escDotDot != 0 {
		out = append(out, "..")
	}
	return strings.Join(out, " ")
}
