package props

import (
	"fmt"
	"go/ast"
	"go/token"
	"go/types"
	"strings"

	"golang.org/x/tools/go/ssa"

	"d2verif/internal/core"
)

func init() {
	register(&Prop{
		ID:       "C17",
		Title:    "Layout succeeds with finite geometry for every compilable diagram",
		Patterns: []string{"./d2layouts/...", "./d2ast", "./d2renderers/d2latex", "./d2renderers/d2sketch", "./d2renderers/d2svg", "./lib/jsrunner", "./d2graph", "./d2target", "./d2themes", "./lib/svg", "./lib/color", "./lib/textmeasure"},
		Explanation: "Decides two narrow clauses: (1) no user text is evaluated as code by the JavaScript bridges — every operand of every format call whose result reaches JSRunner.RunString (dagre, ELK, MathJax, rough.js) is judged in its JavaScript quoting context (template literal, double/single-quoted string, bare): a value derived from a user-controlled d2graph/d2target field is accepted only if it is numeric, JSON-encoded in a bare position, a mapper id, or has passed escapers covering that context's metacharacters (\\ ` $ for template literals; \\ \" newline for double-quoted strings), as computed from the escaper's own replace/compare constants; " +
			"(2) every success return of LayoutNested passes the object-position validation, and DefaultRouter/engine errors are propagated (no dropped error from the layout callbacks).",
		NotCovered: "that the engines succeed, finiteness of the geometry they return, renderability; dereferences of absent values in the layout packages (see C07's nil rules, which stop at the compile path)",
		Technique:  "static analysis: backward taint slicing on go/ssa with per-verb JavaScript quoting context and escaper coverage sets; must-pass-through on go/cfg",
		Run:        runC17,
	})
}

func jsTaintConfig() *taintConfig {
	cfg := xmlTaintConfig()
	cfg.sanitizers = map[string]bool{
		"strconv.Itoa": true, "strconv.FormatFloat": true, "strconv.FormatInt": true, "strconv.FormatBool": true,
		"encoding/json.Marshal": true, "encoding/json.MarshalIndent": true,
		"(*encoding/base64.Encoding).EncodeToString": true, "encoding/hex.EncodeToString": true,
	}
	cfg.loopEscapers = true
	cfg.fieldKinds["d2graph.Object.Children"] = KConst
	cfg.modelType = func(t *types.Named) bool {
		if t.Obj().Pkg() == nil {
			return false
		}
		switch core.RelPkg(t.Obj().Pkg().Path()) {
		case "d2target", "d2graph":
			return true
		case "lib/color":
			return t.Obj().Name() == "Gradient" || t.Obj().Name() == "ColorStop"
		}
		return false
	}
	return cfg
}

type jsCtx int

const (
	jsBare jsCtx = iota
	jsTemplate
	jsDQ
	jsSQ
)

func (c jsCtx) String() string { return [...]string{"bare", "template literal", "double-quoted string", "single-quoted string"}[c] }

func (c jsCtx) required() uint8 {
	switch c {
	case jsTemplate:
		return escBackslash | escBacktick | escDollar
	case jsDQ:
		return escBackslash | escDQuote | escNewline
	case jsSQ:
		return escBackslash | escSQuote | escNewline
	}
	return 0xff
}

// jsVerbContexts: quoting context of each verb of a constant JavaScript format.
func jsVerbContexts(format string) []jsCtx {
	var out []jsCtx
	quote := byte(0)
	for i := 0; i < len(format); i++ {
		ch := format[i]
		switch {
		case ch == '%':
			j := i + 1
			for j < len(format) && strings.IndexByte("+-# 0123456789.*[]", format[j]) >= 0 {
				j++
			}
			if j < len(format) && format[j] != '%' {
				switch quote {
				case '`':
					out = append(out, jsTemplate)
				case '"':
					out = append(out, jsDQ)
				case '\'':
					out = append(out, jsSQ)
				default:
					out = append(out, jsBare)
				}
			}
			i = j
		case ch == '\\' && quote != 0:
			i++
		case quote != 0:
			if ch == quote {
				quote = 0
			}
		case ch == '`' || ch == '"' || ch == '\'':
			quote = ch
		}
	}
	return out
}

func escNames(m uint8) string {
	var out []string
	for _, p := range []struct {
		b uint8
		n string
	}{{escBackslash, `\`}, {escBacktick, "`"}, {escDollar, "${"}, {escDQuote, `"`}, {escNewline, `\n`}, {escSQuote, "'"}} {
		if m&p.b != 0 {
			out = append(out, p.n)
		}
	}
	return strings.Join(out, " ")
}

func runC17(c *core.Check) {
	c.Rule("C17.js", "operands spliced into JavaScript that reaches RunString are numeric, JSON, or escaped for their quoting context")
	c.Rule("C17.validate", "LayoutNested: every success return passes validateObjectPositions; layout callback errors are returned")
	c.Rule("C17.finite", "the reference box of constant-near placement resets every ±Inf accumulator pair unconditionally (an all-near board must not be placed at ±Inf)")
	checkInfReset(c, "C17.finite")
	runJSClause(c, "C17.js", []string{"d2layouts/d2dagrelayout", "d2layouts/d2elklayout", "d2renderers/d2latex", "d2renderers/d2sketch", "lib/jsrunner", "d2graph", "d2renderers/d2svg", "d2target", "d2layouts", "d2themes", "lib/svg", "lib/color"}, nil, 15, 20)

	// (2) validation on success paths of LayoutNested
	ln := mustFunc(c, "d2layouts", "", "LayoutNested")
	if ln != nil {
		info := ln.Pkg.TypesInfo
		fl := core.NewFlow(ln.Pkg, ln.Decl.Body)
		n := 0
		for _, ex := range fl.Exits() {
			if ex.Ret == nil || len(ex.Ret.Results) != 1 {
				continue
			}
			// error paths: the result is a constructed error, or the return is guarded by `<err> != nil`
			if _, isCall := ast.Unparen(ex.Ret.Results[0]).(*ast.CallExpr); isCall {
				continue
			}
			errPath := false
			for _, g := range fl.GuardsOf(ex.Blk) {
				for _, a := range g.Atoms() {
					if x, nonNil, ok := a.NilTest(info); ok && nonNil {
						if t := info.TypeOf(x); t != nil && types.TypeString(t, nil) == "error" {
							errPath = true
						}
					}
				}
			}
			if errPath {
				continue
			}
			n++
			ok, _ := fl.MustPassBefore(ex.Blk, ex.Idx, func(nd ast.Node) bool {
				call, isCall := nd.(*ast.CallExpr)
				if !isCall {
					return false
				}
				f := core.CalleeOf(info, call)
				return f != nil && f.Name() == "validateObjectPositions"
			})
			c.Decide(ok, "C17.validate", "LayoutNested:validate≺success-return", ex.Ret.Pos(), "validation on the success path", "LayoutNested can return success without validating object positions")
		}
		if n == 0 {
			c.Fail("C17.validate", "LayoutNested:no-success-return", ln.Decl.Pos(), "no success return found")
		}
	}
}

// runJSClause judges every format operand that reaches JSRunner.RunString in the given scope.
// only (optional) restricts the RunString call sites by the package of the calling function.
func runJSClause(c *core.Check, rule string, scope []string, only map[string]bool, minRun, minOps int) {
	cfg := jsTaintConfig()
	type rep struct {
		fn      *ssa.Function
		pos     token.Pos
		format  string
		idx     int
		ctx     jsCtx
		k       SK
	}
	var reps []rep
	var e *taintEngine
	seenCall := map[*ssa.CallCommon]bool{}
	inOperand := 0
	cfg.onSprintf = func(fn *ssa.Function, cc *ssa.CallCommon, format string, ops []ssa.Value, pos token.Pos) {
		if seenCall[cc] || inOperand > 0 {
			return // formats nested inside an operand of a JavaScript format build data, not code
		}
		seenCall[cc] = true
		inOperand++
		defer func() { inOperand-- }()
		ctxs := jsVerbContexts(format)
		verbs := verbKinds(format)
		for i, o := range ops {
			if i < len(verbs) && strings.IndexByte("dfegxXobcUtp", verbs[i]) >= 0 {
				continue
			}
			if isNumericType(o.Type()) {
				continue
			}
			ctx := jsBare
			if i < len(ctxs) {
				ctx = ctxs[i]
			}
			k := e.resolve(fn, e.kind(o, 0), 0)
			reps = append(reps, rep{fn, pos, format, i, ctx, k})
		}
	}
	e = newTaintEngine(c.P, cfg, scope)
	// evaluate every RunString argument: the hook judges the formats the slice passes through
	nrun := 0
	for _, f := range e.funcs {
		for _, b := range f.Blocks {
			for _, in := range b.Instrs {
				ci, ok := in.(ssa.CallInstruction)
				if !ok {
					continue
				}
				cc := ci.Common()
				isRun := false
				if cc.IsInvoke() && cc.Method.Name() == "RunString" {
					isRun = true
				} else if cal := cc.StaticCallee(); cal != nil && cal.Name() == "RunString" {
					isRun = true
				}
				if !isRun || len(cc.Args) == 0 {
					continue
				}
				if f.Pkg != nil && core.RelPkg(f.Pkg.Pkg.Path()) == "lib/jsrunner" {
					continue
				}
				if only != nil && (f.Pkg == nil || !only[core.RelPkg(f.Pkg.Pkg.Path())]) {
					continue
				}
				nrun++
				arg := cc.Args[len(cc.Args)-1]
				k := e.resolve(f, e.kind(arg, 0), 0)
				fname := strings.TrimPrefix(f.String(), core.Mod+"/")
				key := "runstring:" + fname
				// the script as a whole: a tainted script that did not go through a judged format is spliced by concatenation
				if _, isConst := arg.(*ssa.Const); isConst {
					c.PassTrivial(rule, key, ci.Pos(), "constant script")
				} else if k.k == KTainted && len(reps) == 0 {
					c.Fail(rule, key, ci.Pos(), "script is built from user text without a format the checker can judge: "+k.why)
				} else {
					c.Pass(rule, key, ci.Pos(), "script operands judged at their format calls ("+k.k.String()+")")
				}
			}
		}
	}
	for _, r := range reps {
		fname := "?"
		if r.fn != nil {
			fname = strings.TrimPrefix(r.fn.String(), core.Mod+"/")
		}
		key := fmt.Sprintf("js:%s:%s:operand %d", fname, shorten(r.format), r.idx)
		switch {
		case r.k.k == KTainted && r.ctx == jsBare:
			for _, src := range r.k.srcs {
				c.Fail(rule, key+"←"+src, r.pos, fmt.Sprintf("user-controlled %s is spliced into JavaScript source outside any string literal: it is evaluated as code", src))
			}
		case r.k.k == KTainted && r.ctx.required()&^r.k.esc != 0:
			srcs := r.k.srcs
			if len(srcs) == 0 {
				srcs = []string{"?"}
			}
			for _, src := range srcs {
				c.Fail(rule, key+"←"+src, r.pos, fmt.Sprintf("user-controlled %s is spliced into a JavaScript %s with only [%s] escaped; [%s] can terminate the literal or start an interpolation, so the text is evaluated as code (syntax error, hang, or arbitrary JS in the VM)",
					src, r.ctx, escNames(r.k.esc), escNames(r.ctx.required()&^r.k.esc)))
			}
		case r.k.k == KTainted:
			c.Pass(rule, key, r.pos, fmt.Sprintf("user text escaped for a %s: [%s]", r.ctx, escNames(r.k.esc)))
		case r.k.k == KUnknown:
			c.PassTrivial(rule, key, r.pos, "unclassified: "+r.k.why)
		default:
			c.Pass(rule, key, r.pos, r.k.k.String()+" in "+r.ctx.String())
		}
	}
	c.Note("RunString call sites outside lib/jsrunner: %d; format operands judged: %d", nrun, len(reps))
	if nrun < minRun {
		c.Fail("floor", "floor:"+rule+".runstring", token.NoPos, fmt.Sprintf("only %d RunString call sites found", nrun))
	}
	c.Floor(rule, minOps)
}

