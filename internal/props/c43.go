package props

import (
	"go/ast"
	"go/types"

	"d2verif/internal/core"
)

func init() {
	register(&Prop{
		ID:       "C43",
		Title:    "Playground URL encoding round-trips every script",
		Patterns: []string{"./lib/urlenc"},
		Explanation: "Decides the codec-pairing shape of lib/urlenc: (1) Encode and Decode use the same base64 encoding object and it is one of the URL-safe alphabets; " +
			"(2) the flate writer and reader are constructed with the same preset dictionary; (3) in Encode the compressor is closed (not deferred, not merely flushed) before the buffer is read; " +
			"(4) the data path parameter→compressor→buffer→base64→result (and its inverse in Decode) passes only through identity-preserving adapters (readers, buffers, conversions) — any other transformation of the script is reported.",
		NotCovered: "round-trip equality itself (rests on compress/flate and encoding/base64 being inverse pairs: trusted base); error text",
		Trust:      []string{"compress/flate and encoding/base64 are correct inverse pairs for equal parameters"},
		Technique:  "static analysis: sibling-function agreement + dominance on the CFG + AST def-use identity chains",
		Run:        runC43,
	})
}

// identity adapters: calls whose (first) argument's bytes are carried unchanged.
var identityCalls = map[string]bool{
	"strings.NewReader": true, "bytes.NewReader": true, "bytes.NewBufferString": true, "bytes.NewBuffer": true,
	"io.NopCloser": true, "bufio.NewReader": true, "bufio.NewWriter": true,
}

func runC43(c *core.Check) {
	c.Rule("C43.pair", "Encode/Decode agree on the base64 alphabet (URL-safe) and the flate dictionary")
	c.Rule("C43.close", "flate writer Close() dominates the read of the compressed buffer")
	c.Rule("C43.identity", "script bytes flow param→codec→result through identity adapters only")
	enc := mustFunc(c, "lib/urlenc", "", "Encode")
	dec := mustFunc(c, "lib/urlenc", "", "Decode")
	if enc == nil || dec == nil {
		return
	}
	einfo, dinfo := enc.Pkg.TypesInfo, dec.Pkg.TypesInfo

	// (1) base64 alphabet
	encCalls := callsIn(enc, false, "encoding/base64.(*Encoding).EncodeToString")
	decCalls := callsIn(dec, false, "encoding/base64.(*Encoding).DecodeString")
	if len(encCalls) != 1 || len(decCalls) != 1 {
		c.Fail("C43.pair", "base64:shape", enc.Decl.Pos(), "expected one EncodeToString in Encode and one DecodeString in Decode")
		return
	}
	eobj := core.ObjOf(einfo, encCalls[0].Fun.(*ast.SelectorExpr).X)
	if sel, ok := encCalls[0].Fun.(*ast.SelectorExpr).X.(*ast.SelectorExpr); ok {
		eobj = einfo.Uses[sel.Sel]
	}
	dobj := core.ObjOf(dinfo, decCalls[0].Fun.(*ast.SelectorExpr).X)
	if sel, ok := decCalls[0].Fun.(*ast.SelectorExpr).X.(*ast.SelectorExpr); ok {
		dobj = dinfo.Uses[sel.Sel]
	}
	same := eobj != nil && eobj == dobj
	c.Decide(same, "C43.pair", "base64:same-encoding-object", decCalls[0].Pos(), "both sides use "+objName(eobj), "Encode uses "+objName(eobj)+" but Decode uses "+objName(dobj))
	urlsafe := eobj != nil && eobj.Pkg() != nil && eobj.Pkg().Path() == "encoding/base64" && (eobj.Name() == "URLEncoding" || eobj.Name() == "RawURLEncoding")
	c.Decide(urlsafe, "C43.pair", "base64:url-safe-alphabet", encCalls[0].Pos(), objName(eobj), "the encoding is not one of base64.URLEncoding/RawURLEncoding: output may contain '+' or '/'")

	// (2) flate dictionary
	wcalls := callsIn(enc, false, "compress/flate.NewWriterDict", "compress/flate.NewWriter")
	rcalls := callsIn(dec, false, "compress/flate.NewReaderDict", "compress/flate.NewReader")
	if len(wcalls) != 1 || len(rcalls) != 1 {
		c.Fail("C43.pair", "flate:shape", enc.Decl.Pos(), "expected one flate writer in Encode and one flate reader in Decode")
		return
	}
	wd, rd := "nil", "nil"
	if len(wcalls[0].Args) == 3 {
		wd = exprStr(wcalls[0].Args[2])
	}
	if len(rcalls[0].Args) == 2 {
		rd = exprStr(rcalls[0].Args[1])
	}
	c.Decide(wd == rd, "C43.pair", "flate:same-dictionary", rcalls[0].Pos(), "dict="+wd, "writer dictionary "+wd+" ≠ reader dictionary "+rd)

	// (3) Close before read
	zw := resultVar(enc, wcalls[0], 1)
	if zw == nil {
		zw = resultVar(enc, wcalls[0], 0)
	}
	var closeCall *ast.CallExpr
	for _, call := range callsIn(enc, false, "compress/flate.(*Writer).Close") {
		if core.ObjOf(einfo, call.Fun.(*ast.SelectorExpr).X) == zw {
			closeCall = call
		}
	}
	fl := core.NewFlow(enc.Pkg, enc.Decl.Body)
	okClose := false
	if closeCall != nil {
		// the Close must be an ordinary statement (not deferred) dominating the EncodeToString call
		deferred := false
		ast.Inspect(enc.Decl.Body, func(n ast.Node) bool {
			if d, ok := n.(*ast.DeferStmt); ok && d.Call == closeCall {
				deferred = true
			}
			return true
		})
		okClose = !deferred && fl.DominatesNode(closeCall, encCalls[0])
	}
	c.Decide(okClose, "C43.close", "Encode:Close≺EncodeToString", encCalls[0].Pos(), "zw.Close() dominates the buffer read", "the compressed buffer is read before the flate writer is closed (final block missing → Decode fails or truncates)")

	// (4) identity chains
	// Encode: writes into zw come from the parameter
	param := enc.Obj.Type().(*types.Signature).Params().At(0)
	fed := false
	for _, call := range core.Calls(enc.Decl.Body, false) {
		f := core.CalleeOf(einfo, call)
		if f == nil {
			continue
		}
		var src ast.Expr
		switch core.FuncName(f) {
		case "io.Copy":
			if core.ObjOf(einfo, call.Args[0]) == zw {
				src = call.Args[1]
			}
		case "io.WriteString":
			if core.ObjOf(einfo, call.Args[0]) == zw {
				src = call.Args[1]
			}
		case "compress/flate.(*Writer).Write":
			if core.ObjOf(einfo, call.Fun.(*ast.SelectorExpr).X) == zw {
				src = call.Args[0]
			}
		}
		if src == nil {
			continue
		}
		root, why := identityRoot(enc, src, 0)
		ok := root == types.Object(param)
		if ok {
			fed = true
		}
		c.Decide(ok, "C43.identity", "Encode:compressor-input", call.Pos(), "input is the parameter through identity adapters", "compressor input is not the unmodified script: "+why)
	}
	if !fed {
		c.Fail("C43.identity", "Encode:compressor-input:none", enc.Decl.Pos(), "no write of the script parameter into the compressor found")
	}
	// buffer identity: NewWriter's first arg and EncodeToString(b.Bytes())
	bufW, _ := identityRoot(enc, wcalls[0].Args[0], 0)
	var bufR types.Object
	if bc, ok := ast.Unparen(encCalls[0].Args[0]).(*ast.CallExpr); ok && core.IsCallTo(einfo, bc, "bytes.(*Buffer).Bytes") {
		bufR, _ = identityRoot(enc, bc.Fun.(*ast.SelectorExpr).X, 0)
	}
	c.Decide(bufW != nil && bufW == bufR, "C43.identity", "Encode:buffer", encCalls[0].Pos(), "the buffer the compressor writes is the one encoded", "EncodeToString does not read exactly the bytes of the compressor's buffer")
	// every non-error return value is the EncodeToString result
	for _, ex := range fl.Exits() {
		if ex.Ret == nil || len(ex.Ret.Results) != 2 || !core.IsNil(einfo, ex.Ret.Results[1]) {
			continue
		}
		root, why := identityRootExpr(enc, ex.Ret.Results[0], 0)
		c.Decide(root == ast.Expr(encCalls[0]), "C43.identity", "Encode:result", ex.Ret.Pos(), "result is the EncodeToString value", "success result is not the base64 text itself: "+why)
	}

	// Decode
	dparam := dec.Obj.Type().(*types.Signature).Params().At(0)
	root, why := identityRoot(dec, decCalls[0].Args[0], 0)
	c.Decide(root == types.Object(dparam), "C43.identity", "Decode:base64-input", decCalls[0].Pos(), "DecodeString(parameter)", "DecodeString input is not the unmodified parameter: "+why)
	rr, why2 := identityRootExpr(dec, rcalls[0].Args[0], 0)
	c.Decide(rr == ast.Expr(decCalls[0]), "C43.identity", "Decode:inflate-input", rcalls[0].Pos(), "inflater reads the decoded bytes", "inflater input is not the DecodeString result: "+why2)
	zr := resultVar(dec, rcalls[0], 0)
	var dstBuf types.Object
	for _, call := range callsIn(dec, false, "io.Copy", "io.ReadAll") {
		var src ast.Expr
		if len(call.Args) == 2 {
			src = call.Args[1]
			dstBuf, _ = identityRoot(dec, call.Args[0], 0)
		} else {
			src = call.Args[0]
		}
		if core.ObjOf(dinfo, src) != zr {
			c.Fail("C43.identity", "Decode:copy-source", call.Pos(), "copy source is not the inflater")
		}
	}
	dfl := core.NewFlow(dec.Pkg, dec.Decl.Body)
	nsucc := 0
	for _, ex := range dfl.Exits() {
		if ex.Ret == nil || len(ex.Ret.Results) != 2 || !core.IsNil(dinfo, ex.Ret.Results[1]) {
			continue
		}
		if tv, ok := dinfo.Types[ex.Ret.Results[0]]; ok && tv.Value != nil {
			// constant result on a nil-error return: the `return "", nil` after a failed zr.Close (unreachable
			// after a complete read: flate's Close reports only non-EOF errors); not a data-path return.
			c.Except("C43.identity", "Decode:const-result-with-nil-error", ex.Ret.Pos(), "constant result returned with nil error on the reader-Close error branch; Close cannot fail after io.Copy reached EOF")
			continue
		}
		nsucc++
		okRes := false
		if sc, ok := ast.Unparen(ex.Ret.Results[0]).(*ast.CallExpr); ok && core.IsCallTo(dinfo, sc, "bytes.(*Buffer).String") {
			b, _ := identityRoot(dec, sc.Fun.(*ast.SelectorExpr).X, 0)
			okRes = b != nil && b == dstBuf
		}
		c.Decide(okRes, "C43.identity", "Decode:result", ex.Ret.Pos(), "result is the inflated buffer's String()", "success result is not exactly the inflated bytes")
	}
	if nsucc == 0 {
		c.Fail("C43.identity", "Decode:result:none", dec.Decl.Pos(), "no data-carrying success return found")
	}
}

func objName(o types.Object) string {
	if o == nil {
		return "<unresolved>"
	}
	if o.Pkg() != nil {
		return o.Pkg().Path() + "." + o.Name()
	}
	return o.Name()
}

// identityRoot follows e backwards through single-assignment locals, address-of, conversions and
// identity adapters to a root object (parameter or the variable that holds the storage).
func identityRoot(fi *core.FuncInfo, e ast.Expr, depth int) (types.Object, string) {
	info := fi.Pkg.TypesInfo
	e = ast.Unparen(e)
	if depth > 10 {
		return nil, "chain too deep"
	}
	switch x := e.(type) {
	case *ast.UnaryExpr:
		if x.Op.String() == "&" {
			return identityRoot(fi, x.X, depth+1)
		}
	case *ast.Ident:
		obj := core.ObjOf(info, x)
		if obj == nil {
			return nil, "unresolved identifier " + x.Name
		}
		if isParam(fi, obj) {
			return obj, ""
		}
		defs := defsOf(fi, obj)
		if len(defs) == 0 {
			return obj, "" // declared storage (var b bytes.Buffer)
		}
		if len(defs) == 1 && defs[0].Rhs != nil && !defs[0].Multi {
			if cl, ok := ast.Unparen(defs[0].Rhs).(*ast.CompositeLit); ok {
				_ = cl
				return obj, ""
			}
			if u, ok := ast.Unparen(defs[0].Rhs).(*ast.UnaryExpr); ok {
				if _, ok := u.X.(*ast.CompositeLit); ok {
					return obj, ""
				}
			}
			return identityRoot(fi, defs[0].Rhs, depth+1)
		}
		if len(defs) == 1 && defs[0].Rhs == nil {
			return obj, ""
		}
		return nil, "variable " + x.Name + " is assigned more than once or from a multi-value call"
	case *ast.CallExpr:
		if tv, ok := info.Types[x.Fun]; ok && tv.IsType() && len(x.Args) == 1 {
			// conversion []byte(s) / string(b)
			if isBytesOrString(tv.Type) {
				return identityRoot(fi, x.Args[0], depth+1)
			}
		}
		if f := core.CalleeOf(info, x); f != nil && identityCalls[core.FuncName(f)] && len(x.Args) >= 1 {
			return identityRoot(fi, x.Args[0], depth+1)
		}
		return nil, "passes through " + exprStr(x.Fun) + "(…), which is not a known identity adapter"
	}
	return nil, "unsupported expression " + exprStr(e)
}

// identityRootExpr is identityRoot but stops at (and returns) the first call that is not an identity adapter.
func identityRootExpr(fi *core.FuncInfo, e ast.Expr, depth int) (ast.Expr, string) {
	info := fi.Pkg.TypesInfo
	e = ast.Unparen(e)
	if depth > 10 {
		return nil, "chain too deep"
	}
	switch x := e.(type) {
	case *ast.Ident:
		obj := core.ObjOf(info, x)
		if obj == nil || isParam(fi, obj) {
			return x, ""
		}
		defs := defsOf(fi, obj)
		if len(defs) == 1 && defs[0].Rhs != nil {
			if defs[0].Multi {
				if defs[0].Index == 0 {
					return ast.Unparen(defs[0].Rhs), ""
				}
				return nil, "not the first result"
			}
			return identityRootExpr(fi, defs[0].Rhs, depth+1)
		}
		return nil, "variable " + x.Name + " has no unique definition"
	case *ast.CallExpr:
		if tv, ok := info.Types[x.Fun]; ok && tv.IsType() && len(x.Args) == 1 && isBytesOrString(tv.Type) {
			return identityRootExpr(fi, x.Args[0], depth+1)
		}
		if f := core.CalleeOf(info, x); f != nil && identityCalls[core.FuncName(f)] && len(x.Args) >= 1 {
			return identityRootExpr(fi, x.Args[0], depth+1)
		}
		return x, ""
	}
	return e, ""
}

func isBytesOrString(t types.Type) bool {
	switch u := t.Underlying().(type) {
	case *types.Basic:
		return u.Kind() == types.String
	case *types.Slice:
		b, ok := u.Elem().Underlying().(*types.Basic)
		return ok && b.Kind() == types.Byte
	}
	return false
}
