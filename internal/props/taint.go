package props

import (
	"fmt"
	"go/constant"
	"go/token"
	"go/types"
	"sort"
	"strings"

	"golang.org/x/tools/go/ssa"

	"d2verif/internal/core"
)

// E7 — injection analysis. Every string value gets a kind by backward slicing over SSA:
//
//	Const < Num < San < Valid < Markup < Unknown < Tainted        (join = max)
//
// Tainted means "provably derived from a user-controlled model field without passing a
// sanitiser for the sink's context"; Unknown means the slice ended in something the engine does
// not model (reported in evidence, never a violation). Kinds are computed symbolically in the
// parameters of the enclosing function and resolved by joining over the in-repo call sites.

type Kind int

const (
	KConst Kind = iota
	KNum
	KSan
	KValid
	KMarkup
	KUnknown
	KTainted
)

func (k Kind) String() string {
	return [...]string{"Const", "Num", "San", "Valid", "Markup", "Unknown", "Tainted"}[k]
}

// SK is a symbolic kind: a base kind plus the set of parameters (of the function being analysed)
// whose kinds flow into the value unsanitised.
type SK struct {
	k    Kind
	deps uint64
	why  string   // provenance of the worst component (for reports)
	srcs []string // for Tainted: the distinct user-controlled sources (sorted)
	esc  uint8    // for Tainted: metacharacter classes already escaped on every tainted (source-derived) component
	depEsc uint8  // the same for the parameter-derived components (deps)
	orig []string // model field paths the value is derived from, kept through sanitisers (origin tracking)
	odeps uint64  // parameters whose origins flow into the value (through sanitisers too)
}

// escaped marks every component of k as having passed an escaper for the classes in m.
func (k SK) escaped(m uint8) SK {
	k.esc |= m
	k.depEsc |= m
	return k
}

// escape classes
const (
	escBackslash uint8 = 1 << iota
	escBacktick
	escDollar
	escDQuote
	escNewline
	escSQuote
	escSlash  // path separators replaced
	escDotDot // "." / ".." components handled
)

func mergeSrcs(a, b []string) []string {
	if len(b) == 0 {
		return a
	}
	if len(a) == 0 {
		return b
	}
	m := map[string]bool{}
	for _, x := range a {
		m[x] = true
	}
	for _, x := range b {
		m[x] = true
	}
	out := make([]string, 0, len(m))
	for x := range m {
		out = append(out, x)
	}
	sort.Strings(out)
	if len(out) > 12 {
		out = out[:12]
	}
	return out
}

func skJoin(a, b SK) SK {
	out := SK{k: a.k, deps: a.deps | b.deps, why: a.why, srcs: mergeSrcs(a.srcs, b.srcs), orig: mergeSrcs(a.orig, b.orig), odeps: a.odeps | b.odeps}
	if b.k > a.k {
		out.k = b.k
		out.why = b.why
	}
	// escaped classes, tracked separately for the source-derived and the parameter-derived components
	ta, tb := a.k == KTainted, b.k == KTainted
	switch {
	case ta && tb:
		out.esc = a.esc & b.esc
	case ta:
		out.esc = a.esc
	case tb:
		out.esc = b.esc
	}
	da, db := a.deps != 0, b.deps != 0
	switch {
	case da && db:
		out.depEsc = a.depEsc & b.depEsc
	case da:
		out.depEsc = a.depEsc
	case db:
		out.depEsc = b.depEsc
	}
	return out
}

func sk(k Kind) SK { return SK{k: k} }

type taintConfig struct {
	// sanitiser axioms: library functions whose result is safe in XML text/attribute context
	// whatever the argument (encoders, numeric formatters, escapers).
	sanitizers map[string]bool
	// identity-like string functions: result kind = join of the listed argument kinds
	passthrough map[string][]int
	// model fields: kind by "pkg.Type.Field"; default for string-carrying fields of model types is Tainted
	fieldKinds map[string]Kind
	modelType  func(t *types.Named) bool
	// writes into a buffer by an external function: callee → (buffer arg index, kind written)
	bufWriters map[string]Kind
	// originKill: functions whose result does not carry the text of their arguments (encoders of other data)
	originKill map[string]bool
	// trackOrigins: record the access path (Type.Field.Field) of every model field a value derives from
	trackOrigins bool
	// loopEscapers: recognise byte-wise escaper loops (if s[i] == c { write escape }) as escaping c
	loopEscapers bool
	// onSprintf is called for every format call the slice passes through (JS sinks are judged there)
	onSprintf func(fn *ssa.Function, cc *ssa.CallCommon, format string, ops []ssa.Value, pos token.Pos)
}

type taintEngine struct {
	p       *core.Prog
	prog    *ssa.Program
	cfg     *taintConfig
	memo    map[ssa.Value]SK
	inprog  map[ssa.Value]bool
	fnmemo  map[*ssa.Function]SK
	fninp   map[*ssa.Function]bool
	callers map[*ssa.Function][]ssa.CallInstruction
	fieldMemo map[*types.Var]SK
	fieldInp  map[*types.Var]bool
	fieldStores map[*types.Var][]ssa.Value // values stored into each struct field anywhere in the scope
	argMemo  map[argKey]SK
	argInp   map[argKey]bool
	funcs    []*ssa.Function
}

type argKey struct {
	fn *ssa.Function
	i  int
}

func newTaintEngine(p *core.Prog, cfg *taintConfig, scopeRels []string) *taintEngine {
	e := &taintEngine{p: p, prog: p.SSA(), cfg: cfg, memo: map[ssa.Value]SK{}, inprog: map[ssa.Value]bool{}, fnmemo: map[*ssa.Function]SK{}, fninp: map[*ssa.Function]bool{},
		callers: map[*ssa.Function][]ssa.CallInstruction{}, fieldMemo: map[*types.Var]SK{}, fieldInp: map[*types.Var]bool{}, fieldStores: map[*types.Var][]ssa.Value{},
		argMemo: map[argKey]SK{}, argInp: map[argKey]bool{}}
	for _, rel := range scopeRels {
		e.funcs = append(e.funcs, p.SrcFuncs(rel)...)
	}
	for _, f := range e.funcs {
		for _, b := range f.Blocks {
			for _, in := range b.Instrs {
				switch x := in.(type) {
				case ssa.CallInstruction:
					if cal := x.Common().StaticCallee(); cal != nil {
						e.callers[cal] = append(e.callers[cal], x)
					}
				case *ssa.Store:
					if fa, ok := x.Addr.(*ssa.FieldAddr); ok {
						if fv := fieldVarOf(fa.X.Type(), fa.Field); fv != nil {
							e.fieldStores[fv] = append(e.fieldStores[fv], x.Val)
						}
					}
				case *ssa.MapUpdate:
					// m.field[k] = v : the value joins the field's content
					if ld, ok := x.Map.(*ssa.UnOp); ok && ld.Op == token.MUL {
						if fa, ok := ld.X.(*ssa.FieldAddr); ok {
							if fv := fieldVarOf(fa.X.Type(), fa.Field); fv != nil {
								e.fieldStores[fv] = append(e.fieldStores[fv], x.Value)
							}
						}
					}
					if fl, ok := x.Map.(*ssa.Field); ok {
						if fv := fieldVarOf(fl.X.Type(), fl.Field); fv != nil {
							e.fieldStores[fv] = append(e.fieldStores[fv], x.Value)
						}
					}
				}
			}
		}
	}
	return e
}

func fieldVarOf(t types.Type, idx int) *types.Var {
	if p, ok := t.Underlying().(*types.Pointer); ok {
		t = p.Elem()
	}
	st, ok := t.Underlying().(*types.Struct)
	if !ok || idx >= st.NumFields() {
		return nil
	}
	return st.Field(idx)
}

func namedOf(t types.Type) *types.Named {
	for {
		switch x := t.(type) {
		case *types.Pointer:
			t = x.Elem()
		case *types.Alias:
			t = types.Unalias(x)
		case *types.Named:
			return x
		default:
			return nil
		}
	}
}

func isNumericType(t types.Type) bool {
	b, ok := t.Underlying().(*types.Basic)
	return ok && b.Info()&(types.IsNumeric|types.IsBoolean) != 0
}

// modelFieldKind returns the declared kind of a field of a model type.
func (e *taintEngine) modelFieldKind(container types.Type, idx int) (SK, bool) {
	nt := namedOf(container)
	if nt == nil || nt.Obj().Pkg() == nil || !e.cfg.modelType(nt) {
		return SK{}, false
	}
	st, ok := nt.Underlying().(*types.Struct)
	if !ok {
		return SK{}, false
	}
	f := st.Field(idx)
	key := core.RelPkg(nt.Obj().Pkg().Path()) + "." + nt.Obj().Name() + "." + f.Name()
	if k, ok := e.cfg.fieldKinds[key]; ok {
		return SK{k: k, why: "field " + key}, true
	}
	if k, ok := e.cfg.fieldKinds[core.RelPkg(nt.Obj().Pkg().Path())+"."+nt.Obj().Name()+".*"]; ok {
		return SK{k: k, why: "field " + key}, true
	}
	if isNumericType(f.Type()) {
		return sk(KNum), true
	}
	// nested model structs are resolved when their own fields are read
	if inner := namedOf(f.Type()); inner != nil && e.cfg.modelType(inner) {
		if _, isStruct := inner.Underlying().(*types.Struct); isStruct {
			return SK{}, false
		}
	}
	if sl, ok := f.Type().Underlying().(*types.Slice); ok {
		if inner := namedOf(sl.Elem()); inner != nil && e.cfg.modelType(inner) {
			if _, isStruct := inner.Underlying().(*types.Struct); isStruct {
				return SK{}, false
			}
		}
	}
	return SK{k: KTainted, why: "user-controlled field " + key, srcs: []string{key}}, true
}

func (e *taintEngine) kind(v ssa.Value, depth int) SK {
	if k, ok := e.memo[v]; ok {
		return k
	}
	if e.inprog[v] || depth > 60 {
		return sk(KConst) // optimistic on cycles; the other edges of the cycle contribute
	}
	e.inprog[v] = true
	k := e.kind0(v, depth)
	delete(e.inprog, v)
	e.memo[v] = k
	return k
}

// charOfString: v is a byte/rune taken out of a string (s[i], or the rune of a range over s).
func charOfString(v ssa.Value) (ssa.Value, bool) {
	switch x := v.(type) {
	case *ssa.Lookup:
		if b, ok := x.X.Type().Underlying().(*types.Basic); ok && b.Info()&types.IsString != 0 {
			return x.X, true
		}
	case *ssa.Index:
		if b, ok := x.X.Type().Underlying().(*types.Basic); ok && b.Info()&types.IsString != 0 {
			return x.X, true
		}
	case *ssa.Extract:
		if nx, ok := x.Tuple.(*ssa.Next); ok && nx.IsString && x.Index == 2 {
			if rg, ok := nx.Iter.(*ssa.Range); ok {
				return rg.X, true
			}
		}
	case *ssa.Convert:
		if isNumericType(x.X.Type()) {
			return charOfString(x.X)
		}
	}
	return nil, false
}

func (e *taintEngine) kind0(v ssa.Value, depth int) SK {
	if isNumericType(v.Type()) {
		if src, ok := charOfString(v); ok {
			return e.kind(src, depth+1) // a character copied out of a string carries the string's kind
		}
		return sk(KNum)
	}
	switch x := v.(type) {
	case *ssa.Const:
		return sk(KConst)
	case *ssa.Phi:
		k := sk(KConst)
		for _, ed := range x.Edges {
			k = skJoin(k, e.kind(ed, depth+1))
		}
		return k
	case *ssa.BinOp:
		if x.Op == token.ADD {
			if concatHasMarkupConst(x) {
				return SK{k: KMarkup} // judged as a sink (concatSinks)
			}
			return skJoin(e.kind(x.X, depth+1), e.kind(x.Y, depth+1))
		}
		return sk(KNum)
	case *ssa.MakeInterface:
		return e.kind(x.X, depth+1)
	case *ssa.ChangeType:
		return e.kind(x.X, depth+1)
	case *ssa.Convert:
		if isNumericType(x.X.Type()) {
			if src, ok := charOfString(x.X); ok {
				return e.kind(src, depth+1)
			}
			return sk(KNum) // string(rune) of a number
		}
		return e.kind(x.X, depth+1)
	case *ssa.ChangeInterface:
		return e.kind(x.X, depth+1)
	case *ssa.SliceToArrayPointer:
		return e.kind(x.X, depth+1)
	case *ssa.Extract:
		switch t := x.Tuple.(type) {
		case *ssa.Call:
			return e.callKind(t, x.Index, depth+1)
		case *ssa.Next:
			// map/string iteration: value kind = kind of the ranged collection
			if rg, ok := t.Iter.(*ssa.Range); ok {
				if x.Index == 0 {
					return sk(KNum)
				}
				if _, isStr := rg.X.Type().Underlying().(*types.Basic); isStr {
					return sk(KNum)
				}
				return e.kind(rg.X, depth+1)
			}
		case *ssa.TypeAssert:
			return e.kind(t.X, depth+1)
		case *ssa.Lookup:
			return e.kind(t.X, depth+1)
		case *ssa.UnOp:
			return e.kind(t.X, depth+1)
		}
		return SK{k: KUnknown, why: "tuple " + x.Tuple.String()}
	case *ssa.Call:
		return e.callKind(x, 0, depth+1)
	case *ssa.UnOp:
		if x.Op == token.MUL {
			return e.loadKind(x.X, depth+1)
		}
		if x.Op == token.ARROW {
			return SK{k: KUnknown, why: "channel receive"}
		}
		return sk(KNum)
	case *ssa.Field:
		if k, ok := e.modelFieldKind(x.X.Type(), x.Field); ok {
			if e.cfg.trackOrigins {
				k.orig = []string{e.modelPath(x)}
			}
			return k
		}
		if nt := namedOf(x.X.Type()); nt != nil && e.cfg.modelType(nt) {
			return e.kind(x.X, depth+1) // nested model struct: keep following (fields resolve at the leaf)
		}
		// non-model struct value: field-based join of stores, plus whatever the struct value carries
		if fv := fieldVarOf(x.X.Type(), x.Field); fv != nil {
			return skJoin(e.fieldKind(fv, depth+1), e.structValueField(x.X, x.Field, depth+1))
		}
		return e.kind(x.X, depth+1)
	case *ssa.Parameter:
		fn := x.Parent()
		for i, p := range fn.Params {
			if p == x && i < 64 {
				return SK{k: KConst, deps: 1 << uint(i)}
			}
		}
		return SK{k: KUnknown, why: "parameter"}
	case *ssa.Slice:
		return e.kind(x.X, depth+1)
	case *ssa.Alloc:
		return e.allocKind(x, depth+1)
	case *ssa.Lookup:
		return e.kind(x.X, depth+1)
	case *ssa.IndexAddr:
		return e.kind(x.X, depth+1)
	case *ssa.Index:
		return e.kind(x.X, depth+1)
	case *ssa.FieldAddr:
		return e.loadKind(x, depth+1)
	case *ssa.Global:
		return sk(KConst)
	case *ssa.FreeVar:
		return e.freeVarKind(x, depth+1)
	case *ssa.TypeAssert:
		return e.kind(x.X, depth+1)
	case *ssa.MakeSlice, *ssa.MakeMap:
		return e.containerKind(v, depth+1)
	case *ssa.MakeClosure, *ssa.Function:
		return sk(KConst)
	}
	return SK{k: KUnknown, why: fmt.Sprintf("%T", v)}
}

// structValueField: the value of field idx inside a struct *value* (not address): follow to the
// composite it was loaded from.
func (e *taintEngine) structValueField(v ssa.Value, idx int, depth int) SK {
	if u, ok := v.(*ssa.UnOp); ok && u.Op == token.MUL {
		if al, ok := u.X.(*ssa.Alloc); ok {
			k := sk(KConst)
			for _, r := range *al.Referrers() {
				if fa, ok := r.(*ssa.FieldAddr); ok && fa.Field == idx {
					for _, r2 := range *fa.Referrers() {
						if s, ok := r2.(*ssa.Store); ok && s.Addr == fa {
							k = skJoin(k, e.kind(s.Val, depth+1))
						}
					}
				}
			}
			return k
		}
	}
	return sk(KConst)
}

// fieldKind: field-based (heap-insensitive) join of everything stored into a non-model struct field.
func (e *taintEngine) fieldKind(fv *types.Var, depth int) SK {
	if k, ok := e.fieldMemo[fv]; ok {
		return k
	}
	if e.fieldInp[fv] {
		return sk(KConst)
	}
	e.fieldInp[fv] = true
	k := sk(KConst)
	for _, val := range e.fieldStores[fv] {
		vk := e.kind(val, depth+1)
		// values stored into heap fields are resolved in their own function (parameters joined over callers)
		rk := e.resolve(parentOf(val), vk, depth+1)
		if rk.k == KTainted && parentOf(val) != nil {
			rk.why += fmt.Sprintf(" (stored into field %s in %s)", fv.Name(), parentOf(val).Name())
		}
		k = skJoin(k, rk)
	}
	delete(e.fieldInp, fv)
	e.fieldMemo[fv] = k
	return k
}

func parentOf(v ssa.Value) *ssa.Function {
	if v == nil {
		return nil
	}
	return v.Parent()
}

// allocKind joins everything stored into a local variable, its fields and its elements.
func (e *taintEngine) allocKind(al *ssa.Alloc, depth int) SK {
	k := sk(KConst)
	seen := map[ssa.Value]bool{}
	var visit func(v ssa.Value)
	visit = func(v ssa.Value) {
		if seen[v] {
			return
		}
		seen[v] = true
		refs := v.Referrers()
		if refs == nil {
			return
		}
		for _, r := range *refs {
			switch s := r.(type) {
			case *ssa.Store:
				if s.Addr == v {
					k = skJoin(k, e.kind(s.Val, depth+1))
				}
			case *ssa.IndexAddr:
				visit(s)
			case *ssa.FieldAddr:
				// struct local: only relevant when the whole struct is read; approximated by joining all fields
				visit(s)
			case ssa.CallInstruction:
				// the address escapes into a call that may write through it (e.g. json.Unmarshal(&x), buffers)
				k = skJoin(k, e.bufferWriteKind(v, s, depth+1))
			case *ssa.MakeInterface:
				// passed as an interface (io.Writer): the calls that receive the interface value write through it
				if s.Referrers() != nil {
					for _, r2 := range *s.Referrers() {
						if ci, ok := r2.(ssa.CallInstruction); ok {
							k = skJoin(k, e.bufferWriteKind(v, ci, depth+1))
						}
					}
				}
			}
		}
	}
	visit(al)
	return k
}

// containerKind joins what is stored into a freshly made slice/map.
func (e *taintEngine) containerKind(v ssa.Value, depth int) SK {
	k := sk(KConst)
	refs := v.Referrers()
	if refs == nil {
		return k
	}
	for _, r := range *refs {
		switch s := r.(type) {
		case *ssa.MapUpdate:
			if s.Map == v {
				k = skJoin(k, e.kind(s.Value, depth+1))
			}
		case *ssa.IndexAddr:
			for _, r2 := range *s.Referrers() {
				if st, ok := r2.(*ssa.Store); ok && st.Addr == s {
					k = skJoin(k, e.kind(st.Val, depth+1))
				}
			}
		}
	}
	return k
}

func (e *taintEngine) loadKind(addr ssa.Value, depth int) SK {
	switch x := addr.(type) {
	case *ssa.FieldAddr:
		if k, ok := e.modelFieldKind(x.X.Type(), x.Field); ok {
			if e.cfg.trackOrigins {
				k.orig = []string{e.modelPath(x)}
			}
			return k
		}
		if nt := namedOf(x.X.Type()); nt != nil && e.cfg.modelType(nt) {
			return e.kind(x.X, depth+1)
		}
		k := sk(KConst)
		if fv := fieldVarOf(x.X.Type(), x.Field); fv != nil {
			k = e.fieldKind(fv, depth+1)
		}
		// a local struct (x.X is an Alloc): stores to this field of this local
		if al, ok := x.X.(*ssa.Alloc); ok {
			for _, r := range *al.Referrers() {
				if fa, ok := r.(*ssa.FieldAddr); ok && fa.Field == x.Field {
					for _, r2 := range *fa.Referrers() {
						if s, ok := r2.(*ssa.Store); ok && s.Addr == fa {
							k = skJoin(k, e.kind(s.Val, depth+1))
						}
					}
				}
			}
		}
		return k
	case *ssa.IndexAddr:
		return e.kind(x.X, depth+1)
	case *ssa.Alloc:
		return e.allocKind(x, depth+1)
	case *ssa.Global:
		return sk(KConst)
	case *ssa.FreeVar:
		return e.freeVarKind(x, depth+1)
	}
	return e.kind(addr, depth+1)
}

// freeVarKind resolves a closure variable through the MakeClosure binding in the parent function.
func (e *taintEngine) freeVarKind(fv *ssa.FreeVar, depth int) SK {
	fn := fv.Parent()
	idx := -1
	for i, f := range fn.FreeVars {
		if f == fv {
			idx = i
		}
	}
	parent := fn.Parent()
	if idx < 0 || parent == nil {
		return SK{k: KUnknown, why: "free variable"}
	}
	k := sk(KConst)
	found := false
	for _, b := range parent.Blocks {
		for _, in := range b.Instrs {
			if mc, ok := in.(*ssa.MakeClosure); ok && mc.Fn == fn && idx < len(mc.Bindings) {
				found = true
				bk := e.kind(mc.Bindings[idx], depth+1)
				// bindings are addresses of captured variables: loadKind on the binding
				if _, isPtr := mc.Bindings[idx].Type().Underlying().(*types.Pointer); isPtr {
					bk = e.loadKind(mc.Bindings[idx], depth+1)
				}
				k = skJoin(k, e.resolve(parent, bk, depth+1))
			}
		}
	}
	if !found {
		return SK{k: KUnknown, why: "free variable"}
	}
	return k
}

// resolve replaces parameter dependencies of fn by the join over fn's call sites.
func (e *taintEngine) resolve(fn *ssa.Function, k SK, depth int) SK {
	if fn != nil && k.odeps != 0 && e.cfg.trackOrigins {
		for i := 0; i < 64 && i < len(fn.Params); i++ {
			if k.odeps&(1<<uint(i)) != 0 && k.deps&(1<<uint(i)) == 0 {
				ak := e.argKind(fn, i, depth+1)
				k.orig = mergeSrcs(k.orig, ak.orig)
			}
		}
	}
	if k.deps == 0 || fn == nil {
		return SK{k: k.k, why: k.why, srcs: k.srcs, esc: k.esc, orig: k.orig}
	}
	out := SK{k: k.k, why: k.why, srcs: k.srcs, esc: k.esc, orig: k.orig}
	for i := 0; i < 64 && i < len(fn.Params); i++ {
		if k.deps&(1<<uint(i)) != 0 {
			ak := e.argKind(fn, i, depth+1).escaped(k.depEsc) // escapes applied on the way from the parameter to this value
			out = skJoin(out, ak)
		}
	}
	return out
}

func (e *taintEngine) argKind(fn *ssa.Function, i int, depth int) SK {
	key := argKey{fn, i}
	if k, ok := e.argMemo[key]; ok {
		return k
	}
	if e.argInp[key] || depth > 80 {
		return sk(KConst)
	}
	e.argInp[key] = true
	defer delete(e.argInp, key)
	cs := e.callers[fn]
	if fn.Parent() != nil { // anonymous function: parameters come from wherever the closure is called
		out := SK{k: KUnknown, why: "closure parameter"}
		e.argMemo[key] = out
		return out
	}
	if len(cs) == 0 {
		out := SK{k: KUnknown, why: "parameter of " + fn.Name() + " (no in-scope caller)"}
		e.argMemo[key] = out
		return out
	}
	out := sk(KConst)
	for _, c := range cs {
		args := c.Common().Args
		if i < len(args) {
			ak := e.kind(args[i], depth+1)
			out = skJoin(out, e.resolve(c.Parent(), ak, depth+1))
		}
	}
	e.argMemo[key] = out
	return out
}

// sprintfOperands returns the constant format (if any) and the variadic operands of a format call.
func sprintfOperands(c *ssa.CallCommon, fi int) (format string, isConst bool, ops []ssa.Value) {
	if fi >= 0 {
		if len(c.Args) <= fi {
			return "", false, nil
		}
		if k, ok := c.Args[fi].(*ssa.Const); ok && k.Value != nil && k.Value.Kind() == constant.String {
			format = constant.StringVal(k.Value)
			isConst = true
		}
	}
	if len(c.Args) > fi+1 {
		va := c.Args[fi+1]
		if sl, ok := va.(*ssa.Slice); ok {
			if al, ok := sl.X.(*ssa.Alloc); ok {
				type st struct {
					idx int64
					v   ssa.Value
				}
				var stores []st
				for _, r := range *al.Referrers() {
					if ia, ok := r.(*ssa.IndexAddr); ok {
						ci, _ := ia.Index.(*ssa.Const)
						for _, r2 := range *ia.Referrers() {
							if s, ok := r2.(*ssa.Store); ok && ci != nil {
								stores = append(stores, st{ci.Int64(), s.Val})
							}
						}
					}
				}
				sort.Slice(stores, func(i, j int) bool { return stores[i].idx < stores[j].idx })
				for _, s := range stores {
					ops = append(ops, s.v)
				}
				return
			}
		}
		if _, ok := va.(*ssa.Const); ok {
			return // nil varargs
		}
		ops = append(ops, va)
	}
	return
}

func hasMarkup(s string) bool { return strings.ContainsAny(s, "<>") }

// isMarkupFormat: the constant format builds XML (a tag, or an attribute assignment).
func isMarkupFormat(format string) bool {
	return strings.ContainsAny(format, "<>") || strings.Contains(format, `="`) || strings.Contains(format, `='`)
}

// verbKinds maps each operand to the verb that consumes it: numeric verbs make any operand Num.
func verbKinds(format string) []byte {
	var out []byte
	for i := 0; i < len(format); i++ {
		if format[i] != '%' {
			continue
		}
		j := i + 1
		for j < len(format) && strings.IndexByte("+-# 0123456789.*[]", format[j]) >= 0 {
			j++
		}
		if j < len(format) {
			if format[j] != '%' {
				out = append(out, format[j])
			}
			i = j
		}
	}
	return out
}

func (e *taintEngine) sprintfKind(c *ssa.CallCommon, fi int, depth int) SK {
	format, isConst, ops := sprintfOperands(c, fi)
	k := sk(KConst)
	if !isConst && fi >= 0 {
		k = e.kind(c.Args[fi], depth+1)
	}
	if isConst && e.cfg.onSprintf != nil && len(ops) > 0 {
		var fn *ssa.Function
		if p := ops[0].Parent(); p != nil {
			fn = p
		}
		e.cfg.onSprintf(fn, c, format, ops, c.Pos())
	}
	verbs := verbKinds(format)
	var textOrig []string
	var textODeps uint64
	var ctxs []sinkCtx
	if isConst && isMarkupFormat(format) {
		ctxs = verbContexts(format)
	}
	for i, o := range ops {
		if isConst && i < len(verbs) && strings.IndexByte("dfegxXobcUtp", verbs[i]) >= 0 {
			continue // numeric / bool / pointer verbs
		}
		ok := e.kind(o, depth+1)
		k = skJoin(k, ok)
		if i < len(ctxs) && ctxs[i] == ctxText {
			textOrig = mergeSrcs(textOrig, ok.orig)
			textODeps |= ok.odeps | ok.deps
		}
	}
	if isConst && isMarkupFormat(format) {
		// a markup-bearing format is a sink itself: its operands are judged there (once), and its
		// result is renderer-built markup; only text-position operands are text that gets drawn
		return SK{k: KMarkup, orig: textOrig, odeps: textODeps}
	}
	return k
}

// bufferWriteKind: what a call instruction that receives buffer address v writes into it.
func (e *taintEngine) bufferWriteKind(v ssa.Value, ci ssa.CallInstruction, depth int) SK {
	cc := ci.Common()
	callee := cc.StaticCallee()
	argIdx := -1
	for i, a := range cc.Args {
		if a == v {
			argIdx = i
		} else if mi, ok := a.(*ssa.MakeInterface); ok && mi.X == v {
			argIdx = i
		}
	}
	if callee == nil {
		if cc.IsInvoke() {
			return sk(KConst)
		}
		return sk(KConst)
	}
	name := callee.String()
	switch name {
	case "(*bytes.Buffer).WriteString", "(*strings.Builder).WriteString", "(*bytes.Buffer).Write", "(*strings.Builder).Write", "io.WriteString":
		if argIdx == 0 && len(cc.Args) > 1 {
			return e.kind(cc.Args[1], depth+1)
		}
		return sk(KConst)
	case "(*bytes.Buffer).WriteByte", "(*strings.Builder).WriteByte", "(*bytes.Buffer).WriteRune", "(*strings.Builder).WriteRune":
		if argIdx == 0 && len(cc.Args) > 1 {
			return e.kind(cc.Args[1], depth+1)
		}
		return sk(KNum)
	case "fmt.Fprintf":
		if argIdx == 0 {
			return e.sprintfKind(cc, 1, depth+1)
		}
	case "fmt.Fprint", "fmt.Fprintln":
		if argIdx == 0 {
			return e.sprintfKind(cc, -1+1-1, depth+1)
		}
	}
	if k, ok := e.cfg.bufWriters[name]; ok && argIdx == 0 {
		out := sk(k)
		if e.cfg.trackOrigins {
			for i, a := range cc.Args {
				if i != argIdx {
					ak := e.kind(a, depth+1)
					out.orig = mergeSrcs(out.orig, ak.orig)
					out.odeps |= ak.odeps | ak.deps // origins of parameter-derived text are resolved at the call site
				}
			}
		}
		return out
	}
	if callee.Blocks != nil && argIdx >= 0 && argIdx < len(callee.Params) {
		// in-repo callee writing through the pointer/writer parameter: join of the callee's writes into that parameter
		return e.paramWrites(callee, argIdx, cc, depth+1)
	}
	return sk(KConst)
}

// paramWrites: kinds written by fn into the buffer passed as parameter pi, with fn's own
// parameters substituted by the actual arguments of this call.
func (e *taintEngine) paramWrites(fn *ssa.Function, pi int, cc *ssa.CallCommon, depth int) SK {
	if depth > 60 {
		return sk(KConst)
	}
	p := fn.Params[pi]
	k := sk(KConst)
	var visit func(v ssa.Value)
	seen := map[ssa.Value]bool{}
	visit = func(v ssa.Value) {
		if seen[v] || v.Referrers() == nil {
			return
		}
		seen[v] = true
		for _, r := range *v.Referrers() {
			switch s := r.(type) {
			case ssa.CallInstruction:
				k = skJoin(k, e.bufferWriteKind(v, s, depth+1))
			case *ssa.MakeInterface:
				visit(s)
			case *ssa.ChangeInterface:
				visit(s)
			}
		}
	}
	visit(p)
	return e.substitute(k, cc, depth)
}

// substitute maps a callee-symbolic kind into the caller's space using the call's arguments.
func (e *taintEngine) substitute(k SK, cc *ssa.CallCommon, depth int) SK {
	out := SK{k: k.k, why: k.why, srcs: k.srcs, esc: k.esc, orig: k.orig}
	if e.cfg.trackOrigins {
		for i := 0; i < 64 && i < len(cc.Args); i++ {
			if k.odeps&(1<<uint(i)) != 0 && k.deps&(1<<uint(i)) == 0 {
				ak := e.kind(cc.Args[i], depth+1)
				out.orig = mergeSrcs(out.orig, ak.orig)
				out.odeps |= ak.odeps | ak.deps
			}
		}
	}
	for i := 0; i < 64 && i < len(cc.Args); i++ {
		if k.deps&(1<<uint(i)) != 0 {
			ak := e.kind(cc.Args[i], depth+1).escaped(k.depEsc)
			out = skJoin(out, ak)
		}
	}
	return out
}

// bufferKind: content of the buffer a String() call is made on.
func (e *taintEngine) bufferKind(recv ssa.Value, depth int) SK {
	switch x := recv.(type) {
	case *ssa.Alloc:
		return e.allocKind(x, depth+1)
	case *ssa.Call: // new(bytes.Buffer) via a constructor, bytes.NewBufferString(x)
		if cal := x.Call.StaticCallee(); cal != nil {
			switch cal.String() {
			case "bytes.NewBufferString", "bytes.NewBuffer":
				k := e.kind(x.Call.Args[0], depth+1)
				for _, r := range *x.Referrers() {
					if ci, ok := r.(ssa.CallInstruction); ok {
						k = skJoin(k, e.bufferWriteKind(x, ci, depth+1))
					}
				}
				return k
			}
		}
	}
	// a buffer reached through a field/parameter: its writes are sinks of their own
	return SK{k: KMarkup, why: "non-local buffer"}
}

func (e *taintEngine) callKind(c *ssa.Call, resultIdx int, depth int) SK {
	cc := &c.Call
	if b, ok := cc.Value.(*ssa.Builtin); ok {
		switch b.Name() {
		case "append":
			k := sk(KConst)
			for _, a := range cc.Args {
				k = skJoin(k, e.kind(a, depth+1))
			}
			return k
		case "min", "max", "len", "cap":
			return sk(KNum)
		}
		return SK{k: KUnknown, why: "builtin " + b.Name()}
	}
	callee := cc.StaticCallee()
	if callee == nil {
		if cc.IsInvoke() {
			if cc.Method.Name() == "String" || cc.Method.Name() == "Error" {
				return skJoin(SK{k: KUnknown, why: "dynamic " + cc.Method.FullName()}, e.kind(cc.Value, depth+1))
			}
			return SK{k: KUnknown, why: "dynamic call " + cc.Method.FullName()}
		}
		return SK{k: KUnknown, why: "call through function value"}
	}
	name := callee.String()
	if callee.Origin() != nil {
		name = callee.Origin().String()
	}
	if e.cfg.originKill[name] {
		return sk(KSan)
	}
	if e.cfg.sanitizers[name] {
		out := sk(KSan)
		if e.cfg.trackOrigins {
			for _, a := range cc.Args {
				ak := e.kind(a, depth+1)
				out.orig = mergeSrcs(out.orig, ak.orig)
				out.odeps |= ak.odeps | ak.deps
			}
		}
		return out
	}
	if idxs, ok := e.cfg.passthrough[name]; ok {
		k := sk(KConst)
		for _, i := range idxs {
			if i < len(cc.Args) {
				k = skJoin(k, e.kind(cc.Args[i], depth+1))
			}
		}
		if (name == "strings.ReplaceAll" || name == "strings.Replace") && len(cc.Args) >= 3 {
			// s' = ReplaceAll(s, old, new): old is escaped when new is "\"+old (or a different escape of it)
			if m := escapeMaskOf(cc.Args[1], cc.Args[2]); m != 0 {
				s0 := e.kind(cc.Args[0], depth+1).escaped(m)
				return skJoin(s0, e.kind(cc.Args[2], depth+1).withoutEsc())
			}
		}
		return k
	}
	switch name {
	case "fmt.Sprintf":
		return e.sprintfKind(cc, 0, depth)
	case "fmt.Sprint", "fmt.Sprintln":
		return e.sprintfKind(cc, -1, depth)
	case "fmt.Errorf":
		return e.sprintfKind(cc, 0, depth)
	case "(*bytes.Buffer).String", "(*strings.Builder).String", "(*bytes.Buffer).Bytes":
		return e.bufferKind(cc.Args[0], depth+1)
	}
	if callee.Blocks != nil && (callee.Pkg == nil || strings.HasPrefix(callee.Pkg.Pkg.Path(), core.Mod)) {
		rk := e.fnKind(callee, resultIdx, depth+1)
		if e.cfg.loopEscapers {
			rk = rk.escaped(loopEscapeMask(callee))
		}
		return e.substitute(rk, cc, depth)
	}
	// library function the engine has no model for: conservative in the arguments
	k := sk(KConst)
	for _, a := range cc.Args {
		k = skJoin(k, e.kind(a, depth+1))
	}
	if k.k == KTainted {
		return SK{k: KTainted, deps: k.deps, why: k.why + " via " + name, srcs: k.srcs}
	}
	return SK{k: KUnknown, deps: k.deps, why: "unmodelled " + name}
}

type fnKey struct {
	fn  *ssa.Function
	idx int
}

var fnMemoIdx = map[fnKey]SK{}

// fnKind: symbolic kind of result #idx of fn, in terms of fn's parameters.
func (e *taintEngine) fnKind(fn *ssa.Function, idx int, depth int) SK {
	key := fnKey{fn, idx}
	if k, ok := fnMemoIdx[key]; ok {
		return k
	}
	if e.fninp[fn] {
		return sk(KConst)
	}
	e.fninp[fn] = true
	k := sk(KConst)
	for _, b := range fn.Blocks {
		for _, in := range b.Instrs {
			if r, ok := in.(*ssa.Return); ok && idx < len(r.Results) {
				k = skJoin(k, e.kind(r.Results[idx], depth+1))
			}
		}
	}
	delete(e.fninp, fn)
	fnMemoIdx[key] = k
	return k
}

// ---------------------------------------------------------------------------------------------
// sinks

type sinkCtx int

const (
	ctxText sinkCtx = iota // between tags / raw document position
	ctxAttr                // inside a quoted attribute value
	ctxTag                 // inside a tag, outside quotes (attribute list position)
)

func (c sinkCtx) String() string { return [...]string{"text", "attribute", "tag"}[c] }

// verbContexts scans a constant format and returns, per verb, the XML context at its position.
func verbContexts(format string) []sinkCtx {
	var out []sinkCtx
	inTag := false
	quote := byte(0)
	// a fragment that starts with an attribute (` href="%s"`) begins inside a tag
	trim := strings.TrimLeft(format, " \n\t")
	if !strings.HasPrefix(trim, "<") && strings.Contains(format, `="`) && !strings.Contains(format, "<") {
		inTag = true
	}
	for i := 0; i < len(format); i++ {
		ch := format[i]
		switch {
		case ch == '%':
			j := i + 1
			for j < len(format) && strings.IndexByte("+-# 0123456789.*[]", format[j]) >= 0 {
				j++
			}
			if j < len(format) && format[j] != '%' {
				switch {
				case quote != 0:
					out = append(out, ctxAttr)
				case inTag:
					out = append(out, ctxTag)
				default:
					out = append(out, ctxText)
				}
			}
			i = j
		case quote != 0:
			if ch == quote {
				quote = 0
			}
		case inTag && (ch == '"' || ch == '\''):
			quote = ch
		case ch == '<':
			inTag = true
		case ch == '>':
			inTag = false
		}
	}
	return out
}

type sinkReport struct {
	fn      *ssa.Function
	pos     token.Pos
	what    string // description of the sink
	operand string
	ctx     sinkCtx
	kind    SK
}

// xmlSinks evaluates every XML sink operand in the engine's scope.
func (e *taintEngine) xmlSinks() []sinkReport {
	var out []sinkReport
	for _, f := range e.funcs {
		for _, b := range f.Blocks {
			for _, in := range b.Instrs {
				if bo, ok := in.(*ssa.BinOp); ok && bo.Op == token.ADD && concatHasMarkupConst(bo) {
					for i, side := range []ssa.Value{bo.X, bo.Y} {
						if _, isC := side.(*ssa.Const); isC {
							continue
						}
						k := e.resolve(f, e.kind(side, 0), 0)
						out = append(out, sinkReport{f, bo.Pos(), "concat with markup constant", fmt.Sprintf("side %d", i), ctxText, k})
					}
					continue
				}
				ci, ok := in.(ssa.CallInstruction)
				if !ok {
					continue
				}
				cc := ci.Common()
				callee := cc.StaticCallee()
				var name string
				if callee != nil {
					name = callee.String()
				} else if cc.IsInvoke() {
					if nt := namedOf(cc.Value.Type()); nt != nil && nt.Obj().Pkg() != nil && nt.Obj().Pkg().Path() == "io" && nt.Obj().Name() == "Writer" {
						name = "invoke:" + cc.Method.Name()
					}
				}
				fi := -2
				writer := false
				switch name {
				case "fmt.Sprintf":
					fi = 0
				case "fmt.Fprintf":
					fi = 1
					writer = true
				case "fmt.Fprint", "fmt.Fprintln":
					fi = 0
					writer = true
					_, _, ops := sprintfOperands(cc, 0)
					for i, o := range ops {
						if isNumericType(o.Type()) {
							continue
						}
						k := e.resolve(f, e.kind(o, 0), 0)
						out = append(out, sinkReport{f, ci.Pos(), name, fmt.Sprintf("operand %d", i), ctxText, k})
					}
					continue
				case "io.WriteString":
					if len(cc.Args) == 2 {
						k := e.resolve(f, e.kind(cc.Args[1], 0), 0)
						out = append(out, sinkReport{f, ci.Pos(), name, "string", ctxText, k})
					}
					continue
				case "invoke:Write":
					if len(cc.Args) == 1 {
						k := e.resolve(f, e.kind(cc.Args[0], 0), 0)
						out = append(out, sinkReport{f, ci.Pos(), "io.Writer.Write", "bytes", ctxText, k})
					}
					continue
				}
				if fi == -2 {
					continue
				}
				format, isConst, ops := sprintfOperands(cc, fi)
				if !isConst {
					continue
				}
				if !writer && !isMarkupFormat(format) {
					continue
				}
				ctxs := verbContexts(format)
				verbs := verbKinds(format)
				for i, o := range ops {
					if i < len(verbs) && strings.IndexByte("dfegxXobcUtp", verbs[i]) >= 0 {
						continue
					}
					if isNumericType(o.Type()) {
						continue
					}
					ctx := ctxText
					if i < len(ctxs) {
						ctx = ctxs[i]
					}
					k := e.resolve(f, e.kind(o, 0), 0)
					out = append(out, sinkReport{f, ci.Pos(), name + " " + shorten(format), fmt.Sprintf("operand %d", i), ctx, k})
				}
			}
		}
	}
	sort.SliceStable(out, func(i, j int) bool { return out[i].pos < out[j].pos })
	return out
}

func shorten(s string) string {
	s = strings.ReplaceAll(s, "\n", " ")
	if len(s) > 60 {
		return s[:57] + "..."
	}
	return s
}

// concatHasMarkupConst: one side of a string concatenation is a constant that contains markup.
func concatHasMarkupConst(b *ssa.BinOp) bool {
	for _, side := range []ssa.Value{b.X, b.Y} {
		if c, ok := side.(*ssa.Const); ok && c.Value != nil && c.Value.Kind() == constant.String && isMarkupFormat(constant.StringVal(c.Value)) {
			return true
		}
	}
	return false
}

func (k SK) withoutEsc() SK { k.esc = 0; k.depEsc = 0; return k }

func constString(v ssa.Value) (string, bool) {
	c, ok := v.(*ssa.Const)
	if !ok || c.Value == nil || c.Value.Kind() != constant.String {
		return "", false
	}
	return constant.StringVal(c.Value), true
}

func classOf(s string) uint8 {
	switch s {
	case "\\":
		return escBackslash
	case "`":
		return escBacktick
	case "$", "${":
		return escDollar
	case "\"":
		return escDQuote
	case "\n":
		return escNewline
	case "'":
		return escSQuote
	case "/":
		return escSlash
	case "..":
		return escDotDot
	}
	return 0
}

// escapeMaskOf: ReplaceAll(s, old, new) escapes class(old) when new is a backslash escape of it.
func escapeMaskOf(oldV, newV ssa.Value) uint8 {
	o, ok1 := constString(oldV)
	n, ok2 := constString(newV)
	if !ok1 || !ok2 {
		return 0
	}
	c := classOf(o)
	if c == 0 {
		return 0
	}
	if strings.HasPrefix(n, "\\") && n != o {
		return c
	}
	if (c == escSlash || c == escDotDot) && !strings.Contains(n, "/") && !strings.Contains(n, "..") {
		return c // path metacharacter replaced by something harmless
	}
	return 0
}

var loopMaskMemo = map[*ssa.Function]uint8{}

// loopEscapeMask recognises byte-wise escapers: a function with one string parameter that compares
// bytes of it with constants and writes a backslash escape for them.
func loopEscapeMask(fn *ssa.Function) uint8 {
	if m, ok := loopMaskMemo[fn]; ok {
		return m
	}
	var m uint8
	if len(fn.Params) == 1 {
		writesBackslash := false
		var compared []string
		for _, b := range fn.Blocks {
			for _, in := range b.Instrs {
				switch x := in.(type) {
				case *ssa.BinOp:
					if x.Op == token.EQL {
						for _, side := range []ssa.Value{x.X, x.Y} {
							if sv, ok := constString(side); ok && sv == ".." {
								m |= escDotDot // the function singles out the parent-directory component
							}
							if c, ok := side.(*ssa.Const); ok && c.Value != nil && c.Value.Kind() == constant.Int {
								if v, ok := constant.Int64Val(c.Value); ok && v > 0 && v < 128 {
									compared = append(compared, string(rune(v)))
								}
							}
						}
					}
				case ssa.CallInstruction:
					for _, a := range x.Common().Args {
						if sv, ok := constString(a); ok && strings.HasPrefix(sv, "\\") {
							writesBackslash = true
						}
					}
				}
			}
		}
		if writesBackslash {
			for _, c := range compared {
				m |= classOf(c)
			}
		}
	}
	loopMaskMemo[fn] = m
	return m
}

// modelPath renders the access path of a model field: outermost model type, then the field names
// (embedded struct levels are skipped, slice elements are transparent).
func (e *taintEngine) modelPath(v ssa.Value) string {
	var names []string
	root := ""
	cur := v
	for i := 0; i < 12; i++ {
		var x ssa.Value
		idx := -1
		switch t := cur.(type) {
		case *ssa.Field:
			x, idx = t.X, t.Field
		case *ssa.FieldAddr:
			x, idx = t.X, t.Field
		case *ssa.UnOp:
			cur = t.X
			continue
		case *ssa.IndexAddr:
			cur = t.X
			continue
		case *ssa.Index:
			cur = t.X
			continue
		}
		if x == nil {
			break
		}
		nt := namedOf(x.Type())
		if nt == nil || !e.cfg.modelType(nt) {
			break
		}
		if fv := fieldVarOf(x.Type(), idx); fv != nil && !fv.Embedded() {
			names = append([]string{fv.Name()}, names...)
		}
		root = nt.Obj().Name()
		cur = x
	}
	return root + "." + strings.Join(names, ".")
}
