package props

import (
	"go/ast"
	"go/constant"
	"go/token"
	"go/types"

	"d2verif/internal/core"
)

func init() {
	register(&Prop{
		ID:       "C45",
		Title:    "Watch server shutdown waits for every client and admits none afterwards",
		Patterns: []string{"./d2cli"},
		Explanation: "Decides the locking/WaitGroup shape the shutdown argument rests on: (1) watcher.closing and watcher.wsclients are read and written only with wsclientsMu held (must-lockset dataflow over every function and closure of d2cli, entry locksets inherited from callers); " +
			"(2) in the websocket handler the wsclientsWG.Add is executed with the lock held and only on the path where closing was tested false; (3) close() sets closing under the lock, and every exit of close that is not the already-closing early return passes wsclientsWG.Wait, which is called with the lock released and after closing was set; " +
			"(4) every exit after the Add passes a Done — directly, or by starting the client goroutine whose first deferred call is Done.",
		NotCovered: "the interleaving argument itself (that these shapes imply no leaked handler), websocket/http internals, heartbeat goroutines",
		Technique:  "static analysis: must-lockset dataflow on go/cfg with caller-inherited entry sets, guard and must-pass-through queries",
		Run:        runC45,
	})
	register(&Prop{
		ID:       "C44",
		Title:    "Watch mode always delivers the latest result to every client",
		Patterns: []string{"./d2cli"},
		Explanation: "Decides the channel-protocol shape the no-lost-update argument rests on: (1) compileCh and every client's resultsCh are created with capacity exactly 1; (2) every send on them is the non-blocking arm of a select with default; (3) they are received from only in compileLoop / writeLoop; " +
			"(4) watcher.res is accessed only under resMu, broadcast stores the result before it signals any client, and signals with wsclientsMu held; (5) in writeLoop every cycle from a wake-up back to blocking re-reads the slot (getRes) and writes exactly the value read; in compileLoop every cycle from a wake-up back to blocking passes compile → broadcast or leaves the loop.",
		NotCovered: "that these shapes imply eventual delivery (a model-checking argument), file-system event delivery (fsnotify), browser side",
		Technique:  "static analysis: channel-shape inventory (capacity, non-blocking sends, receivers), lockset dataflow, cycle must-pass-through on go/cfg",
		Run:        runC44,
	})
}

type guardedField struct {
	typ, field, lock string
	exceptFuncs       map[string]string // function name -> reason (reviewed)
}

var watcherGuards = []guardedField{
	{"watcher", "closing", "wsclientsMu", nil},
	{"watcher", "wsclients", "wsclientsMu", nil},
	{"watcher", "res", "resMu", nil},
	{"watcher", "err", "errMu", map[string]string{"d2cli.(*watcher).run": "read after w.wg.Wait() and w.close(): happens-after every setErr of the loops it waited for"}},
	{"watcher", "boardPath", "boardpathMu", nil},
}

func checkGuardedFields(c *core.Check, rule string, la *lockAnalysis, guards []guardedField) {
	for _, g := range guards {
		fv := structField(c.P, "d2cli", g.typ, g.field)
		lv := structField(c.P, "d2cli", g.typ, g.lock)
		if fv == nil || lv == nil {
			c.Broken("lock table entry %s.%s / %s does not resolve", g.typ, g.field, g.lock)
			continue
		}
		n := 0
		for _, fi := range c.P.Funcs(la.pk) {
			for _, sel := range fieldAccesses(fi, fv) {
				n++
				key := "locked:" + g.typ + "." + g.field + "@" + fname(fi)
				held, body, ok := la.heldAt(fi, sel)
				if !ok {
					c.PassTrivial(rule, key, sel.Pos(), "unreachable code")
					continue
				}
				if held[lv] {
					c.Pass(rule, key, sel.Pos(), "lockset ∋ "+g.lock+" ("+body.Kind+" body)")
				} else if r, ok := g.exceptFuncs[fname(fi)]; ok {
					c.Except(rule, key, sel.Pos(), r)
				} else {
					c.Fail(rule, key, sel.Pos(), g.typ+"."+g.field+" is accessed without "+g.lock+" held on some path (data race with the other accessors)")
				}
			}
		}
		if n == 0 {
			c.Fail(rule, "locked:"+g.typ+"."+g.field+":no-access", token.NoPos, "guarded field is never accessed: table is stale")
		}
	}
}

func runC45(c *core.Check) {
	c.Rule("C45.lockset", "closing and wsclients are accessed only with wsclientsMu in the must-held lockset")
	c.Rule("C45.admit", "wsclientsWG.Add happens with wsclientsMu held and on the closing==false branch")
	c.Rule("C45.close", "close(): closing=true under the lock; Wait is reached on every non-early exit, after closing was set, with the lock released")
	c.Rule("C45.done", "every exit after Add passes Done or starts the goroutine that defers Done first")
	pk := c.P.Pkg("d2cli")
	if pk == nil {
		c.Broken("d2cli not loaded")
		return
	}
	info := pk.TypesInfo
	la := newLockAnalysis(c.P, pk)
	checkGuardedFields(c, "C45.lockset", la, watcherGuards[:2])

	closing := structField(c.P, "d2cli", "watcher", "closing")
	mu := structField(c.P, "d2cli", "watcher", "wsclientsMu")
	wg := structField(c.P, "d2cli", "watcher", "wsclientsWG")
	if closing == nil || mu == nil || wg == nil {
		c.Broken("watcher fields closing/wsclientsMu/wsclientsWG not found")
		return
	}
	isWG := func(call *ast.CallExpr, method string) bool {
		sel, ok := call.Fun.(*ast.SelectorExpr)
		if !ok || sel.Sel.Name != method {
			return false
		}
		return core.FieldOf(info, sel.X) == wg && core.IsCallTo(info, call, "sync.(*WaitGroup)."+method)
	}
	isClosingRead := func(e ast.Expr) bool { return core.FieldOf(info, e) == closing }

	nAdd := 0
	for _, fi := range c.P.Funcs(pk) {
		for _, call := range core.Calls(fi.Decl.Body, true) {
			switch {
			case isWG(call, "Add"):
				nAdd++
				key := "add@" + fname(fi)
				held, body, ok := la.heldAt(fi, call)
				fl := la.locks[body.Block].Flow
				guarded := false
				for _, g := range fl.GuardsOfNode(call) {
					for _, a := range g.Atoms() {
						if isClosingRead(a.Cond) && !a.True {
							guarded = true
						}
					}
				}
				c.Decide(ok && held[mu] && guarded, "C45.admit", key, call.Pos(), "Add under wsclientsMu on the !closing branch",
					"wsclientsWG.Add is not inside the critical section that tested closing==false: close() can return (or have returned) while this client is admitted")
				// pairing
				ab, ai, _ := fl.Locate(call)
				donePred := func(n ast.Node) bool {
					if cc, ok := n.(*ast.CallExpr); ok && isWG(cc, "Done") {
						return true
					}
					if gs, ok := n.(*ast.GoStmt); ok {
						if lit, ok := gs.Call.Fun.(*ast.FuncLit); ok && firstDeferIsDone(lit, isWG) {
							return true
						}
					}
					return false
				}
				bad := 0
				for _, ex := range fl.Exits() {
					if reach, _ := fl.ReachableFromAvoiding(ab, ai, ex.Blk, ex.Idx, donePred); reach {
						bad++
						pos := body.Block.End()
						if ex.Ret != nil {
							pos = ex.Ret.Pos()
						}
						c.Fail("C45.done", "done-after-add@"+fname(fi), pos, "an exit is reachable after wsclientsWG.Add without Done and without starting the goroutine that defers Done: close() would wait forever")
					}
				}
				if bad == 0 {
					c.Pass("C45.done", "done-after-add@"+fname(fi), call.Pos(), "all exits after Add pass Done / the client goroutine")
				}
			}
		}
	}
	if nAdd == 0 {
		c.Fail("C45.admit", "add:none", token.NoPos, "no wsclientsWG.Add found")
	}

	// close()
	cl := mustFunc(c, "d2cli", "watcher", "close")
	if cl == nil {
		return
	}
	var setClosing *ast.AssignStmt
	ast.Inspect(cl.Decl.Body, func(n ast.Node) bool {
		if as, ok := n.(*ast.AssignStmt); ok && len(as.Lhs) == 1 && core.FieldOf(info, as.Lhs[0]) == closing {
			if tv, ok := info.Types[as.Rhs[0]]; ok && tv.Value != nil && tv.Value.Kind() == constant.Bool && constant.BoolVal(tv.Value) {
				setClosing = as
			}
		}
		return true
	})
	var wait *ast.CallExpr
	for _, fi := range c.P.Funcs(pk) {
		for _, call := range core.Calls(fi.Decl.Body, true) {
			if !isWG(call, "Wait") {
				continue
			}
			if fi != cl || wait != nil {
				c.Fail("C45.close", "close:extra-wait@"+fname(fi), call.Pos(), "wsclientsWG.Wait outside the single shutdown point after closing=true: it can return before late handlers register")
				continue
			}
			wait = call
		}
	}
	if setClosing == nil || wait == nil {
		c.Fail("C45.close", "close:shape", cl.Decl.Pos(), "close() must set closing = true and call wsclientsWG.Wait")
		return
	}
	held, _, _ := la.heldAt(cl, setClosing)
	c.Decide(held[mu], "C45.close", "close:set-closing-under-lock", setClosing.Pos(), "closing = true with wsclientsMu held", "closing is set without the lock")
	heldW, body, _ := la.heldAt(cl, wait)
	fl := la.locks[body.Block].Flow
	c.Decide(!heldW[mu] && fl.DominatesNode(setClosing, wait), "C45.close", "close:wait-after-closing-unlocked", wait.Pos(), "Wait after closing=true, lock released",
		"wsclientsWG.Wait must run after closing was set and with wsclientsMu released (handlers take the lock to deregister)")
	// may-hold check: no path reaches Wait with the lock still held (must-lockset says not-held on all paths only if
	// intersect is empty; check the stronger "released on every path": Unlock dominates Wait after the set)
	unlockDom := false
	for _, call := range core.Calls(cl.Decl.Body, false) {
		if core.IsCallTo(info, call, "sync.(*Mutex).Unlock") && core.FieldOf(info, call.Fun.(*ast.SelectorExpr).X) == mu {
			if call.Pos() > setClosing.Pos() && fl.DominatesNode(call, wait) {
				unlockDom = true
			}
		}
	}
	c.Decide(unlockDom, "C45.close", "close:unlock-dominates-wait", wait.Pos(), "Unlock after closing=true dominates Wait", "no Unlock of wsclientsMu between closing=true and Wait on every path: Wait may run with the lock held and deadlock against deregistering handlers")
	wb, wi, _ := fl.Locate(wait)
	_ = wb
	_ = wi
	for _, ex := range fl.Exits() {
		early := false
		for _, g := range fl.GuardsOf(ex.Blk) {
			for _, a := range g.Atoms() {
				if isClosingRead(a.Cond) && a.True {
					early = true
				}
			}
		}
		if early {
			continue
		}
		ok, _ := fl.MustPassBefore(ex.Blk, ex.Idx, func(n ast.Node) bool { return n == ast.Node(wait) })
		pos := cl.Decl.End()
		if ex.Ret != nil {
			pos = ex.Ret.Pos()
		}
		c.Decide(ok, "C45.close", "close:wait-on-every-exit", pos, "exit passes Wait", "close() can return without waiting for the client handlers")
	}
}

// firstDeferIsDone: the literal's first statement is `defer wg.Done()`, so Done runs last, after every
// other deferred teardown step of the handler.
func firstDeferIsDone(lit *ast.FuncLit, isWG func(*ast.CallExpr, string) bool) bool {
	if len(lit.Body.List) == 0 {
		return false
	}
	d, ok := lit.Body.List[0].(*ast.DeferStmt)
	return ok && isWG(d.Call, "Done")
}

// ---------------------------------------------------------------------------------------------

func runC44(c *core.Check) {
	c.Rule("C44.capacity", "compileCh and resultsCh are made with constant capacity 1 wherever they are assigned")
	c.Rule("C44.nonblocking-send", "every send on compileCh/resultsCh is a select arm with a default clause")
	c.Rule("C44.receivers", "compileCh is received only in compileLoop; resultsCh only in writeLoop")
	c.Rule("C44.res-lock", "watcher.res is accessed only with resMu held")
	c.Rule("C44.store-before-signal", "broadcast stores w.res before any signal and signals with wsclientsMu held")
	c.Rule("C44.reread", "writeLoop: every wake-up→block cycle re-reads the slot and writes the value read; compileLoop: every wake-up→block cycle passes compile and broadcast")
	pk := c.P.Pkg("d2cli")
	if pk == nil {
		c.Broken("d2cli not loaded")
		return
	}
	info := pk.TypesInfo
	la := newLockAnalysis(c.P, pk)
	compileCh := structField(c.P, "d2cli", "watcher", "compileCh")
	resultsCh := structField(c.P, "d2cli", "wsclient", "resultsCh")
	res := structField(c.P, "d2cli", "watcher", "res")
	if compileCh == nil || resultsCh == nil || res == nil {
		c.Broken("watcher.compileCh / wsclient.resultsCh / watcher.res not found")
		return
	}
	chans := map[*types.Var]string{compileCh: "compileCh", resultsCh: "resultsCh"}
	allowedRecv := map[*types.Var]string{compileCh: "d2cli.(*watcher).compileLoop", resultsCh: "d2cli.(*wsclient).writeLoop"}
	checkGuardedFields(c, "C44.res-lock", la, watcherGuards[2:3])

	capOK := func(e ast.Expr) bool {
		call, ok := ast.Unparen(e).(*ast.CallExpr)
		if !ok || len(call.Args) != 2 {
			return false
		}
		if id, ok := call.Fun.(*ast.Ident); !ok || id.Name != "make" {
			return false
		}
		tv, ok := info.Types[call.Args[1]]
		return ok && tv.Value != nil && tv.Value.ExactString() == "1"
	}
	for _, fi := range c.P.Funcs(pk) {
		fn := fname(fi)
		ast.Inspect(fi.Decl.Body, func(n ast.Node) bool {
			switch s := n.(type) {
			case *ast.KeyValueExpr:
				if id, ok := s.Key.(*ast.Ident); ok {
					if v, ok := info.Uses[id].(*types.Var); ok && chans[v] != "" {
						c.Decide(capOK(s.Value), "C44.capacity", "cap:"+chans[v]+"@"+fn, s.Pos(), "make(chan, 1)", chans[v]+" must have capacity exactly 1: 0 loses a request sent while the loop is busy, >1 queues stale wake-ups")
					}
				}
			case *ast.AssignStmt:
				for i, l := range s.Lhs {
					if v := core.FieldOf(info, l); v != nil && chans[v] != "" && i < len(s.Rhs) {
						c.Decide(capOK(s.Rhs[i]), "C44.capacity", "cap:"+chans[v]+"@"+fn, s.Pos(), "make(chan, 1)", chans[v]+" must have capacity exactly 1")
					}
				}
			case *ast.SendStmt:
				if v := core.FieldOf(info, s.Chan); v != nil && chans[v] != "" {
					c.Decide(sendIsNonBlocking(fi, s), "C44.nonblocking-send", "send:"+chans[v]+"@"+fn, s.Pos(), "select { case ch <- …: default: }", "blocking send on "+chans[v]+": the sender (file watcher / broadcaster holding wsclientsMu) stalls behind a slow receiver")
				}
			case *ast.UnaryExpr:
				if s.Op == token.ARROW {
					if v := core.FieldOf(info, s.X); v != nil && chans[v] != "" {
						c.Decide(fn == allowedRecv[v], "C44.receivers", "recv:"+chans[v]+"@"+fn, s.Pos(), "single consumer loop", "a second receiver steals wake-ups from "+allowedRecv[v])
					}
				}
			case *ast.RangeStmt:
				if v := core.FieldOf(info, s.X); v != nil && chans[v] != "" {
					c.Decide(fn == allowedRecv[v], "C44.receivers", "recv:"+chans[v]+"@"+fn, s.Pos(), "single consumer loop", "a second receiver steals wake-ups")
				}
			case *ast.CallExpr:
				if id, ok := s.Fun.(*ast.Ident); ok && id.Name == "close" && len(s.Args) == 1 {
					if v := core.FieldOf(info, s.Args[0]); v != nil && chans[v] != "" {
						c.Fail("C44.receivers", "close:"+chans[v]+"@"+fn, s.Pos(), "closing a signalling channel makes later non-blocking sends panic")
					}
				}
			}
			return true
		})
	}
	c.Floor("C44.capacity", 2)
	c.Floor("C44.nonblocking-send", 2)
	c.Floor("C44.receivers", 2)

	// broadcast: store before signal
	bc := mustFunc(c, "d2cli", "watcher", "broadcast")
	if bc != nil {
		var store *ast.AssignStmt
		ast.Inspect(bc.Decl.Body, func(n ast.Node) bool {
			if as, ok := n.(*ast.AssignStmt); ok && len(as.Lhs) == 1 && core.FieldOf(info, as.Lhs[0]) == res {
				store = as
			}
			return true
		})
		fl := core.NewFlow(bc.Pkg, bc.Decl.Body)
		mu := structField(c.P, "d2cli", "watcher", "wsclientsMu")
		nsend := 0
		ast.Inspect(bc.Decl.Body, func(n ast.Node) bool {
			if s, ok := n.(*ast.SendStmt); ok && core.FieldOf(info, s.Chan) == resultsCh {
				nsend++
				okStore := store != nil && fl.DominatesNode(store, s)
				paramStored := false
				if store != nil {
					if o := core.ObjOf(info, store.Rhs[0]); o != nil && isParam(bc, o) {
						paramStored = true
					}
				}
				held, _, _ := la.heldAt(bc, s)
				c.Decide(okStore && paramStored && held[mu], "C44.store-before-signal", "broadcast:store≺signal", s.Pos(), "w.res = <param> dominates the signal; signal under wsclientsMu",
					"a client can be woken before the new result is stored (it re-reads the old one and sleeps), or the client set is iterated without its lock")
			}
			return true
		})
		if nsend == 0 {
			c.Fail("C44.store-before-signal", "broadcast:no-signal", bc.Decl.Pos(), "broadcast does not signal resultsCh")
		}
	}

	// writeLoop: re-read after every wake-up
	wl := mustFunc(c, "d2cli", "wsclient", "writeLoop")
	if wl != nil {
		fl := core.NewFlow(wl.Pkg, wl.Decl.Body)
		readers := map[*types.Func]bool{}
		for _, fi := range c.P.Funcs(pk) {
			if len(fieldAccesses(fi, res)) > 0 && !hasStoreTo(fi, res) {
				readers[fi.Obj] = true
			}
		}
		isRead := func(n ast.Node) bool {
			if call, ok := n.(*ast.CallExpr); ok && readers[calleeOrNil(info, call)] {
				return true
			}
			if e, ok := n.(ast.Expr); ok && core.FieldOf(info, e) == res {
				return true
			}
			return false
		}
		var recv ast.Node
		ast.Inspect(wl.Decl.Body, func(n ast.Node) bool {
			if u, ok := n.(*ast.UnaryExpr); ok && u.Op == token.ARROW && core.FieldOf(info, u.X) == resultsCh {
				recv = u
			}
			return true
		})
		if recv == nil {
			c.Fail("C44.reread", "writeLoop:recv", wl.Decl.Pos(), "writeLoop does not receive from resultsCh")
		} else {
			rb, ri, ok := fl.Locate(recv)
			again, _ := fl.ReachableFromAvoiding(rb, ri, rb, ri, isRead)
			c.Decide(ok && !again, "C44.reread", "writeLoop:reread-after-wakeup", recv.Pos(), "every wake-up→block cycle passes a read of w.res", "writeLoop can go back to sleep after a wake-up without re-reading the result slot: an update is lost")
			// the first block is preceded by a read as well (a client that connects after a compile gets the current result)
			first, _ := fl.ReachableAvoiding(rb, ri, isRead)
			c.Decide(!first, "C44.reread", "writeLoop:read-before-first-block", recv.Pos(), "slot read before the first block", "a newly connected client blocks without sending the current result")
			// value written is the value read
			for _, call := range core.Calls(wl.Decl.Body, false) {
				f := core.CalleeOf(info, call)
				if f == nil || f.Name() != "write" || len(call.Args) != 2 {
					continue
				}
				obj := core.ObjOf(info, call.Args[1])
				okv := false
				if obj != nil {
					ds := defsOf(wl, obj)
					if len(ds) == 1 && ds[0].Rhs != nil {
						if rc, ok := ast.Unparen(ds[0].Rhs).(*ast.CallExpr); ok && readers[calleeOrNil(info, rc)] {
							okv = true
						}
					}
				}
				// the write is skipped only when the value read is nil
				onlyNil := true
				for _, g := range fl.GuardsOfNode(call) {
					for _, a := range g.Atoms() {
						x, nonNil, isNil := a.NilTest(info)
						if isNil && nonNil && core.ObjOf(info, x) == obj {
							continue
						}
						onlyNil = false
					}
				}
				c.Decide(okv && onlyNil, "C44.reread", "writeLoop:writes-value-read", call.Pos(), "write(res) with res := getRes(), guarded only by res != nil", "the value sent to the client is not exactly the freshly read result, or the write is skipped under another condition")
			}
		}
	}
	// compileLoop
	clp := mustFunc(c, "d2cli", "watcher", "compileLoop")
	if clp != nil {
		fl := core.NewFlow(clp.Pkg, clp.Decl.Body)
		var recv ast.Node
		ast.Inspect(clp.Decl.Body, func(n ast.Node) bool {
			if u, ok := n.(*ast.UnaryExpr); ok && u.Op == token.ARROW && core.FieldOf(info, u.X) == compileCh {
				recv = u
			}
			return true
		})
		if recv == nil {
			c.Fail("C44.reread", "compileLoop:recv", clp.Decl.Pos(), "compileLoop does not receive from compileCh")
		} else {
			rb, ri, _ := fl.Locate(recv)
			isBroadcast := func(n ast.Node) bool { return core.IsCallTo(info, n, "d2cli.(*watcher).broadcast") }
			again, _ := fl.ReachableFromAvoiding(rb, ri, rb, ri, isBroadcast)
			c.Decide(!again, "C44.reread", "compileLoop:broadcast-every-cycle", recv.Pos(), "every wake-up→block cycle broadcasts a result", "compileLoop can consume a compile request and block again without broadcasting a result")
			isCompile := func(n ast.Node) bool { return core.IsCallTo(info, n, "d2cli.compile") }
			// a cycle that avoids compile must be an error broadcast (allowed: browser restart failure); require that
			// compile is reachable after the receive and that no cycle avoids both compile and a `continue` after broadcast
			reach := false
			for _, call := range callsIn(clp, false, "d2cli.compile") {
				cb, ci, ok := fl.Locate(call)
				if ok {
					if r, _ := fl.ReachableFromAvoiding(rb, ri, cb, ci, func(ast.Node) bool { return false }); r {
						reach = true
					}
				}
			}
			_ = isCompile
			c.Decide(reach, "C44.reread", "compileLoop:compile-after-wakeup", recv.Pos(), "compile is invoked after the wake-up (reads the file afresh)", "compile is not reachable after a wake-up")
			// after every compile — successful or not — the set of watched files is refreshed from the files it opened,
			// otherwise a change to a newly imported file never produces a compile request
			isRefresh := func(n ast.Node) bool { return core.IsCallTo(info, n, "d2cli.(*watcher).replaceWatchList") }
			for _, call := range callsIn(clp, false, "d2cli.compile") {
				cb, ci, ok := fl.Locate(call)
				if !ok {
					continue
				}
				skip, _ := fl.ReachableFromAvoiding(cb, ci, rb, ri, isRefresh)
				c.Decide(!skip, "C44.reread", "compileLoop:watchlist-refreshed-after-every-compile", call.Pos(), "replaceWatchList on every path from compile back to blocking",
					"compileLoop can go back to waiting after a compile without refreshing the watch list (e.g. only on success): files first imported by a failing compile are never watched, so fixing them triggers nothing")
			}
		}
	}
}

func hasStoreTo(fi *core.FuncInfo, v *types.Var) bool {
	found := false
	ast.Inspect(fi.Decl.Body, func(n ast.Node) bool {
		if as, ok := n.(*ast.AssignStmt); ok {
			for _, l := range as.Lhs {
				if core.FieldOf(fi.Pkg.TypesInfo, l) == v {
					found = true
				}
			}
		}
		return true
	})
	return found
}

// sendIsNonBlocking: the send is the Comm of a select clause whose select has a default clause.
func sendIsNonBlocking(fi *core.FuncInfo, s *ast.SendStmt) bool {
	ok := false
	ast.Inspect(fi.Decl.Body, func(n ast.Node) bool {
		sel, isSel := n.(*ast.SelectStmt)
		if !isSel {
			return true
		}
		hasDefault, mine := false, false
		for _, cl := range sel.Body.List {
			cc := cl.(*ast.CommClause)
			if cc.Comm == nil {
				hasDefault = true
			}
			if cc.Comm == ast.Stmt(s) {
				mine = true
			}
		}
		if mine && hasDefault {
			ok = true
		}
		return true
	})
	return ok
}
