package props

import (
	"fmt"
	"go/ast"
	"go/constant"
	"go/token"
	"go/types"
	"sort"
	"strings"

	"d2verif/internal/core"
)

func init() {
	register(&Prop{
		ID:       "C03",
		Title:    "Formatting is idempotent",
		Patterns: []string{"./d2format", "./d2parser", "./d2ast"},
		Explanation: "Decides necessary conditions of idempotence, not idempotence itself: (1) the printer's node switch has an arm for every implementer of d2ast.Node (a missing arm silently drops the node, and the second format then differs from the source); " +
			"(2) no per-rune counter is used as a byte offset into the string it counted (block-string indentation helpers shared by parser and printer); (3) the printer re-quotes an import path with the quoting of the context the parser reads it in (parseImport reads a key path ⇒ RawStringBox(…, inKey = true)); " +
			"(4) the sibling line printers blockString and blockComment use the same empty-line test, so a line printed without indentation is exactly a line the parser reads back as empty.",
		NotCovered: "idempotence itself: blank-line arithmetic from source ranges, comment placement, board hoisting — a run-time equality of two formatting passes",
		Technique:  "static analysis: sealed-interface switch coverage, rune/byte counter rule, context agreement between parser and printer call graphs, sibling agreement",
		Run:        runC03,
	})
	register(&Prop{
		ID:       "C04",
		Title:    "Formatting preserves the diagram's meaning",
		Patterns: []string{"./d2format", "./d2ast", "./d2ir", "./d2compiler", "./d2graph"},
		Explanation: "Decides: (1) every case-changing call in the printer is control-dependent on the key context (p.inKey): values are never re-cased; (2) the printer lower-cases key segments spelled like reserved keywords, so the compile path must classify keywords case-insensitively: every lookup into the d2ast keyword tables in d2ir, d2compiler and d2graph takes a key that went through strings.ToLower (value-level, following local definitions); each raw lookup is a place where `Shape: circle` and its formatted form `shape: circle` are treated differently; " +
			"(3) printer field coverage: every exported field (other than Range) of the AST node types is read by the printer — a field the printer never reads is lost from the formatted text. Also: a printer function that tells quoted from unquoted text by a bool parameter changes letter case only on the unquoted side.",
		NotCovered: "equivalence of the compiled diagrams in general; statement order effects of the board hoist (boards printed last in their map)",
		Technique:  "static analysis: control dependence on go/cfg, value provenance of map keys, struct-field read coverage",
		Run:        runC04,
	})
	register(&Prop{
		ID:       "C05",
		Title:    "Strings survive quoting: generated D2 syntax parses back to the same string",
		Patterns: []string{"./d2ast", "./d2format", "./d2parser"},
		Explanation: "Decides classifier/generator agreement without running either side: (1) the words the parser's parseValue turns into null, suspension markers and booleans (operands of strings.EqualFold, extracted from the code) are taken as string classes (the word itself; its other case variants); RawString(s, inKey=false) is interpreted abstractly over each class (three-valued conditions, helper functions interpreted, loops over literal lists unrolled) and must have no feasible return of an unquoted node for them — except the canonical spellings true and false, which print back identically; " +
			"the same interpretation of escapeUnquotedValue must not return a constant (a constant result cannot preserve letter case); (2) every rune at which parseUnquotedString stops or branches (the case constants of its rune switches, split by key/value context) is in UnquotedKeySpecials / UnquotedValueSpecials, so a string containing it is quoted or escaped; " +
			"(3) hasSurroundingWhitespace decodes whole runes at both ends (sibling agreement of its two tests); (4) key context: the printer lower-cases keyword-like segments, RawString does not quote them — reported as a known finding. Also: the printer re-cases key text only when it is unquoted, so a quoted segment spelled like a keyword keeps its case (the generator relies on it).",
		NotCovered: "round-trip equality for arbitrary strings beyond these tables (escape sequences inside quoted strings, the `-` look-ahead in keys)",
		Technique:  "static analysis: abstract interpretation of the generator over string classes extracted from the parser; constant-set inclusion; sibling agreement",
		Run:        runC05,
	})
}

// ---------------------------------------------------------------------------------------------- C03

func runC03(c *core.Check) {
	c.Rule("C03.node-switch", "printer.node handles every implementer of d2ast.Node")
	c.Rule("C03.rune-byte", "no per-rune counter is used as a byte offset")
	c.Rule("C03.import-quoting", "import paths are re-quoted as keys, the context the parser reads them in")
	c.Rule("C03.line-siblings", "blockString and blockComment agree on the empty-line test")
	pk := c.P.Pkg("d2format")
	if pk == nil {
		c.Broken("d2format not loaded")
		return
	}
	found := false
	for _, ss := range sealedSwitchesIn(c.P, pk) {
		if fname(ss.fi) != "d2format.(*printer).node" {
			continue
		}
		found = true
		c.Decide(len(ss.uncovered) == 0, "C03.node-switch", "printer.node:"+ss.iface.Obj().Name(), ss.sw.Pos(), "all implementers have an arm", fmt.Sprintf("no arm for %v: such nodes are dropped from the formatted text", ss.uncovered))
	}
	if !found {
		c.Fail("C03.node-switch", "printer.node:none", token.NoPos, "the type switch of printer.node over d2ast.Node was not found")
	}
	n := 0
	for _, rel := range []string{"d2parser", "d2format", "d2ast"} {
		p2 := c.P.Pkg(rel)
		if p2 == nil {
			continue
		}
		for _, u := range runeByteUses(c.P, c.P.Funcs(p2)) {
			n++
			c.Fail("C03.rune-byte", "runebyte:"+fname(u.fi)+":"+exprStr(u.node), u.node.Pos(), u.why)
		}
	}
	if n == 0 {
		c.Pass("C03.rune-byte", "runebyte:none", token.NoPos, "no per-rune counter is used to slice the string it counts in d2parser, d2format, d2ast")
	}
	// import quoting
	pi := mustFunc(c, "d2parser", "parser", "parseImport")
	fi := mustFunc(c, "d2format", "printer", "_import")
	if pi != nil && fi != nil {
		readsKey := len(callsIn(pi, false, "d2parser.(*parser).parseKey")) > 0
		calls := callsIn(fi, false, "d2ast.RawStringBox", "d2ast.RawString")
		if len(calls) == 0 {
			c.Fail("C03.import-quoting", "_import:requote", fi.Decl.Pos(), "the import path is no longer re-quoted through RawString")
		}
		for _, call := range calls {
			tv, ok := fi.Pkg.TypesInfo.Types[call.Args[1]]
			isConst := ok && tv.Value != nil && tv.Value.Kind() == constant.Bool
			okc := isConst && constant.BoolVal(tv.Value) == readsKey
			c.Decide(okc, "C03.import-quoting", "_import:inKey", call.Pos(), fmt.Sprintf("constant inKey=%v; parser reads the path with parseKey=%v", readsKey, readsKey),
				"the import path is quoted with another context's rules than the parser reads it with (printer state p.inKey is false while values are printed): characters special only in keys (. : -- ->) come out unquoted and the text re-parses differently")
		}
	}
	// sibling line printers
	bs, bc := mustFunc(c, "d2format", "printer", "blockString"), mustFunc(c, "d2format", "printer", "blockComment")
	if bs != nil && bc != nil {
		t1, p1 := emptyLineTest(bs)
		t2, _ := emptyLineTest(bc)
		c.Decide(t1 != "" && t1 == t2, "C03.line-siblings", "blockString~blockComment:empty-line-test", p1, "both print a bare newline exactly for l == \"\" ("+t1+")",
			fmt.Sprintf("blockString tests %q, blockComment tests %q: a line one of them prints without indentation is not a line the parser reads back as empty, so the second format differs", t1, t2))
	}
}

// emptyLineTest returns the normalised condition under which the line loop writes a bare '\n'.
func emptyLineTest(fi *core.FuncInfo) (string, token.Pos) {
	out, pos := "", fi.Decl.Pos()
	ast.Inspect(fi.Decl.Body, func(n ast.Node) bool {
		rs, ok := n.(*ast.RangeStmt)
		if !ok || rs.Value == nil {
			return true
		}
		v := rs.Value.(*ast.Ident).Name
		ast.Inspect(rs.Body, func(m ast.Node) bool {
			is, ok := m.(*ast.IfStmt)
			if !ok || len(is.Body.List) != 1 {
				return true
			}
			es, ok := is.Body.List[0].(*ast.ExprStmt)
			if !ok || !strings.Contains(exprStr(es.X), `WriteByte('\n')`) {
				return true
			}
			out = strings.ReplaceAll(exprStr(is.Cond), v, "$line")
			pos = is.Pos()
			return true
		})
		return true
	})
	return out, pos
}

type runeByteUse struct {
	fi   *core.FuncInfo
	node ast.Expr
	why  string
}

// runeByteUses: `for _, r := range S { … i++ … }` (i incremented once per iteration, not by the rune's
// width) followed by S[i:], S[:i] or S[i].
func runeByteUses(p *core.Prog, fis []*core.FuncInfo) []runeByteUse {
	var out []runeByteUse
	for _, fi := range fis {
		info := fi.Pkg.TypesInfo
		ast.Inspect(fi.Decl.Body, func(n ast.Node) bool {
			rs, ok := n.(*ast.RangeStmt)
			if !ok {
				return true
			}
			tv, ok := info.Types[rs.X]
			if !ok {
				return true
			}
			if b, ok := tv.Type.Underlying().(*types.Basic); !ok || b.Info()&types.IsString == 0 {
				return true
			}
			// counters incremented in the body
			counters := map[types.Object]bool{}
			ast.Inspect(rs.Body, func(m ast.Node) bool {
				if inc, ok := m.(*ast.IncDecStmt); ok && inc.Tok == token.INC {
					if o := core.ObjOf(info, inc.X); o != nil {
						counters[o] = true
					}
				}
				return true
			})
			if rs.Key != nil {
				delete(counters, core.ObjOf(info, rs.Key))
			}
			if len(counters) == 0 {
				return true
			}
			// is every counted rune known to be one byte wide? (a guard r < utf8.RuneSelf / comparisons with ASCII constants only)
			xs := exprStr(rs.X)
			ast.Inspect(fi.Decl.Body, func(m ast.Node) bool {
				var base ast.Expr
				var bounds []ast.Expr
				switch x := m.(type) {
				case *ast.SliceExpr:
					base, bounds = x.X, []ast.Expr{x.Low, x.High}
				case *ast.IndexExpr:
					base, bounds = x.X, []ast.Expr{x.Index}
				default:
					return true
				}
				if exprStr(base) != xs {
					return true
				}
				for _, b := range bounds {
					if b == nil {
						continue
					}
					if o := core.ObjOf(info, b); o != nil && counters[o] {
						out = append(out, runeByteUse{fi, m.(ast.Expr), fmt.Sprintf("%s counts runes of %s (one per loop iteration) and is then used as a byte offset into it: with multi-byte characters the string is cut in the wrong place, possibly inside a character", o.Name(), xs)})
					}
				}
				return true
			})
			return true
		})
	}
	return out
}

// ---------------------------------------------------------------------------------------------- C04

var keywordTables = map[string]bool{"ReservedKeywords": true, "SimpleReservedKeywords": true, "StyleKeywords": true, "CompositeReservedKeywords": true, "BoardKeywords": true, "ReservedKeywordHolders": true, "NearConstants": false}

func runC04(c *core.Check) {
	c.Rule("C04.case-in-key-only", "case-changing calls in the printer are control-dependent on p.inKey")
	c.Rule("C04.keyword-case", "keyword-table lookups on the compile path use a lower-cased key")
	c.Rule("C04.fields-printed", "every exported field of the AST node types is read by the printer")
	pk := c.P.Pkg("d2format")
	if pk == nil {
		c.Broken("d2format not loaded")
		return
	}
	inKeyF := structField(c.P, "d2format", "printer", "inKey")
	n := 0
	for _, fi := range c.P.Funcs(pk) {
		info := fi.Pkg.TypesInfo
		var fl *core.Flow
		for _, call := range core.Calls(fi.Decl.Body, true) {
			if !core.IsCallTo(info, call, "strings.ToLower", "strings.ToUpper", "strings.Title", "strings.ToTitle") {
				continue
			}
			// lookups (map index with the lowered key) do not change the output; only calls whose result is stored or written do
			if isMapIndexKey(fi, call) {
				continue
			}
			n++
			if fl == nil {
				fl = core.NewFlow(fi.Pkg, fi.Decl.Body)
			}
			ok := false
			for _, g := range fl.GuardsOfNode(call) {
				for _, a := range g.Atoms() {
					if a.True && core.FieldOf(info, a.Cond) == inKeyF && inKeyF != nil {
						ok = true
					}
				}
			}
			c.Decide(ok, "C04.case-in-key-only", "case:"+fname(fi)+":"+exprStr(call), call.Pos(), "only in key context", "the printer changes the letter case of text outside key context: a value such as `x: Near` is rewritten to `near` and the label changes")
		}
	}
	if n == 0 {
		c.Note("C04.case-in-key-only: the printer has no case-changing call")
	}
	checkCaseUnquotedOnly(c, "C04.case-unquoted-only")
	// block text is written verbatim, line by line
	c.Rule("C04.verbatim-lines", "block strings and block comments are written line by line without altering the lines")
	for _, name := range []string{"blockString", "blockComment"} {
		fi := mustFunc(c, "d2format", "printer", name)
		if fi == nil {
			continue
		}
		info := fi.Pkg.TypesInfo
		okV := false
		why := "no loop over the lines found"
		ast.Inspect(fi.Decl.Body, func(nd ast.Node) bool {
			rs, ok := nd.(*ast.RangeStmt)
			if !ok || rs.Value == nil {
				return true
			}
			v := core.ObjOf(info, rs.Value)
			// the collection: strings.Split(<x>.Value, "\n") (directly or through a local)
			src := rs.X
			if o := core.ObjOf(info, src); o != nil {
				if d := singleDef(fi, o); d != nil {
					src = d.Rhs
				}
			}
			call, ok := ast.Unparen(src).(*ast.CallExpr)
			if !ok || !core.IsCallTo(info, call, "strings.Split") || !strings.HasSuffix(exprStr(call.Args[0]), ".Value") {
				return true
			}
			wrote, altered := false, ""
			ast.Inspect(rs.Body, func(m ast.Node) bool {
				switch x := m.(type) {
				case *ast.CallExpr:
					if core.IsCallTo(info, x, "strings.(*Builder).WriteString") && len(x.Args) == 1 {
						if core.ObjOf(info, x.Args[0]) == v {
							wrote = true
						} else if strings.Contains(exprStr(x.Args[0]), rs.Value.(*ast.Ident).Name) {
							altered = exprStr(x.Args[0])
						}
					}
				case *ast.AssignStmt:
					for _, l := range x.Lhs {
						if core.ObjOf(info, l) == v {
							altered = exprStr(x.Lhs[0]) + " = " + exprStr(x.Rhs[0])
						}
					}
				}
				return true
			})
			if wrote && altered == "" {
				okV, why = true, ""
			} else if altered != "" {
				why = "the line is altered before it is written: " + altered
			} else {
				why = "the line variable is not what is written"
			}
			return true
		})
		c.Decide(okV, "C04.verbatim-lines", name+":line-written-as-is", fi.Decl.Pos(), "each line of Value is written unmodified", name+" does not write the lines of the block verbatim ("+why+"): block text is the label or code source, so trailing blanks (markdown hard breaks) or whitespace-only lines change the diagram")
	}
	// which nodes the printer treats as board blocks
	c.Rule("C04.board-nodes", "only single-segment layers/scenarios/steps keys are board blocks; the printer skips a board node only when it hoists it or it declares nothing")
	if ib := mustFunc(c, "d2ast", "MapNodeBox", "IsBoardNode"); ib != nil {
		single := false
		ast.Inspect(ib.Decl.Body, func(nd ast.Node) bool {
			is, ok := nd.(*ast.IfStmt)
			if !ok || len(is.Body.List) != 1 {
				return true
			}
			rs, ok := is.Body.List[0].(*ast.ReturnStmt)
			if !ok || len(rs.Results) != 1 || exprStr(rs.Results[0]) != "false" {
				return true
			}
			var flat func(e ast.Expr)
			flat = func(e ast.Expr) {
				if be, ok := ast.Unparen(e).(*ast.BinaryExpr); ok && be.Op == token.LOR {
					flat(be.X)
					flat(be.Y)
					return
				}
				s := exprStr(e)
				if strings.HasPrefix(s, "len(") && strings.HasSuffix(s, ".Key.Path) != 1") {
					single = true
				}
			}
			flat(is.Cond)
			return true
		})
		c.Decide(single, "C04.board-nodes", "IsBoardNode:single-segment-key", ib.Decl.Pos(), "returns false unless the key has exactly one segment", "IsBoardNode accepts keys with several segments (layers.x.y: …): the printer treats them as board blocks and drops those it does not hoist")
	}
	if mp := mustFunc(c, "d2format", "printer", "_map"); mp != nil {
		info := mp.Pkg.TypesInfo
		fl := core.NewFlow(mp.Pkg, mp.Decl.Body)
		ncont := 0
		ast.Inspect(mp.Decl.Body, func(nd ast.Node) bool {
			is, ok := nd.(*ast.IfStmt)
			if !ok || !strings.Contains(exprStr(is.Cond), "IsBoardNode()") {
				return true
			}
			ast.Inspect(is.Body, func(m ast.Node) bool {
				br, ok := m.(*ast.BranchStmt)
				if !ok || br.Tok != token.CONTINUE {
					return true
				}
				ncont++
				// hoisted (append to the board list on every path to this continue inside the branch) or declares nothing
				okc := false
				how := ""
				// `continue` is an edge, not a node of the flow graph: take the statement just before it
				var anchor ast.Node = br
				ast.Inspect(is.Body, func(k ast.Node) bool {
					if blk, ok := k.(*ast.BlockStmt); ok {
						for i, st := range blk.List {
							if st == ast.Stmt(br) && i > 0 {
								anchor = blk.List[i-1]
							}
						}
					}
					return true
				})
				for _, g := range fl.GuardsOfNode(anchor) {
					for _, a := range g.Atoms() {
						s := exprStr(a.Cond)
						if a.True && strings.HasSuffix(s, ".Value.Import == nil") {
							okc, how = true, "under "+s+" (no imported boards) after the non-empty-map case was handled"
						}
						// a predicate of the package that answers false for an imported board (its body tests Value.Import)
						if call, isCall := ast.Unparen(a.Cond).(*ast.CallExpr); isCall && a.True {
							if callee := core.CalleeOf(info, call); callee != nil && callee.Pkg() == mp.Pkg.Types {
								if h := c.P.Decl(callee); h != nil && h.Decl.Body != nil {
									testsImport := false
									ast.Inspect(h.Decl.Body, func(y ast.Node) bool {
										if be, ok := y.(*ast.BinaryExpr); ok && be.Op == token.NEQ && strings.HasSuffix(exprStr(be.X), ".Value.Import") && core.IsNil(h.Pkg.TypesInfo, be.Y) {
											// … != nil must lead to `return false`
											testsImport = true
										}
										return true
									})
									if testsImport {
										okc, how = true, "under "+s+", which is false for a board imported from a file (it tests Value.Import)"
									}
								}
							}
						}
					}
				}
				if !okc {
					// an append of the node to a slice precedes the continue in the same block
					ast.Inspect(is.Body, func(k ast.Node) bool {
						blk, ok := k.(*ast.BlockStmt)
						if !ok {
							return true
						}
						for i, st := range blk.List {
							if st == ast.Stmt(br) {
								for _, prev := range blk.List[:i] {
									if as, ok := prev.(*ast.AssignStmt); ok && len(as.Rhs) == 1 {
										if call, ok := ast.Unparen(as.Rhs[0]).(*ast.CallExpr); ok && exprStr(call.Fun) == "append" && len(call.Args) == 2 && strings.HasPrefix(exprStr(as.Lhs[0]), "board") {
											okc, how = true, "the node was appended to "+exprStr(as.Lhs[0])
										}
									}
								}
							}
						}
						return true
					})
				}
				_ = info
				c.Decide(okc, "C04.board-nodes", "_map:skip-board-node", br.Pos(), how, "the printer skips a board node without hoisting it although it may carry content (e.g. `layers: @file`): the boards disappear from the formatted text")
				return true
			})
			return true
		})
		if ncont == 0 {
			c.Fail("C04.board-nodes", "_map:skip-board-node:none", mp.Decl.Pos(), "the board-node branch of _map was not found")
		}
	}
	// keyword lookups
	nl := 0
	for _, rel := range []string{"d2ir", "d2compiler", "d2graph"} {
		p2 := c.P.Pkg(rel)
		if p2 == nil {
			c.Broken("%s not loaded", rel)
			continue
		}
		for _, fi := range c.P.Funcs(p2) {
			info := fi.Pkg.TypesInfo
			counts := map[string]int{}
			ast.Inspect(fi.Decl.Body, func(nd ast.Node) bool {
				ix, ok := nd.(*ast.IndexExpr)
				if !ok {
					return true
				}
				sel, ok := ast.Unparen(ix.X).(*ast.SelectorExpr)
				if !ok || !keywordTables[sel.Sel.Name] {
					return true
				}
				if v, ok := info.Uses[sel.Sel].(*types.Var); !ok || v.Pkg() == nil || core.RelPkg(v.Pkg().Path()) != "d2ast" {
					return true
				}
				nl++
				lowered, why := loweredExpr(fi, ix.Index, 0)
				key := fmt.Sprintf("kwcase:%s:%s[%s]", fname(fi), sel.Sel.Name, exprStr(ix.Index))
				counts[key]++
				if counts[key] > 1 {
					key = fmt.Sprintf("%s#%d", key, counts[key])
				}
				if !lowered && kwcaseExceptions[key] != "" {
					c.Except("C04.keyword-case", key, ix.Pos(), kwcaseExceptions[key])
					return true
				}
				c.Decide(lowered, "C04.keyword-case", key, ix.Pos(), why, "this keyword lookup is case-sensitive ("+why+") while d2 fmt rewrites keyword-like keys to lower case: `x: {Shape: circle}` compiles to a rectangle, its formatted text `x: {shape: circle}` to a circle")
				return true
			})
		}
	}
	if nl < 20 {
		c.Fail("C04.keyword-case", "lookups", token.NoPos, fmt.Sprintf("only %d keyword-table lookups found on the compile path", nl))
	}
	// names of IR fields are canonical: the only place that names a new field after a key segment lower-cases reserved keywords
	if ef := mustFunc(c, "d2ir", "Map", "ensureField"); ef != nil {
		info := ef.Pkg.TypesInfo
		nameF := structField(c.P, "d2ir", "Field", "Name")
		fl := core.NewFlow(ef.Pkg, ef.Decl.Body)
		var lit *ast.CompositeLit
		ast.Inspect(ef.Decl.Body, func(nd ast.Node) bool {
			if cl, ok := nd.(*ast.CompositeLit); ok && exprStr(cl.Type) == "Field" {
				for _, el := range cl.Elts {
					if kv, ok := el.(*ast.KeyValueExpr); ok && exprStr(kv.Key) == "Name" {
						lit = cl
					}
				}
			}
			return true
		})
		okCanon := false
		if lit != nil {
			ast.Inspect(ef.Decl.Body, func(nd ast.Node) bool {
				as, ok := nd.(*ast.AssignStmt)
				if !ok || len(as.Lhs) != 1 || core.FieldOf(info, as.Lhs[0]) != nameF || as.Pos() < lit.Pos() {
					return true
				}
				// right-hand side: an UnquotedString literal whose text is a lower-cased variable
				lowered := false
				ast.Inspect(as.Rhs[0], func(m ast.Node) bool {
					if u, ok := m.(*ast.UnaryExpr); ok && u.Op == token.AND {
						if ok2, _ := loweredExpr(ef, u.X, 0); ok2 {
							if _, isLit := ast.Unparen(u.X).(*ast.CompositeLit); !isLit {
								lowered = true
							}
						}
					}
					return true
				})
				guarded := false
				for _, g := range fl.GuardsOfNode(as) {
					for _, a := range g.Atoms() {
						if a.True && strings.Contains(exprStr(a.Cond), "IsUnquoted()") {
							guarded = true
						}
					}
				}
				if lowered && guarded {
					okCanon = true
				}
				return true
			})
		}
		c.Decide(lit != nil && okCanon, "C04.keyword-case", "canonical-at-creation:d2ir.(*Map).ensureField", ef.Decl.Pos(), "a new field named after an unquoted reserved keyword gets the lower-cased name",
			"ensureField names new IR fields with the source spelling: `Shape: circle` creates a field \"Shape\" that the case-sensitive lookups downstream do not recognise, while d2 fmt prints it as `shape`")
	}
	// field coverage
	apk := c.P.Pkg("d2ast")
	if apk != nil {
		read := map[*types.Var]bool{}
		for _, fi := range c.P.Funcs(pk) {
			ast.Inspect(fi.Decl.Body, func(nd ast.Node) bool {
				if sel, ok := nd.(*ast.SelectorExpr); ok {
					if v := core.FieldOf(fi.Pkg.TypesInfo, sel); v != nil {
						read[v] = true
					}
				}
				return true
			})
		}
		// methods of d2ast the printer calls may read fields on its behalf (Unbox, IsBoardNode, ScalarString …)
		for _, fi := range c.P.Funcs(apk) {
			if fi.Decl.Recv == nil {
				continue
			}
			ast.Inspect(fi.Decl.Body, func(nd ast.Node) bool {
				if sel, ok := nd.(*ast.SelectorExpr); ok {
					if v := core.FieldOf(fi.Pkg.TypesInfo, sel); v != nil && (fi.Obj.Name() == "Unbox" || fi.Obj.Name() == "ScalarString" || fi.Obj.Name() == "IsBoardNode") {
						read[v] = true
					}
				}
				return true
			})
		}
		nodeTypes := []string{"Key", "Edge", "Import", "Substitution", "BlockString", "EdgeIndex", "KeyPath", "Array", "Map", "Comment", "BlockComment", "Number", "Boolean", "Suspension", "SingleQuotedString", "DoubleQuotedString", "UnquotedString"}
		nf := 0
		for _, tn := range nodeTypes {
			obj, _ := apk.Types.Scope().Lookup(tn).(*types.TypeName)
			if obj == nil {
				c.Fail("C04.fields-printed", "type:"+tn, token.NoPos, "AST node type "+tn+" not found")
				continue
			}
			st, ok := obj.Type().Underlying().(*types.Struct)
			if !ok {
				continue
			}
			for i := 0; i < st.NumFields(); i++ {
				f := st.Field(i)
				if !f.Exported() || f.Name() == "Range" {
					continue
				}
				nf++
				key := "field:" + tn + "." + f.Name()
				if r := fieldExceptions[key]; r != "" && !read[f] {
					c.Except("C04.fields-printed", key, f.Pos(), r)
					continue
				}
				c.Decide(read[f], "C04.fields-printed", key, f.Pos(), "read by the printer", "the printer never reads "+tn+"."+f.Name()+": whatever it carries is lost from the formatted text")
			}
		}
		if nf < 25 {
			c.Fail("C04.fields-printed", "fields", token.NoPos, fmt.Sprintf("only %d AST fields inventoried", nf))
		}
	}
}

// kwcaseExceptions: raw lookups whose key is not an IR field name. Reviewed one by one.
var kwcaseExceptions = map[string]string{
	"kwcase:d2ir.matchPattern:ReservedKeywords[s]":                                                        "s is a parameter; every caller passes the name of an IR field (canonical)",
	"kwcase:d2ir.(*compiler).IsContainer:ReservedKeywords[n.MapKey.Key.Path[0].Unbox().ScalarString()]": "looks at the AST of a not yet compiled import to tell containers from leaves for ** globs; no input was found where the spelling of a keyword changes the result (x: {...@a} with `Shape: circle` and `shape: circle` both give a leaf)",
	"kwcase:d2ir.findProhibitedEdgeKeyword:SimpleReservedKeywords[ida[i].ScalarString()]":               "connection endpoints: `x -> Shape` and `x -> shape` are both rejected (by this test or by `reserved field must have a value`), so no compilable input depends on it",
	"kwcase:d2ir.findProhibitedEdgeKeyword:ReservedKeywordHolders[ida[i].ScalarString()]":                "same as above for `x -> Style.…`",
	"kwcase:d2graph.(*Object).HasChild:ReservedKeywords[ids[0]]":                                         "ids come from IR field names (d2compiler) or from d2graph IDs (d2oracle), both canonical",
	"kwcase:d2graph.(*Object).EnsureChild:ReservedKeywordHolders[ida[0].ScalarString()]":                 "ida is built from IR field names by d2compiler (canonical)",
	"kwcase:d2graph.(*Object).EnsureChild:ReservedKeywords[ida[0].ScalarString()]":                       "ida is built from IR field names by d2compiler (canonical)",
	"kwcase:d2graph.(*Object).Connect:ReservedKeywords[p.ScalarString()]":                                "reached only for connections d2ir accepted; d2ir rejects keyword endpoints in either spelling",
}

var fieldExceptions = map[string]string{
	"field:UnquotedString.Pattern": "derived from Value by the parser (glob segments), not source text of its own",
	"field:Number.Value":           "the parsed value of Raw; Raw is what is printed",
	"field:SingleQuotedString.Raw": "cache of the escaped Value; Value is what is printed",
}

// isMapIndexKey: the call is (part of) the key of a map index expression.
func isMapIndexKey(fi *core.FuncInfo, call *ast.CallExpr) bool {
	found := false
	ast.Inspect(fi.Decl.Body, func(n ast.Node) bool {
		if ix, ok := n.(*ast.IndexExpr); ok && ix.Index.Pos() <= call.Pos() && call.End() <= ix.Index.End() {
			if tv, ok := fi.Pkg.TypesInfo.Types[ix.X]; ok {
				if _, isMap := tv.Type.Underlying().(*types.Map); isMap {
					found = true
				}
			}
		}
		return true
	})
	return found
}

// loweredExpr: the expression is strings.ToLower(…), a constant, or a local variable all of whose definitions are.
func loweredExpr(fi *core.FuncInfo, e ast.Expr, depth int) (bool, string) {
	info := fi.Pkg.TypesInfo
	e = ast.Unparen(e)
	if tv, ok := info.Types[e]; ok && tv.Value != nil {
		return true, "constant key"
	}
	if call, ok := e.(*ast.CallExpr); ok {
		if core.IsCallTo(info, call, "strings.ToLower") {
			return true, "strings.ToLower(…)"
		}
		// <IR field>.Name.ScalarString(): names of IR fields are canonical (rule C04.keyword-case canonical-at-creation)
		if sel, ok := call.Fun.(*ast.SelectorExpr); ok && sel.Sel.Name == "ScalarString" {
			if ns, ok := ast.Unparen(sel.X).(*ast.SelectorExpr); ok && ns.Sel.Name == "Name" {
				if v := core.FieldOf(info, ns); v != nil && v.Pkg() != nil && core.RelPkg(v.Pkg().Path()) == "d2ir" {
					return true, "name of an IR field (canonical spelling by construction)"
				}
			}
		}
		return false, "key is " + exprStr(e)
	}
	if id, ok := e.(*ast.Ident); ok && depth < 3 {
		o := core.ObjOf(info, id)
		if o == nil {
			return false, "key is " + exprStr(e)
		}
		ds := defsOf(fi, o)
		if len(ds) == 0 {
			return false, "key " + id.Name + " is a parameter or has no local definition"
		}
		// a use inside `if cond { v = lowered; … use … }` sees only that definition: keep definitions in the innermost
		// block that contains both a definition and the use, when one exists before the use
		if inner := innermostDefBefore(fi, ds, e); inner != nil {
			ds = []defSite{*inner}
		}
		for _, d := range ds {
			if _, isAddr := d.Stmt.(*ast.UnaryExpr); isAddr && d.Rhs == nil {
				continue // &v stored in a literal: not a reassignment
			}
			if d.Rhs == nil {
				// range over a keyword table or a literal list of lower-case constants
				if rs, ok := d.Stmt.(*ast.RangeStmt); ok {
					if sel, ok := ast.Unparen(rs.X).(*ast.SelectorExpr); ok && (keywordTables[sel.Sel.Name] || strings.HasSuffix(sel.Sel.Name, "Keywords")) && rs.Key != nil && core.ObjOf(info, rs.Key) == o {
						continue
					}
				}
				return false, "key " + id.Name + " is bound by " + fmt.Sprintf("%T", d.Stmt)
			}
			if ok, _ := loweredExpr(fi, d.Rhs, depth+1); !ok {
				return false, "key " + id.Name + " = " + exprStr(d.Rhs)
			}
		}
		return true, "every definition of " + id.Name + " is lower-cased"
	}
	return false, "key is " + exprStr(e)
}

// innermostDefBefore: a definition that precedes the use in the same block (straight-line), the latest such.
func innermostDefBefore(fi *core.FuncInfo, ds []defSite, use ast.Node) *defSite {
	var best *defSite
	ast.Inspect(fi.Decl.Body, func(n ast.Node) bool {
		blk, ok := n.(*ast.BlockStmt)
		if !ok || !(blk.Pos() <= use.Pos() && use.End() <= blk.End()) {
			return true
		}
		for i := range ds {
			d := &ds[i]
			if d.Rhs == nil {
				continue
			}
			for _, st := range blk.List {
				if st == d.Stmt && st.End() <= use.Pos() {
					if best == nil || d.Stmt.Pos() > best.Stmt.Pos() {
						best = d
					}
				}
			}
		}
		return true
	})
	return best
}

// ---------------------------------------------------------------------------------------------- C05

type valueKeyword struct {
	word string
	kind string // Null | Suspension | Boolean
}

// parserValueKeywords extracts, from parseValue, the words compared with strings.EqualFold and the box field each branch fills.
func parserValueKeywords(c *core.Check) []valueKeyword {
	pv := mustFunc(c, "d2parser", "parser", "parseValue")
	if pv == nil {
		return nil
	}
	info := pv.Pkg.TypesInfo
	var out []valueKeyword
	ast.Inspect(pv.Decl.Body, func(n ast.Node) bool {
		is, ok := n.(*ast.IfStmt)
		if !ok {
			return true
		}
		call, ok := ast.Unparen(is.Cond).(*ast.CallExpr)
		if !ok {
			return true
		}
		word := ""
		caseSensitive := false
		if core.IsCallTo(info, call, "strings.EqualFold") {
			for _, a := range call.Args {
				if tv, ok := info.Types[a]; ok && tv.Value != nil && tv.Value.Kind() == constant.String {
					word = constant.StringVal(tv.Value)
				}
			}
		}
		if word == "" {
			return true
		}
		kind := ""
		ast.Inspect(is.Body, func(m ast.Node) bool {
			if as, ok := m.(*ast.AssignStmt); ok && len(as.Lhs) == 1 {
				if sel, ok := as.Lhs[0].(*ast.SelectorExpr); ok {
					kind = sel.Sel.Name
				}
			}
			return true
		})
		_ = caseSensitive
		out = append(out, valueKeyword{word, kind})
		return true
	})
	return out
}

func returnKind(r absReturn) string {
	if r.expr == nil {
		return "?"
	}
	info := r.fi.Pkg.TypesInfo
	e := ast.Unparen(r.expr)
	if call, ok := e.(*ast.CallExpr); ok {
		if f := core.CalleeOf(info, call); f != nil {
			switch f.Name() {
			case "FlatUnquotedString":
				return "unquoted"
			case "FlatDoubleQuotedString":
				return "double-quoted"
			}
			return f.Name()
		}
	}
	if u, ok := e.(*ast.UnaryExpr); ok {
		if cl, ok := u.X.(*ast.CompositeLit); ok {
			t := exprStr(cl.Type)
			if strings.Contains(t, "SingleQuoted") {
				return "single-quoted"
			}
			if strings.Contains(t, "Unquoted") {
				return "unquoted"
			}
			return t
		}
	}
	return exprStr(e)
}

func runC05(c *core.Check) {
	c.Rule("C05.value-keywords", "RawString never emits an unquoted value that the parser reads as null, a suspension marker or a boolean (except the canonical true/false)")
	c.Rule("C05.escape-keeps-case", "escapeUnquotedValue never answers with a constant for a keyword class")
	c.Rule("C05.delimiters", "every rune the unquoted-string reader stops or branches on is in the generator's special-character set of that context")
	c.Rule("C05.whole-runes", "hasSurroundingWhitespace tests decoded runes at both ends")
	c.Rule("C05.key-case", "a key segment the printer would re-case is quoted by the generator")
	checkCaseUnquotedOnly(c, "C05.case-unquoted-only")
	kws := parserValueKeywords(c)
	if len(kws) < 5 {
		c.Fail("C05.value-keywords", "parser-keywords", token.NoPos, fmt.Sprintf("only %d keyword comparisons found in parseValue", len(kws)))
	}
	rs := mustFunc(c, "d2ast", "", "RawString")
	esc := mustFunc(c, "d2format", "", "escapeUnquotedValue")
	if rs == nil || esc == nil {
		return
	}
	sigRS := rs.Obj.Type().(*types.Signature)
	sigE := esc.Obj.Type().(*types.Signature)
	for _, kw := range kws {
		for _, exact := range []bool{true, false} {
			cls := strClass{Word: kw.word, Exact: exact}
			env := &absEnv{p: c.P, vars: map[types.Object]absVal{
				sigRS.Params().At(0): {cls: &cls},
				sigRS.Params().At(1): {konst: constant.MakeBool(false)},
			}}
			rets := env.run(rs)
			kinds := map[string]bool{}
			for _, r := range rets {
				kinds[returnKind(r)] = true
			}
			var ks []string
			for k := range kinds {
				ks = append(ks, k)
			}
			sort.Strings(ks)
			key := fmt.Sprintf("RawString(value):%s:%s", kw.word, map[bool]string{true: "exact", false: "case-variants"}[exact])
			if kw.kind == "Boolean" && exact {
				c.Except("C05.value-keywords", key, rs.Decl.Pos(), "the canonical booleans are written unquoted on purpose (the editing API sets booleans through this path) and Boolean.ScalarString() gives back the same text; feasible results: "+strings.Join(ks, ", "))
				continue
			}
			c.Decide(len(rets) > 0 && !kinds["unquoted"], "C05.value-keywords", key, rs.Decl.Pos(), "feasible results: "+strings.Join(ks, ", "),
				fmt.Sprintf("for %s RawString can return an unquoted node (feasible results: %s), which parseValue reads as %s, not as the string", cls, strings.Join(ks, ", "), kw.kind))
			// escapeUnquotedValue(s, false)
			env2 := &absEnv{p: c.P, vars: map[types.Object]absVal{
				sigE.Params().At(0): {cls: &cls},
				sigE.Params().At(1): {konst: constant.MakeBool(false)},
			}}
			constRet := ""
			for _, r := range env2.run(esc) {
				if r.val.konst != nil && r.val.konst.Kind() == constant.String && !exact {
					constRet = constant.StringVal(r.val.konst)
				}
			}
			c.Decide(constRet == "", "C05.escape-keeps-case", fmt.Sprintf("escapeUnquotedValue:%s:%s", kw.word, map[bool]string{true: "exact", false: "case-variants"}[exact]), esc.Decl.Pos(), "no constant answer",
				fmt.Sprintf("for %s escapeUnquotedValue answers the constant %q: the letter case of the string is lost", cls, constRet))
		}
	}
	// delimiters
	pus := mustFunc(c, "d2parser", "parser", "parseUnquotedString")
	if pus != nil {
		info := pus.Pkg.TypesInfo
		var inKeyParam types.Object
		sig := pus.Obj.Type().(*types.Signature)
		for i := 0; i < sig.Params().Len(); i++ {
			if sig.Params().At(i).Name() == "inKey" {
				inKeyParam = sig.Params().At(i)
			}
		}
		fl := core.NewFlow(pus.Pkg, pus.Decl.Body)
		keySet := map[rune]bool{}
		for _, r := range runeSetOfGlobal(c.P, globalVar(c.P, "d2ast", "UnquotedKeySpecials")) {
			keySet[r] = true
		}
		valSet := map[rune]bool{}
		for _, r := range runeSetOfGlobal(c.P, globalVar(c.P, "d2ast", "UnquotedValueSpecials")) {
			valSet[r] = true
		}
		if len(keySet) < 10 || len(valSet) < 8 {
			c.Fail("C05.delimiters", "special-sets", token.NoPos, "could not read UnquotedKeySpecials / UnquotedValueSpecials")
		}
		seen := map[string]bool{}
		// the rune under the cursor: defined by `r, eof := p.peek()` as a direct statement of the reader's main loop
		var cursor types.Object
		ast.Inspect(pus.Decl.Body, func(n ast.Node) bool {
			fs, ok := n.(*ast.ForStmt)
			if !ok || cursor != nil {
				return true
			}
			for _, st := range fs.Body.List {
				if as, ok := st.(*ast.AssignStmt); ok && len(as.Rhs) == 1 && len(as.Lhs) == 2 {
					if call, ok := as.Rhs[0].(*ast.CallExpr); ok && cursor == nil && core.IsCallTo(info, call, "d2parser.(*parser).peek", "d2parser.(*parser).read") {
						cursor = core.ObjOf(info, as.Lhs[0])
					}
				}
			}
			return true
		})
		if cursor == nil {
			c.Fail("C05.delimiters", "cursor", pus.Decl.Pos(), "the reader's main loop (r, eof := p.peek()) was not found")
		}
		var switchStack []*ast.SwitchStmt
		ast.Inspect(pus.Decl.Body, func(n ast.Node) bool {
			if _, isLit := n.(*ast.FuncLit); isLit {
				return false
			}
			if sw, ok := n.(*ast.SwitchStmt); ok {
				switchStack = append(switchStack, sw)
			}
			var consts []ast.Expr
			var at ast.Node
			switch x := n.(type) {
			case *ast.CaseClause:
				// the innermost enclosing switch must switch on the cursor rune
				var encl *ast.SwitchStmt
				for _, sw := range switchStack {
					if sw.Body.Pos() <= x.Pos() && x.End() <= sw.Body.End() {
						encl = sw
					}
				}
				if encl != nil && encl.Tag != nil && core.ObjOf(info, encl.Tag) == cursor {
					consts, at = x.List, x
				}
			case *ast.BinaryExpr:
				if x.Op == token.EQL && core.ObjOf(info, x.X) == cursor {
					consts, at = []ast.Expr{x.Y}, x
				}
			}
			for _, ce := range consts {
				tv, ok := info.Types[ce]
				if !ok || tv.Value == nil || tv.Value.Kind() != constant.Int {
					continue
				}
				if bt, ok := tv.Type.Underlying().(*types.Basic); !ok || (bt.Kind() != types.Int32 && bt.Kind() != types.UntypedRune) {
					continue
				}
				v, _ := constant.Int64Val(tv.Value)
				r := rune(v)
				// context: under `if inKey` → key only; `!inKey &&` → value only; else both
				ctxKey, ctxVal := true, true
				var guards []core.Guard
				if cc, ok := at.(*ast.CaseClause); ok {
					// guards of the switch statement: find its parent via position (the clause's first body statement or the switch tag)
					if len(cc.Body) > 0 {
						guards = fl.GuardsOfNode(cc.Body[0])
					}
				} else {
					guards = fl.GuardsOfNode(at)
				}
				for _, g := range guards {
					for _, a := range g.Atoms() {
						if core.ObjOf(info, a.Cond) == inKeyParam && inKeyParam != nil {
							if a.True {
								ctxVal = false
							} else {
								ctxKey = false
							}
						}
					}
				}
				// the second rune of a `-` look-ahead and the edge-group `)` look-ahead only matter after another special
				if ctxKey && !seen[fmt.Sprintf("k%d", r)] {
					seen[fmt.Sprintf("k%d", r)] = true
					if why := delimiterExceptions[fmt.Sprintf("key:%q", r)]; why != "" && !keySet[r] {
						c.Except("C05.delimiters", fmt.Sprintf("key:%q", r), ce.Pos(), why)
					} else {
						c.Decide(keySet[r], "C05.delimiters", fmt.Sprintf("key:%q", r), ce.Pos(), "in UnquotedKeySpecials", fmt.Sprintf("the reader treats %q specially in keys but UnquotedKeySpecials does not list it: a key segment containing it is generated unquoted and parses back differently", r))
					}
				}
				if ctxVal && !seen[fmt.Sprintf("v%d", r)] {
					seen[fmt.Sprintf("v%d", r)] = true
					if why := delimiterExceptions[fmt.Sprintf("value:%q", r)]; why != "" && !valSet[r] {
						c.Except("C05.delimiters", fmt.Sprintf("value:%q", r), ce.Pos(), why)
					} else {
						c.Decide(valSet[r], "C05.delimiters", fmt.Sprintf("value:%q", r), ce.Pos(), "in UnquotedValueSpecials", fmt.Sprintf("the reader treats %q specially in values but UnquotedValueSpecials does not list it: a value containing it is generated unquoted and parses back differently", r))
					}
				}
			}
			return true
		})
		c.Floor("C05.delimiters", 12)
	}
	// whole runes
	if hs := mustFunc(c, "d2ast", "", "hasSurroundingWhitespace"); hs != nil {
		info := hs.Pkg.TypesInfo
		n := 0
		bad := ""
		ast.Inspect(hs.Decl.Body, func(nd ast.Node) bool {
			call, ok := nd.(*ast.CallExpr)
			if !ok || !core.IsCallTo(info, call, "unicode.IsSpace") {
				return true
			}
			n++
			o := core.ObjOf(info, call.Args[0])
			okd := false
			if o != nil {
				for _, d := range defsOf(hs, o) {
					if dc, ok := d.Rhs.(*ast.CallExpr); ok && core.IsCallTo(info, dc, "unicode/utf8.DecodeRuneInString", "unicode/utf8.DecodeLastRuneInString") {
						okd = true
					}
				}
			}
			if !okd {
				bad = exprStr(call.Args[0])
			}
			return true
		})
		c.Decide(n >= 2 && bad == "", "C05.whole-runes", "hasSurroundingWhitespace", hs.Decl.Pos(), "both ends decoded with utf8.Decode(Last)RuneInString", "the whitespace test at one end looks at "+bad+" instead of a decoded rune: a string starting or ending with non-ASCII whitespace (U+00A0, U+2028, U+3000) is generated unquoted and the parser strips the whitespace")
	}
	// key case
	ib := mustFunc(c, "d2format", "printer", "interpolationBoxes")
	if ib != nil {
		lowers := false
		for _, call := range callsIn(ib, false, "strings.ToLower") {
			if !isMapIndexKey(ib, call) {
				lowers = true
			}
		}
		consults := false
		ast.Inspect(rs.Decl.Body, func(n ast.Node) bool {
			if sel, ok := n.(*ast.SelectorExpr); ok && strings.HasSuffix(sel.Sel.Name, "Keywords") {
				consults = true
			}
			if id, ok := n.(*ast.Ident); ok && strings.HasSuffix(id.Name, "Keywords") {
				consults = true
			}
			return true
		})
		c.Decide(!lowers || consults, "C05.key-case", "RawString(key):reserved-keyword-case", rs.Decl.Pos(), "printer does not re-case, or the generator quotes keyword-like segments",
			"the printer lower-cases unquoted key segments spelled like a reserved keyword, and RawString(s, inKey=true) does not quote them: the key segment \"Shape\" is generated as Shape, printed as shape, and parses back as \"shape\"")
	}
}

var delimiterExceptions = map[string]string{
	"key:'*'":   "",
	"value:'*'": "glob marker only: the reader records pattern segments but keeps the rune in the string",
	"value:'-'": "",
	"key:')'":   "",
	"value:')'": "only inside an edge group, where the generator is not used",
	"key:'>'":   "",
	"value:'$'": "",
	"value:'\\\\'": "",
}

func globalVar(p *core.Prog, rel, name string) *types.Var {
	pk := p.Pkg(rel)
	if pk == nil {
		return nil
	}
	v, _ := pk.Types.Scope().Lookup(name).(*types.Var)
	return v
}

// checkCaseUnquotedOnly: a printer function that tells quoted from unquoted text by a bool parameter (the parameter
// selects the double-quoted escaper) changes letter case only on that parameter's unquoted side: a quoted key segment
// is never a keyword, so "Shape" must come back as "Shape". The generator relies on it (C05.key-case quotes such names).
func checkCaseUnquotedOnly(c *core.Check, rule string) {
	c.Rule(rule, "the printer changes letter case only of unquoted text: a quoted segment spelled like a keyword keeps its case")
	pk := c.P.Pkg("d2format")
	if pk == nil {
		return
	}
	n := 0
	for _, fi := range c.P.Funcs(pk) {
		info := fi.Pkg.TypesInfo
		sig := fi.Obj.Type().(*types.Signature)
		var fl *core.Flow
		flow := func() *core.Flow {
			if fl == nil {
				fl = core.NewFlow(fi.Pkg, fi.Decl.Body)
			}
			return fl
		}
		// the quoted flag: a bool parameter on whose true side the double-quoted escaper is called
		var quoted types.Object
		for i := 0; i < sig.Params().Len(); i++ {
			p := sig.Params().At(i)
			if b, ok := p.Type().Underlying().(*types.Basic); !ok || b.Kind() != types.Bool {
				continue
			}
			for _, call := range core.Calls(fi.Decl.Body, false) {
				f := core.CalleeOf(info, call)
				if f == nil || !strings.Contains(strings.ToLower(f.Name()), "quoted") {
					continue
				}
				for _, g := range flow().GuardsOfNode(call) {
					for _, a := range g.Atoms() {
						if a.True && core.ObjOf(info, a.Cond) == p {
							quoted = p
						}
					}
				}
			}
		}
		if quoted == nil {
			continue
		}
		for _, call := range core.Calls(fi.Decl.Body, false) {
			if !core.IsCallTo(info, call, "strings.ToLower", "strings.ToUpper", "strings.Title", "strings.ToTitle") || isMapIndexKey(fi, call) {
				continue
			}
			n++
			ok := false
			for _, g := range flow().GuardsOfNode(call) {
				for _, a := range g.Atoms() {
					if !a.True && core.ObjOf(info, a.Cond) == quoted {
						ok = true
					}
				}
			}
			c.Decide(ok, rule, "case-unquoted:"+fname(fi)+":"+exprStr(call), call.Pos(), "only when "+quoted.Name()+" is false", "the printer re-cases text also when "+quoted.Name()+" is true: a quoted key segment such as \"Shape\" is printed as \"shape\" and parses back as another name")
		}
	}
	if n == 0 {
		c.Fail("floor", "floor:"+rule, token.NoPos, "no case-changing call found in a printer function with a quoted flag (confirmed by hand: interpolationBoxes)")
	}
}
