package props

import (
	"fmt"
	"go/ast"
	"go/constant"
	"go/token"
	"go/types"
	"reflect"
	"sort"
	"strings"

	"d2verif/internal/core"
)

func init() {
	register(&Prop{
		ID:       "C26",
		Title:    "The layout-plugin wire format round-trips graphs exactly",
		Patterns: []string{"./d2graph", "./d2plugin"},
		Explanation: "Decides structural agreement of the serialiser and deserialiser: (1) field coverage — every field of Graph, Object, Edge, Attributes, Style, Scalar, Legend and the reference types that encoding/json skips (tag `json:\"-\"` or unexported) is either re-linked by DeserializeGraph (an assignment to that field exists there: Graph, Parent, Children, ChildrenArray, Src, Dst) or listed in the reviewed set of source-position fields that layout never reads; a new skipped field is reported; " +
			"(2) the map keys the serialiser writes (AbsID, ChildrenArray, Src, Dst) are exactly the keys the deserialiser reads; (3) children are re-keyed by the lower-cased ID and objects/edges are appended in wire order; (4) both ends of the plugin protocol (execPlugin.Layout and the serving side) call the SerializeGraph/DeserializeGraph pair; (5) IDs are opaque on the wire: no function of the serialiser/deserialiser (and their helpers in serde.go) splits, searches or trims a string.",
		NotCovered: "JSON fidelity of values (floats, URLs, pointers to labels), equality of layouts through a plugin",
		Trust:      []string{"encoding/json round-trips exported, untagged fields of the model types"},
		Technique:  "static analysis: struct-tag inventory vs assignment inventory, constant-key extraction on both sides",
		Run:        runC26,
	})
}

// fields that encoding/json skips and that are deliberately not transported: positions in the source
// (AST pointers) and per-process handles. Layout engines read geometry and attributes only.
var serdeAstOnly = map[string]string{
	"Graph.FS": "file system handle of the compiling process", "Graph.Parent": "board hierarchy is not sent to layout plugins (one board at a time)",
	"Graph.BaseAST": "AST pointer", "Scalar.MapKey": "AST pointer", "Object.Map": "AST pointer",
	"Reference.MapKey": "AST pointer", "Reference.Scope": "AST pointer", "Reference.ScopeObj": "edit-time scope", "Reference.ScopeAST": "AST pointer", "Reference.IsVar": "edit-time flag",
	"EdgeReference.Edge": "AST pointer", "EdgeReference.MapKey": "AST pointer", "EdgeReference.Scope": "AST pointer", "EdgeReference.ScopeObj": "edit-time scope", "EdgeReference.ScopeAST": "AST pointer",
}

var serdeRelinked = []string{"Object.Graph", "Object.Parent", "Object.Children", "Object.ChildrenArray", "Edge.Src", "Edge.Dst"}

func runC26(c *core.Check) {
	c.Rule("C26.coverage", "every json-skipped field of the transported types is re-linked by DeserializeGraph or is a reviewed source-position field")
	c.Rule("C26.keys", "map keys written by the serialiser = keys read by the deserialiser")
	c.Rule("C26.relink", "children re-keyed by ToLower(ID); objects and edges appended in wire order")
	c.Rule("C26.protocol", "both protocol ends use SerializeGraph and DeserializeGraph")
	pk := c.P.Pkg("d2graph")
	if pk == nil {
		c.Broken("d2graph not loaded")
		return
	}
	info := pk.TypesInfo
	de := mustFunc(c, "d2graph", "", "DeserializeGraph")
	if de == nil {
		return
	}
	// assignments in DeserializeGraph by field
	assigned := map[string]bool{}
	ast.Inspect(de.Decl.Body, func(n ast.Node) bool {
		as, ok := n.(*ast.AssignStmt)
		if !ok {
			return true
		}
		for _, l := range as.Lhs {
			if fv := core.FieldOf(info, l); fv != nil {
				sel := ast.Unparen(l).(*ast.SelectorExpr)
				if s, ok := info.Selections[sel]; ok {
					if nt := namedOf(s.Recv()); nt != nil {
						assigned[nt.Obj().Name()+"."+fv.Name()] = true
					}
				}
			}
		}
		return true
	})
	relinked := map[string]bool{}
	for _, r := range serdeRelinked {
		relinked[r] = true
		c.Decide(assigned[r], "C26.coverage", "relinked-assigned:"+r, de.Decl.Pos(), "assigned in DeserializeGraph", r+" is skipped by encoding/json and DeserializeGraph no longer assigns it: the field is nil after a round trip through a plugin")
	}
	nskipped := 0
	for _, tname := range []string{"Graph", "Object", "Edge", "Attributes", "Style", "Scalar", "Legend", "Reference", "EdgeReference"} {
		tn, ok := pk.Types.Scope().Lookup(tname).(*types.TypeName)
		if !ok {
			c.Broken("type d2graph.%s not found", tname)
			continue
		}
		st, ok := tn.Type().Underlying().(*types.Struct)
		if !ok {
			continue
		}
		for i := 0; i < st.NumFields(); i++ {
			f := st.Field(i)
			tag := reflect.StructTag(st.Tag(i)).Get("json")
			skipped := !f.Exported() || tag == "-"
			if !skipped {
				continue
			}
			nskipped++
			key := tname + "." + f.Name()
			switch {
			case relinked[key]:
				c.Pass("C26.coverage", "skipped:"+key, f.Pos(), "re-linked by DeserializeGraph")
			case serdeAstOnly[key] != "":
				c.Except("C26.coverage", "skipped:"+key, f.Pos(), serdeAstOnly[key])
			default:
				c.Fail("C26.coverage", "skipped:"+key, f.Pos(), "encoding/json does not transport this field and DeserializeGraph does not restore it: a layout done through a plugin loses it (geometry or attributes differ from in-process layout)")
			}
		}
	}
	if nskipped < 15 {
		c.Fail("floor", "floor:C26.coverage", token.NoPos, fmt.Sprintf("only %d json-skipped fields found", nskipped))
	}
	// keys
	written := map[string]bool{}
	for _, fn := range []string{"toSerializedObject", "ToSerializedEdge"} {
		fi := mustFunc(c, "d2graph", "", fn)
		if fi == nil {
			continue
		}
		ast.Inspect(fi.Decl.Body, func(n ast.Node) bool {
			as, ok := n.(*ast.AssignStmt)
			if !ok {
				return true
			}
			for _, l := range as.Lhs {
				if ix, ok := ast.Unparen(l).(*ast.IndexExpr); ok {
					if tv, ok := info.Types[ix.Index]; ok && tv.Value != nil && tv.Value.Kind() == constant.String {
						written[constant.StringVal(tv.Value)] = true
					}
				}
			}
			return true
		})
	}
	read := map[string]bool{}
	ast.Inspect(de.Decl.Body, func(n ast.Node) bool {
		if ix, ok := n.(*ast.IndexExpr); ok {
			if tv, ok := info.Types[ix.Index]; ok && tv.Value != nil && tv.Value.Kind() == constant.String {
				if nt := namedOf(info.TypeOf(ix.X)); nt != nil && strings.HasPrefix(nt.Obj().Name(), "Serialized") {
					read[constant.StringVal(tv.Value)] = true
				}
			}
		}
		return true
	})
	d1, d2 := setDiff(written, read), setDiff(read, written)
	sort.Strings(d1)
	c.Decide(len(d1) == 0 && len(d2) == 0 && len(written) >= 4, "C26.keys", "wire-keys", de.Decl.Pos(), fmtSet(written), fmt.Sprintf("written %s read %s: written but never read: %v; read but never written: %v", fmtSet(written), fmtSet(read), d1, d2))
	// relink details
	lowered := false
	ast.Inspect(de.Decl.Body, func(n ast.Node) bool {
		as, ok := n.(*ast.AssignStmt)
		if !ok || len(as.Lhs) != 1 {
			return true
		}
		if ix, ok := ast.Unparen(as.Lhs[0]).(*ast.IndexExpr); ok {
			if call, ok := ast.Unparen(ix.Index).(*ast.CallExpr); ok && core.IsCallTo(info, call, "strings.ToLower") && strings.HasSuffix(exprStr(call.Args[0]), ".ID") {
				lowered = true
			}
		}
		return true
	})
	c.Decide(lowered, "C26.relink", "children-keyed-by-lower-id", de.Decl.Pos(), "children[strings.ToLower(o.ID)] = o", "children are not re-keyed by the lower-cased ID: case-insensitive lookups fail after a plugin round trip")
	for _, pair := range [][2]string{{"objects", "Objects"}, {"edges", "Edges"}} {
		okAssign := false
		ast.Inspect(de.Decl.Body, func(n ast.Node) bool {
			as, ok := n.(*ast.AssignStmt)
			if ok && len(as.Lhs) == 1 && exprStr(as.Lhs[0]) == "g."+pair[1] && exprStr(as.Rhs[0]) == pair[0] {
				okAssign = true
			}
			return true
		})
		c.Decide(okAssign, "C26.relink", "graph-"+pair[1]+"-assigned", de.Decl.Pos(), "g."+pair[1]+" = "+pair[0], "the deserialised "+pair[0]+" are not stored in the graph")
	}
	// protocol ends
	for _, site := range []struct{ pkg, recv, name string }{{"d2plugin", "execPlugin", "Layout"}} {
		fi := mustFunc(c, site.pkg, site.recv, site.name)
		if fi == nil {
			continue
		}
		ser := callsIn(fi, false, "d2graph.SerializeGraph")
		des := callsIn(fi, false, "d2graph.DeserializeGraph")
		ok := len(ser) >= 1 && len(des) >= 1
		if ok {
			fl := core.NewFlow(fi.Pkg, fi.Decl.Body)
			ok = fl.DominatesNode(ser[0], des[0])
		}
		c.Decide(ok, "C26.protocol", "client:"+fname(fi), fi.Decl.Pos(), "SerializeGraph ≺ DeserializeGraph", "the client end does not serialise the graph before and deserialise the plugin's answer after")
	}
	if spk := c.P.Pkg("d2plugin"); spk != nil {
		found := false
		for _, fi := range c.P.Funcs(spk) {
			if fi.Decl.Recv != nil {
				continue
			}
			ser := callsIn(fi, true, "d2graph.SerializeGraph")
			des := callsIn(fi, true, "d2graph.DeserializeGraph")
			lay := 0
			for _, call := range core.Calls(fi.Decl.Body, true) {
				if f := core.CalleeOf(spk.TypesInfo, call); f != nil && f.Name() == "Layout" {
					lay++
				}
			}
			if lay > 0 && (len(ser) > 0 || len(des) > 0) {
				found = true
				c.Decide(len(ser) > 0 && len(des) > 0, "C26.protocol", "server:"+fname(fi), fi.Decl.Pos(), "DeserializeGraph … Layout … SerializeGraph", "the serving end does not use both halves of the wire format")
			}
		}
		if !found {
			c.Fail("C26.protocol", "server:none", token.NoPos, "no serving function that deserialises, lays out and serialises found in d2plugin")
		}
	}
	// (5) wire texts are opaque: neither half takes an ID string apart
	c.Rule("C26.opaque-ids", "the serialiser and deserialiser never split, search or trim the ID strings they transport")
	{
		seen := map[*core.FuncInfo]bool{}
		var work []*core.FuncInfo
		for _, name := range []string{"DeserializeGraph", "SerializeGraph"} {
			if fi := mustFunc(c, "d2graph", "", name); fi != nil {
				work = append(work, fi)
				seen[fi] = true
			}
		}
		serdeFile := ""
		if len(work) > 0 {
			serdeFile = c.P.Fset.Position(work[0].Decl.Pos()).Filename
		}
		ncalls := 0
		for len(work) > 0 {
			fi := work[0]
			work = work[1:]
			counts := map[string]int{}
			ast.Inspect(fi.Decl.Body, func(n ast.Node) bool {
				call, ok := n.(*ast.CallExpr)
				if !ok {
					return true
				}
				callee := core.CalleeOf(fi.Pkg.TypesInfo, call)
				if callee == nil || callee.Pkg() == nil {
					return true
				}
				ncalls++
				if callee.Pkg() == fi.Pkg.Types {
					if h := c.P.Decl(callee); h != nil && h.Decl.Body != nil && !seen[h] && c.P.Fset.Position(h.Decl.Pos()).Filename == serdeFile {
						seen[h] = true
						work = append(work, h)
					}
					return true
				}
				if callee.Pkg().Path() != "strings" && callee.Pkg().Path() != "regexp" {
					return true
				}
				nm := callee.Name()
				apart := false
				for _, pre := range []string{"Split", "Fields", "Index", "LastIndex", "Cut", "Trim", "Replace", "Find", "Match"} {
					if strings.HasPrefix(nm, pre) {
						apart = true
					}
				}
				if apart {
					key := fmt.Sprintf("opaque:%s:%s.%s", fname(fi), callee.Pkg().Name(), nm)
					counts[key]++
					if counts[key] > 1 {
						key = fmt.Sprintf("%s#%d", key, counts[key])
					}
					c.Fail("C26.opaque-ids", key, call.Pos(), exprStr(call)+" takes a transported string apart: an ID is an opaque key on the wire (a quoted name may contain dots, arrows or brackets), so objects or edge endpoints whose IDs contain the separator are lost or mis-resolved after a plugin round trip")
				}
				return true
			})
		}
		c.Decide(len(seen) >= 2 && ncalls >= 10, "C26.opaque-ids", "opaque:inventory", token.NoPos, fmt.Sprintf("%d functions of the wire format (%d calls) inspected, none takes a string apart", len(seen), ncalls), "the wire-format functions were not found")
	}
}
