package props

import (
	"fmt"
	"go/ast"
	"go/token"
	"go/types"
	"strings"

	"golang.org/x/tools/go/packages"

	"d2verif/internal/core"
)

func init() {
	register(&Prop{
		ID:       "C40",
		Title:    "ID-change predictions match the edits they predict",
		Patterns: []string{"./d2oracle", "./d2graph"},
		Explanation: "Decides two structural necessary conditions of the agreement, not the agreement itself: " +
			"(1) predictions are pure — the prediction functions of d2oracle (ReparentIDDelta, ReconnectEdgeIDDeltas, MoveIDDeltas, DeleteIDDeltas, RenameIDDeltas) compute the new IDs by temporarily rewriting IDs, parents and indices of the live graph; every such write to a field of a d2graph.Object or d2graph.Edge that the function did not create itself is undone: either a later statement of the same block writes the same place back (the opposite ++/-- for counters) with no return in between, or the write sits in a closure that returns its own undo closure, the undo closure writes the same places, and every call of the closure is followed on every path by a call (or a defer) of the undo. A prediction that leaves the graph changed makes the edit that follows run on another diagram than the one predicted for; " +
			"(2) one name generator — each edit that invents a name on a conflict (Rename, move, Delete through renameConflictsToParent) and its prediction both reach generateUniqueKey, the only function of d2oracle that generates names; (3) renumbering agreement — the condition under which Delete lowers the index of a parallel connection's references and the condition under which DeleteIDDeltas predicts a lowered index are both `other.Index > deleted.Index`; (4) a prediction that resolved the addressed board reads only the board's Root/Edges/Objects afterwards, and every test in d2oracle that takes two connections for parallel (compares Src and Dst of two edges) also compares both arrow ends, as the compiler's numbering does; (5) twin assignments — two ifs of one function with the same condition that assign the same variable (a computation written once per element) have the same right-hand side up to a one-to-one renaming; (6) an early return decided by nil tests of pointer parameters is not followed by code that sets those parameters to nil (the test comes after the normalisation it depends on).",
		NotCovered: "that the predicted map equals the ID changes of the edit for a given diagram (a comparison of two executions); which elements are reported; board-scoped edits",
		Technique:  "static analysis: paired-update (typestate) on the typed AST and go/cfg, call-graph reachability",
		Run:        runC40,
	})
}

func runC40(c *core.Check) {
	c.Rule("C40.prediction-restores", "every temporary write of a prediction function to the live graph is undone on every path")
	c.Rule("C40.one-generator", "edit and prediction obtain invented names from the same generator")
	pk := c.P.Pkg("d2oracle")
	if pk == nil {
		c.Broken("d2oracle not loaded")
		return
	}
	info := pk.TypesInfo
	isGraphField := func(e ast.Expr) (base types.Object, place string, ok bool) {
		sel, isSel := ast.Unparen(e).(*ast.SelectorExpr)
		if !isSel {
			return nil, "", false
		}
		s, has := info.Selections[sel]
		if !has || s.Kind() != types.FieldVal {
			return nil, "", false
		}
		t := s.Recv()
		if p, isP := t.Underlying().(*types.Pointer); isP {
			t = p.Elem()
		}
		if p, isP := t.(*types.Pointer); isP {
			t = p.Elem()
		}
		n, isN := t.(*types.Named)
		if !isN || n.Obj().Pkg() == nil || n.Obj().Pkg().Path() != core.Mod+"/d2graph" {
			return nil, "", false
		}
		if nm := n.Obj().Name(); nm != "Object" && nm != "Edge" {
			return nil, "", false
		}
		return rootIdent(info, sel.X), exprStr(sel), true
	}
	nfuncs, nwrites := 0, 0
	for _, fi := range c.P.Funcs(pk) {
		name := fi.Decl.Name.Name
		if fi.Decl.Recv != nil || fi.Decl.Body == nil || !(strings.HasSuffix(name, "IDDelta") || strings.HasSuffix(name, "IDDeltas")) {
			continue
		}
		nfuncs++
		// objects the function creates itself
		local := map[types.Object]bool{}
		for pass := 0; pass < 2; pass++ {
			ast.Inspect(fi.Decl.Body, func(n ast.Node) bool {
				as, ok := n.(*ast.AssignStmt)
				if !ok || as.Tok != token.DEFINE || len(as.Lhs) != len(as.Rhs) {
					return true
				}
				for i, r := range as.Rhs {
					r = ast.Unparen(r)
					id, ok := as.Lhs[i].(*ast.Ident)
					if !ok {
						continue
					}
					if u, ok := r.(*ast.UnaryExpr); ok && u.Op == token.AND {
						r = ast.Unparen(u.X)
						// the address of a local copy
						if rid, ok := r.(*ast.Ident); ok && local[info.Uses[rid]] {
							local[info.Defs[id]] = true
						}
					}
					switch x := r.(type) {
					case *ast.CompositeLit:
						local[info.Defs[id]] = true
					case *ast.StarExpr:
						// tmp := *e copies the struct
						if _, isStruct := info.TypeOf(x).Underlying().(*types.Struct); isStruct {
							local[info.Defs[id]] = true
						}
					}
				}
				return true
			})
		}
		// every block, with the function literal that directly encloses it
		type blk struct {
			list []ast.Stmt
			lit  *ast.FuncLit // innermost enclosing literal (nil = the declaration)
		}
		var blocks []blk
		var walk func(n ast.Node, lit *ast.FuncLit)
		walk = func(n ast.Node, lit *ast.FuncLit) {
			ast.Inspect(n, func(x ast.Node) bool {
				switch s := x.(type) {
				case *ast.FuncLit:
					if x != n {
						walk(s.Body, s)
						return false
					}
				case *ast.BlockStmt:
					blocks = append(blocks, blk{s.List, lit})
				case *ast.CaseClause:
					blocks = append(blocks, blk{s.Body, lit})
				}
				return true
			})
		}
		walk(fi.Decl.Body, nil)
		writeOf := func(st ast.Stmt) (place string, tok token.Token, ok bool) {
			switch s := st.(type) {
			case *ast.AssignStmt:
				if s.Tok == token.DEFINE || len(s.Lhs) != 1 {
					return "", 0, false
				}
				if b, p, ok := isGraphField(s.Lhs[0]); ok && !local[b] {
					return p, s.Tok, true
				}
			case *ast.IncDecStmt:
				if b, p, ok := isGraphField(s.X); ok && !local[b] {
					return p, s.Tok, true
				}
			}
			return "", 0, false
		}
		hasReturn := func(sts []ast.Stmt) bool {
			for _, st := range sts {
				if core.Contains(st, func(n ast.Node) bool {
					switch n.(type) {
					case *ast.ReturnStmt, *ast.BranchStmt:
						return true
					}
					return false
				}) {
					return true
				}
			}
			return false
		}
		// undo closures: literal F1 of type func() func() whose returned literal writes places
		undoPlaces := map[*ast.FuncLit]map[string]bool{}
		ast.Inspect(fi.Decl.Body, func(n ast.Node) bool {
			f1, ok := n.(*ast.FuncLit)
			if !ok || f1.Type.Results == nil || len(f1.Type.Results.List) != 1 {
				return true
			}
			if _, ok := f1.Type.Results.List[0].Type.(*ast.FuncType); !ok {
				return true
			}
			places := map[string]bool{}
			for _, st := range f1.Body.List {
				ret, ok := st.(*ast.ReturnStmt)
				if !ok || len(ret.Results) != 1 {
					continue
				}
				if f2, ok := ast.Unparen(ret.Results[0]).(*ast.FuncLit); ok {
					ast.Inspect(f2.Body, func(m ast.Node) bool {
						if st, ok := m.(ast.Stmt); ok {
							if p, _, ok := writeOf(st); ok {
								places[p] = true
							}
						}
						return true
					})
				}
			}
			undoPlaces[f1] = places
			return true
		})
		counts := map[string]int{}
		for _, b := range blocks {
			// a block inside the returned undo closure restores; its writes are not temporary writes
			inUndo := false
			for f1 := range undoPlaces {
				for _, st := range f1.Body.List {
					if ret, ok := st.(*ast.ReturnStmt); ok && len(ret.Results) == 1 {
						if f2, ok := ast.Unparen(ret.Results[0]).(*ast.FuncLit); ok && b.lit != nil && b.lit.Pos() >= f2.Pos() && b.lit.End() <= f2.End() {
							inUndo = true
						}
					}
				}
			}
			if inUndo {
				continue
			}
			restoredBy := map[int]bool{}
			for i, st := range b.list {
				place, tok, ok := writeOf(st)
				if !ok || restoredBy[i] {
					continue
				}
				nwrites++
				key := fmt.Sprintf("restore:%s:%s", fname(fi), place)
				counts[key]++
				if counts[key] > 1 {
					key = fmt.Sprintf("%s#%d", key, counts[key])
				}
				// (a) restored later in the same block
				done := false
				for j := i + 1; j < len(b.list); j++ {
					p2, tok2, ok2 := writeOf(b.list[j])
					if !ok2 || p2 != place {
						continue
					}
					opp := true
					if tok == token.INC {
						opp = tok2 == token.DEC
					} else if tok == token.DEC {
						opp = tok2 == token.INC
					}
					if opp && !hasReturn(b.list[i+1:j]) {
						restoredBy[j] = true
						done = true
						c.Pass("C40.prediction-restores", key, st.Pos(), "written back later in the same block, no return in between")
					}
					break
				}
				if done {
					continue
				}
				// (b) inside a do/undo closure whose undo writes the same place
				var f1 *ast.FuncLit
				for cand, places := range undoPlaces {
					if st.Pos() >= cand.Body.Pos() && st.End() <= cand.Body.End() && places[place] {
						f1 = cand
					}
				}
				if f1 != nil {
					c.Pass("C40.prediction-restores", key, st.Pos(), "undone by the closure the enclosing do-closure returns")
					continue
				}
				c.Fail("C40.prediction-restores", key, st.Pos(), fmt.Sprintf("%s changes %s of the live graph and no path writes it back: after the prediction the graph is no longer the diagram the prediction was asked about, so the edit that follows produces other IDs than predicted", fname(fi), place))
			}
		}
		// every call of a do/undo closure is followed by its undo
		for f1 := range undoPlaces {
			// the variable the closure is bound to
			var doVar types.Object
			ast.Inspect(fi.Decl.Body, func(n ast.Node) bool {
				as, ok := n.(*ast.AssignStmt)
				if ok && len(as.Lhs) == 1 && len(as.Rhs) == 1 && ast.Unparen(as.Rhs[0]) == ast.Expr(f1) {
					if id, ok := as.Lhs[0].(*ast.Ident); ok {
						doVar = info.ObjectOf(id)
					}
				}
				return true
			})
			if doVar == nil {
				continue
			}
			// each `revert := doVar()` inside some body
			var bodies []*ast.BlockStmt
			bodies = append(bodies, fi.Decl.Body)
			ast.Inspect(fi.Decl.Body, func(n ast.Node) bool {
				if l, ok := n.(*ast.FuncLit); ok {
					bodies = append(bodies, l.Body)
				}
				return true
			})
			ncall := 0
			for _, body := range bodies {
				var fl *core.Flow
				ast.Inspect(body, func(n ast.Node) bool {
					if l, ok := n.(*ast.FuncLit); ok && l.Body != body {
						return false
					}
					as, ok := n.(*ast.AssignStmt)
					if !ok || len(as.Lhs) != 1 || len(as.Rhs) != 1 {
						return true
					}
					call, ok := ast.Unparen(as.Rhs[0]).(*ast.CallExpr)
					if !ok || core.ObjOf(info, call.Fun) != doVar {
						return true
					}
					undoVar := core.ObjOf(info, as.Lhs[0])
					if fl == nil {
						fl = core.NewFlow(pk, body)
					}
					ncall++
					key := fmt.Sprintf("undo-called:%s:%s", fname(fi), doVar.Name())
					if ncall > 1 {
						key = fmt.Sprintf("%s#%d", key, ncall)
					}
					b, i, ok := fl.Locate(as)
					if !ok || undoVar == nil {
						c.Fail("C40.prediction-restores", key, as.Pos(), "the undo closure returned by "+doVar.Name()+"() is not kept")
						return true
					}
					isUndo := func(x ast.Node) bool {
						return core.Contains(x, func(y ast.Node) bool {
							cl, ok := y.(*ast.CallExpr)
							return ok && core.ObjOf(info, cl.Fun) == undoVar
						})
					}
					escapes := false
					for _, ex := range fl.Exits() {
						if r, _ := fl.ReachableFromAvoiding(b, i, ex.Blk, ex.Idx, isUndo); r {
							escapes = true
						}
					}
					// reaching the exit node itself when it is the undo call is fine (Exits lists the last node)
					c.Decide(!escapes, "C40.prediction-restores", key, as.Pos(), "the undo closure is called on every path", "a path leaves "+fname(fi)+" after "+doVar.Name()+"() without calling the undo closure it returned: the temporary IDs and parents stay in the graph")
					return true
				})
			}
		}
	}
	if nfuncs < 4 || nwrites < 8 {
		c.Fail("C40.prediction-restores", "restore:inventory", token.NoPos, fmt.Sprintf("only %d prediction functions with %d temporary writes found", nfuncs, nwrites))
	} else {
		c.PassTrivial("C40.prediction-restores", "restore:inventory", token.NoPos, fmt.Sprintf("%d prediction functions, %d temporary writes to the live graph", nfuncs, nwrites))
	}

	// (3) renumbering agreement: Delete lowers the index of the later parallel connections; DeleteIDDeltas predicts
	// the new IDs of exactly those
	c.Rule("C40.renumber-agreement", "Delete and DeleteIDDeltas renumber the same parallel connections: those with a strictly higher index")
	{
		type cond struct {
			op  token.Token
			ok  bool
			pos token.Pos
		}
		find := func(name string) cond {
			fi := mustFunc(c, "d2oracle", "", name)
			if fi == nil {
				return cond{}
			}
			fl := core.NewFlow(fi.Pkg, fi.Decl.Body)
			var out cond
			ast.Inspect(fi.Decl.Body, func(n ast.Node) bool {
				st, ok := n.(*ast.IncDecStmt)
				if !ok || st.Tok != token.DEC || out.ok {
					return true
				}
				x := exprStr(st.X)
				if !(strings.HasSuffix(x, ".Index") || strings.HasSuffix(x, ".EdgeIndex.Int")) {
					return true
				}
				// the comparison of two .Index fields among the guards; the first operand is the connection being
				// renumbered when it is the variable of the enclosing range
				for _, g := range fl.GuardsOfNode(st) {
					for _, a := range g.Atoms() {
						be, ok := ast.Unparen(a.Cond).(*ast.BinaryExpr)
						if !ok || !strings.HasSuffix(exprStr(be.X), ".Index") || !strings.HasSuffix(exprStr(be.Y), ".Index") {
							continue
						}
						op := be.Op
						if !a.True {
							switch op {
							case token.LEQ:
								op = token.GTR
							case token.LSS:
								op = token.GEQ
							case token.GTR:
								op = token.LEQ
							case token.GEQ:
								op = token.LSS
							case token.EQL:
								op = token.NEQ
							case token.NEQ:
								op = token.EQL
							}
						}
						// orient: renumbered connection on the left = the one that is not the looked-up target; the
						// target is the variable assigned from HasEdge
						lroot, rroot := rootIdent(info, be.X), rootIdent(info, be.Y)
						target := func(o types.Object) bool {
							found := false
							ast.Inspect(fi.Decl.Body, func(m ast.Node) bool {
								as, ok := m.(*ast.AssignStmt)
								if ok && len(as.Rhs) == 1 && len(as.Lhs) >= 1 && core.ObjOf(info, as.Lhs[0]) == o {
									if call, ok := ast.Unparen(as.Rhs[0]).(*ast.CallExpr); ok && strings.HasSuffix(exprStr(call.Fun), ".HasEdge") {
										found = true
									}
								}
								return true
							})
							return found
						}
						if target(lroot) && !target(rroot) {
							switch op {
							case token.LSS:
								op = token.GTR
							case token.LEQ:
								op = token.GEQ
							case token.GTR:
								op = token.LSS
							case token.GEQ:
								op = token.LEQ
							}
						}
						out = cond{op, true, st.Pos()}
					}
				}
				return true
			})
			return out
		}
		d, p := find("Delete"), find("DeleteIDDeltas")
		switch {
		case !d.ok || !p.ok:
			c.Fail("C40.renumber-agreement", "renumber:Delete~DeleteIDDeltas", token.NoPos, fmt.Sprintf("the renumbering condition was not found (Delete: %v, DeleteIDDeltas: %v)", d.ok, p.ok))
		default:
			c.Decide(d.op == token.GTR && p.op == token.GTR, "C40.renumber-agreement", "renumber:Delete~DeleteIDDeltas", p.pos, "both renumber connections with other.Index > deleted.Index",
				fmt.Sprintf("Delete renumbers the parallel connections with index %s the deleted one's, DeleteIDDeltas predicts new IDs for those with index %s it: the prediction and the edit disagree (or the connection with the same index is renumbered too)", d.op, p.op))
		}
	}

	// (4) predictions use the board's graph, and their parallel-connection tests are the compiler's
	c.Rule("C40.board-graph", "a prediction that resolved the addressed board reads the board's objects and connections, not the root graph's")
	c.Rule("C40.parallel-test", "two connections are taken for parallel only when source, destination and both arrow ends agree (the test d2graph's initIndex uses)")
	npar := 0
	for _, fi := range c.P.Funcs(pk) {
		if fi.Decl.Body == nil || fi.Decl.Recv != nil {
			continue
		}
		// board graph
		var boardG, gParam types.Object
		var boardPos token.Pos
		if ps := fi.Obj.Type().(*types.Signature).Params(); ps.Len() > 0 && strings.HasSuffix(ps.At(0).Type().String(), "d2graph.Graph") {
			gParam = ps.At(0)
		}
		ast.Inspect(fi.Decl.Body, func(n ast.Node) bool {
			as, ok := n.(*ast.AssignStmt)
			if ok && len(as.Lhs) == 1 && len(as.Rhs) == 1 && core.IsCallTo(info, ast.Unparen(as.Rhs[0]), "d2oracle.GetBoardGraph") {
				boardG = core.ObjOf(info, as.Lhs[0])
				boardPos = as.End()
			}
			return true
		})
		isPrediction := strings.HasSuffix(fi.Decl.Name.Name, "IDDelta") || strings.HasSuffix(fi.Decl.Name.Name, "IDDeltas")
		if isPrediction && boardG != nil && gParam != nil && gParam != boardG {
			counts := map[string]int{}
			ast.Inspect(fi.Decl.Body, func(n ast.Node) bool {
				sel, ok := n.(*ast.SelectorExpr)
				if !ok || core.ObjOf(info, sel.X) != gParam || sel.Pos() < boardPos {
					return true
				}
				switch sel.Sel.Name {
				case "Root", "Edges", "Objects":
				default:
					return true
				}
				key := fmt.Sprintf("board-graph:%s:%s", fname(fi), exprStr(sel))
				counts[key]++
				if counts[key] > 1 {
					key = fmt.Sprintf("%s#%d", key, counts[key])
				}
				c.Fail("C40.board-graph", key, sel.Pos(), fmt.Sprintf("%s resolved the addressed board (%s) and then reads %s of the root graph: for an edit addressed to a nested board the prediction is computed from the root board's elements", fname(fi), boardG.Name(), exprStr(sel)))
				return true
			})
		}
		// parallel tests: a conjunction that compares .Src and .Dst of one connection with another's
		ast.Inspect(fi.Decl.Body, func(n ast.Node) bool {
			ifs, ok := n.(*ast.IfStmt)
			if !ok {
				return true
			}
			fields := map[string]bool{}
			var walk func(e ast.Expr)
			walk = func(e ast.Expr) {
				e = ast.Unparen(e)
				if call, isCall := e.(*ast.CallExpr); isCall {
					// a helper (closure bound to a local, or a function of the package) that compares fields of two connections
					var body ast.Node
					if o := core.ObjOf(info, call.Fun); o != nil {
						ast.Inspect(fi.Decl.Body, func(m ast.Node) bool {
							as, ok := m.(*ast.AssignStmt)
							if ok && len(as.Lhs) == 1 && len(as.Rhs) == 1 && core.ObjOf(info, as.Lhs[0]) == o {
								if lit, ok := ast.Unparen(as.Rhs[0]).(*ast.FuncLit); ok {
									body = lit.Body
								}
							}
							return true
						})
					}
					if body == nil {
						if callee := core.CalleeOf(info, call); callee != nil && callee.Pkg() == pk.Types {
							if h := c.P.Decl(callee); h != nil && h.Decl.Body != nil {
								body = h.Decl.Body
							}
						}
					}
					if body != nil {
						ast.Inspect(body, func(m ast.Node) bool {
							if b2, ok := m.(*ast.BinaryExpr); ok && b2.Op == token.EQL {
								for _, side := range []ast.Expr{b2.X, b2.Y} {
									if sel, ok := ast.Unparen(side).(*ast.SelectorExpr); ok {
										if t := info.TypeOf(sel.X); t != nil && strings.HasSuffix(t.String(), "d2graph.Edge") {
											fields[sel.Sel.Name] = true
										}
									}
								}
							}
							return true
						})
					}
					return
				}
				be, ok := e.(*ast.BinaryExpr)
				if !ok {
					return
				}
				if be.Op == token.LAND {
					walk(be.X)
					walk(be.Y)
					return
				}
				if be.Op != token.EQL {
					return
				}
				for _, side := range []ast.Expr{be.X, be.Y} {
					if sel, ok := ast.Unparen(side).(*ast.SelectorExpr); ok {
						if t := info.TypeOf(sel.X); t != nil && strings.HasSuffix(t.String(), "d2graph.Edge") {
							fields[sel.Sel.Name] = true
						}
					}
				}
			}
			walk(ifs.Cond)
			if !fields["Src"] || !fields["Dst"] {
				return true
			}
			npar++
			key := fmt.Sprintf("parallel:%s:%s", fname(fi), exprStr(ifs.Cond))
			c.Decide(fields["SrcArrow"] && fields["DstArrow"], "C40.parallel-test", key, ifs.Pos(), "compares Src, Dst, SrcArrow and DstArrow", fmt.Sprintf("%s treats two connections as parallel when their ends agree and ignores the arrow direction; indices are per (source, destination, arrows), so `a -> b` and `a <-> b` are numbered separately by the compiler but together here, and the predicted indices are wrong", fname(fi)))
			return true
		})
	}
	if npar == 0 {
		c.Fail("C40.parallel-test", "parallel:inventory", token.NoPos, "no parallel-connection test found in d2oracle")
	}

	// (5) twin assignments
	c.Rule("C40.twin-assign", "computations repeated under the same condition for two elements stay the same computation")
	{
		issues, n := twinAssignIssues(c.P, []*packages.Package{pk})
		for _, is := range issues {
			c.Fail("C40.twin-assign", is.Key, is.Pos, "the same condition guards two assignments to the same variable, written once per element, and the two right-hand sides are no longer the same computation: "+is.Text)
		}
		c.PassTrivial("C40.twin-assign", "twin-assign:inventory", token.NoPos, fmt.Sprintf("%d pairs of twin assignments in d2oracle", n))
	}

	// (6) an early return decided on parameters comes after the last reassignment of those parameters
	c.Rule("C40.test-after-normalise", "an early return decided by nil tests of parameters is not followed by code that sets those parameters to nil")
	{
		ntest := 0
		for _, fi := range c.P.Funcs(pk) {
			if fi.Decl.Body == nil || fi.Decl.Recv != nil {
				continue
			}
			params := map[types.Object]bool{}
			sig := fi.Obj.Type().(*types.Signature)
			for i := 0; i < sig.Params().Len(); i++ {
				if _, isPtr := sig.Params().At(i).Type().(*types.Pointer); isPtr {
					params[sig.Params().At(i)] = true
				}
			}
			if len(params) == 0 {
				continue
			}
			var fl *core.Flow
			for _, st := range fi.Decl.Body.List {
				ifs, ok := st.(*ast.IfStmt)
				if !ok || ifs.Else != nil || len(ifs.Body.List) == 0 {
					continue
				}
				if _, isRet := ifs.Body.List[len(ifs.Body.List)-1].(*ast.ReturnStmt); !isRet {
					continue
				}
				// the condition is a conjunction of `param == nil`
				tested := map[types.Object]bool{}
				pure := true
				var walk func(e ast.Expr)
				walk = func(e ast.Expr) {
					e = ast.Unparen(e)
					be, ok := e.(*ast.BinaryExpr)
					if !ok {
						pure = false
						return
					}
					if be.Op == token.LAND {
						walk(be.X)
						walk(be.Y)
						return
					}
					if be.Op == token.EQL && core.IsNil(info, be.Y) && params[core.ObjOf(info, be.X)] {
						tested[core.ObjOf(info, be.X)] = true
						return
					}
					pure = false
				}
				walk(ifs.Cond)
				if !pure || len(tested) == 0 {
					continue
				}
				ntest++
				if fl == nil {
					fl = core.NewFlow(fi.Pkg, fi.Decl.Body)
				}
				bad := ""
				ast.Inspect(fi.Decl.Body, func(n ast.Node) bool {
					as, ok := n.(*ast.AssignStmt)
					if !ok || as.Tok != token.ASSIGN || as.Pos() < ifs.End() {
						return true
					}
					for i, l := range as.Lhs {
						if tested[core.ObjOf(info, l)] && i < len(as.Rhs) && core.IsNil(info, as.Rhs[i]) && bad == "" {
							bad = fmt.Sprintf("%s = nil at line %d", exprStr(l), c.P.Fset.Position(as.Pos()).Line)
						}
					}
					return true
				})
				c.Decide(bad == "", "C40.test-after-normalise", fmt.Sprintf("early-return:%s:%s", fname(fi), exprStr(ifs.Cond)), ifs.Pos(), "no tested parameter is set to nil afterwards",
					fmt.Sprintf("%s returns early when %s, but a later statement still clears one of these parameters (%s): the case the early return was written for arises after the test and is handled as a real change", fname(fi), exprStr(ifs.Cond), bad))
			}
		}
		if ntest == 0 {
			c.Fail("C40.test-after-normalise", "early-return:inventory", token.NoPos, "no early return on nil parameters found in d2oracle")
		}
	}

	// (2) one generator
	reach := func(root *core.FuncInfo) bool {
		seen := map[*core.FuncInfo]bool{}
		var visit func(fi *core.FuncInfo) bool
		visit = func(fi *core.FuncInfo) bool {
			if fi == nil || seen[fi] {
				return false
			}
			seen[fi] = true
			for _, call := range core.Calls(fi.Decl.Body, true) {
				callee := core.CalleeOf(info, call)
				if callee == nil || callee.Pkg() != pk.Types {
					continue
				}
				if callee.Name() == "generateUniqueKey" {
					return true
				}
				if h := c.P.Decl(callee); h != nil && h.Decl.Body != nil && visit(h) {
					return true
				}
			}
			return false
		}
		return visit(root)
	}
	if mustFunc(c, "d2oracle", "", "generateUniqueKey") == nil {
		return
	}
	for _, pair := range [][2]string{{"Rename", "RenameIDDeltas"}, {"Move", "MoveIDDeltas"}, {"Delete", "DeleteIDDeltas"}} {
		e, p := mustFunc(c, "d2oracle", "", pair[0]), mustFunc(c, "d2oracle", "", pair[1])
		if e == nil || p == nil {
			continue
		}
		re, rp := reach(e), reach(p)
		c.Decide(re == rp, "C40.one-generator", "generator:"+pair[0]+"~"+pair[1], p.Decl.Pos(), "both reach generateUniqueKey",
			fmt.Sprintf("%s reaches generateUniqueKey: %v, %s: %v — the edit and its prediction no longer invent names the same way, so a name generated on a conflict is predicted wrongly", pair[0], re, pair[1], rp))
	}
}
