package props

import (
	"fmt"
	"go/ast"
	"go/token"
	"go/types"
	"sort"
	"strings"

	"d2verif/internal/core"
)

func init() {
	register(&Prop{
		ID:       "C01",
		Title:    "Parsing is total",
		Patterns: []string{"./d2parser", "./d2ast"},
		Explanation: "Decides, over every function reachable from the four parser entry points inside d2parser and d2ast (call graph resolved through types; interface calls resolved to every implementation in the two packages): " +
			"(1) every index and slice expression is in range by one of the engine's idioms (range key of the same slice, dominating length test, offset from a search of the same string tested against -1, size of a rune decoded from the same string, non-nil result of a function that never returns an empty path, bufio Peek(n) without error) or by a reviewed invariant listed with its reason; anything else is a violation; " +
			"(2) an offset into a strings.Builder's contents is reset whenever the builder is reset; (3) the rune passed to Position.Subtract / parser.replay is never a newline (its value comes from a constant, from a comparison, or from the not-space readers, whose every non-EOF return is on the false edge of unicode.IsSpace); " +
			"(4) the not-space readers agree on the whitespace predicate (sibling agreement), so what one skips the other consumes and the node loops always make progress; (5) values unboxed from the AST boxes are used only under a nil test of the same box; explicit panics reachable are inventoried.",
		NotCovered: "stack depth for pathological nesting, panics inside the standard library and the x/text decoder, the running-time bound, general progress of every loop",
		Trust:      []string{"calls evaluated between a short-circuit test and the use in the same expression do not reassign the operands", "the reviewed invariants of the exceptions table"},
		Technique:  "static analysis: bounds-idiom discharge over the typed AST with go/cfg guard dominance, paired-update, provenance of rune values, sibling agreement",
		Run:        runC01,
	})
}

// parserScope returns the functions of d2parser and d2ast reachable from the parser entry points.
func parserScope(c *core.Check) []*core.FuncInfo {
	pp, ap := c.P.Pkg("d2parser"), c.P.Pkg("d2ast")
	if pp == nil || ap == nil {
		c.Broken("d2parser/d2ast not loaded")
		return nil
	}
	inScope := func(f *types.Func) bool {
		return f != nil && f.Pkg() != nil && (f.Pkg() == pp.Types || f.Pkg() == ap.Types)
	}
	// methods by name, for interface calls
	byName := map[string][]*core.FuncInfo{}
	for _, pk := range []*struct{ fis []*core.FuncInfo }{{c.P.Funcs(pp)}, {c.P.Funcs(ap)}} {
		for _, fi := range pk.fis {
			if fi.Decl.Recv != nil {
				byName[fi.Obj.Name()] = append(byName[fi.Obj.Name()], fi)
			}
		}
	}
	seen := map[*core.FuncInfo]bool{}
	var queue []*core.FuncInfo
	push := func(fi *core.FuncInfo) {
		if fi != nil && fi.Decl.Body != nil && !seen[fi] {
			seen[fi] = true
			queue = append(queue, fi)
		}
	}
	for _, name := range []string{"Parse", "ParseKey", "ParseMapKey", "ParseValue"} {
		fi := mustFunc(c, "d2parser", "", name)
		push(fi)
	}
	for len(queue) > 0 {
		fi := queue[0]
		queue = queue[1:]
		info := fi.Pkg.TypesInfo
		ast.Inspect(fi.Decl.Body, func(n ast.Node) bool {
			switch x := n.(type) {
			case *ast.CallExpr:
				f := core.CalleeOf(info, x)
				if !inScope(f) {
					return true
				}
				if sig, ok := f.Type().(*types.Signature); ok && sig.Recv() != nil {
					if _, isIface := sig.Recv().Type().Underlying().(*types.Interface); isIface {
						for _, m := range byName[f.Name()] {
							push(m)
						}
						return true
					}
				}
				push(c.P.Decl(f))
			case *ast.SelectorExpr:
				// method values (defer s.Range.End.From(&p.pos))
				if f, ok := info.Uses[x.Sel].(*types.Func); ok && inScope(f) {
					push(c.P.Decl(f))
				}
			}
			return true
		})
	}
	var out []*core.FuncInfo
	for fi := range seen {
		out = append(out, fi)
	}
	sort.Slice(out, func(i, j int) bool { return out[i].Decl.Pos() < out[j].Decl.Pos() })
	return out
}

// boundsExceptions: reviewed invariants for sites no idiom decides. Keyed by kind:function:expression.
var boundsExceptions = map[string]string{
	"slice:d2parser.(*parser).replay:lookahead2[1:]":                  "lookahead2 = make([]rune, newcap) with newcap = len(p.lookahead)+1 ≥ 1",
	"slice:d2parser.(*parser).replay:p.lookahead[:newcap]":            "else-branch of newcap > cap(p.lookahead): newcap ≤ cap",
	"slice:d2parser.(*parser).replay:p.lookahead[1:]":                 "p.lookahead was just resliced to newcap ≥ 1",
	"index:d2parser.(*parser).replay:p.lookahead[0]":                  "both branches leave len(p.lookahead) = newcap ≥ 1",
	"slice:d2parser.(*parser).rewind:readahead2[len(p.lookahead):]":   "readahead2 = make([]rune, newcap), newcap = len(p.lookahead)+len(p.readahead) ≥ len(p.lookahead)",
	"slice:d2parser.(*parser).rewind:p.readahead[:newcap]":            "else-branch of cap(p.readahead) < newcap: newcap ≤ cap",
	"slice:d2parser.(*parser).rewind:p.readahead[len(p.lookahead):]":  "p.readahead was just resliced to newcap ≥ len(p.lookahead)",
	"slice:d2parser.(*parser).parseUnquotedString:sb.String()[lastPatternIndex:]": "lastPatternIndex ≤ len(sb): it is set to len(sb)+1 only immediately before '*' is appended to sb, and reset with sb (rule C01.builder-offset)",
}

func runC01(c *core.Check) {
	c.Rule("C01.bounds", "every index/slice expression reachable from the parser entry points is in range (idiom or reviewed invariant)")
	c.Rule("C01.builder-offset", "an offset into a strings.Builder's contents is reset together with the builder")
	c.Rule("C01.no-newline-subtract", "Position.Subtract / parser.replay never receive a newline")
	c.Rule("C01.space-predicate", "readNotSpace and peekNotSpace skip exactly unicode.IsSpace runes and return only non-space runes")
	c.Rule("C01.unbox", "values unboxed from AST boxes are dereferenced only under a nil test")
	c.Rule("C01.panics", "explicit panics reachable from the parser are inventoried and excluded by another rule")
	scope := parserScope(c)
	if len(scope) < 40 {
		c.Broken("parser scope has only %d functions", len(scope))
		return
	}
	c.Note("scope: %d functions of d2parser and d2ast reachable from Parse/ParseKey/ParseMapKey/ParseValue", len(scope))

	// (1) bounds
	sites := boundsSites(c.P, scope, nil)
	used := map[string]bool{}
	for _, s := range sites {
		switch {
		case s.ok:
			c.Pass("C01.bounds", s.key, s.node.Pos(), s.how)
		case boundsExceptions[s.key] != "":
			used[s.key] = true
			c.Except("C01.bounds", s.key, s.node.Pos(), boundsExceptions[s.key])
		case builderLenSlice(s.fi, s.node):
			c.Pass("C01.bounds", s.key, s.node.Pos(), "the bound is only ever 0 or the builder's Len() at that moment, the sliced string is that builder's String(), and the builder only grows until it is reset together with the bound (C01.builder-offset)")
		default:
			c.Fail("C01.bounds", s.key, s.node.Pos(), exprStr(s.node)+" can be out of range ("+s.how+"): a crafted input makes the parser panic instead of returning errors")
		}
	}
	c.Floor("C01.bounds", 20)

	// (2) builder offsets
	checkBuilderOffsets(c, "C01.builder-offset", scope)

	// (3) newline never subtracted
	checkNoNewlineSubtract(c, scope)

	// (4) sibling whitespace predicate
	for _, name := range []string{"readNotSpace", "peekNotSpace"} {
		fi := mustFunc(c, "d2parser", "parser", name)
		if fi == nil {
			continue
		}
		ok, why := returnsOnlyNonSpace(fi)
		c.Decide(ok, "C01.space-predicate", name, fi.Decl.Pos(), "skips while unicode.IsSpace(r); returns r only on its false edge", name+" "+why+": its sibling and the callers assume every unicode.IsSpace rune is skipped (a rune one helper skips and the other returns makes the node loops spin or hands a newline to Subtract)")
	}

	// (5) unbox
	pk := c.P.Pkg("d2parser")
	n := 0
	for _, fi := range c.P.Funcs(pk) {
		info := fi.Pkg.TypesInfo
		bodies := core.BodiesOf(fi.Decl)
		flows := map[int]*core.Flow{}
		ast.Inspect(fi.Decl.Body, func(nd ast.Node) bool {
			var recvCall *ast.CallExpr
			switch x := nd.(type) {
			case *ast.SelectorExpr:
				if call, ok := ast.Unparen(x.X).(*ast.CallExpr); ok {
					recvCall = call
				}
			case *ast.TypeAssertExpr:
				if x.Type == nil {
					return true
				}
				if call, ok := ast.Unparen(x.X).(*ast.CallExpr); ok {
					// `v, ok := x.(T)` on a nil interface is fine
					return !isCommaOkAssert(fi, x) || call == nil
				}
			}
			if recvCall == nil {
				return true
			}
			f := core.CalleeOf(info, recvCall)
			if f == nil || f.Name() != "Unbox" {
				return true
			}
			n++
			bi := core.InnermostBody(bodies, nd)
			if flows[bi] == nil {
				flows[bi] = core.NewFlow(fi.Pkg, bodies[bi].Block)
			}
			want := exprStr(recvCall)
			ok, how := guardedNonNilText(flows[bi], info, nd, want)
			if !ok {
				// a test of one of the box's fields implies Unbox() != nil
				box := exprStr(recvCall.Fun.(*ast.SelectorExpr).X)
				for _, g := range flows[bi].GuardsOfNode(nd) {
					for _, a := range g.Atoms() {
						if x, nonNil, isNil := a.NilTest(info); isNil && nonNil && strings.HasPrefix(exprStr(x), box+".") {
							ok, how = true, "dominating test "+exprStr(x)+" != nil"
						}
					}
				}
			}
			key := "unbox:" + fname(fi) + ":" + want
			if !ok {
				if r := unboxExceptions[key]; r != "" {
					c.Except("C01.unbox", key, nd.Pos(), r)
					return true
				}
			}
			c.Decide(ok, "C01.unbox", key, nd.Pos(), how, want+" is nil for an empty box and is dereferenced here without a test")
			return true
		})
	}
	if n == 0 {
		c.Fail("C01.unbox", "unbox:none", token.NoPos, "no Unbox() dereference found in d2parser; the rule needs review")
	}
	// the producer rule behind the exception: every element appended to a KeyPath in parseKey is a non-empty box
	if pkf := mustFunc(c, "d2parser", "parser", "parseKey"); pkf != nil {
		info := pkf.Pkg.TypesInfo
		fl := core.NewFlow(pkf.Pkg, pkf.Decl.Body)
		na := 0
		ast.Inspect(pkf.Decl.Body, func(nd ast.Node) bool {
			as, ok := nd.(*ast.AssignStmt)
			if !ok || len(as.Rhs) != 1 {
				return true
			}
			call, ok := ast.Unparen(as.Rhs[0]).(*ast.CallExpr)
			if !ok || exprStr(call.Fun) != "append" || len(call.Args) != 2 || !strings.HasSuffix(exprStr(as.Lhs[0]), ".Path") {
				return true
			}
			na++
			ue, ok := ast.Unparen(call.Args[1]).(*ast.UnaryExpr)
			okG := false
			if ok && ue.Op == token.AND {
				box := exprStr(ue.X)
				// v := box.Unbox(); v == nil → return
				for _, g := range fl.GuardsOfNode(as) {
					for _, a := range g.Atoms() {
						x, nonNil, isNil := a.NilTest(info)
						if !isNil || !nonNil {
							continue
						}
						if exprStr(x) == box+".Unbox()" {
							okG = true
						}
						if o := core.ObjOf(info, x); o != nil {
							if d := singleDef(pkf, o); d != nil && exprStr(d.Rhs) == box+".Unbox()" {
								okG = true
							}
						}
					}
				}
			}
			c.Decide(okG, "C01.unbox", "producer:parseKey:append-non-empty-box", as.Pos(), "appended only after the box's Unbox() was tested against nil", "parseKey appends a string box to the key path without checking that it holds a string: the deferred End computation and every consumer dereference Unbox() of path elements")
			return true
		})
		if na == 0 {
			c.Fail("C01.unbox", "producer:parseKey:none", pkf.Decl.Pos(), "no append to the key path found in parseKey")
		}
	}

	// (6) explicit panics
	for _, fi := range scope {
		for _, call := range core.Calls(fi.Decl.Body, true) {
			if id, ok := call.Fun.(*ast.Ident); ok && id.Name == "panic" {
				if _, isBuiltin := fi.Pkg.TypesInfo.Uses[id].(*types.Builtin); !isBuiltin {
					continue
				}
				key := "panic:" + fname(fi)
				if fname(fi) == "d2ast.(Position).Subtract" {
					c.Except("C01.panics", key, call.Pos(), "fires only for a newline argument, excluded by rule C01.no-newline-subtract")
				} else {
					c.Fail("C01.panics", key, call.Pos(), "explicit panic reachable from the parser entry points without a rule excluding its condition")
				}
			}
		}
	}
	for k := range boundsExceptions {
		if !used[k] {
			c.Note("exception %q no longer matches a site", k)
		}
	}
}

var unboxExceptions = map[string]string{
	"unbox:d2parser.(*parser).parseKey:k.Path[len(k.Path) - 1].Unbox()": "elements of k.Path are appended only after their Unbox() was tested against nil (producer rule C01.unbox producer:parseKey)",
	"unbox:d2parser.(*parser).parseImport:k.Path[1].Unbox()":            "same: elements of a parsed key path are non-empty boxes",
}

func isCommaOkAssert(fi *core.FuncInfo, ta *ast.TypeAssertExpr) bool {
	ok := false
	ast.Inspect(fi.Decl.Body, func(n ast.Node) bool {
		switch s := n.(type) {
		case *ast.AssignStmt:
			if len(s.Lhs) == 2 && len(s.Rhs) == 1 && ast.Unparen(s.Rhs[0]) == ast.Expr(ta) {
				ok = true
			}
		case *ast.ValueSpec:
			if len(s.Names) == 2 && len(s.Values) == 1 && ast.Unparen(s.Values[0]) == ast.Expr(ta) {
				ok = true
			}
		}
		return true
	})
	return ok
}

// checkBuilderOffsets: for every int variable V used as a slice bound on B.String() (B a strings.Builder
// variable) in a function, every B.Reset() is immediately followed or preceded by V = 0 in the same block.
// builderLenSlice: node is X[lo:hi] where X is a local defined once as B.String() and every bound is a local that is
// only ever assigned the constant 0 or B.Len().
func builderLenSlice(fi *core.FuncInfo, node ast.Node) bool {
	se, ok := node.(*ast.SliceExpr)
	if !ok || fi == nil {
		return false
	}
	info := fi.Pkg.TypesInfo
	xo := core.ObjOf(info, se.X)
	if xo == nil {
		return false
	}
	// the builder X was taken from
	var b types.Object
	ndef := 0
	ast.Inspect(fi.Decl.Body, func(n ast.Node) bool {
		as, ok := n.(*ast.AssignStmt)
		if !ok {
			return true
		}
		for i, l := range as.Lhs {
			if core.ObjOf(info, l) != xo || i >= len(as.Rhs) {
				continue
			}
			ndef++
			if call, ok := ast.Unparen(as.Rhs[i]).(*ast.CallExpr); ok && core.IsCallTo(info, call, "strings.(*Builder).String") {
				b = rootIdent(info, call.Fun)
			} else if ndef > 1 {
				// sv = sv[:v] + f(sv[v:]) keeps the prefix: allowed as a second definition only when it re-slices itself
				if !strings.HasPrefix(exprStr(as.Rhs[i]), exprStr(l)+"[") {
					b = nil
				}
			}
		}
		return true
	})
	if b == nil {
		return false
	}
	for _, bd := range []ast.Expr{se.Low, se.High} {
		if bd == nil {
			continue
		}
		v := core.ObjOf(info, bd)
		if v == nil {
			return false
		}
		okAll, nasg := true, 0
		ast.Inspect(fi.Decl.Body, func(n ast.Node) bool {
			as, ok := n.(*ast.AssignStmt)
			if !ok {
				return true
			}
			for i, l := range as.Lhs {
				if core.ObjOf(info, l) != v {
					continue
				}
				nasg++
				if len(as.Rhs) != len(as.Lhs) {
					okAll = false
					continue
				}
				r := ast.Unparen(as.Rhs[i])
				if cv, ok := intConst(info, r); ok && cv == 0 {
					continue
				}
				if call, ok := r.(*ast.CallExpr); ok && core.IsCallTo(info, call, "strings.(*Builder).Len") && rootIdent(info, call.Fun) == b {
					continue
				}
				okAll = false
			}
			return true
		})
		if !okAll || nasg == 0 {
			return false
		}
	}
	return true
}

func checkBuilderOffsets(c *core.Check, rule string, scope []*core.FuncInfo) {
	n := 0
	for _, fi := range scope {
		info := fi.Pkg.TypesInfo
		// V → B
		pairs := map[types.Object]types.Object{}
		ast.Inspect(fi.Decl.Body, func(nd ast.Node) bool {
			se, ok := nd.(*ast.SliceExpr)
			if !ok {
				return true
			}
			call, ok := ast.Unparen(se.X).(*ast.CallExpr)
			if !ok {
				// a local that holds B.String()
				if xo := core.ObjOf(info, se.X); xo != nil {
					ast.Inspect(fi.Decl.Body, func(m ast.Node) bool {
						as, isAs := m.(*ast.AssignStmt)
						if !isAs || len(as.Lhs) != 1 || len(as.Rhs) != 1 || core.ObjOf(info, as.Lhs[0]) != xo {
							return true
						}
						if cl, isCall := ast.Unparen(as.Rhs[0]).(*ast.CallExpr); isCall && core.IsCallTo(info, cl, "strings.(*Builder).String") {
							call, ok = cl, true
						}
						return true
					})
				}
			}
			if !ok || !core.IsCallTo(info, call, "strings.(*Builder).String") {
				return true
			}
			b := rootIdent(info, call.Fun)
			for _, bd := range []ast.Expr{se.Low, se.High} {
				if bd == nil {
					continue
				}
				if v := core.ObjOf(info, bd); v != nil && b != nil {
					pairs[v] = b
				}
			}
			return true
		})
		for v, b := range pairs {
			ast.Inspect(fi.Decl.Body, func(nd ast.Node) bool {
				blk, ok := nd.(*ast.BlockStmt)
				if !ok {
					return true
				}
				for i, st := range blk.List {
					es, ok := st.(*ast.ExprStmt)
					if !ok {
						continue
					}
					call, ok := es.X.(*ast.CallExpr)
					if !ok || !core.IsCallTo(info, call, "strings.(*Builder).Reset") || rootIdent(info, call.Fun) != b {
						continue
					}
					n++
					paired := false
					for j := i - 2; j < len(blk.List); j++ {
						if j < 0 || j == i {
							continue
						}
						as, ok := blk.List[j].(*ast.AssignStmt)
						if !ok || len(as.Lhs) != len(as.Rhs) {
							continue
						}
						for k, l := range as.Lhs {
							if core.ObjOf(info, l) == v {
								if cv, ok := intConst(info, as.Rhs[k]); ok && cv == 0 {
									paired = true
								}
							}
						}
					}
					c.Decide(paired, rule, fmt.Sprintf("reset:%s:%s.Reset()↔%s", fname(fi), b.Name(), v.Name()), call.Pos(), v.Name()+" = 0 next to the reset",
						fmt.Sprintf("%s.Reset() empties the builder but %s keeps an offset into its old contents; a later %s.String()[%s:] slices past the end (e.g. `x: a*${y}b*` panics with slice bounds out of range)", b.Name(), v.Name(), b.Name(), v.Name()))
				}
				return true
			})
		}
	}
	if n == 0 {
		c.Note("%s: no strings.Builder offset is reset in scope", rule)
	}
}

// returnsOnlyNonSpace: the function loops reading runes, `continue`s when unicode.IsSpace(r), and every
// return that hands out r (non-EOF) is on the false edge of that very test.
func returnsOnlyNonSpace(fi *core.FuncInfo) (bool, string) {
	info := fi.Pkg.TypesInfo
	fl := core.NewFlow(fi.Pkg, fi.Decl.Body)
	nret := 0
	for _, ex := range fl.Exits() {
		if ex.Ret == nil {
			// named results: a bare fall-off does not exist in these helpers
			continue
		}
		// the EOF returns return constant zero as the rune
		if len(ex.Ret.Results) > 0 {
			if cv, ok := intConst(info, ex.Ret.Results[0]); ok && cv == 0 {
				continue
			}
		}
		nret++
		ok := false
		for _, g := range fl.GuardsOf(ex.Blk) {
			for _, a := range g.Atoms() {
				call, isCall := ast.Unparen(a.Cond).(*ast.CallExpr)
				if isCall && !a.True && core.IsCallTo(info, call, "unicode.IsSpace") && len(ex.Ret.Results) > 0 && exprStr(call.Args[0]) == exprStr(ex.Ret.Results[0]) {
					ok = true
				}
			}
		}
		if !ok {
			return false, "returns a rune without having excluded unicode.IsSpace for it"
		}
	}
	if nret == 0 {
		return false, "has no return that hands out a rune"
	}
	return true, ""
}

// runeNotNewline decides whether the rune expression e at node use cannot be '\n'.
func runeNotNewline(c *core.Check, fi *core.FuncInfo, fl *core.Flow, use ast.Node, e ast.Expr) (bool, string) {
	info := fi.Pkg.TypesInfo
	e = ast.Unparen(e)
	if tv, ok := info.Types[e]; ok && tv.Value != nil {
		if cv, ok := intConst(info, e); ok {
			return cv != '\n', "constant rune"
		}
	}
	o := core.ObjOf(info, e)
	if o == nil {
		return false, "not a variable or constant"
	}
	// comparisons on the path
	for _, g := range fl.GuardsOfNode(use) {
		for _, a := range g.Atoms() {
			be, ok := ast.Unparen(a.Cond).(*ast.BinaryExpr)
			if !ok || core.ObjOf(info, be.X) != o {
				continue
			}
			cv, ok := intConst(info, be.Y)
			if !ok {
				continue
			}
			eq := (be.Op == token.EQL && a.True) || (be.Op == token.NEQ && !a.True)
			ne := (be.Op == token.NEQ && a.True) || (be.Op == token.EQL && !a.True)
			if (eq && cv != '\n') || (ne && cv == '\n') {
				if !modifiedOnPath(fi, fl, a.Cond, use, map[types.Object]bool{o: true}, nil) {
					return true, "dominating comparison " + exprStr(a.Cond)
				}
			}
		}
	}
	// switch r { case 'x': … } arms: go/cfg lowers them to r == 'x' comparisons, covered above.
	// provenance: every definition reaching the use comes from a not-space reader
	if isParam(fi, o) {
		return false, "parameter (callers are checked separately)"
	}
	ds := defsOf(fi, o)
	if len(ds) == 0 {
		return false, "no definition found"
	}
	for _, d := range ds {
		call, ok := d.Rhs.(*ast.CallExpr)
		if !ok || d.Index != 0 {
			return false, "defined by " + exprStr(d.Rhs)
		}
		if !core.IsCallTo(info, call, "d2parser.(*parser).readNotSpace", "d2parser.(*parser).peekNotSpace") {
			// only definitions that can reach the use matter
			mb, mi, okL := fl.Locate(d.Stmt)
			ub, ui, okU := fl.Locate(use)
			if okL && okU {
				if r, _ := fl.ReachableFromAvoiding(mb, mi, ub, ui, func(n ast.Node) bool {
					// killed by a later definition from a not-space reader
					as, ok := n.(*ast.AssignStmt)
					if !ok || len(as.Rhs) != 1 {
						return false
					}
					c2, ok := as.Rhs[0].(*ast.CallExpr)
					return ok && core.IsCallTo(info, c2, "d2parser.(*parser).readNotSpace", "d2parser.(*parser).peekNotSpace") && len(as.Lhs) > 0 && core.ObjOf(info, as.Lhs[0]) == o
				}); !r {
					continue
				}
			}
			f := core.CalleeOf(info, call)
			name := exprStr(d.Rhs)
			if f != nil {
				name = core.FuncName(f)
			}
			return false, "its value can come from " + name + ", which may return a newline"
		}
	}
	return true, "value comes from readNotSpace/peekNotSpace, which return only non-space runes"
}

func checkNoNewlineSubtract(c *core.Check, scope []*core.FuncInfo) {
	rule := "C01.no-newline-subtract"
	n := 0
	// functions whose rune parameter is forwarded to Subtract/replay: their callers must satisfy the rule too
	forwarders := map[*types.Func]int{} // func → parameter index
	if rp := c.P.Func("d2parser", "parser", "replay"); rp != nil {
		forwarders[rp.Obj] = 0
	}
	for _, fi := range scope {
		if !strings.HasPrefix(fname(fi), "d2parser.") {
			continue
		}
		info := fi.Pkg.TypesInfo
		bodies := core.BodiesOf(fi.Decl)
		flows := map[int]*core.Flow{}
		for _, call := range core.Calls(fi.Decl.Body, true) {
			f := core.CalleeOf(info, call)
			if f == nil {
				continue
			}
			argIdx := -1
			switch core.FuncName(f) {
			case "d2ast.(Position).Subtract":
				argIdx = 0
			case "d2parser.(*parser).replay":
				argIdx = 0
			}
			if argIdx < 0 || len(call.Args) <= argIdx {
				continue
			}
			if fname(fi) == "d2parser.(*parser).replay" {
				continue // forwards its parameter: the callers are the obligations
			}
			n++
			bi := core.InnermostBody(bodies, call)
			if flows[bi] == nil {
				flows[bi] = core.NewFlow(fi.Pkg, bodies[bi].Block)
			}
			ok, how := runeNotNewline(c, fi, flows[bi], call, call.Args[argIdx])
			key := fmt.Sprintf("%s:%s(%s)", fname(fi), f.Name(), exprStr(call.Args[argIdx]))
			// a parameter that the function itself compares or that every caller passes safely
			if !ok && strings.HasPrefix(how, "parameter") {
				if why, okc := callersPassNonNewline(c, scope, fi, call.Args[argIdx]); okc {
					ok, how = true, why
				} else {
					how = why
				}
			}
			c.Decide(ok, rule, key, call.Pos(), how, "the rune "+exprStr(call.Args[argIdx])+" may be a newline ("+how+"): Position.Subtract panics on '\\n'")
		}
	}
	if n < 10 {
		c.Fail(rule, "sites", token.NoPos, fmt.Sprintf("only %d Subtract/replay call sites found", n))
	}
	// SubtractString with constant strings only
	for _, fi := range scope {
		info := fi.Pkg.TypesInfo
		for _, call := range core.Calls(fi.Decl.Body, true) {
			if !core.IsCallTo(info, call, "d2ast.(Position).SubtractString") || len(call.Args) == 0 {
				continue
			}
			tv, ok := info.Types[call.Args[0]]
			okc := ok && tv.Value != nil && !strings.Contains(tv.Value.ExactString(), `\n`)
			c.Decide(okc, rule, fmt.Sprintf("%s:SubtractString(%s)", fname(fi), exprStr(call.Args[0])), call.Pos(), "constant without newline", "SubtractString receives a string that is not a newline-free constant")
		}
	}
}

// callersPassNonNewline: e is a parameter of fi; every call of fi in scope passes a rune that cannot be a newline.
func callersPassNonNewline(c *core.Check, scope []*core.FuncInfo, fi *core.FuncInfo, e ast.Expr) (string, bool) {
	o := core.ObjOf(fi.Pkg.TypesInfo, e)
	sig := fi.Obj.Type().(*types.Signature)
	idx := -1
	for i := 0; i < sig.Params().Len(); i++ {
		if sig.Params().At(i) == o {
			idx = i
		}
	}
	if idx < 0 {
		return "parameter not found", false
	}
	ncall := 0
	for _, caller := range scope {
		info := caller.Pkg.TypesInfo
		bodies := core.BodiesOf(caller.Decl)
		for _, call := range core.Calls(caller.Decl.Body, true) {
			if core.CalleeOf(info, call) != fi.Obj || len(call.Args) <= idx {
				continue
			}
			ncall++
			bi := core.InnermostBody(bodies, call)
			fl := core.NewFlow(caller.Pkg, bodies[bi].Block)
			if ok, how := runeNotNewline(c, caller, fl, call, call.Args[idx]); !ok {
				return "caller " + fname(caller) + " passes " + exprStr(call.Args[idx]) + ": " + how, false
			}
		}
	}
	if ncall == 0 {
		return "no caller found", false
	}
	return fmt.Sprintf("parameter; all %d callers pass a rune that cannot be a newline", ncall), true
}
