package props

import (
	"bytes"
	"fmt"
	"go/ast"
	"go/parser"
	"go/printer"
	"go/scanner"
	"go/token"
	"go/types"
	"regexp"
	"sort"
	"strings"

	"golang.org/x/tools/go/packages"

	"d2verif/internal/core"
)

// E15 — axis consistency. Geometry code names what it computes: X, Width, Left, Right, dx … belong to the
// horizontal axis; Y, Height, Top, Bottom, dy … to the vertical one. A sum, difference or comparison whose
// operands come from different axes, or an assignment of a Y-expression to an X-place, is almost always a
// copy-paste slip (and breaks enclosure, alignment or gap arithmetic for non-square cases only).
// Products and quotients are exempt (areas, ratios, slopes).

type axis int

const (
	axNone axis = 0
	axX    axis = 1
	axY    axis = 2
	axBoth axis = 3
)

var (
	xWords = regexp.MustCompile(`(?i)^(x|x[0-9]|[a-z]*x|dx|w|width|[a-z]*width|left|[a-z]*left|right|[a-z]*right|horizontal[a-z]*|[a-z]*horizontal|col|cols|column|columns|[a-z]*cols?|hgap|[a-z]*xs?)$`)
	yWords = regexp.MustCompile(`(?i)^(y|y[0-9]|[a-z]*y|dy|h|height|[a-z]*height|top|[a-z]*top|bottom|[a-z]*bottom|vertical[a-z]*|[a-z]*vertical|row|rows|[a-z]*rows?|vgap|[a-z]*ys?)$`)
	// words that look like an axis word but are not geometric
	neutralWords = map[string]bool{"max": true, "idx": true, "index": true, "box": true, "prefix": true, "suffix": true, "matrix": true, "hex": true, "regex": true, "ctx": true, "key": true, "by": true, "ready": true, "entry": true, "empty": true, "any": true, "body": true, "copy": true, "apply": true, "display": true, "array": true, "query": true, "category": true, "directory": true, "history": true, "opacity": true, "density": true, "only": true, "many": true, "every": true, "retry": true, "binary": true, "primary": true, "secondary": true, "boundary": true, "summary": true, "delay": true, "overlay": true, "galaxy": true, "proxy": true, "family": true, "style": false, "text": true, "next": true, "context": true, "vertex": true, "start": true, "count": true, "result": true, "default": true, "shift": true, "offset": true, "height": false, "weight": true, "light": true, "highlight": true, "straight": true, "copyright": true, "insight": true}
)

func axisOfName(name string) axis {
	l := strings.ToLower(name)
	if neutralWords[l] {
		return axNone
	}
	// CamelCase tail: labelWidth → Width; TopLeft is a point (both)
	if l == "topleft" || l == "bottomright" || l == "topright" || l == "bottomleft" || l == "center" {
		return axNone
	}
	// thickness of a line applies to both axes
	if strings.HasSuffix(l, "strokewidth") || strings.HasSuffix(l, "borderwidth") || strings.HasSuffix(l, "linewidth") || strings.HasSuffix(l, "stroke_width") {
		return axNone
	}
	// ALL_CAPS constants: the last word decides
	if strings.ToUpper(name) == name && strings.Contains(name, "_") {
		parts := strings.Split(l, "_")
		switch parts[len(parts)-1] {
		case "width", "x", "left", "right", "horizontal":
			return axX
		case "height", "y", "top", "bottom", "vertical":
			return axY
		}
		return axNone
	}
	// split trailing capitalised word
	tail := name
	for i := len(name) - 1; i > 0; i-- {
		if name[i] >= 'A' && name[i] <= 'Z' {
			tail = name[i:]
			break
		}
	}
	for _, cand := range []string{name, tail} {
		lc := strings.ToLower(cand)
		if neutralWords[lc] {
			continue
		}
		switch lc {
		case "x", "dx", "w", "width", "left", "right", "horizontal", "hgap", "xs", "minx", "maxx", "x1", "x2", "x0":
			return axX
		case "y", "dy", "h", "height", "top", "bottom", "vertical", "vgap", "ys", "miny", "maxy", "y1", "y2", "y0":
			return axY
		}
	}
	// suffix forms: startX, endY, labelWidth, boxHeight, padLeft …
	for _, suf := range []struct {
		s string
		a axis
	}{{"width", axX}, {"height", axY}, {"left", axX}, {"right", axX}, {"top", axY}, {"bottom", axY}} {
		if strings.HasSuffix(l, suf.s) && len(l) > len(suf.s) {
			return suf.a
		}
	}
	if len(name) >= 2 {
		last, prev := name[len(name)-1], name[len(name)-2]
		if (last == 'X' || last == 'Y') && (prev >= 'a' && prev <= 'z' || prev >= '0' && prev <= '9') {
			if last == 'X' {
				return axX
			}
			return axY
		}
	}
	return axNone
}

// axisOfExpr: the set of axes an arithmetic expression draws from. Calls are opaque except min/max/abs/float
// conversions and math.Max/Min/Abs/Ceil/Floor/Round, which keep their operands' axes.
func axisOfExpr(info *types.Info, e ast.Expr) axis {
	e = ast.Unparen(e)
	switch x := e.(type) {
	case *ast.Ident:
		return axisOfName(x.Name)
	case *ast.SelectorExpr:
		// p.X, box.Width, obj.TopLeft.Y …: the last selector decides; a method value decides nothing
		if _, isFunc := info.Uses[x.Sel].(*types.Func); isFunc {
			return axNone
		}
		return axisOfName(x.Sel.Name)
	case *ast.BasicLit:
		return axNone
	case *ast.UnaryExpr:
		return axisOfExpr(info, x.X)
	case *ast.StarExpr:
		return axisOfExpr(info, x.X)
	case *ast.BinaryExpr:
		switch x.Op {
		case token.ADD, token.SUB:
			return axisOfExpr(info, x.X) | axisOfExpr(info, x.Y)
		case token.MUL, token.QUO:
			// scaling keeps the axis of the geometric operand when the other is neutral; two geometric operands: neutral (area/ratio)
			a, b := axisOfExpr(info, x.X), axisOfExpr(info, x.Y)
			if a == axNone {
				return b
			}
			if b == axNone {
				return a
			}
			return axNone
		}
		return axNone
	case *ast.CallExpr:
		if tv, ok := info.Types[x.Fun]; ok && tv.IsType() && len(x.Args) == 1 {
			return axisOfExpr(info, x.Args[0])
		}
		name := exprStr(x.Fun)
		switch name {
		case "math.Max", "math.Min", "math.Abs", "math.Ceil", "math.Floor", "math.Round", "max", "min", "go2.Max", "go2.Min", "go2.IntMax", "go2.IntMin", "int", "float64":
			var a axis
			for _, arg := range x.Args {
				a |= axisOfExpr(info, arg)
			}
			return a
		}
		// a getter named by axis: box.GetWidth()
		if sel, ok := x.Fun.(*ast.SelectorExpr); ok && len(x.Args) == 0 {
			return axisOfName(strings.TrimPrefix(sel.Sel.Name, "Get"))
		}
		return axNone
	case *ast.IndexExpr:
		return axisOfExpr(info, x.X)
	}
	return axNone
}

type axisMix struct {
	fi   *core.FuncInfo
	node ast.Node
	key  string
	what string
}

// axisMixes lists sums/differences/comparisons mixing axes and cross-axis assignments in the packages.
func axisMixes(p *core.Prog, pkgs []*packages.Package, onlyFuncs func(fi *core.FuncInfo) bool) (mixes []axisMix, nexpr int) {
	for _, pk := range pkgs {
		for _, fi := range p.Funcs(pk) {
			if onlyFuncs != nil && !onlyFuncs(fi) {
				continue
			}
			info := fi.Pkg.TypesInfo
			counts := map[string]int{}
			add := func(n ast.Node, what, text string) {
				k := "axis:" + fname(fi) + ":" + text
				counts[k]++
				if counts[k] > 1 {
					k = fmt.Sprintf("%s#%d", k, counts[k])
				}
				mixes = append(mixes, axisMix{fi, n, k, what})
			}
			isNum := func(e ast.Expr) bool {
				tv, ok := info.Types[e]
				if !ok {
					return false
				}
				b, ok := tv.Type.Underlying().(*types.Basic)
				return ok && b.Info()&types.IsNumeric != 0
			}
			ast.Inspect(fi.Decl.Body, func(n ast.Node) bool {
				switch x := n.(type) {
				case *ast.BinaryExpr:
					switch x.Op {
					case token.ADD, token.SUB, token.LSS, token.GTR, token.LEQ, token.GEQ, token.EQL, token.NEQ:
						if !isNum(x.X) || !isNum(x.Y) {
							return true
						}
						a, b := axisOfExpr(info, x.X), axisOfExpr(info, x.Y)
						if a != axNone && b != axNone && a != axBoth && b != axBoth {
							nexpr++
							if a != b {
								add(x, "operands of "+x.Op.String()+" come from different axes", exprStr(x))
							}
						}
					}
				case *ast.AssignStmt:
					if len(x.Lhs) != len(x.Rhs) {
						return true
					}
					for i, l := range x.Lhs {
						if !isNum(l) {
							continue
						}
						a, b := axisOfExpr(info, l), axisOfExpr(info, x.Rhs[i])
						if a == axX || a == axY {
							if b == axX || b == axY {
								nexpr++
								if a != b {
									add(x, "a value of one axis is stored in a place of the other", exprStr(l)+" "+x.Tok.String()+" "+exprStr(x.Rhs[i]))
								}
							}
						}
					}
				case *ast.KeyValueExpr:
					if id, ok := x.Key.(*ast.Ident); ok && isNum(x.Value) {
						a, b := axisOfName(id.Name), axisOfExpr(info, x.Value)
						if (a == axX || a == axY) && (b == axX || b == axY) {
							nexpr++
							if a != b {
								add(x, "a value of one axis initialises a field of the other", id.Name+": "+exprStr(x.Value))
							}
						}
					}
				}
				return true
			})
		}
	}
	return mixes, nexpr
}

func init() {
	dumpers["axis"] = func(p *core.Prog) {
		var pkgs []*packages.Package
		for _, pk := range p.RepoPkgs() {
			rel := core.RelPkg(pk.PkgPath)
			if strings.HasPrefix(rel, "d2layouts") || rel == "d2graph" || rel == "lib/geo" || rel == "lib/shape" || rel == "d2target" || rel == "d2renderers/d2svg" || rel == "lib/label" {
				pkgs = append(pkgs, pk)
			}
		}
		mixes, n := axisMixes(p, pkgs, nil)
		for _, m := range mixes {
			fmt.Printf("%-40s %-60s %s\n", p.Pos(m.node.Pos()), strings.TrimPrefix(m.key, "axis:"), m.what)
		}
		fmt.Printf("== %d axis-typed expressions, %d mixes\n", n, len(mixes))
	}
}

// ---- running bounds (monotone accumulators) ----------------------------------------------------

type boundUpdate struct {
	fi    *core.FuncInfo
	node  *ast.AssignStmt
	lhs   string
	kind  string // min | max | plain
	other ast.Expr
}

func minMaxKind(info *types.Info, call *ast.CallExpr) string {
	switch exprStr(call.Fun) {
	case "go2.Min", "go2.IntMin", "math.Min", "min":
		return "min"
	case "go2.Max", "go2.IntMax", "math.Max", "max":
		return "max"
	}
	return ""
}

type boundIssue struct {
	fi   *core.FuncInfo
	node ast.Node
	key  string
	what string
}

// runningBoundIssues: for every place (variable or field path) that a function updates at least twice with
// v = min(v, …) or v = max(v, …): (a) all such updates use the same operation, (b) no plain assignment to it follows
// the first update inside a loop (it would forget what was accumulated), (c) the first operand is the place itself,
// (d) the other operand belongs to the same axis as the place when both have one.
func runningBoundIssues(p *core.Prog, pkgs []*packages.Package) (issues []boundIssue, nacc int, nupd int) {
	for _, pk := range pkgs {
		for _, fi := range p.Funcs(pk) {
			info := fi.Pkg.TypesInfo
			var ups []boundUpdate
			ast.Inspect(fi.Decl.Body, func(n ast.Node) bool {
				as, ok := n.(*ast.AssignStmt)
				if !ok || len(as.Lhs) != 1 || len(as.Rhs) != 1 || as.Tok != token.ASSIGN {
					return true
				}
				l := exprStr(as.Lhs[0])
				if call, ok := ast.Unparen(as.Rhs[0]).(*ast.CallExpr); ok && len(call.Args) == 2 {
					if k := minMaxKind(info, call); k != "" {
						a, b := exprStr(call.Args[0]), exprStr(call.Args[1])
						switch {
						case a == l:
							ups = append(ups, boundUpdate{fi, as, l, k, call.Args[1]})
							return true
						case b == l:
							ups = append(ups, boundUpdate{fi, as, l, k, call.Args[0]})
							return true
						}
					}
				}
				return true
			})
			byL := map[string][]boundUpdate{}
			for _, u := range ups {
				byL[u.lhs] = append(byL[u.lhs], u)
			}
			for _, l := range sortedKeys(byL) {
				us := byL[l]
				if len(us) < 2 {
					continue
				}
				nacc++
				nupd += len(us)
				nmin := 0
				for _, u := range us {
					if u.kind == "min" {
						nmin++
					}
				}
				dir := "max"
				if nmin*2 > len(us) {
					dir = "min"
				}
				// the initial value tells the direction: +Inf / MaxInt start a minimum, -Inf / MinInt a maximum
				initDir := ""
				if o := core.ObjOf(info, us[0].node.Lhs[0]); o != nil {
					for _, d := range defsOf(fi, o) {
						if d.Rhs == nil || d.Stmt.Pos() >= us[0].node.Pos() {
							continue
						}
						t := exprStr(d.Rhs)
						switch {
						case strings.Contains(t, "math.Inf(1)") || strings.Contains(t, "MaxInt") || (strings.Contains(t, "MaxFloat") && !strings.HasPrefix(t, "-")):
							initDir = "min"
						case strings.Contains(t, "math.Inf(-1)") || strings.Contains(t, "MinInt") || (strings.Contains(t, "MaxFloat") && strings.HasPrefix(t, "-")):
							initDir = "max"
						}
					}
				}
				if initDir != "" {
					dir = initDir
				}
				counts := map[string]int{}
				add := func(n ast.Node, text, what string) {
					k := "bound:" + fname(fi) + ":" + text
					counts[k]++
					if counts[k] > 1 {
						k = fmt.Sprintf("%s#%d", k, counts[k])
					}
					issues = append(issues, boundIssue{fi, n, k, what})
				}
				la := axisOfExpr(info, us[0].node.Lhs[0])
				for _, u := range us {
					if u.kind != dir && (initDir != "" || !hasOppositeArm(fi, u, us)) {
						add(u.node, exprStr(u.node.Lhs[0])+" = "+exprStr(u.node.Rhs[0]), fmt.Sprintf("%s is a running %s everywhere else in this function; this update takes the %s", l, dir, u.kind))
					}
					oa := axisOfExpr(info, u.other)
					if (la == axX || la == axY) && (oa == axX || oa == axY) && la != oa {
						add(u.node, exprStr(u.node.Lhs[0])+" = "+exprStr(u.node.Rhs[0]), fmt.Sprintf("%s accumulates the other axis: %s", l, exprStr(u.other)))
					}
				}
				// plain assignments after the first update, inside the same loop as an update
				first := us[0].node.Pos()
				ast.Inspect(fi.Decl.Body, func(n ast.Node) bool {
					as, ok := n.(*ast.AssignStmt)
					if !ok || len(as.Lhs) != 1 || as.Pos() <= first || exprStr(as.Lhs[0]) != l {
						return true
					}
					for _, u := range us {
						if u.node == as {
							return true
						}
					}
					// only inside a loop that also accumulates: after the loop a reset (e.g. of an untouched ±Inf) is legitimate
					inAccLoop := false
					ast.Inspect(fi.Decl.Body, func(m ast.Node) bool {
						switch m.(type) {
						case *ast.ForStmt, *ast.RangeStmt:
							if m.Pos() <= as.Pos() && as.End() <= m.End() {
								for _, u := range us {
									if m.Pos() <= u.node.Pos() && u.node.End() <= m.End() {
										inAccLoop = true
									}
								}
							}
						}
						return true
					})
					if as.Tok == token.ASSIGN && inAccLoop {
						add(as, l+" = "+exprStr(as.Rhs[0]), l+" is overwritten inside the loop that accumulates into it: what was accumulated so far is forgotten")
					}
					return true
				})
			}
		}
	}
	return
}

// hasOppositeArm: the update sits in one arm of an if/else whose other arm holds the opposite update of the same
// place (the direction is chosen by a condition, e.g. the sign of a delta).
func hasOppositeArm(fi *core.FuncInfo, u boundUpdate, us []boundUpdate) bool {
	found := false
	ast.Inspect(fi.Decl.Body, func(n ast.Node) bool {
		is, ok := n.(*ast.IfStmt)
		if !ok || is.Else == nil {
			return true
		}
		in := func(b ast.Node, x ast.Node) bool { return b.Pos() <= x.Pos() && x.End() <= b.End() }
		var mine, other ast.Node
		switch {
		case in(is.Body, u.node):
			mine, other = is.Body, is.Else
		case in(is.Else, u.node):
			mine, other = is.Else, is.Body
		default:
			return true
		}
		_ = mine
		for _, v := range us {
			if v.kind != u.kind && in(other, v.node) {
				found = true
			}
		}
		return true
	})
	return found
}

func init() {
	dumpers["bounds-acc"] = func(p *core.Prog) {
		var pkgs []*packages.Package
		for _, pk := range p.RepoPkgs() {
			rel := core.RelPkg(pk.PkgPath)
			if strings.HasPrefix(rel, "d2layouts") || rel == "d2graph" || rel == "lib/geo" || rel == "lib/shape" || rel == "d2target" || strings.HasPrefix(rel, "d2renderers/d2svg") || rel == "lib/label" {
				pkgs = append(pkgs, pk)
			}
		}
		issues, nacc, nupd := runningBoundIssues(p, pkgs)
		for _, m := range issues {
			fmt.Printf("%-40s %-70s %s\n", p.Pos(m.node.Pos()), strings.TrimPrefix(m.key, "bound:"), m.what)
		}
		fmt.Printf("== %d accumulators, %d updates, %d issues\n", nacc, nupd, len(issues))
	}
}

// direction flags: a bool parameter d with an `if d {A} else {B}` (or !d) whose arms write only X-axis places in
// one arm and only Y-axis places in the other is the function's direction switch. In such a function every
// displacement that is specific to one axis (p.X += v / p.Y += v without its mirror in the same block, or a call
// f(0, v) / f(v, 0)) must sit under a test of d: otherwise it is applied in both directions of the layout.
type dirIssue struct {
	Fi   *core.FuncInfo
	Pos  token.Pos
	Key  string
	Text string
}

func directionGuardIssues(p *core.Prog, pkgs []*packages.Package) (issues []dirIssue, nflags, nsites int) {
	for _, pk := range pkgs {
		for _, fi := range p.Funcs(pk) {
			if fi.Decl.Body == nil || fi.Decl.Type.Params == nil {
				continue
			}
			info := fi.Pkg.TypesInfo
			var flags []types.Object
			for _, f := range fi.Decl.Type.Params.List {
				for _, nm := range f.Names {
					o := info.Defs[nm]
					if o == nil {
						continue
					}
					if b, ok := o.Type().Underlying().(*types.Basic); !ok || b.Kind() != types.Bool {
						continue
					}
					if isDirectionFlag(info, fi.Decl.Body, o) {
						flags = append(flags, o)
					}
				}
			}
			if len(flags) == 0 {
				continue
			}
			nflags += len(flags)
			// the declaration's body and every function literal in it are separate flow graphs
			bodies := []*ast.BlockStmt{fi.Decl.Body}
			ast.Inspect(fi.Decl.Body, func(n ast.Node) bool {
				if l, ok := n.(*ast.FuncLit); ok {
					bodies = append(bodies, l.Body)
				}
				return true
			})
			counts := map[string]int{}
			for _, body := range bodies {
				fl := core.NewFlow(fi.Pkg, body)
				mentions := func(e ast.Expr) bool {
					found := false
					ast.Inspect(e, func(n ast.Node) bool {
						if id, ok := n.(*ast.Ident); ok {
							for _, o := range flags {
								if info.Uses[id] == o {
									found = true
								}
							}
						}
						return !found
					})
					return found
				}
				guarded := func(n ast.Node) bool {
					for _, g := range fl.GuardsOfNode(n) {
						if mentions(g.Cond) {
							return true
						}
					}
					return false
				}
				report := func(n ast.Node, what string) {
					key := fmt.Sprintf("direction:%s:%s", fname(fi), what)
					counts[key]++
					if counts[key] > 1 {
						key = fmt.Sprintf("%s#%d", key, counts[key])
					}
					issues = append(issues, dirIssue{fi, n.Pos(), key, what})
				}
				var visitBlock func(list []ast.Stmt)
				visitBlock = func(list []ast.Stmt) {
					// axis-specific writes of this block (not nested): collect per axis
					var xs, ys []*ast.AssignStmt
					for _, st := range list {
						as, ok := st.(*ast.AssignStmt)
						if !ok || len(as.Lhs) != 1 || as.Tok == token.DEFINE {
							continue
						}
						sel, ok := as.Lhs[0].(*ast.SelectorExpr)
						if !ok {
							continue
						}
						switch sel.Sel.Name {
						case "X":
							xs = append(xs, as)
						case "Y":
							ys = append(ys, as)
						}
					}
					if (len(xs) == 0) != (len(ys) == 0) {
						for _, as := range append(xs, ys...) {
							nsites++
							if !guarded(as) {
								report(as, exprStr(as.Lhs[0])+" "+as.Tok.String()+" "+exprStr(as.Rhs[0]))
							}
						}
					}
				}
				ast.Inspect(body, func(n ast.Node) bool {
					switch x := n.(type) {
					case *ast.FuncLit:
						return false
					case *ast.BlockStmt:
						visitBlock(x.List)
					case *ast.CaseClause:
						visitBlock(x.Body)
					case *ast.CallExpr:
						if len(x.Args) != 2 {
							return true
						}
						z0, z1 := isZeroConst(info, x.Args[0]), isZeroConst(info, x.Args[1])
						if z0 == z1 {
							return true
						}
						for _, a := range x.Args {
							if t := info.TypeOf(a); t == nil {
								return true
							} else if b, ok := t.Underlying().(*types.Basic); !ok || b.Info()&types.IsFloat == 0 {
								return true
							}
						}
						// only calls into the module whose two parameters are named for the two axes (dx, dy)
						callee := core.CalleeOf(info, x)
						if callee == nil || callee.Pkg() == nil || !strings.HasPrefix(callee.Pkg().Path(), "oss.terrastruct.com/d2") {
							return true
						}
						sig := callee.Type().(*types.Signature)
						if sig.Params().Len() != 2 || axisOfName(sig.Params().At(0).Name()) != axX || axisOfName(sig.Params().At(1).Name()) != axY {
							return true
						}
						nsites++
						if !guarded(x) {
							report(x, exprStr(x))
						}
					}
					return true
				})
			}
		}
	}
	return
}

func isZeroConst(info *types.Info, e ast.Expr) bool {
	tv, ok := info.Types[e]
	if !ok || tv.Value == nil {
		return false
	}
	return tv.Value.String() == "0"
}

func isDirectionFlag(info *types.Info, body *ast.BlockStmt, flag types.Object) bool {
	is := false
	ast.Inspect(body, func(n ast.Node) bool {
		ifs, ok := n.(*ast.IfStmt)
		if !ok || is {
			return !is
		}
		c := ast.Unparen(ifs.Cond)
		if u, ok := c.(*ast.UnaryExpr); ok && u.Op == token.NOT {
			c = ast.Unparen(u.X)
		}
		id, ok := c.(*ast.Ident)
		if !ok || info.Uses[id] != flag {
			return true
		}
		eb, ok := ifs.Else.(*ast.BlockStmt)
		if !ok {
			return true
		}
		a, b := armWriteAxes(ifs.Body), armWriteAxes(eb)
		if (a == axX && b == axY) || (a == axY && b == axX) {
			is = true
		}
		return true
	})
	return is
}

// armWriteAxes: union of the axes of places written or read through X/Y selectors in the arm
func armWriteAxes(b *ast.BlockStmt) axis {
	var ax axis
	ast.Inspect(b, func(n ast.Node) bool {
		if sel, ok := n.(*ast.SelectorExpr); ok {
			switch sel.Sel.Name {
			case "X", "Width", "Left", "Right":
				ax |= axX
			case "Y", "Height", "Top", "Bottom":
				ax |= axY
			}
		}
		return true
	})
	return ax
}

// mirrored arms: when the two arms of an if/else are the same token sequence up to identifiers (one arm was
// written by copying the other and renaming rows→columns, X→Y, Left→Top …), the renaming must be a consistent
// one-to-one substitution: an identifier of the first arm always becomes the same identifier in the second,
// and two different identifiers never become the same one. A half-applied renaming is the classic slip.
type mirrorIssue struct {
	Fi   *core.FuncInfo
	Pos  token.Pos
	Key  string
	Text string
}

func armTokens(fset *token.FileSet, b *ast.BlockStmt) (toks []string, isIdent []bool) {
	var buf bytes.Buffer
	if err := printer.Fprint(&buf, fset, b); err != nil {
		return nil, nil
	}
	src := canonCommutative(buf.Bytes())
	lo, hi := 0, len(src)
	var s scanner.Scanner
	fs := token.NewFileSet()
	f := fs.AddFile("", fs.Base(), hi-lo)
	s.Init(f, src[lo:hi], nil, 0)
	for {
		_, tok, lit := s.Scan()
		if tok == token.EOF {
			break
		}
		if tok == token.SEMICOLON && lit == "\n" {
			toks = append(toks, ";")
			isIdent = append(isIdent, false)
			continue
		}
		if tok == token.IDENT {
			toks = append(toks, lit)
			isIdent = append(isIdent, true)
			continue
		}
		if lit != "" {
			toks = append(toks, lit)
		} else {
			toks = append(toks, tok.String())
		}
		isIdent = append(isIdent, false)
	}
	return
}

func mirrorArmIssues(p *core.Prog, pkgs []*packages.Package) (issues []mirrorIssue, npairs int) {
	for _, pk := range pkgs {
		for _, fi := range p.Funcs(pk) {
			if fi.Decl.Body == nil {
				continue
			}
			fset := fi.Pkg.Fset
			counts := map[string]int{}
			ast.Inspect(fi.Decl.Body, func(n ast.Node) bool {
				ifs, ok := n.(*ast.IfStmt)
				if !ok {
					return true
				}
				eb, ok := ifs.Else.(*ast.BlockStmt)
				if !ok {
					return true
				}
				// the condition is a plain boolean switch (a flag or field, possibly negated), and both arms are
				// at most three simple statements: a longer arm legitimately mixes the renaming (it may name both axes)
				cond := ast.Unparen(ifs.Cond)
				if u, ok := cond.(*ast.UnaryExpr); ok && u.Op == token.NOT {
					cond = ast.Unparen(u.X)
				}
				switch cond.(type) {
				case *ast.Ident, *ast.SelectorExpr:
				default:
					return true
				}
				if !simpleArm(ifs.Body) || !simpleArm(eb) {
					return true
				}
				ta, ia := armTokens(fset, ifs.Body)
				tb, ib := armTokens(fset, eb)
				if len(ta) != len(tb) || len(ta) < 5 {
					return true
				}
				ndiff := 0
				for i := range ta {
					if ia[i] != ib[i] || (!ia[i] && ta[i] != tb[i]) {
						return true
					}
					if ta[i] != tb[i] {
						ndiff++
					}
				}
				if ndiff == 0 {
					return true
				}
				npairs++
				fwd, bwd := map[string]string{}, map[string]string{}
				bad := ""
				for i := range ta {
					if !ia[i] {
						continue
					}
					a, b := ta[i], tb[i]
					if prev, ok := fwd[a]; ok && prev != b && isAxisWord(a) {
						bad = fmt.Sprintf("%s becomes both %s and %s", a, prev, b)
						break
					}
					if prev, ok := bwd[b]; ok && prev != a && isAxisWord(b) {
						bad = fmt.Sprintf("both %s and %s become %s", prev, a, b)
						break
					}
					fwd[a], bwd[b] = b, a
				}
				if bad != "" {
					key := fmt.Sprintf("mirror:%s:if %s", fname(fi), exprStr(ifs.Cond))
					counts[key]++
					if counts[key] > 1 {
						key = fmt.Sprintf("%s#%d", key, counts[key])
					}
					issues = append(issues, mirrorIssue{fi, ifs.Pos(), key, bad})
				}
				return true
			})
		}
	}
	return
}

func isAxisWord(name string) bool {
	if axisOfName(name) != axNone {
		return true
	}
	l := strings.ToLower(name)
	switch l {
	case "rows", "columns", "row", "column", "cols", "col":
		return true
	}
	return strings.HasPrefix(l, "horizontal") || strings.HasPrefix(l, "vertical")
}

func simpleArm(b *ast.BlockStmt) bool {
	if len(b.List) == 0 || len(b.List) > 3 {
		return false
	}
	for _, st := range b.List {
		switch st.(type) {
		case *ast.AssignStmt, *ast.IncDecStmt, *ast.ExprStmt, *ast.ReturnStmt:
		default:
			return false
		}
	}
	return true
}

// ceiling division: (a + d - 1) / e is ceil(a/d) only when e is d
type ceilIssue struct {
	Fi   *core.FuncInfo
	Pos  token.Pos
	Key  string
	Text string
}

func ceilDivIssues(p *core.Prog, pkgs []*packages.Package) (issues []ceilIssue, n int) {
	for _, pk := range pkgs {
		for _, fi := range p.Funcs(pk) {
			if fi.Decl.Body == nil {
				continue
			}
			info := fi.Pkg.TypesInfo
			ast.Inspect(fi.Decl.Body, func(nd ast.Node) bool {
				q, ok := nd.(*ast.BinaryExpr)
				if !ok || q.Op != token.QUO {
					return true
				}
				if t := info.TypeOf(q); t == nil {
					return true
				} else if b, ok := t.Underlying().(*types.Basic); !ok || b.Info()&types.IsInteger == 0 {
					return true
				}
				// numerator: a + d - 1 (any association)
				sub, ok := ast.Unparen(q.X).(*ast.BinaryExpr)
				if !ok || sub.Op != token.SUB {
					return true
				}
				if v, ok := intConst(info, sub.Y); !ok || v != 1 {
					return true
				}
				add, ok := ast.Unparen(sub.X).(*ast.BinaryExpr)
				if !ok || add.Op != token.ADD {
					return true
				}
				n++
				d := exprStr(ast.Unparen(q.Y))
				if exprStr(ast.Unparen(add.X)) != d && exprStr(ast.Unparen(add.Y)) != d {
					issues = append(issues, ceilIssue{fi, q.Pos(), fmt.Sprintf("ceildiv:%s:%s", fname(fi), exprStr(q)), fmt.Sprintf("%s rounds up only when the divisor %s is the term added before subtracting 1", exprStr(q), d)})
				}
				return true
			})
		}
	}
	return
}

// paired arguments: a call f(…, ax, ay, …) whose two neighbouring parameters are named for the two axes
// (dx,dy / x,y / width,height) and whose two arguments have the same token shape: the second must be the first
// with axis words mirrored and every other identifier unchanged (margin.Left, margin.Top — not margin.Left, m.Top).
type pairIssue struct {
	Fi   *core.FuncInfo
	Pos  token.Pos
	Key  string
	Text string
}

func exprTokens(fset *token.FileSet, e ast.Expr) (toks []string, isIdent []bool) {
	var buf bytes.Buffer
	if err := printer.Fprint(&buf, fset, e); err != nil {
		return nil, nil
	}
	var s scanner.Scanner
	fs := token.NewFileSet()
	f := fs.AddFile("", fs.Base(), buf.Len())
	s.Init(f, buf.Bytes(), nil, 0)
	for {
		_, tok, lit := s.Scan()
		if tok == token.EOF {
			break
		}
		if tok == token.SEMICOLON && lit == "\n" {
			continue
		}
		if tok == token.IDENT {
			toks = append(toks, lit)
			isIdent = append(isIdent, true)
			continue
		}
		if lit != "" {
			toks = append(toks, lit)
		} else {
			toks = append(toks, tok.String())
		}
		isIdent = append(isIdent, false)
	}
	return
}

func pairedArgIssues(p *core.Prog, pkgs []*packages.Package, onlyDisplacement bool) (issues []pairIssue, npairs int) {
	for _, pk := range pkgs {
		for _, fi := range p.Funcs(pk) {
			if fi.Decl.Body == nil {
				continue
			}
			info := fi.Pkg.TypesInfo
			counts := map[string]int{}
			ast.Inspect(fi.Decl.Body, func(n ast.Node) bool {
				call, ok := n.(*ast.CallExpr)
				if !ok {
					return true
				}
				callee := core.CalleeOf(info, call)
				if callee == nil || callee.Pkg() == nil || !strings.HasPrefix(callee.Pkg().Path(), "oss.terrastruct.com/d2") {
					return true
				}
				sig := callee.Type().(*types.Signature)
				for i := 0; i+1 < sig.Params().Len() && i+1 < len(call.Args); i++ {
					a, b := sig.Params().At(i).Name(), sig.Params().At(i+1).Name()
					if axisOfName(a) != axX || axisOfName(b) != axY {
						continue
					}
					if onlyDisplacement && !(strings.HasPrefix(strings.ToLower(a), "d") && strings.HasPrefix(strings.ToLower(b), "d")) {
						continue
					}
					ta, ia := exprTokens(fi.Pkg.Fset, call.Args[i])
					tb, ib := exprTokens(fi.Pkg.Fset, call.Args[i+1])
					if len(ta) != len(tb) || len(ta) < 3 {
						continue
					}
					same := true
					for k := range ta {
						if ia[k] != ib[k] || (!ia[k] && ta[k] != tb[k]) {
							same = false
						}
					}
					if !same {
						continue
					}
					npairs++
					bad := ""
					for k := range ta {
						if !ia[k] || ta[k] == tb[k] {
							continue
						}
						if !(isAxisWord(ta[k]) && isAxisWord(tb[k])) {
							bad = fmt.Sprintf("%s in the horizontal component but %s in the vertical one", ta[k], tb[k])
							break
						}
					}
					if bad != "" {
						key := fmt.Sprintf("pair:%s:%s(%s, %s)", fname(fi), callee.Name(), exprStr(call.Args[i]), exprStr(call.Args[i+1]))
						counts[key]++
						if counts[key] > 1 {
							key = fmt.Sprintf("%s#%d", key, counts[key])
						}
						issues = append(issues, pairIssue{fi, call.Pos(), key, bad})
					}
				}
				return true
			})
		}
	}
	return
}

// axis twins: two functions of one package whose names differ only by an axis word (getTipWidth/getTipHeight,
// …X/…Y, …Horizontal/…Vertical) compute the same thing for the two axes: their bodies are the same token
// sequence with identifiers renamed one-to-one.
var twinWords = [][2]string{{"Width", "Height"}, {"X", "Y"}, {"Horizontal", "Vertical"}, {"Horizontally", "Vertically"}, {"Left", "Top"}, {"Right", "Bottom"}, {"Row", "Column"}, {"Rows", "Columns"}, {"Dx", "Dy"}, {"W", "H"}}

type twinPair struct {
	A, B   *core.FuncInfo
	Mirror bool
	Why    string
}

func twinName(name string) []string {
	var out []string
	for _, w := range twinWords {
		for i := 0; i+len(w[0]) <= len(name); i++ {
			if name[i:i+len(w[0])] != w[0] {
				continue
			}
			// word boundary: next rune is upper case, digit or end; previous is lower case or start
			j := i + len(w[0])
			if j < len(name) && name[j] >= 'a' && name[j] <= 'z' {
				continue
			}
			if i > 0 && name[i-1] >= 'A' && name[i-1] <= 'Z' && len(w[0]) == 1 {
				continue
			}
			out = append(out, name[:i]+w[1]+name[j:])
		}
	}
	return out
}

func axisTwins(p *core.Prog, pkgs []*packages.Package) (pairs []twinPair) {
	for _, pk := range pkgs {
		byName := map[string]*core.FuncInfo{}
		for _, fi := range p.Funcs(pk) {
			if fi.Decl.Body != nil {
				byName[fname(fi)] = fi
			}
		}
		for _, fi := range p.Funcs(pk) {
			if fi.Decl.Body == nil {
				continue
			}
			full := fname(fi)
			base := fi.Decl.Name.Name
			prefix := strings.TrimSuffix(full, base)
			for _, tn := range twinName(base) {
				other := byName[prefix+tn]
				if other == nil || other == fi {
					continue
				}
				ta, ia := armTokens(fi.Pkg.Fset, fi.Decl.Body)
				tb, ib := armTokens(fi.Pkg.Fset, other.Decl.Body)
				tp := twinPair{A: fi, B: other, Mirror: true}
				if len(ta) != len(tb) {
					tp.Mirror, tp.Why = false, fmt.Sprintf("%d tokens against %d", len(ta), len(tb))
				} else {
					fwd, bwd := map[string]string{}, map[string]string{}
					for k := range ta {
						if ia[k] != ib[k] || (!ia[k] && ta[k] != tb[k]) {
							tp.Mirror, tp.Why = false, fmt.Sprintf("%s against %s", ta[k], tb[k])
							break
						}
						if !ia[k] {
							continue
						}
						if prev, ok := fwd[ta[k]]; ok && prev != tb[k] {
							tp.Mirror, tp.Why = false, fmt.Sprintf("%s becomes both %s and %s", ta[k], prev, tb[k])
							break
						}
						if prev, ok := bwd[tb[k]]; ok && prev != ta[k] {
							tp.Mirror, tp.Why = false, fmt.Sprintf("both %s and %s become %s", prev, ta[k], tb[k])
							break
						}
						fwd[ta[k]], bwd[tb[k]] = tb[k], ta[k]
					}
				}
				pairs = append(pairs, tp)
			}
		}
	}
	return
}

// canonCommutative re-parses a printed block and puts the literal operand of every product or sum last
// (2*x ≡ x*2), so that the token comparison of mirrored code does not depend on operand order.
func canonCommutative(block []byte) []byte {
	fs := token.NewFileSet()
	f, err := parser.ParseFile(fs, "", "package p\nfunc _() "+string(block), 0)
	if err != nil {
		return block
	}
	ast.Inspect(f, func(n ast.Node) bool {
		if be, ok := n.(*ast.BinaryExpr); ok && (be.Op == token.MUL || be.Op == token.ADD) {
			if _, isLit := ast.Unparen(be.X).(*ast.BasicLit); isLit {
				if _, alsoLit := ast.Unparen(be.Y).(*ast.BasicLit); !alsoLit {
					be.X, be.Y = be.Y, be.X
				}
			}
		}
		return true
	})
	fd, ok := f.Decls[0].(*ast.FuncDecl)
	if !ok {
		return block
	}
	var out bytes.Buffer
	if err := printer.Fprint(&out, fs, fd.Body); err != nil {
		return block
	}
	return out.Bytes()
}

// twin assignments: two if statements of one function with the same condition text whose bodies are one assignment
// to the same place: the right-hand sides are the same token sequence up to a one-to-one renaming of identifiers.
type twinAssign struct {
	Fi   *core.FuncInfo
	Pos  token.Pos
	Key  string
	Text string
}

func twinAssignIssues(p *core.Prog, pkgs []*packages.Package) (issues []twinAssign, npairs int) {
	for _, pk := range pkgs {
		for _, fi := range p.Funcs(pk) {
			if fi.Decl.Body == nil {
				continue
			}
			type ent struct {
				ifs *ast.IfStmt
				as  *ast.AssignStmt
			}
			groups := map[string][]ent{}
			ast.Inspect(fi.Decl.Body, func(n ast.Node) bool {
				ifs, ok := n.(*ast.IfStmt)
				if !ok || ifs.Else != nil || ifs.Init != nil || len(ifs.Body.List) != 1 {
					return true
				}
				as, ok := ifs.Body.List[0].(*ast.AssignStmt)
				if !ok || len(as.Lhs) != 1 || len(as.Rhs) != 1 || as.Tok != token.ASSIGN {
					return true
				}
				k := exprStr(ifs.Cond) + " ⇒ " + exprStr(as.Lhs[0])
				groups[k] = append(groups[k], ent{ifs, as})
				return true
			})
			for k, g := range groups {
				if len(g) < 2 {
					continue
				}
				for i := 1; i < len(g); i++ {
					npairs++
					ta, ia := exprTokens(fi.Pkg.Fset, g[0].as.Rhs[0])
					tb, ib := exprTokens(fi.Pkg.Fset, g[i].as.Rhs[0])
					bad := ""
					if len(ta) != len(tb) {
						bad = "different shapes"
					} else {
						fwd, bwd := map[string]string{}, map[string]string{}
						for x := range ta {
							if ia[x] != ib[x] || (!ia[x] && ta[x] != tb[x]) {
								bad = fmt.Sprintf("%s against %s", ta[x], tb[x])
								break
							}
							if !ia[x] {
								continue
							}
							if pv, ok := fwd[ta[x]]; ok && pv != tb[x] {
								bad = fmt.Sprintf("%s becomes both %s and %s", ta[x], pv, tb[x])
								break
							}
							if pv, ok := bwd[tb[x]]; ok && pv != ta[x] {
								bad = fmt.Sprintf("both %s and %s become %s", pv, ta[x], tb[x])
								break
							}
							fwd[ta[x]], bwd[tb[x]] = tb[x], ta[x]
						}
					}
					if bad != "" {
						issues = append(issues, twinAssign{fi, g[i].ifs.Pos(), fmt.Sprintf("twin-assign:%s:if %s", fname(fi), k), fmt.Sprintf("%s vs %s (%s)", exprStr(g[0].as.Rhs[0]), exprStr(g[i].as.Rhs[0]), bad)})
					}
				}
			}
		}
	}
	return
}

// permuted arms: the two arms of an if/else on a boolean switch contain the same statements (up to identifiers) but
// not in the same order — one arm was written by copying the other and two of its steps were swapped.
type permIssue struct {
	Fi   *core.FuncInfo
	Pos  token.Pos
	Key  string
	Text string
}

func stmtShapes(fset *token.FileSet, b *ast.BlockStmt) []string {
	var out []string
	var walk func(list []ast.Stmt, depth int)
	shape := func(n ast.Node) string {
		var buf bytes.Buffer
		if err := printer.Fprint(&buf, fset, n); err != nil {
			return "?"
		}
		var s scanner.Scanner
		fs := token.NewFileSet()
		f := fs.AddFile("", fs.Base(), buf.Len())
		s.Init(f, buf.Bytes(), nil, 0)
		var sb strings.Builder
		for {
			_, tok, lit := s.Scan()
			if tok == token.EOF {
				break
			}
			switch {
			case tok == token.IDENT:
				sb.WriteString("ID ")
			case tok == token.SEMICOLON:
			case lit != "":
				sb.WriteString(lit + " ")
			default:
				sb.WriteString(tok.String() + " ")
			}
		}
		return sb.String()
	}
	walk = func(list []ast.Stmt, depth int) {
		for _, st := range list {
			switch x := st.(type) {
			case *ast.BlockStmt:
				walk(x.List, depth+1)
			case *ast.IfStmt:
				out = append(out, fmt.Sprintf("%d if %s", depth, shape(x.Cond)))
				walk(x.Body.List, depth+1)
				if eb, ok := x.Else.(*ast.BlockStmt); ok {
					out = append(out, fmt.Sprintf("%d else", depth))
					walk(eb.List, depth+1)
				} else if x.Else != nil {
					out = append(out, fmt.Sprintf("%d elseif", depth))
					walk([]ast.Stmt{x.Else}, depth+1)
				}
			case *ast.ForStmt:
				out = append(out, fmt.Sprintf("%d for", depth))
				walk(x.Body.List, depth+1)
			case *ast.RangeStmt:
				out = append(out, fmt.Sprintf("%d range %s", depth, shape(x.X)))
				walk(x.Body.List, depth+1)
			default:
				out = append(out, fmt.Sprintf("%d %s", depth, shape(st)))
			}
		}
	}
	walk(b.List, 0)
	return out
}

func permutedArmIssues(p *core.Prog, pkgs []*packages.Package) (issues []permIssue, ncmp int) {
	for _, pk := range pkgs {
		for _, fi := range p.Funcs(pk) {
			if fi.Decl.Body == nil {
				continue
			}
			counts := map[string]int{}
			ast.Inspect(fi.Decl.Body, func(n ast.Node) bool {
				ifs, ok := n.(*ast.IfStmt)
				if !ok {
					return true
				}
				eb, ok := ifs.Else.(*ast.BlockStmt)
				if !ok {
					return true
				}
				cond := ast.Unparen(ifs.Cond)
				if u, ok := cond.(*ast.UnaryExpr); ok && u.Op == token.NOT {
					cond = ast.Unparen(u.X)
				}
				switch cond.(type) {
				case *ast.Ident, *ast.SelectorExpr:
				default:
					return true
				}
				a, b := stmtShapes(fi.Pkg.Fset, ifs.Body), stmtShapes(fi.Pkg.Fset, eb)
				if len(a) != len(b) || len(a) < 3 {
					return true
				}
				same := true
				for i := range a {
					if a[i] != b[i] {
						same = false
					}
				}
				sa, sb := append([]string{}, a...), append([]string{}, b...)
				sort.Strings(sa)
				sort.Strings(sb)
				multiset := true
				for i := range sa {
					if sa[i] != sb[i] {
						multiset = false
					}
				}
				if !multiset {
					return true
				}
				ncmp++
				if same {
					return true
				}
				// a different order matters only when the swapped steps depend on each other: one arm sets a place and
				// then reads it, the other reads it first
				if !orderDependenceDiffers(fi.Pkg.Fset, ifs.Body, eb) {
					return true
				}
				first := ""
				for i := range a {
					if a[i] != b[i] {
						first = fmt.Sprintf("step %d", i+1)
						break
					}
				}
				key := fmt.Sprintf("permuted:%s:if %s", fname(fi), exprStr(ifs.Cond))
				counts[key]++
				if counts[key] > 1 {
					key = fmt.Sprintf("%s#%d", key, counts[key])
				}
				issues = append(issues, permIssue{fi, ifs.Pos(), key, first})
				return true
			})
		}
	}
	return
}

// orderDependenceDiffers: some block of arm A has a plain assignment to a place E followed by a statement that reads
// E, while the statements of the same two shapes occur in arm B in the opposite order (read first, then the write) —
// or the other way round.
func orderDependenceDiffers(fset *token.FileSet, a, b *ast.BlockStmt) bool {
	type pair struct{ w, r string }
	collect := func(arm *ast.BlockStmt) (writeThenRead, readThenWrite map[pair]bool) {
		writeThenRead, readThenWrite = map[pair]bool{}, map[pair]bool{}
		shape := func(n ast.Node) string {
			ss := stmtShapes(fset, &ast.BlockStmt{List: []ast.Stmt{n.(ast.Stmt)}})
			if len(ss) == 0 {
				return ""
			}
			return ss[0]
		}
		ast.Inspect(arm, func(n ast.Node) bool {
			blk, ok := n.(*ast.BlockStmt)
			if !ok {
				return true
			}
			type st struct {
				shape  string
				writes string
				reads  map[string]bool
			}
			var sts []st
			for _, x := range blk.List {
				e := st{shape: shape(x), reads: map[string]bool{}}
				rhsOnly := ast.Node(x)
				if as, ok := x.(*ast.AssignStmt); ok && len(as.Lhs) == 1 {
					if as.Tok == token.ASSIGN {
						if _, isSel := ast.Unparen(as.Lhs[0]).(*ast.SelectorExpr); isSel {
							e.writes = exprStr(as.Lhs[0])
						}
						rhsOnly = as.Rhs[0]
					}
				}
				ast.Inspect(rhsOnly, func(m ast.Node) bool {
					if sel, ok := m.(*ast.SelectorExpr); ok {
						e.reads[exprStr(sel)] = true
					}
					return true
				})
				sts = append(sts, e)
			}
			for i := range sts {
				for j := i + 1; j < len(sts); j++ {
					if sts[i].writes != "" && sts[j].reads[sts[i].writes] {
						writeThenRead[pair{sts[i].shape, sts[j].shape}] = true
					}
					if sts[j].writes != "" && sts[i].reads[sts[j].writes] {
						readThenWrite[pair{sts[j].shape, sts[i].shape}] = true
					}
				}
			}
			return true
		})
		return
	}
	awr, arw := collect(a)
	bwr, brw := collect(b)
	for p := range awr {
		if brw[p] {
			return true
		}
	}
	for p := range bwr {
		if arw[p] {
			return true
		}
	}
	return false
}
