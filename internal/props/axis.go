package props

import (
	"fmt"
	"go/ast"
	"go/token"
	"go/types"
	"regexp"
	"strings"

	"golang.org/x/tools/go/packages"

	"d2verif/internal/core"
)

// E15 — axis consistency. Geometry code names what it computes: X, Width, Left, Right, dx … belong to the
// horizontal axis; Y, Height, Top, Bottom, dy … to the vertical one. A sum, difference or comparison whose
// operands come from different axes, or an assignment of a Y-expression to an X-place, is almost always a
// copy-paste slip (and breaks enclosure, alignment or gap arithmetic for non-square cases only).
// Products and quotients are exempt (areas, ratios, slopes).

type axis int

const (
	axNone axis = 0
	axX    axis = 1
	axY    axis = 2
	axBoth axis = 3
)

var (
	xWords = regexp.MustCompile(`(?i)^(x|x[0-9]|[a-z]*x|dx|w|width|[a-z]*width|left|[a-z]*left|right|[a-z]*right|horizontal[a-z]*|[a-z]*horizontal|col|cols|column|columns|[a-z]*cols?|hgap|[a-z]*xs?)$`)
	yWords = regexp.MustCompile(`(?i)^(y|y[0-9]|[a-z]*y|dy|h|height|[a-z]*height|top|[a-z]*top|bottom|[a-z]*bottom|vertical[a-z]*|[a-z]*vertical|row|rows|[a-z]*rows?|vgap|[a-z]*ys?)$`)
	// words that look like an axis word but are not geometric
	neutralWords = map[string]bool{"max": true, "idx": true, "index": true, "box": true, "prefix": true, "suffix": true, "matrix": true, "hex": true, "regex": true, "ctx": true, "key": true, "by": true, "ready": true, "entry": true, "empty": true, "any": true, "body": true, "copy": true, "apply": true, "display": true, "array": true, "query": true, "category": true, "directory": true, "history": true, "opacity": true, "density": true, "only": true, "many": true, "every": true, "retry": true, "binary": true, "primary": true, "secondary": true, "boundary": true, "summary": true, "delay": true, "overlay": true, "galaxy": true, "proxy": true, "family": true, "style": false, "text": true, "next": true, "context": true, "vertex": true, "start": true, "count": true, "result": true, "default": true, "shift": true, "offset": true, "height": false, "weight": true, "light": true, "highlight": true, "straight": true, "copyright": true, "insight": true}
)

func axisOfName(name string) axis {
	l := strings.ToLower(name)
	if neutralWords[l] {
		return axNone
	}
	// CamelCase tail: labelWidth → Width; TopLeft is a point (both)
	if l == "topleft" || l == "bottomright" || l == "topright" || l == "bottomleft" || l == "center" {
		return axNone
	}
	// thickness of a line applies to both axes
	if strings.HasSuffix(l, "strokewidth") || strings.HasSuffix(l, "borderwidth") || strings.HasSuffix(l, "linewidth") || strings.HasSuffix(l, "stroke_width") {
		return axNone
	}
	// ALL_CAPS constants: the last word decides
	if strings.ToUpper(name) == name && strings.Contains(name, "_") {
		parts := strings.Split(l, "_")
		switch parts[len(parts)-1] {
		case "width", "x", "left", "right", "horizontal":
			return axX
		case "height", "y", "top", "bottom", "vertical":
			return axY
		}
		return axNone
	}
	// split trailing capitalised word
	tail := name
	for i := len(name) - 1; i > 0; i-- {
		if name[i] >= 'A' && name[i] <= 'Z' {
			tail = name[i:]
			break
		}
	}
	for _, cand := range []string{name, tail} {
		lc := strings.ToLower(cand)
		if neutralWords[lc] {
			continue
		}
		switch lc {
		case "x", "dx", "w", "width", "left", "right", "horizontal", "hgap", "xs", "minx", "maxx", "x1", "x2", "x0":
			return axX
		case "y", "dy", "h", "height", "top", "bottom", "vertical", "vgap", "ys", "miny", "maxy", "y1", "y2", "y0":
			return axY
		}
	}
	// suffix forms: startX, endY, labelWidth, boxHeight, padLeft …
	for _, suf := range []struct {
		s string
		a axis
	}{{"width", axX}, {"height", axY}, {"left", axX}, {"right", axX}, {"top", axY}, {"bottom", axY}} {
		if strings.HasSuffix(l, suf.s) && len(l) > len(suf.s) {
			return suf.a
		}
	}
	if len(name) >= 2 {
		last, prev := name[len(name)-1], name[len(name)-2]
		if (last == 'X' || last == 'Y') && (prev >= 'a' && prev <= 'z' || prev >= '0' && prev <= '9') {
			if last == 'X' {
				return axX
			}
			return axY
		}
	}
	return axNone
}

// axisOfExpr: the set of axes an arithmetic expression draws from. Calls are opaque except min/max/abs/float
// conversions and math.Max/Min/Abs/Ceil/Floor/Round, which keep their operands' axes.
func axisOfExpr(info *types.Info, e ast.Expr) axis {
	e = ast.Unparen(e)
	switch x := e.(type) {
	case *ast.Ident:
		return axisOfName(x.Name)
	case *ast.SelectorExpr:
		// p.X, box.Width, obj.TopLeft.Y …: the last selector decides; a method value decides nothing
		if _, isFunc := info.Uses[x.Sel].(*types.Func); isFunc {
			return axNone
		}
		return axisOfName(x.Sel.Name)
	case *ast.BasicLit:
		return axNone
	case *ast.UnaryExpr:
		return axisOfExpr(info, x.X)
	case *ast.StarExpr:
		return axisOfExpr(info, x.X)
	case *ast.BinaryExpr:
		switch x.Op {
		case token.ADD, token.SUB:
			return axisOfExpr(info, x.X) | axisOfExpr(info, x.Y)
		case token.MUL, token.QUO:
			// scaling keeps the axis of the geometric operand when the other is neutral; two geometric operands: neutral (area/ratio)
			a, b := axisOfExpr(info, x.X), axisOfExpr(info, x.Y)
			if a == axNone {
				return b
			}
			if b == axNone {
				return a
			}
			return axNone
		}
		return axNone
	case *ast.CallExpr:
		if tv, ok := info.Types[x.Fun]; ok && tv.IsType() && len(x.Args) == 1 {
			return axisOfExpr(info, x.Args[0])
		}
		name := exprStr(x.Fun)
		switch name {
		case "math.Max", "math.Min", "math.Abs", "math.Ceil", "math.Floor", "math.Round", "max", "min", "go2.Max", "go2.Min", "go2.IntMax", "go2.IntMin", "int", "float64":
			var a axis
			for _, arg := range x.Args {
				a |= axisOfExpr(info, arg)
			}
			return a
		}
		// a getter named by axis: box.GetWidth()
		if sel, ok := x.Fun.(*ast.SelectorExpr); ok && len(x.Args) == 0 {
			return axisOfName(strings.TrimPrefix(sel.Sel.Name, "Get"))
		}
		return axNone
	case *ast.IndexExpr:
		return axisOfExpr(info, x.X)
	}
	return axNone
}

type axisMix struct {
	fi   *core.FuncInfo
	node ast.Node
	key  string
	what string
}

// axisMixes lists sums/differences/comparisons mixing axes and cross-axis assignments in the packages.
func axisMixes(p *core.Prog, pkgs []*packages.Package, onlyFuncs func(fi *core.FuncInfo) bool) (mixes []axisMix, nexpr int) {
	for _, pk := range pkgs {
		for _, fi := range p.Funcs(pk) {
			if onlyFuncs != nil && !onlyFuncs(fi) {
				continue
			}
			info := fi.Pkg.TypesInfo
			counts := map[string]int{}
			add := func(n ast.Node, what, text string) {
				k := "axis:" + fname(fi) + ":" + text
				counts[k]++
				if counts[k] > 1 {
					k = fmt.Sprintf("%s#%d", k, counts[k])
				}
				mixes = append(mixes, axisMix{fi, n, k, what})
			}
			isNum := func(e ast.Expr) bool {
				tv, ok := info.Types[e]
				if !ok {
					return false
				}
				b, ok := tv.Type.Underlying().(*types.Basic)
				return ok && b.Info()&types.IsNumeric != 0
			}
			ast.Inspect(fi.Decl.Body, func(n ast.Node) bool {
				switch x := n.(type) {
				case *ast.BinaryExpr:
					switch x.Op {
					case token.ADD, token.SUB, token.LSS, token.GTR, token.LEQ, token.GEQ, token.EQL, token.NEQ:
						if !isNum(x.X) || !isNum(x.Y) {
							return true
						}
						a, b := axisOfExpr(info, x.X), axisOfExpr(info, x.Y)
						if a != axNone && b != axNone && a != axBoth && b != axBoth {
							nexpr++
							if a != b {
								add(x, "operands of "+x.Op.String()+" come from different axes", exprStr(x))
							}
						}
					}
				case *ast.AssignStmt:
					if len(x.Lhs) != len(x.Rhs) {
						return true
					}
					for i, l := range x.Lhs {
						if !isNum(l) {
							continue
						}
						a, b := axisOfExpr(info, l), axisOfExpr(info, x.Rhs[i])
						if a == axX || a == axY {
							if b == axX || b == axY {
								nexpr++
								if a != b {
									add(x, "a value of one axis is stored in a place of the other", exprStr(l)+" "+x.Tok.String()+" "+exprStr(x.Rhs[i]))
								}
							}
						}
					}
				case *ast.KeyValueExpr:
					if id, ok := x.Key.(*ast.Ident); ok && isNum(x.Value) {
						a, b := axisOfName(id.Name), axisOfExpr(info, x.Value)
						if (a == axX || a == axY) && (b == axX || b == axY) {
							nexpr++
							if a != b {
								add(x, "a value of one axis initialises a field of the other", id.Name+": "+exprStr(x.Value))
							}
						}
					}
				}
				return true
			})
		}
	}
	return mixes, nexpr
}

func init() {
	dumpers["axis"] = func(p *core.Prog) {
		var pkgs []*packages.Package
		for _, pk := range p.RepoPkgs() {
			rel := core.RelPkg(pk.PkgPath)
			if strings.HasPrefix(rel, "d2layouts") || rel == "d2graph" || rel == "lib/geo" || rel == "lib/shape" || rel == "d2target" || rel == "d2renderers/d2svg" || rel == "lib/label" {
				pkgs = append(pkgs, pk)
			}
		}
		mixes, n := axisMixes(p, pkgs, nil)
		for _, m := range mixes {
			fmt.Printf("%-40s %-60s %s\n", p.Pos(m.node.Pos()), strings.TrimPrefix(m.key, "axis:"), m.what)
		}
		fmt.Printf("== %d axis-typed expressions, %d mixes\n", n, len(mixes))
	}
}

// ---- running bounds (monotone accumulators) ----------------------------------------------------

type boundUpdate struct {
	fi    *core.FuncInfo
	node  *ast.AssignStmt
	lhs   string
	kind  string // min | max | plain
	other ast.Expr
}

func minMaxKind(info *types.Info, call *ast.CallExpr) string {
	switch exprStr(call.Fun) {
	case "go2.Min", "go2.IntMin", "math.Min", "min":
		return "min"
	case "go2.Max", "go2.IntMax", "math.Max", "max":
		return "max"
	}
	return ""
}

type boundIssue struct {
	fi   *core.FuncInfo
	node ast.Node
	key  string
	what string
}

// runningBoundIssues: for every place (variable or field path) that a function updates at least twice with
// v = min(v, …) or v = max(v, …): (a) all such updates use the same operation, (b) no plain assignment to it follows
// the first update inside a loop (it would forget what was accumulated), (c) the first operand is the place itself,
// (d) the other operand belongs to the same axis as the place when both have one.
func runningBoundIssues(p *core.Prog, pkgs []*packages.Package) (issues []boundIssue, nacc int, nupd int) {
	for _, pk := range pkgs {
		for _, fi := range p.Funcs(pk) {
			info := fi.Pkg.TypesInfo
			var ups []boundUpdate
			ast.Inspect(fi.Decl.Body, func(n ast.Node) bool {
				as, ok := n.(*ast.AssignStmt)
				if !ok || len(as.Lhs) != 1 || len(as.Rhs) != 1 || as.Tok != token.ASSIGN {
					return true
				}
				l := exprStr(as.Lhs[0])
				if call, ok := ast.Unparen(as.Rhs[0]).(*ast.CallExpr); ok && len(call.Args) == 2 {
					if k := minMaxKind(info, call); k != "" {
						a, b := exprStr(call.Args[0]), exprStr(call.Args[1])
						switch {
						case a == l:
							ups = append(ups, boundUpdate{fi, as, l, k, call.Args[1]})
							return true
						case b == l:
							ups = append(ups, boundUpdate{fi, as, l, k, call.Args[0]})
							return true
						}
					}
				}
				return true
			})
			byL := map[string][]boundUpdate{}
			for _, u := range ups {
				byL[u.lhs] = append(byL[u.lhs], u)
			}
			for _, l := range sortedKeys(byL) {
				us := byL[l]
				if len(us) < 2 {
					continue
				}
				nacc++
				nupd += len(us)
				nmin := 0
				for _, u := range us {
					if u.kind == "min" {
						nmin++
					}
				}
				dir := "max"
				if nmin*2 > len(us) {
					dir = "min"
				}
				// the initial value tells the direction: +Inf / MaxInt start a minimum, -Inf / MinInt a maximum
				initDir := ""
				if o := core.ObjOf(info, us[0].node.Lhs[0]); o != nil {
					for _, d := range defsOf(fi, o) {
						if d.Rhs == nil || d.Stmt.Pos() >= us[0].node.Pos() {
							continue
						}
						t := exprStr(d.Rhs)
						switch {
						case strings.Contains(t, "math.Inf(1)") || strings.Contains(t, "MaxInt") || (strings.Contains(t, "MaxFloat") && !strings.HasPrefix(t, "-")):
							initDir = "min"
						case strings.Contains(t, "math.Inf(-1)") || strings.Contains(t, "MinInt") || (strings.Contains(t, "MaxFloat") && strings.HasPrefix(t, "-")):
							initDir = "max"
						}
					}
				}
				if initDir != "" {
					dir = initDir
				}
				counts := map[string]int{}
				add := func(n ast.Node, text, what string) {
					k := "bound:" + fname(fi) + ":" + text
					counts[k]++
					if counts[k] > 1 {
						k = fmt.Sprintf("%s#%d", k, counts[k])
					}
					issues = append(issues, boundIssue{fi, n, k, what})
				}
				la := axisOfExpr(info, us[0].node.Lhs[0])
				for _, u := range us {
					if u.kind != dir && (initDir != "" || !hasOppositeArm(fi, u, us)) {
						add(u.node, exprStr(u.node.Lhs[0])+" = "+exprStr(u.node.Rhs[0]), fmt.Sprintf("%s is a running %s everywhere else in this function; this update takes the %s", l, dir, u.kind))
					}
					oa := axisOfExpr(info, u.other)
					if (la == axX || la == axY) && (oa == axX || oa == axY) && la != oa {
						add(u.node, exprStr(u.node.Lhs[0])+" = "+exprStr(u.node.Rhs[0]), fmt.Sprintf("%s accumulates the other axis: %s", l, exprStr(u.other)))
					}
				}
				// plain assignments after the first update, inside the same loop as an update
				first := us[0].node.Pos()
				ast.Inspect(fi.Decl.Body, func(n ast.Node) bool {
					as, ok := n.(*ast.AssignStmt)
					if !ok || len(as.Lhs) != 1 || as.Pos() <= first || exprStr(as.Lhs[0]) != l {
						return true
					}
					for _, u := range us {
						if u.node == as {
							return true
						}
					}
					// only inside a loop that also accumulates: after the loop a reset (e.g. of an untouched ±Inf) is legitimate
					inAccLoop := false
					ast.Inspect(fi.Decl.Body, func(m ast.Node) bool {
						switch m.(type) {
						case *ast.ForStmt, *ast.RangeStmt:
							if m.Pos() <= as.Pos() && as.End() <= m.End() {
								for _, u := range us {
									if m.Pos() <= u.node.Pos() && u.node.End() <= m.End() {
										inAccLoop = true
									}
								}
							}
						}
						return true
					})
					if as.Tok == token.ASSIGN && inAccLoop {
						add(as, l+" = "+exprStr(as.Rhs[0]), l+" is overwritten inside the loop that accumulates into it: what was accumulated so far is forgotten")
					}
					return true
				})
			}
		}
	}
	return
}

// hasOppositeArm: the update sits in one arm of an if/else whose other arm holds the opposite update of the same
// place (the direction is chosen by a condition, e.g. the sign of a delta).
func hasOppositeArm(fi *core.FuncInfo, u boundUpdate, us []boundUpdate) bool {
	found := false
	ast.Inspect(fi.Decl.Body, func(n ast.Node) bool {
		is, ok := n.(*ast.IfStmt)
		if !ok || is.Else == nil {
			return true
		}
		in := func(b ast.Node, x ast.Node) bool { return b.Pos() <= x.Pos() && x.End() <= b.End() }
		var mine, other ast.Node
		switch {
		case in(is.Body, u.node):
			mine, other = is.Body, is.Else
		case in(is.Else, u.node):
			mine, other = is.Else, is.Body
		default:
			return true
		}
		_ = mine
		for _, v := range us {
			if v.kind != u.kind && in(other, v.node) {
				found = true
			}
		}
		return true
	})
	return found
}

func init() {
	dumpers["bounds-acc"] = func(p *core.Prog) {
		var pkgs []*packages.Package
		for _, pk := range p.RepoPkgs() {
			rel := core.RelPkg(pk.PkgPath)
			if strings.HasPrefix(rel, "d2layouts") || rel == "d2graph" || rel == "lib/geo" || rel == "lib/shape" || rel == "d2target" || strings.HasPrefix(rel, "d2renderers/d2svg") || rel == "lib/label" {
				pkgs = append(pkgs, pk)
			}
		}
		issues, nacc, nupd := runningBoundIssues(p, pkgs)
		for _, m := range issues {
			fmt.Printf("%-40s %-70s %s\n", p.Pos(m.node.Pos()), strings.TrimPrefix(m.key, "bound:"), m.what)
		}
		fmt.Printf("== %d accumulators, %d updates, %d issues\n", nacc, nupd, len(issues))
	}
}
