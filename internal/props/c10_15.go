package props

import (
	"fmt"
	"go/ast"
	"go/token"
	"go/types"
	"strings"

	"golang.org/x/tools/go/ssa"

	"golang.org/x/tools/go/packages"

	"d2verif/internal/core"
)

func init() {
	register(&Prop{
		ID:       "C10",
		Title:    "Later declarations override earlier ones; null removes",
		Patterns: []string{"./d2ir", "./d2ast"},
		Explanation: "Decides sibling agreement and shape clauses of d2ir's field bookkeeping (plus: every function of d2ir, d2graph and d2ast that compares two slices element by element and answers false on a difference also compares their lengths): (1) the three functions that find a field by name in Map.Fields (getField, the search loop of ensureField, DeleteField) apply the same name predicate — case-insensitive comparison (strings.EqualFold) *and* separation of quoted names from unquoted reserved keywords; a function that lacks a feature its siblings have is reported; " +
			"(2) on the null branch of _compileField the field is deleted and nothing else is done with it (the branch ends in return right after the delete), and on both null branches of _compileEdges DeleteEdge is followed by continue.",
		NotCovered: "the override semantics itself (last assignment wins) — needs a reference interpreter; which of several same-named fields a delete-by-name removes",
		Technique:  "static analysis: predicate-feature extraction and sibling comparison; statement-shape checks on the typed AST",
		Run:        runC10,
	})
	register(&Prop{
		ID:       "C12",
		Title:    "Globs apply to exactly the matching objects and connections, even later ones",
		Patterns: []string{"./d2ir", "./d2ast"},
		Explanation: "Decides: (1) in matchPattern every search/prefix test compares operands that went through the same case normalisation (both lower-cased, value-level on SSA), and offsets are applied to the string searched (C07's index-provenance rule, run here too); (2) every `return true` of matchPattern is reached only after the reserved-keyword test failed (or for the empty pattern); " +
			"(3) both recursive glob walkers (_doubleGlob, _tripleGlob) append a field only on the path where the reserved-keyword-and-unquoted test failed, and test Name against nil first; (4) in the glob cross-product loop that creates edges, createEdge2 is reached only on the false branch of the self-edge test (src == dst under a glob). Also: consecutive blocks of d2ir that treat the two ends of a connection glob (conditions that are each other's image under Src↔Dst) have bodies that are each other's image under the same renaming.",
		NotCovered: "lazy re-application of globs to later declarations and precedence between globs and explicit keys (semantic), filters",
		Technique:  "static analysis: SSA normalisation symmetry, guard-dominance on go/cfg, sibling agreement",
		Run:        runC12,
	})
	register(&Prop{
		ID:       "C13",
		Title:    "Variable substitution equals textual replacement from the innermost scope",
		Patterns: []string{"./d2ir", "./d2parser", "./d2ast"},
		Explanation: "Decides: (1) who-may-call — the parser's parseSubstitution is called only from functions that do not build single-quoted or block strings, and where the caller has an inKey flag the call is on the !inKey branch (single-quoted text and keys are never substituted); " +
			"(2) in resolveSubstitutions the field found for a variable is dereferenced only after a nil test whose failing branch reports an error and returns (undefined variables are errors, in both the unquoted and the double-quoted branch); " +
			"(3) scope order — the vars stack is built by prepending the inner vars map and every lookup loop walks it from the front and stops at the first hit. Also: a spread that replaces one element of a list by several (`append(append(S[:i], ins…), S[i+1:]...)`) inserts no more than the gap or copies the prefix first, so it cannot overwrite the elements it still has to copy.",
		NotCovered: "equality with textual replacement (coalescing, quoting of the substituted text)",
		Technique:  "static analysis: who-may-call on the typed call graph, guard-dominance, push/lookup direction agreement",
		Run:        runC13,
	})
	register(&Prop{
		ID:       "C15",
		Title:    "Boards inherit from their base and never leak changes back",
		Patterns: []string{"./d2ir", "./d2ast"},
		Explanation: "Decides copy-before-mutate and restore-after-remove shapes in d2ir: (1) in overlay and overlayClasses every map handed to OverlayMap or DeleteField as the destination derives from a Copy/CopyBase made in that function (its nearest definition is a copy), never from the parameter/base itself; " +
			"(2) CopyBase puts back every board field it temporarily removes from the base (each DeleteField result is re-appended under a nil test before the function returns) and copies after removing them, so boards are not copied into their children; " +
			"(3) a forked glob context owns its applied-sets: copyApplied assigns a fresh map to every map-typed field of globContext on every path (the struct copy made by copy() shares them otherwise); " +
			"(4) a mutating walk towards the root stops at the board boundary: in DeleteField(Key) the step to the parent map is reached only when the current map is not a board root (otherwise `obj: null` in a scenario deletes connections of its base).; every glob context forked for a scenario or a step in compileMap calls copyApplied (a step that shared the applied sets of its base marked the base's objects as done). Also: loops of one d2ir function that climb the map tree with the same step stop under the same conditions (the board boundary).",
		NotCovered: "what a board shows (inheritance semantics per board kind), glob-context copying per board kind",
		Technique:  "static analysis: value provenance of destination arguments, paired remove/re-append on the typed AST",
		Run:        runC15,
	})
}

// ---------------------------------------------------------------------------------------------- C10

type lookupFeatures struct {
	fold, exact, sep bool
	pos              token.Pos
}

// fieldLookupFeatures inspects the loop over Map.Fields of a lookup function.
func fieldLookupFeatures(c *core.Check, fi *core.FuncInfo) lookupFeatures {
	info := fi.Pkg.TypesInfo
	var lf lookupFeatures
	fieldsField := structField(c.P, "d2ir", "Map", "Fields")
	ast.Inspect(fi.Decl.Body, func(n ast.Node) bool {
		rs, ok := n.(*ast.RangeStmt)
		if !ok || core.FieldOf(info, rs.X) != fieldsField || rs.Value == nil {
			return true
		}
		// loops over Fields nested in this one (cleanup of keyword holders) use their own loop variable and are not lookups by name
		v := core.ObjOf(info, rs.Value)
		before := lf
		defer func() {
			if (lf.fold || lf.exact) && !(before.fold || before.exact) {
				lf.pos = rs.Pos()
			}
		}()
		ast.Inspect(rs.Body, func(m ast.Node) bool {
			switch x := m.(type) {
			case *ast.CallExpr:
				if core.IsCallTo(info, x, "strings.EqualFold") {
					for _, a := range x.Args {
						if rootIdent(info, a) == v && strings.Contains(exprStr(a), "Name") {
							lf.fold = true
						}
					}
				}
			case *ast.BinaryExpr:
				if x.Op == token.EQL || x.Op == token.NEQ {
					l, r := exprStr(x.X), exprStr(x.Y)
					if (rootIdent(info, x.X) == v && strings.HasSuffix(l, "Name.ScalarString()")) || (rootIdent(info, x.Y) == v && strings.HasSuffix(r, "Name.ScalarString()")) {
						// name == <the wanted name> (exact comparison); comparisons with constants (keywords) are not lookups
						if !isConst(info, x.X) && !isConst(info, x.Y) {
							lf.exact = true
						}
					}
					if strings.HasSuffix(l, "IsUnquoted()") && strings.HasSuffix(r, "IsUnquoted()") && (rootIdent(info, x.X) == v || rootIdent(info, x.Y) == v) {
						lf.sep = true
					}
				}
			}
			return true
		})
		return false
	})
	return lf
}

func runC10(c *core.Check) {
	c.Rule("C10.slice-equality", "element-wise comparisons of two paths also compare their lengths")
	{
		var pkgs []*packages.Package
		for _, rel := range []string{"d2ir", "d2graph", "d2ast"} {
			if pk := c.P.Pkg(rel); pk != nil {
				pkgs = append(pkgs, pk)
			}
		}
		issues, n := sliceEqualityIssues(c.P, pkgs)
		for _, is := range issues {
			c.Fail("C10.slice-equality", is.Key, is.Pos, is.Text+": a lookup by ID then also hits elements with a longer (or shorter) path — a.b matches a.b.c")
		}
		c.Decide(n >= 2, "C10.slice-equality", "slice-equality:inventory", token.NoPos, fmt.Sprintf("%d element-wise path comparisons, each with a length comparison", n), fmt.Sprintf("only %d element-wise comparisons found", n))
	}

	c.Rule("C10.predicate", "getField, ensureField and DeleteField compare names with EqualFold and separate quoted names from reserved keywords")
	c.Rule("C10.null", "null branches delete and do nothing else with the node")
	feats := map[string]lookupFeatures{}
	for _, name := range []string{"getField", "ensureField", "DeleteField"} {
		fi := mustFunc(c, "d2ir", "Map", name)
		if fi == nil {
			return
		}
		lf := fieldLookupFeatures(c, fi)
		// a wrapper that converts its arguments and delegates: follow static calls to methods of Map (depth 2)
		for depth := 0; lf.pos == token.NoPos && depth < 2; depth++ {
			var next *core.FuncInfo
			for _, call := range core.Calls(fi.Decl.Body, false) {
				if f := core.CalleeOf(fi.Pkg.TypesInfo, call); f != nil && strings.HasPrefix(core.FuncName(f), "d2ir.(*Map).") {
					if d := c.P.Decl(f); d != nil && d != fi {
						next = d
					}
				}
			}
			if next == nil {
				break
			}
			fi = next
			lf = fieldLookupFeatures(c, fi)
		}
		if lf.pos == token.NoPos {
			c.Fail("C10.predicate", name+":no-search-loop", fi.Decl.Pos(), "no loop over Map.Fields found in "+name+" or the method it delegates to")
			continue
		}
		feats[name] = lf
	}
	for _, name := range sortedKeys(feats) {
		f := feats[name]
		c.Decide(f.fold && !f.exact, "C10.predicate", name+":case-insensitive", f.pos, "strings.EqualFold on the field name", "this lookup compares field names exactly while its siblings fold case: `X: 1; x: 2` become two fields for one of the operations and one for the others")
		anySep := false
		for _, g := range feats {
			if g.sep {
				anySep = true
			}
		}
		if anySep {
			c.Decide(f.sep, "C10.predicate", name+":quoted-reserved-separation", f.pos, "quoted names are kept apart from unquoted reserved keywords",
				"this lookup matches by name only, while its siblings keep a quoted name (an object called \"label\") apart from the unquoted reserved keyword: it can pick the wrong one of two same-named fields")
		}
	}
	// connection identifiers: Match and resolve compare path elements; they are siblings of the field lookups
	// (deleting or indexing `(A.x -> a.y)[0]` must find the connection declared as `a.x -> a.y`)
	pathFields := map[*types.Var]bool{structField(c.P, "d2ir", "EdgeID", "SrcPath"): true, structField(c.P, "d2ir", "EdgeID", "DstPath"): true}
	for _, name := range []string{"Match", "resolve"} {
		fi := mustFunc(c, "d2ir", "EdgeID", name)
		if fi == nil {
			continue
		}
		info := fi.Pkg.TypesInfo
		fromPath := func(e ast.Expr) bool {
			// <…>.SrcPath[i].ScalarString() or a range value over a path
			found := false
			ast.Inspect(e, func(n ast.Node) bool {
				if sel, ok := n.(*ast.SelectorExpr); ok {
					if v := core.FieldOf(info, sel); v != nil && pathFields[v] {
						found = true
					}
				}
				if id, ok := n.(*ast.Ident); ok {
					if o := core.ObjOf(info, id); o != nil {
						for _, d := range defsOf(fi, o) {
							if rs, ok := d.Stmt.(*ast.RangeStmt); ok && d.Rhs == nil {
								if v := core.FieldOf(info, rs.X); v != nil && pathFields[v] {
									found = true
								}
							}
						}
					}
				}
				return true
			})
			return found
		}
		nfold, nexact := 0, 0
		var exactPos token.Pos
		ast.Inspect(fi.Decl.Body, func(n ast.Node) bool {
			switch x := n.(type) {
			case *ast.CallExpr:
				if core.IsCallTo(info, x, "strings.EqualFold") && len(x.Args) == 2 && fromPath(x.Args[0]) && fromPath(x.Args[1]) {
					nfold++
				}
				// the element comparison may live in a helper of the package that is given the two paths
				if callee := core.CalleeOf(info, x); callee != nil && callee.Pkg() == fi.Pkg.Types && len(x.Args) >= 2 {
					npath := 0
					for _, a := range x.Args {
						if v := core.FieldOf(info, a); v != nil && pathFields[v] {
							npath++
						}
					}
					if h := c.P.Decl(callee); npath >= 2 && h != nil && h.Decl.Body != nil {
						ast.Inspect(h.Decl.Body, func(m ast.Node) bool {
							switch y := m.(type) {
							case *ast.CallExpr:
								if core.IsCallTo(h.Pkg.TypesInfo, y, "strings.EqualFold") {
									nfold++
								}
							case *ast.BinaryExpr:
								if (y.Op == token.EQL || y.Op == token.NEQ) && strings.Contains(exprStr(y.X), "ScalarString()") && strings.Contains(exprStr(y.Y), "ScalarString()") {
									nexact++
									exactPos = y.Pos()
								}
							}
							return true
						})
					}
				}
			case *ast.BinaryExpr:
				if (x.Op == token.EQL || x.Op == token.NEQ) && !isConst(info, x.X) && !isConst(info, x.Y) && fromPath(x.X) && fromPath(x.Y) {
					if t, ok := info.Types[x.X]; ok && types.Identical(t.Type.Underlying(), types.Typ[types.String]) {
						nexact++
						exactPos = x.Pos()
					}
				}
			}
			return true
		})
		pos := fi.Decl.Pos()
		if nexact > 0 {
			pos = exactPos
		}
		c.Decide(nfold > 0 && nexact == 0, "C10.predicate", "EdgeID."+name+":case-insensitive", pos, fmt.Sprintf("%d EqualFold comparisons of path elements, no exact one", nfold),
			"EdgeID."+name+" compares path elements exactly while field lookups fold case: a connection addressed with different capitalisation (`(A.x -> a.y)[0]: null`) is not found")
	}
	// null branches
	cf := mustFunc(c, "d2ir", "compiler", "_compileField")
	if cf != nil {
		info := cf.Pkg.TypesInfo
		found := false
		ast.Inspect(cf.Decl.Body, func(n ast.Node) bool {
			blk, ok := n.(*ast.BlockStmt)
			if !ok {
				return true
			}
			for i, st := range blk.List {
				es, ok := st.(*ast.ExprStmt)
				if !ok {
					continue
				}
				call, ok := es.X.(*ast.CallExpr)
				if !ok || !core.IsCallTo(info, call, "d2ir.(*Map).DeleteField", "d2ir.(*Map).DeleteFieldKey") {
					continue
				}
				found = true
				okRet := false
				if i+1 < len(blk.List) {
					_, okRet = blk.List[i+1].(*ast.ReturnStmt)
				}
				// must sit under the null test
				underNull := false
				fl := core.NewFlow(cf.Pkg, cf.Decl.Body)
				for _, g := range fl.GuardsOfNode(call) {
					if g.True && strings.Contains(exprStr(g.Cond), ".Null != nil") {
						underNull = true
					}
					for _, a := range g.Atoms() {
						if a.True && strings.Contains(exprStr(a.Cond), ".Null != nil") {
							underNull = true
						}
					}
				}
				c.Decide(okRet && underNull, "C10.null", "_compileField:delete-then-return", call.Pos(), "delete under the null test, then return", "after deleting a field for `key: null` the function goes on compiling into the deleted node (or deletes outside the null branch)")
			}
			return true
		})
		if !found {
			c.Fail("C10.null", "_compileField:delete-then-return", cf.Decl.Pos(), "no DeleteField call found on the null branch: `key: null` no longer removes the field")
		}
	}
	ce := mustFunc(c, "d2ir", "compiler", "_compileEdges")
	if ce != nil {
		info := ce.Pkg.TypesInfo
		n := 0
		ast.Inspect(ce.Decl.Body, func(nd ast.Node) bool {
			blk, ok := nd.(*ast.BlockStmt)
			if !ok {
				return true
			}
			for i, st := range blk.List {
				// the delete is a statement of its own, or sits in the condition of an if that examines its result
				var call *ast.CallExpr
				switch x := st.(type) {
				case *ast.ExprStmt:
					call, _ = x.X.(*ast.CallExpr)
				case *ast.IfStmt:
					for _, cl := range core.Calls(x.Cond, false) {
						if core.IsCallTo(info, cl, "d2ir.(*Map).DeleteEdge") {
							call = cl
						}
					}
				}
				if call == nil || !core.IsCallTo(info, call, "d2ir.(*Map).DeleteEdge") {
					continue
				}
				n++
				okNext := false
				if i+1 < len(blk.List) {
					if b, ok := blk.List[i+1].(*ast.BranchStmt); ok && b.Tok == token.CONTINUE {
						okNext = true
					}
					if _, ok := blk.List[i+1].(*ast.ReturnStmt); ok {
						okNext = true
					}
				}
				c.Decide(okNext, "C10.null", "_compileEdges:delete-then-continue", call.Pos(), "delete, then continue", "after deleting an edge for `(a -> b)[i]: null` the loop goes on compiling into the deleted edge")
				// the connection itself is deleted only when null is its own value, not the value of one of its attributes
				efl := core.NewFlow(ce.Pkg, ce.Decl.Body)
				onlyWhole := false
				for _, g := range efl.GuardsOfNode(call) {
					for _, a := range g.Atoms() {
						if x, nonNil, isNil := a.NilTest(info); isNil && !nonNil && strings.HasSuffix(exprStr(x), ".EdgeKey") {
							onlyWhole = true
						}
					}
				}
				c.Decide(onlyWhole, "C10.null", "_compileEdges:delete-only-without-edge-key", call.Pos(), "under Key.EdgeKey == nil", "null deletes the whole connection even when the key names an attribute of it: `(a -> b)[0].style.opacity: null` removes the connection a -> b instead of its opacity")
			}
			return true
		})
		if n < 2 {
			c.Fail("C10.null", "_compileEdges:delete-sites", ce.Decl.Pos(), fmt.Sprintf("found %d DeleteEdge sites, expected the plain and the indexed/glob one", n))
		}
	}
}

// ---------------------------------------------------------------------------------------------- C12

// lowered: the SSA value is a strings.ToLower result, a slice of a lowered value, or a phi of lowered values.
func loweredValue(v ssa.Value, seen map[ssa.Value]bool) bool {
	if seen[v] {
		return true
	}
	seen[v] = true
	switch x := v.(type) {
	case *ssa.Call:
		if cal := x.Call.StaticCallee(); cal != nil && cal.String() == "strings.ToLower" {
			return true
		}
	case *ssa.Slice:
		return loweredValue(x.X, seen)
	case *ssa.Phi:
		for _, e := range x.Edges {
			if !loweredValue(e, seen) {
				return false
			}
		}
		return true
	}
	return false
}

func runC12(c *core.Check) {
	c.Rule("C12.endpoint-twins", "consecutive blocks that treat the source and the destination of a connection glob are mirror images of each other")
	if ik := c.P.Pkg("d2ir"); ik != nil {
		if n := checkEndpointTwins(c, "C12.endpoint-twins", []*packages.Package{ik}); n < 1 {
			c.Fail("floor", "floor:C12.endpoint-twins", token.NoPos, "no Src/Dst twin blocks found in d2ir (confirmed by hand: the two HasMultiGlob blocks of Map.createEdge)")
		}
	}
	c.Rule("C12.normalise", "matchPattern compares operands under the same case normalisation")
	c.Rule("C12.strindex", "offsets are applied to the string that was searched")
	c.Rule("C12.reserved", "matchPattern returns true only after the reserved-keyword test failed; glob walkers append only non-reserved fields and test Name first")
	c.Rule("C12.self-edge", "glob edge creation is reached only when the self-edge test failed")
	c.Rule("C12.reapply", "compileKey re-applies the lazy globs when any recursive element count of the scope changed (fields and connections)")
	if ck := mustFunc(c, "d2ir", "compiler", "compileKey"); ck != nil {
		info := ck.Pkg.TypesInfo
		// the counters Map offers
		var counters []string
		if pk := c.P.Pkg("d2ir"); pk != nil {
			for _, fi := range c.P.Funcs(pk) {
				if strings.HasPrefix(fname(fi), "d2ir.(*Map).") && strings.HasSuffix(fi.Obj.Name(), "CountRecursive") {
					counters = append(counters, fi.Obj.Name())
				}
			}
		}
		// the `if` whose body re-compiles glob contexts
		var trigger *ast.IfStmt
		ast.Inspect(ck.Decl.Body, func(n ast.Node) bool {
			is, ok := n.(*ast.IfStmt)
			if !ok {
				return true
			}
			re := false
			ast.Inspect(is.Body, func(m ast.Node) bool {
				if call, ok := m.(*ast.CallExpr); ok && core.IsCallTo(info, call, "d2ir.(*compiler).compileKey") {
					re = true
				}
				return true
			})
			if re && strings.Contains(exprStr(is.Cond), "CountRecursive") {
				trigger = is
			}
			return true
		})
		if trigger == nil || len(counters) < 2 {
			c.Fail("C12.reapply", "compileKey:trigger", ck.Decl.Pos(), "the re-application test on the recursive element counts was not found: globs declared earlier are not applied to elements this key adds")
		} else {
			for _, cn := range counters {
				// old := scope.cn() before; old != scope.cn() in the trigger
				okc := false
				ast.Inspect(trigger.Cond, func(n ast.Node) bool {
					be, ok := n.(*ast.BinaryExpr)
					if !ok || be.Op != token.NEQ {
						return true
					}
					for _, pr := range [][2]ast.Expr{{be.X, be.Y}, {be.Y, be.X}} {
						call, ok := ast.Unparen(pr[1]).(*ast.CallExpr)
						if !ok || !core.IsCallTo(info, call, "d2ir.(*Map)."+cn) {
							continue
						}
						o := core.ObjOf(info, pr[0])
						if d := singleDef(ck, o); d != nil && d.Stmt.Pos() < trigger.Pos() {
							if c2, ok := ast.Unparen(d.Rhs).(*ast.CallExpr); ok && core.IsCallTo(info, c2, "d2ir.(*Map)."+cn) && exprStr(c2.Fun) == exprStr(call.Fun) {
								okc = true
							}
						}
					}
					return true
				})
				c.Decide(okc, "C12.reapply", "compileKey:trigger:"+cn, trigger.Pos(), "count taken before compiling the key and compared after", "the re-application test ignores "+cn+": when a key adds only such elements (e.g. a glob that creates connections between existing objects), earlier globs are not applied to them")
			}
		}
	}
	mp := mustFunc(c, "d2ir", "", "matchPattern")
	if mp == nil {
		return
	}
	fn := c.P.SSAFunc(mp)
	n := 0
	for _, b := range fn.Blocks {
		for _, in := range b.Instrs {
			call, ok := in.(*ssa.Call)
			if !ok {
				continue
			}
			cal := call.Call.StaticCallee()
			if cal == nil {
				continue
			}
			switch cal.String() {
			case "strings.Index", "strings.HasPrefix", "strings.HasSuffix", "strings.Contains", "strings.LastIndex":
				n++
				a, bb := loweredValue(call.Call.Args[0], map[ssa.Value]bool{}), loweredValue(call.Call.Args[1], map[ssa.Value]bool{})
				c.Decide(a == bb, "C12.normalise", "matchPattern:"+cal.Name(), call.Pos(), fmt.Sprintf("both operands lower-cased=%v", a),
					fmt.Sprintf("%s compares a lower-cased operand with one that is not (subject lowered=%v, pattern lowered=%v): matching becomes case-sensitive for one side only", cal.Name(), a, bb))
			}
		}
	}
	if n < 2 {
		c.Fail("C12.normalise", "matchPattern:none", mp.Decl.Pos(), "no string search/prefix tests found in matchPattern")
	}
	for _, u := range strIndexUses(c.P, []string{"d2ir"}) {
		key := "strindex:" + strings.TrimPrefix(u.fn.String(), core.Mod+"/") + ":" + u.finder
		c.Decide(u.ok, "C12.strindex", key, u.pos, "same string", u.detail)
	}
	// reserved test before return true
	info := mp.Pkg.TypesInfo
	fl := core.NewFlow(mp.Pkg, mp.Decl.Body)
	var reservedOK types.Object
	ast.Inspect(mp.Decl.Body, func(nd ast.Node) bool {
		as, ok := nd.(*ast.AssignStmt)
		if ok && len(as.Lhs) == 2 && len(as.Rhs) == 1 {
			if ix, ok := ast.Unparen(as.Rhs[0]).(*ast.IndexExpr); ok && strings.HasSuffix(exprStr(ix.X), "ReservedKeywords") {
				reservedOK = core.ObjOf(info, as.Lhs[1])
			}
		}
		return true
	})
	nret := 0
	for _, ex := range fl.Exits() {
		if ex.Ret == nil || len(ex.Ret.Results) != 1 {
			continue
		}
		tv, ok := info.Types[ex.Ret.Results[0]]
		if !ok || tv.Value == nil || tv.Value.ExactString() != "true" {
			continue
		}
		nret++
		okGuard := false
		for _, g := range fl.GuardsOf(ex.Blk) {
			for _, a := range g.Atoms() {
				if reservedOK != nil && core.ObjOf(info, a.Cond) == reservedOK && !a.True {
					okGuard = true
				}
				if a.True && strings.HasPrefix(exprStr(a.Cond), "len(pattern) == 0") {
					okGuard = true
				}
			}
		}
		if !okGuard && callersExcludeReserved(c, mp) {
			c.Pass("C12.reserved", "matchPattern:return-true", ex.Ret.Pos(), "every call that matches a field name is reached only after the unquoted-reserved-keyword test failed at the call site")
			continue
		}
		c.Decide(okGuard, "C12.reserved", "matchPattern:return-true", ex.Ret.Pos(), "after the reserved-keyword test failed (or empty pattern)", "matchPattern can report a match without having excluded reserved keywords: a glob then applies to label/shape/style fields")
	}
	if nret == 0 {
		c.Fail("C12.reserved", "matchPattern:return-true:none", mp.Decl.Pos(), "no `return true` found")
	}
	// walkers
	for _, name := range []string{"_doubleGlob", "_tripleGlob"} {
		fi := mustFunc(c, "d2ir", "Map", name)
		if fi == nil {
			continue
		}
		winfo := fi.Pkg.TypesInfo
		wfl := core.NewFlow(fi.Pkg, fi.Decl.Body)
		nApp := 0
		ast.Inspect(fi.Decl.Body, func(nd ast.Node) bool {
			as, ok := nd.(*ast.AssignStmt)
			if !ok || len(as.Rhs) != 1 {
				return true
			}
			call, ok := ast.Unparen(as.Rhs[0]).(*ast.CallExpr)
			if !ok || exprStr(call.Fun) != "append" {
				return true
			}
			nApp++
			okGuard := false
			for _, g := range wfl.GuardsOfNode(as) {
				if !g.True && strings.Contains(exprStr(g.Cond), "ReservedKeywords") && strings.Contains(exprStr(g.Cond), "IsUnquoted()") {
					okGuard = true
				}
				// `if _, ok := ReservedKeywords[..]; ok && f.Name.IsUnquoted() { …; continue }`
				if !g.True {
					if be, ok := ast.Unparen(g.Cond).(*ast.BinaryExpr); ok && be.Op == token.LAND && strings.Contains(exprStr(be.Y), "IsUnquoted()") {
						if o := core.ObjOf(winfo, be.X); o != nil {
							for _, d := range defsOf(fi, o) {
								if d.Rhs != nil && strings.Contains(exprStr(d.Rhs), "ReservedKeywords") {
									okGuard = true
								}
							}
						}
					}
				}
			}
			c.Decide(okGuard, "C12.reserved", name+":append-non-reserved", as.Pos(), "appended only when the field is not an unquoted reserved keyword", "the walker collects fields without excluding unquoted reserved keywords: ** or *** then matches label/shape/style fields")
			return true
		})
		if nApp == 0 {
			c.Fail("C12.reserved", name+":append:none", fi.Decl.Pos(), "no append of a matched field found")
		}
	}
	if pk := c.P.Pkg("d2ir"); pk != nil {
		for _, u := range nameNilUses(c.P, pk) {
			if !strings.HasSuffix(fname(u.fi), "Glob") {
				continue
			}
			c.Decide(u.ok, "C12.reserved", "name-nil:"+fname(u.fi)+":"+exprStr(u.base)+"."+strings.TrimPrefix(u.how, "method "), u.node.Pos(), u.idiom, "placeholder fields have a nil Name; this glob walker dereferences it")
		}
	}
	// self-edge
	nself := 0
	if pk := c.P.Pkg("d2ir"); pk != nil {
		for _, fi := range c.P.Funcs(pk) {
			for _, call := range callsIn(fi, false, "d2ir.(*Map).createEdge2") {
				na := len(call.Args)
				if na < 2 {
					continue
				}
				srcO, dstO := core.ObjOf(pk.TypesInfo, call.Args[na-2]), core.ObjOf(pk.TypesInfo, call.Args[na-1])
				if srcO != nil && dstO != nil && isParam(fi, srcO) && isParam(fi, dstO) {
					continue // delegation with the caller's own endpoints (recursion into the common parent)
				}
				nself++
				sfl := core.NewFlow(pk, fi.Decl.Body)
				okGuard := false
				for _, g := range sfl.GuardsOfNode(call) {
					if g.True {
						continue
					}
					// the guard must be `src == dst && <something about globs>` with src/dst the endpoints passed on:
					// on its false branch a glob never yields src == dst. A bare `src == dst` (no glob condition) is stronger and accepted too.
					sameEnds := false
					ast.Inspect(g.Cond, func(m ast.Node) bool {
						if be, ok := m.(*ast.BinaryExpr); ok && be.Op == token.EQL {
							x, y := core.ObjOf(pk.TypesInfo, be.X), core.ObjOf(pk.TypesInfo, be.Y)
							if x != nil && y != nil && ((x == srcO && y == dstO) || (x == dstO && y == srcO)) {
								sameEnds = true
							}
						}
						return true
					})
					if !sameEnds {
						continue
					}
					// shape: top-level is either the equality itself or equality && (glob tests joined by ||)
					top := ast.Unparen(g.Cond)
					if be, ok := top.(*ast.BinaryExpr); ok && be.Op == token.LAND {
						globs := 0
						nonGlob := false
						var walk func(e ast.Expr)
						walk = func(e ast.Expr) {
							e = ast.Unparen(e)
							if b, ok := e.(*ast.BinaryExpr); ok && b.Op == token.LOR {
								walk(b.X)
								walk(b.Y)
								return
							}
							if cl, ok := e.(*ast.CallExpr); ok {
								if f := core.CalleeOf(pk.TypesInfo, cl); f != nil && strings.HasPrefix(f.Name(), "Has") && strings.HasSuffix(f.Name(), "Glob") {
									globs++
									return
								}
							}
							nonGlob = true
						}
						walk(be.Y)
						// both endpoints' glob tests must be present: with only one, `a -> *` or `* -> a` can self-connect
						if !nonGlob && globs >= 2 {
							okGuard = true
						}
					} else {
						okGuard = true
					}
				}
				c.Decide(okGuard, "C12.self-edge", "createEdge:"+fname(fi), call.Pos(), "reached only on the false branch of `src == dst && (…HasGlob())`", "a glob edge such as `* -> *` can connect an object to itself")
			}
		}
	}
	if nself == 0 {
		c.Fail("C12.self-edge", "createEdge:none", token.NoPos, "no createEdge2 call site found")
	}
}

// ---------------------------------------------------------------------------------------------- C13

// isMapStack: the variable is a []*d2ir.Map (a vars stack), whatever its name or whether it is a parameter or a local.
func isMapStack(o types.Object) bool {
	if o == nil {
		return false
	}
	if _, ok := o.(*types.Var); !ok {
		return false
	}
	return types.TypeString(o.Type(), func(*types.Package) string { return "" }) == "[]*Map"
}

func runC13(c *core.Check) {
	c.Rule("C13.who-parses", "parseSubstitution is not called for single-quoted or block strings, nor in key position")
	c.Rule("C13.undefined", "a variable that is not found is reported and resolution stops before the field is used")
	c.Rule("C13.scope-order", "vars stack: inner maps are prepended; lookups walk from the front and stop at the first hit")
	c.Rule("C13.splice-alias", "a spread that replaces one element of a list by several does not write over the elements it still has to copy")
	if ik := c.P.Pkg("d2ir"); ik != nil {
		// no floor: a rewrite that copies first has no in-place splice left; the positive control is the mutant that reverts fix a99dac0dd
		c.Note("splice-alias: %d in-place splices in d2ir", checkSpliceAlias(c, "C13.splice-alias", []*packages.Package{ik}))
	}
	ppk := c.P.Pkg("d2parser")
	if ppk == nil {
		c.Broken("d2parser not loaded")
		return
	}
	pinfo := ppk.TypesInfo
	ncall := 0
	for _, fi := range c.P.Funcs(ppk) {
		calls := callsIn(fi, true, "d2parser.(*parser).parseSubstitution")
		if len(calls) == 0 {
			continue
		}
		sig := fi.Obj.Type().(*types.Signature)
		res := ""
		if sig.Results().Len() > 0 {
			res = types.TypeString(sig.Results().At(0).Type(), nil)
		}
		for _, call := range calls {
			ncall++
			key := "caller:" + fname(fi)
			if strings.HasSuffix(res, "SingleQuotedString") || strings.HasSuffix(res, "BlockString") {
				c.Fail("C13.who-parses", key, call.Pos(), "substitutions are parsed inside "+res+": single-quoted and block-string text must be kept literally")
				continue
			}
			var inKey types.Object
			for i := 0; i < sig.Params().Len(); i++ {
				if sig.Params().At(i).Name() == "inKey" {
					inKey = sig.Params().At(i)
				}
			}
			if inKey == nil {
				c.Pass("C13.who-parses", key, call.Pos(), "caller has no key position (value/spread context)")
				continue
			}
			fl := core.NewFlow(ppk, fi.Decl.Body)
			ok := false
			for _, g := range fl.GuardsOfNode(call) {
				for _, a := range g.Atoms() {
					if core.ObjOf(pinfo, a.Cond) == inKey && !a.True {
						ok = true
					}
				}
			}
			c.Decide(ok, "C13.who-parses", key, call.Pos(), "on the !inKey branch", "substitutions are parsed in key position: `${x}: 1` would substitute inside a key")
		}
	}
	if ncall < 3 {
		c.Fail("C13.who-parses", "callers:none", token.NoPos, fmt.Sprintf("only %d parseSubstitution call sites found", ncall))
	}
	// undefined → error
	rs := mustFunc(c, "d2ir", "compiler", "resolveSubstitutions")
	if rs != nil {
		info := rs.Pkg.TypesInfo
		fl := core.NewFlow(rs.Pkg, rs.Decl.Body)
		var resolved types.Object
		for _, call := range callsIn(rs, false, "d2ir.(*compiler).resolveSubstitution") {
			if o := resultVar(rs, call, 0); o != nil {
				resolved = o
			}
		}
		if resolved == nil {
			c.Fail("C13.undefined", "resolveSubstitutions:result", rs.Decl.Pos(), "the result of resolveSubstitution is not bound to a variable")
		} else {
			// every selector use of resolved is guarded non-nil, and the nil branch reports an error and returns
			nuse, bad := 0, 0
			ast.Inspect(rs.Decl.Body, func(n ast.Node) bool {
				sel, ok := n.(*ast.SelectorExpr)
				if !ok || core.ObjOf(info, sel.X) != resolved {
					return true
				}
				nuse++
				if ok2, _ := guardedNonNil(fl, info, sel, sel.X); !ok2 {
					bad++
					c.Fail("C13.undefined", "resolveSubstitutions:use-of-unresolved", sel.Pos(), "the field found for a variable is used without a nil test: an undefined variable crashes or is silently ignored instead of being reported")
				}
				return true
			})
			if bad == 0 && nuse > 0 {
				c.Pass("C13.undefined", "resolveSubstitutions:uses-guarded", rs.Decl.Pos(), fmt.Sprintf("%d uses, all after a nil test", nuse))
			}
			nerr := 0
			ast.Inspect(rs.Decl.Body, func(n ast.Node) bool {
				is, ok := n.(*ast.IfStmt)
				if !ok {
					return true
				}
				be, ok := ast.Unparen(is.Cond).(*ast.BinaryExpr)
				if !ok || be.Op != token.EQL || core.ObjOf(info, be.X) != resolved || !core.IsNil(info, be.Y) {
					return true
				}
				hasErr, hasRet := false, false
				for _, st := range is.Body.List {
					if es, ok := st.(*ast.ExprStmt); ok {
						if call, ok := es.X.(*ast.CallExpr); ok {
							if f := core.CalleeOf(info, call); f != nil && f.Name() == "errorf" {
								hasErr = true
							}
						}
					}
					if _, ok := st.(*ast.ReturnStmt); ok {
						hasRet = true
					}
				}
				nerr++
				c.Decide(hasErr && hasRet, "C13.undefined", "resolveSubstitutions:unresolved-is-error", is.Pos(), "errorf + return", "an unresolved variable is not reported as an error (or resolution continues after reporting)")
				return true
			})
			if nerr < 2 {
				c.Fail("C13.undefined", "resolveSubstitutions:unresolved-is-error:count", rs.Decl.Pos(), fmt.Sprintf("found %d `if resolved == nil` error branches, expected one per string kind", nerr))
			}
			// lookup loops
			nloop := 0
			ast.Inspect(rs.Decl.Body, func(n ast.Node) bool {
				loop, ok := n.(*ast.RangeStmt)
				if !ok || !isMapStack(core.ObjOf(info, loop.X)) {
					return true
				}
				nloop++
				hasBreak := false
				ast.Inspect(loop.Body, func(m ast.Node) bool {
					if b, ok := m.(*ast.BranchStmt); ok && b.Tok == token.BREAK {
						hasBreak = true
					}
					return true
				})
				// the "is this the current scope" flag passed to resolveSubstitution is <stack index> == 0 and the
				// map searched is this iteration's map (sibling agreement between the string kinds)
				for _, call := range core.Calls(loop.Body, false) {
					if !core.IsCallTo(info, call, "d2ir.(*compiler).resolveSubstitution") || len(call.Args) != 4 {
						continue
					}
					okArgs := loop.Value != nil && core.ObjOf(info, call.Args[0]) == core.ObjOf(info, loop.Value)
					okFlag := false
					if be, ok := ast.Unparen(call.Args[3]).(*ast.BinaryExpr); ok && be.Op == token.EQL && loop.Key != nil {
						k := core.ObjOf(info, loop.Key)
						if tv, ok := info.Types[be.Y]; ok && tv.Value != nil && tv.Value.ExactString() == "0" && k != nil && core.ObjOf(info, be.X) == k {
							okFlag = true
						}
					}
					c.Decide(okArgs && okFlag, "C13.scope-order", "resolveSubstitutions:current-scope-flag", call.Pos(), "searches this iteration's map; current-scope flag is <stack index> == 0",
						"the current-scope flag is not derived from the vars-stack index of this loop (or another map is searched): self-referencing redefinitions like `x: \"${x}-b\"` resolve to themselves or fail")
				}
				c.Decide(hasBreak, "C13.scope-order", "resolveSubstitutions:first-hit-wins", loop.Pos(), "break on the first scope that defines the variable", "the stack is walked from the innermost scope without stopping at the first hit: an outer definition overrides the inner one")
				return true
			})
			// accumulating lookups (block strings collect every variable into one map): must walk from the outermost scope
			ast.Inspect(rs.Decl.Body, func(n ast.Node) bool {
				loop, ok := n.(*ast.ForStmt)
				if !ok {
					return true
				}
				uses := false
				ast.Inspect(loop.Body, func(m ast.Node) bool {
					if ix, ok := m.(*ast.IndexExpr); ok && isMapStack(core.ObjOf(info, ix.X)) {
						uses = true
					}
					return true
				})
				if !uses {
					return true
				}
				nloop++
				_, dec := loop.Post.(*ast.IncDecStmt)
				rev := dec && loop.Post.(*ast.IncDecStmt).Tok == token.DEC
				if as, ok := loop.Init.(*ast.AssignStmt); !ok || len(as.Rhs) != 1 || !strings.HasPrefix(exprStr(as.Rhs[0]), "len(") {
					rev = false
				}
				c.Decide(rev, "C13.scope-order", "resolveSubstitutions:accumulate-outermost-first", loop.Pos(), "collected from the last (outermost) scope to the first so inner definitions overwrite outer ones", "variables are collected into one map from the innermost scope outwards: an outer definition overwrites the inner one")
				return true
			})
			if nloop < 3 {
				c.Fail("C13.scope-order", "resolveSubstitutions:lookup-loops", rs.Decl.Pos(), "lookup loops over varsStack not found")
			}
		}
	}
	// prepend
	cs := mustFunc(c, "d2ir", "compiler", "compileSubstitutions")
	if cs != nil {
		n := 0
		cinfo := cs.Pkg.TypesInfo
		ast.Inspect(cs.Decl.Body, func(nd ast.Node) bool {
			as, ok := nd.(*ast.AssignStmt)
			if !ok || len(as.Lhs) != 1 || !isMapStack(core.ObjOf(cinfo, as.Lhs[0])) {
				return true
			}
			call, ok := ast.Unparen(as.Rhs[0]).(*ast.CallExpr)
			if !ok || exprStr(call.Fun) != "append" || len(call.Args) != 2 {
				return true
			}
			n++
			_, firstIsLit := ast.Unparen(call.Args[0]).(*ast.CompositeLit)
			c.Decide(firstIsLit && core.ObjOf(cinfo, call.Args[1]) == core.ObjOf(cinfo, as.Lhs[0]) && call.Ellipsis.IsValid(), "C13.scope-order", "compileSubstitutions:prepend", as.Pos(), "varsStack = append([]*Map{inner}, varsStack...)", "the inner vars map is appended instead of prepended: lookups that walk from the front then prefer outer scopes")
			return true
		})
		if n == 0 {
			c.Fail("C13.scope-order", "compileSubstitutions:prepend:none", cs.Decl.Pos(), "no push onto varsStack found")
		}
	}
}

// ---------------------------------------------------------------------------------------------- C15

func runC15(c *core.Check) {
	c.Rule("C15.climb-loops", "loops of one function that climb the map tree with the same step stop at the same boundary (the board)")
	if ik := c.P.Pkg("d2ir"); ik != nil {
		if n := checkClimbLoops(c, "C15.climb-loops", []*packages.Package{ik}); n < 1 {
			c.Fail("floor", "floor:C15.climb-loops", token.NoPos, "no function of d2ir with two climbs of one step (confirmed by hand: the two ParentMap climbs of Map.DeleteFieldKey)")
		}
	}
	c.Rule("C15.copy-before-mutate", "destinations of OverlayMap/DeleteField in overlay and overlayClasses derive from a copy made in the function")
	c.Rule("C15.restore", "CopyBase re-appends every field it temporarily removes, and copies in between")
	isCopyCall := func(info *types.Info, e ast.Expr) bool {
		e = ast.Unparen(e)
		if ta, ok := e.(*ast.TypeAssertExpr); ok {
			e = ast.Unparen(ta.X)
		}
		call, ok := e.(*ast.CallExpr)
		if !ok {
			return false
		}
		f := core.CalleeOf(info, call)
		return f != nil && (f.Name() == "Copy" || f.Name() == "CopyBase")
	}
	for _, name := range []string{"overlay", "overlayClasses"} {
		fi := mustFunc(c, "d2ir", "compiler", name)
		if fi == nil {
			continue
		}
		info := fi.Pkg.TypesInfo
		n := 0
		check := func(dest ast.Expr, pos token.Pos, what string) {
			n++
			root := rootIdent(info, dest)
			ok := false
			why := "destination is not a local variable"
			if root != nil {
				ds := defsOf(fi, root)
				var last *defSite
				for i := range ds {
					if ds[i].Stmt.Pos() < pos && (last == nil || ds[i].Stmt.Pos() > last.Stmt.Pos()) {
						last = &ds[i]
					}
				}
				if last != nil && last.Rhs != nil && isCopyCall(info, last.Rhs) {
					ok = true
				} else if last == nil {
					why = root.Name() + " is the parameter itself"
				} else {
					why = root.Name() + " was last assigned from " + exprStr(last.Rhs)
				}
				// the class-overlay loop mutates the per-layer map `l`, which is the layer's own map (not the base): accepted
				if !ok && isParam(fi, root) == false && last != nil && strings.HasSuffix(exprStr(last.Rhs), ".Map()") {
					ok = true
				}
			}
			c.Decide(ok, "C15.copy-before-mutate", name+":"+what, pos, "destination is a fresh copy (or the board's own map)", "the base map itself is mutated ("+why+"): changes made for one board leak into its base and siblings")
		}
		for _, call := range core.Calls(fi.Decl.Body, false) {
			f := core.CalleeOf(info, call)
			if f == nil {
				continue
			}
			switch core.FuncName(f) {
			case "d2ir.OverlayMap":
				check(call.Args[0], call.Pos(), "OverlayMap-destination")
			case "d2ir.(*Map).DeleteField", "d2ir.(*Map).DeleteFieldKey":
				check(call.Fun.(*ast.SelectorExpr).X, call.Pos(), "DeleteField-receiver")
			}
		}
		if n == 0 {
			c.Fail("C15.copy-before-mutate", name+":none", fi.Decl.Pos(), "no OverlayMap/DeleteField call found")
		}
	}
	// every fork of a glob context for an inheriting board takes its own applied sets
	c.Rule("C15.fork-copies-applied", "a glob context copied for a scenario or a step calls copyApplied (unless the glob is a triple glob)")
	if cm := mustFunc(c, "d2ir", "compiler", "compileMap"); cm != nil {
		info := cm.Pkg.TypesInfo
		fl := core.NewFlow(cm.Pkg, cm.Decl.Body)
		nf := 0
		ast.Inspect(cm.Decl.Body, func(n ast.Node) bool {
			rs, ok := n.(*ast.RangeStmt)
			if !ok {
				return true
			}
			for _, st := range rs.Body.List {
				as, ok := st.(*ast.AssignStmt)
				if !ok || as.Tok != token.DEFINE || len(as.Lhs) != 1 || len(as.Rhs) != 1 {
					continue
				}
				call, ok := ast.Unparen(as.Rhs[0]).(*ast.CallExpr)
				if !ok || !core.IsCallTo(info, call, "d2ir.(*globContext).copy") {
					continue
				}
				// under a test of the board kind for a scenario or a step
				kind := ""
				for _, g := range fl.GuardsOfNode(as) {
					for _, a := range g.Atoms() {
						cs := exprStr(a.Cond)
						if a.True && strings.Contains(cs, "NodeBoardKind(") && (strings.Contains(cs, "BoardScenario") || strings.Contains(cs, "BoardStep")) {
							kind = cs
						}
					}
				}
				if kind == "" {
					continue
				}
				nf++
				fork := core.ObjOf(info, as.Lhs[0])
				copies := core.Contains(rs.Body, func(y ast.Node) bool {
					cl, ok := y.(*ast.CallExpr)
					if !ok || !core.IsCallTo(info, cl, "d2ir.(*globContext).copyApplied") {
						return false
					}
					sel, ok := ast.Unparen(cl.Fun).(*ast.SelectorExpr)
					return ok && core.ObjOf(info, sel.X) == fork
				})
				c.Decide(copies, "C15.fork-copies-applied", "compileMap:fork:"+kind, as.Pos(), "the fork calls copyApplied", "a glob context is copied for an inheriting board ("+kind+") and keeps sharing the applied sets of the context it was copied from: what the glob applies inside the board marks the base board's objects as done, and the base's later declarations are skipped")
			}
			return true
		})
		if nf < 2 {
			c.Fail("C15.fork-copies-applied", "compileMap:forks", cm.Decl.Pos(), fmt.Sprintf("only %d forks of glob contexts for scenarios/steps found", nf))
		}
	}
	c.Rule("C15.fork-owned-sets", "copyApplied gives the forked glob context its own map for every map-typed field, unconditionally")
	c.Rule("C15.board-boundary", "the edge-deleting walk to the parent map stops at a board root")
	if ca := mustFunc(c, "d2ir", "globContext", "copyApplied"); ca != nil {
		info := ca.Pkg.TypesInfo
		fl := core.NewFlow(ca.Pkg, ca.Decl.Body)
		recv := ca.Obj.Type().(*types.Signature).Recv()
		st, _ := recv.Type().(*types.Pointer).Elem().Underlying().(*types.Struct)
		nmap := 0
		for i := 0; st != nil && i < st.NumFields(); i++ {
			f := st.Field(i)
			if _, ok := f.Type().Underlying().(*types.Map); !ok {
				continue
			}
			nmap++
			isFresh := func(nd ast.Node) bool {
				as, ok := nd.(*ast.AssignStmt)
				if !ok || len(as.Lhs) != 1 || len(as.Rhs) != 1 || core.FieldOf(info, as.Lhs[0]) != f || rootIdent(info, as.Lhs[0]) != types.Object(recvObj(ca)) {
					return false
				}
				switch r := ast.Unparen(as.Rhs[0]).(type) {
				case *ast.CallExpr:
					return exprStr(r.Fun) == "make"
				case *ast.CompositeLit:
					return true
				}
				return false
			}
			ok := true
			exits := fl.Exits()
			for _, ex := range exits {
				if pass, _ := fl.MustPassBefore(ex.Blk, ex.Idx, isFresh); !pass {
					ok = false
				}
			}
			c.Decide(ok && len(exits) > 0, "C15.fork-owned-sets", "copyApplied:"+f.Name(), ca.Decl.Pos(), "fresh map assigned on every path", "the forked glob context keeps sharing "+f.Name()+" with the context it was copied from on some path: applications recorded in one scenario suppress the glob in its siblings")
		}
		if nmap == 0 {
			c.Fail("C15.fork-owned-sets", "copyApplied:no-map-fields", ca.Decl.Pos(), "globContext has no map-typed fields any more; the rule needs review")
		}
	}
	for _, name := range []string{"DeleteFieldKey", "DeleteField"} {
		fi := c.P.Func("d2ir", "Map", name)
		if fi == nil {
			continue
		}
		info := fi.Pkg.TypesInfo
		fl := core.NewFlow(fi.Pkg, fi.Decl.Body)
		ast.Inspect(fi.Decl.Body, func(n ast.Node) bool {
			as, ok := n.(*ast.AssignStmt)
			if !ok || as.Tok != token.ASSIGN || len(as.Lhs) != 1 || len(as.Rhs) != 1 {
				return true
			}
			call, ok := ast.Unparen(as.Rhs[0]).(*ast.CallExpr)
			if !ok || !core.IsCallTo(info, call, "d2ir.ParentMap") || len(call.Args) != 1 {
				return true
			}
			v := core.ObjOf(info, as.Lhs[0])
			if v == nil || core.ObjOf(info, call.Args[0]) != v {
				return true
			}
			// only walks that mutate on the way (DeleteEdge inside the same loop)
			stopped := false
			for _, g := range fl.GuardsOfNode(as) {
				for _, a := range append(g.Atoms(), g) {
					be, ok := ast.Unparen(a.Cond).(*ast.BinaryExpr)
					if !ok || (be.Op != token.NEQ && be.Op != token.EQL) {
						continue
					}
					// either operand order
					bx, by := be.X, be.Y
					if _, isCall := ast.Unparen(bx).(*ast.CallExpr); !isCall {
						bx, by = by, bx
					}
					kc, ok := ast.Unparen(bx).(*ast.CallExpr)
					if !ok || !core.IsCallTo(info, kc, "d2ir.NodeBoardKind") || core.ObjOf(info, kc.Args[0]) != v {
						continue
					}
					tv, ok := info.Types[by]
					if !ok || tv.Value == nil || tv.Value.ExactString() != `""` {
						continue
					}
					if (be.Op == token.NEQ && !a.True) || (be.Op == token.EQL && a.True) {
						stopped = true
					}
				}
			}
			c.Decide(stopped, "C15.board-boundary", name+":walk-to-parent", as.Pos(), "reached only when NodeBoardKind(current) == \"\"", "the walk that deletes the connections of a deleted field continues past a board root into the base board: `obj: null` in a scenario or step removes connections of the base and of later siblings")
			return true
		})
	}
	cb := mustFunc(c, "d2ir", "Map", "CopyBase")
	if cb != nil {
		info := cb.Pkg.TypesInfo
		var removed []types.Object
		var lastDelete, copyPos, firstAppend token.Pos
		ast.Inspect(cb.Decl.Body, func(n ast.Node) bool {
			as, ok := n.(*ast.AssignStmt)
			if !ok || len(as.Lhs) != 1 || len(as.Rhs) != 1 {
				return true
			}
			if call, ok := ast.Unparen(as.Rhs[0]).(*ast.CallExpr); ok && core.IsCallTo(info, call, "d2ir.(*Map).DeleteField", "d2ir.(*Map).DeleteFieldKey") {
				if o := core.ObjOf(info, as.Lhs[0]); o != nil {
					removed = append(removed, o)
					lastDelete = as.Pos()
				}
			}
			if isCopyCall(info, as.Rhs[0]) && copyPos == token.NoPos {
				copyPos = as.Pos()
			}
			return true
		})
		restored := map[types.Object]bool{}
		for _, st := range cb.Decl.Body.List {
			is, ok := st.(*ast.IfStmt)
			if !ok {
				continue
			}
			be, ok := ast.Unparen(is.Cond).(*ast.BinaryExpr)
			if !ok || be.Op != token.NEQ || !core.IsNil(info, be.Y) {
				continue
			}
			o := core.ObjOf(info, be.X)
			for _, bs := range is.Body.List {
				if as, ok := bs.(*ast.AssignStmt); ok && len(as.Rhs) == 1 {
					if call, ok := ast.Unparen(as.Rhs[0]).(*ast.CallExpr); ok && exprStr(call.Fun) == "append" && len(call.Args) == 2 && core.ObjOf(info, call.Args[1]) == o && exprStr(as.Lhs[0]) == exprStr(call.Args[0]) {
						restored[o] = true
						if firstAppend == token.NoPos {
							firstAppend = as.Pos()
						}
					}
				}
			}
		}
		var missing []string
		for _, o := range removed {
			if !restored[o] {
				missing = append(missing, o.Name())
			}
		}
		c.Decide(len(removed) >= 3 && len(missing) == 0, "C15.restore", "CopyBase:re-append", cb.Decl.Pos(), fmt.Sprintf("%d removed fields re-appended", len(removed)),
			fmt.Sprintf("CopyBase removes board fields from the base to copy it and does not put %v back: the base board loses its %v after the first child board is compiled", missing, missing))
		c.Decide(copyPos > lastDelete && (firstAppend == token.NoPos || copyPos < firstAppend), "C15.restore", "CopyBase:copy-between", cb.Decl.Pos(), "Copy happens after the removals and before the re-appends", "the copy is not taken between removing and restoring the board fields: child boards inherit the base's boards recursively")
	}
}

// recvObj returns the receiver variable of a method declaration.
func recvObj(fi *core.FuncInfo) *types.Var {
	if fi.Decl.Recv == nil || len(fi.Decl.Recv.List) == 0 || len(fi.Decl.Recv.List[0].Names) == 0 {
		return nil
	}
	v, _ := fi.Pkg.TypesInfo.Defs[fi.Decl.Recv.List[0].Names[0]].(*types.Var)
	return v
}

// callersExcludeReserved: every call of matchPattern whose subject is a field name (….Name.ScalarString()) is
// guarded, on the false edge, by a condition built on the comma-ok result of a ReservedKeywords lookup.
func callersExcludeReserved(c *core.Check, mp *core.FuncInfo) bool {
	n := 0
	all := true
	for _, fi := range c.P.Funcs(mp.Pkg) {
		if fi.Decl.Body == nil {
			continue
		}
		info := fi.Pkg.TypesInfo
		var fl *core.Flow
		for _, call := range core.Calls(fi.Decl.Body, true) {
			if core.CalleeOf(info, call) != mp.Obj || len(call.Args) < 1 || !strings.Contains(exprStr(call.Args[0]), ".Name.") {
				continue
			}
			n++
			if fl == nil {
				fl = core.NewFlow(fi.Pkg, fi.Decl.Body)
			}
			reservedFlags := map[types.Object]bool{}
			ast.Inspect(fi.Decl.Body, func(nd ast.Node) bool {
				as, ok := nd.(*ast.AssignStmt)
				if ok && len(as.Lhs) == 2 && len(as.Rhs) == 1 {
					if ix, ok := ast.Unparen(as.Rhs[0]).(*ast.IndexExpr); ok && strings.HasSuffix(exprStr(ix.X), "ReservedKeywords") {
						reservedFlags[core.ObjOf(info, as.Lhs[1])] = true
					}
				}
				return true
			})
			ok := false
			for _, g := range fl.GuardsOfNode(call) {
				if g.True {
					continue
				}
				if core.Contains(g.Cond, func(y ast.Node) bool {
					id, isID := y.(*ast.Ident)
					return isID && reservedFlags[info.Uses[id]]
				}) {
					ok = true
				}
			}
			if !ok {
				all = false
			}
		}
	}
	return n > 0 && all
}

// checkSpliceAlias: `append(append(S[:i], ins…), S[j:]...)` builds the result in S's own backing array: the inner
// append writes the inserted elements over S[i:], and the outer one then copies S[j:] from memory that may already be
// overwritten. It is safe only when the insertion is no longer than the gap (one element with j > i; `ins...` with
// j == i+len(ins)), or when the prefix cannot be appended to in place (S[:i:i], a fresh copy). Returns the number of sites.
func checkSpliceAlias(c *core.Check, rule string, pkgs []*packages.Package) int {
	n := 0
	for _, pk := range pkgs {
		info := pk.TypesInfo
		for _, fi := range c.P.Funcs(pk) {
			seen := map[string]int{}
			ast.Inspect(fi.Decl.Body, func(nd ast.Node) bool {
				outer, ok := nd.(*ast.CallExpr)
				if !ok || len(outer.Args) != 2 || !outer.Ellipsis.IsValid() {
					return true
				}
				if id, ok := outer.Fun.(*ast.Ident); !ok || id.Name != "append" {
					return true
				}
				inner, ok := ast.Unparen(outer.Args[0]).(*ast.CallExpr)
				if !ok || len(inner.Args) < 2 {
					return true
				}
				if id, ok := inner.Fun.(*ast.Ident); !ok || id.Name != "append" {
					return true
				}
				prefix, ok1 := ast.Unparen(inner.Args[0]).(*ast.SliceExpr)
				tail, ok2 := ast.Unparen(outer.Args[1]).(*ast.SliceExpr)
				if !ok1 || !ok2 || exprStr(prefix.X) != exprStr(tail.X) || prefix.High == nil || tail.Low == nil {
					return true
				}
				n++
				key := fmt.Sprintf("splice:%s:%s", fname(fi), exprStr(prefix.X))
				seen[key]++
				if seen[key] > 1 {
					key = fmt.Sprintf("%s#%d", key, seen[key])
				}
				hi, lo := strings.ReplaceAll(exprStr(prefix.High), " ", ""), strings.ReplaceAll(exprStr(tail.Low), " ", "")
				how := ""
				switch {
				case prefix.Slice3 && prefix.Max != nil && exprStr(prefix.Max) == exprStr(prefix.High):
					how = "the prefix has no spare capacity (S[:i:i]): the inner append copies"
				case !inner.Ellipsis.IsValid() && len(inner.Args) == 2 && lo != hi && strings.HasPrefix(lo, hi+"+"):
					how = "one element replaces at least one"
				case inner.Ellipsis.IsValid() && len(inner.Args) == 2 && lo == hi+"+len("+strings.ReplaceAll(exprStr(inner.Args[1]), " ", "")+")":
					how = "the inserted elements replace as many"
				}
				_ = info
				c.Decide(how != "", rule, key, outer.Pos(), how, "append(append("+exprStr(prefix)+", …), "+exprStr(tail)+"...) inserts an unknown number of elements in place: with more than "+lo+"-"+hi+" of them the elements after the gap are overwritten before they are copied (`[...${a}; ${y}; zz]` with a two-element a yields the second element of a in place of ${y})")
				return true
			})
		}
	}
	return n
}
