package props

import (
	"go/ast"
	"go/token"
	"go/types"
	"strings"

	"golang.org/x/tools/go/packages"

	"d2verif/internal/core"
)

// E2 — dereference of possibly-absent model values. A *source* is a call of an accessor that
// returns "absent" (nil) by construction; a *use* selects a field through it, calls a method that
// is not nil-safe on it, indexes or ranges over it. Every use must be dominated by a presence
// test on the syntactically same accessor expression (side-effect-free receiver chain).

// nullableAccessors: FuncName → why it can be nil (reviewed; cross-checked by discovery below).
var nullableAccessors = map[string]string{
	"d2ir.(*Field).Primary":        "Primary_ is nil until a scalar is assigned",
	"d2ir.(*Edge).Primary":         "Primary_ is nil until a scalar is assigned",
	"d2ir.(*Field).Map":            "no composite, or the composite is an array",
	"d2ir.(*Edge).Map":             "Map_ is nil until a map is assigned",
	"d2ir.(Node).Primary":          "interface dispatch to Field/Edge Primary",
	"d2ir.(Node).Map":              "interface dispatch to Field/Edge Map",
	"d2ir.(*Map).GetField":         "returns nil when the field does not exist",
	"d2ir.(*Map).getField":         "returns nil when the field does not exist",
	"d2ir.(*Map).GetClassMap":      "returns nil when the class does not exist",
	"d2ir.(*Map).FindBoardRoot":    "returns nil when the board does not exist",
	"d2ir.(*Field).LastPrimaryRef": "nil when no primary reference exists",
	"d2ir.(*Field).LastPrimaryKey": "nil when no primary reference exists",
	"d2ir.(*Edge).LastPrimaryRef":  "nil when no primary reference exists",
	"d2ir.(*Edge).LastPrimaryKey":  "nil when no primary reference exists",
	"d2graph.(*Graph).GetBoard":    "nil when the board does not exist",
	"d2graph.(*Object).OuterSequenceDiagram": "nil outside a sequence diagram",
	"d2graph.(*Object).ClosestGridDiagram":   "nil outside a grid",
	"d2graph.(*Object).OuterNearContainer":   "nil when no ancestor has near",
	"d2oracle.GetBoardGraph":       "nil when the board path does not resolve",
	"d2oracle.GetObj":              "nil when the object does not exist",
	"d2oracle.GetEdge":             "nil when the edge does not exist",
}

type nilUse struct {
	fi     *core.FuncInfo
	node   ast.Node // the dereferencing expression
	base   ast.Expr // the possibly-nil expression
	source string   // accessor name
	how    string   // "field X", "method M", "range", "index"
	ok     bool
	idiom  string
}

// nilSafeMethods: methods whose receiver may be nil (the body tests the receiver against nil before
// any use, or never dereferences it). Computed per package.
func nilSafeMethods(p *core.Prog, pk *packages.Package) map[*types.Func]bool {
	out := map[*types.Func]bool{}
	for _, fi := range p.Funcs(pk) {
		if fi.Decl.Recv == nil || len(fi.Decl.Recv.List) == 0 || len(fi.Decl.Recv.List[0].Names) == 0 {
			continue
		}
		recv := pk.TypesInfo.Defs[fi.Decl.Recv.List[0].Names[0]]
		if recv == nil {
			continue
		}
		if _, isPtr := recv.Type().(*types.Pointer); !isPtr {
			continue
		}
		// first statement: if recv == nil { return … }
		if len(fi.Decl.Body.List) > 0 {
			if is, ok := fi.Decl.Body.List[0].(*ast.IfStmt); ok {
				if be, ok := is.Cond.(*ast.BinaryExpr); ok && be.Op == token.EQL && core.ObjOf(pk.TypesInfo, be.X) == recv && core.IsNil(pk.TypesInfo, be.Y) {
					if len(is.Body.List) > 0 {
						if _, ok := is.Body.List[len(is.Body.List)-1].(*ast.ReturnStmt); ok {
							out[fi.Obj] = true
							continue
						}
					}
				}
			}
		}
		// never dereferenced: no selector on the receiver at all
		used := false
		ast.Inspect(fi.Decl.Body, func(n ast.Node) bool {
			if sel, ok := n.(*ast.SelectorExpr); ok && core.ObjOf(pk.TypesInfo, sel.X) == recv {
				if s, ok := pk.TypesInfo.Selections[sel]; ok && s.Kind() == types.FieldVal {
					used = true
				}
				if s, ok := pk.TypesInfo.Selections[sel]; ok && s.Kind() == types.MethodVal {
					if f, ok := s.Obj().(*types.Func); ok && !out[f] {
						used = true
					}
				}
			}
			if st, ok := n.(*ast.StarExpr); ok && core.ObjOf(pk.TypesInfo, st.X) == recv {
				used = true
			}
			return true
		})
		if !used {
			out[fi.Obj] = true
		}
	}
	return out
}

func accessorName(info *types.Info, e ast.Expr) (string, bool) {
	call, ok := ast.Unparen(e).(*ast.CallExpr)
	if !ok {
		return "", false
	}
	f := core.CalleeOf(info, call)
	if f == nil {
		return "", false
	}
	name := core.FuncName(f)
	if _, ok := nullableAccessors[name]; ok {
		return name, true
	}
	return "", false
}

// pureChain: the expression is a chain of identifiers, field selections and calls of nullable accessors
// or other argument-free/ident-argument calls — safe to compare syntactically.
func pureChain(e ast.Expr) bool {
	switch x := ast.Unparen(e).(type) {
	case *ast.Ident:
		return true
	case *ast.SelectorExpr:
		return pureChain(x.X)
	case *ast.CallExpr:
		for _, a := range x.Args {
			if !pureChain(a) {
				if _, isLit := a.(*ast.BasicLit); !isLit {
					if c, isCall := a.(*ast.CallExpr); !isCall || !pureChain(c) {
						return false
					}
				}
			}
		}
		return pureChain(x.Fun)
	case *ast.IndexExpr:
		return pureChain(x.X) && pureChain(x.Index)
	case *ast.StarExpr:
		return pureChain(x.X)
	case *ast.BasicLit:
		return true
	case *ast.UnaryExpr:
		return pureChain(x.X)
	}
	return false
}

// nilUsesIn finds every use of a nullable accessor result in the functions of a package.
func nilUsesIn(p *core.Prog, pk *packages.Package, safe map[*types.Func]bool) []*nilUse {
	info := pk.TypesInfo
	var out []*nilUse
	// in-package static call sites, for caller-side guards
	type site struct {
		fi   *core.FuncInfo
		call *ast.CallExpr
	}
	sites := map[*types.Func][]site{}
	for _, fi := range p.Funcs(pk) {
		for _, call := range core.Calls(fi.Decl.Body, true) {
			if f := core.CalleeOf(info, call); f != nil && f.Pkg() == pk.Types {
				sites[f.Origin()] = append(sites[f.Origin()], site{fi, call})
			}
		}
	}
	callerGuards := func(fi *core.FuncInfo, base ast.Expr) (bool, string) {
		root := rootIdent(info, base)
		if root == nil || !isParam(fi, root) || len(sites[fi.Obj]) == 0 {
			return false, ""
		}
		sig := fi.Obj.Type().(*types.Signature)
		idx := -1
		for i := 0; i < sig.Params().Len(); i++ {
			if sig.Params().At(i) == root {
				idx = i
			}
		}
		text := exprStr(base)
		if idx < 0 || !strings.HasPrefix(text, root.Name()) {
			return false, ""
		}
		for _, st := range sites[fi.Obj] {
			if idx >= len(st.call.Args) {
				return false, ""
			}
			bodies := core.BodiesOf(st.fi.Decl)
			bi := core.InnermostBody(bodies, st.call)
			if bi < 0 {
				return false, ""
			}
			fl := core.NewFlow(pk, bodies[bi].Block)
			want := exprStr(st.call.Args[idx]) + strings.TrimPrefix(text, root.Name())
			if ok, _ := guardedNonNilText(fl, info, st.call, want); !ok {
				return false, ""
			}
		}
		return true, "every in-package caller tests it before the call"
	}
	for _, fi := range p.Funcs(pk) {
		bodies := core.BodiesOf(fi.Decl)
		flows := map[*ast.BlockStmt]*core.Flow{}
		flowOf := func(n ast.Node) *core.Flow {
			bi := core.InnermostBody(bodies, n)
			if bi < 0 {
				return nil
			}
			b := bodies[bi].Block
			if flows[b] == nil {
				flows[b] = core.NewFlow(pk, b)
			}
			return flows[b]
		}
		// single-definition locals assigned from a nullable accessor
		localSrc := map[types.Object]string{}
		localDef := map[types.Object]ast.Node{}
		ast.Inspect(fi.Decl.Body, func(n ast.Node) bool {
			as, ok := n.(*ast.AssignStmt)
			if !ok || len(as.Rhs) != 1 {
				return true
			}
			if name, ok := accessorName(info, as.Rhs[0]); ok && len(as.Lhs) == 1 {
				if o := core.ObjOf(info, as.Lhs[0]); o != nil {
					if len(defsOf(fi, o)) == 1 {
						// an alias of an accessor that is known present at this point is present
						if fl := flowOf(as); fl != nil {
							if ok2, _ := guardedNonNil(fl, info, as, ast.Unparen(as.Rhs[0])); ok2 {
								return true
							}
						}
						localSrc[o] = name
						localDef[o] = as
					}
				}
			}
			return true
		})
		add := func(node ast.Node, base ast.Expr, source, how string) {
			u := &nilUse{fi: fi, node: node, base: base, source: source, how: how}
			fl := flowOf(node)
			if fl != nil {
				u.ok, u.idiom = guardedNonNil(fl, info, node, base)
			}
			if !u.ok {
				u.ok, u.idiom = callerGuards(fi, base)
			}
			out = append(out, u)
		}
		ast.Inspect(fi.Decl.Body, func(n ast.Node) bool {
			switch x := n.(type) {
			case *ast.SelectorExpr:
				base := ast.Unparen(x.X)
				source := ""
				if name, ok := accessorName(info, base); ok {
					source = name
				} else if o := core.ObjOf(info, base); o != nil && localSrc[o] != "" {
					// only uses after the aliasing assignment
					if fl := flowOf(x); fl != nil && localDef[o].Pos() < x.Pos() && fl.DominatesNode(localDef[o], x) {
						source = localSrc[o]
					}
				}
				if source == "" {
					return true
				}
				sel, ok := info.Selections[x]
				if !ok {
					return true
				}
				switch sel.Kind() {
				case types.FieldVal:
					add(x, base, source, "field "+x.Sel.Name)
				case types.MethodVal:
					if f, ok := sel.Obj().(*types.Func); ok {
						if safe[f] {
							return true
						}
						// a call of another nullable accessor / interface method on a nil pointer receiver panics only when
						// the method dereferences; methods on nil *T are fine when nil-safe (computed), else a use
						if _, isIface := sel.Recv().Underlying().(*types.Interface); isIface {
							add(x, base, source, "interface method "+x.Sel.Name)
							return true
						}
						add(x, base, source, "method "+x.Sel.Name)
					}
				}
			case *ast.StarExpr:
				if name, ok := accessorName(info, x.X); ok {
					add(x, ast.Unparen(x.X), name, "deref")
				}
			}
			return true
		})
	}
	return out
}

// guardedNonNil: a dominating branch establishes base != nil (same expression text), or an earlier
// `if base == nil { … }` whose body does not leave the function establishes it (G5), or the use sits in
// the right operand of `base != nil && …`.
func guardedNonNil(fl *core.Flow, info *types.Info, node ast.Node, base ast.Expr) (bool, string) {
	return guardedNonNilText(fl, info, node, exprStr(base))
}

func guardedNonNilText(fl *core.Flow, info *types.Info, node ast.Node, want string) (bool, string) {
	for _, g := range fl.GuardsOfNode(node) {
		for _, a := range g.Atoms() {
			if x, nonNil, ok := a.NilTest(info); ok && nonNil && exprStr(x) == want {
				return true, "dominating test " + want + " != nil"
			}
		}
	}
	// G5 establish
	established := false
	ast.Inspect(fl.Body, func(n ast.Node) bool {
		is, ok := n.(*ast.IfStmt)
		if !ok || is.End() > node.Pos() {
			return true
		}
		be, ok := ast.Unparen(is.Cond).(*ast.BinaryExpr)
		if !ok || be.Op != token.EQL || !core.IsNil(info, be.Y) || exprStr(be.X) != want {
			return true
		}
		if len(is.Body.List) == 0 {
			return true
		}
		// body assigns something (establishes) and does not end in return/continue/break/panic (handled by guards)
		switch is.Body.List[len(is.Body.List)-1].(type) {
		case *ast.ReturnStmt, *ast.BranchStmt:
			return true
		}
		if fl.DominatesNode(is.Cond, node) {
			established = true
		}
		return true
	})
	if established {
		return true, "established by an earlier `if " + want + " == nil { … assign … }`"
	}
	return false, ""
}

func shortFn(fi *core.FuncInfo) string { return strings.TrimPrefix(fname(fi), "") }

// nameNilUses: placeholder fields (spread substitutions not yet resolved) have Name == nil. Every
// dereference of <f>.Name where f iterates over some Map's Fields (or is an element of it) must be
// dominated by a test of <f>.Name against nil. Scope: package d2ir, where placeholders live.
func nameNilUses(p *core.Prog, pk *packages.Package) []*nilUse {
	info := pk.TypesInfo
	nameField := structField(p, "d2ir", "Field", "Name")
	fieldsField := structField(p, "d2ir", "Map", "Fields")
	var out []*nilUse
	if nameField == nil || fieldsField == nil {
		return nil
	}
	for _, fi := range p.Funcs(pk) {
		bodies := core.BodiesOf(fi.Decl)
		// loop variables ranging over <expr>.Fields, and variables assigned from <expr>.Fields[i]
		elems := map[types.Object]bool{}
		ast.Inspect(fi.Decl.Body, func(n ast.Node) bool {
			switch s := n.(type) {
			case *ast.RangeStmt:
				if core.FieldOf(info, s.X) == fieldsField && s.Value != nil {
					if o := core.ObjOf(info, s.Value); o != nil {
						elems[o] = true
					}
				}
			case *ast.AssignStmt:
				if len(s.Lhs) == 1 && len(s.Rhs) == 1 {
					if ix, ok := ast.Unparen(s.Rhs[0]).(*ast.IndexExpr); ok && core.FieldOf(info, ix.X) == fieldsField {
						if o := core.ObjOf(info, s.Lhs[0]); o != nil {
							elems[o] = true
						}
					}
				}
			}
			return true
		})
		if len(elems) == 0 {
			continue
		}
		ast.Inspect(fi.Decl.Body, func(n ast.Node) bool {
			sel, ok := n.(*ast.SelectorExpr)
			if !ok {
				return true
			}
			// sel = <f>.Name.<something>
			inner, ok := ast.Unparen(sel.X).(*ast.SelectorExpr)
			if !ok || core.FieldOf(info, inner) != nameField {
				return true
			}
			o := core.ObjOf(info, inner.X)
			if o == nil || !elems[o] {
				return true
			}
			u := &nilUse{fi: fi, node: sel, base: inner, source: "d2ir.Field.Name", how: "method " + sel.Sel.Name}
			bi := core.InnermostBody(bodies, sel)
			if bi >= 0 {
				fl := core.NewFlow(pk, bodies[bi].Block)
				u.ok, u.idiom = guardedNonNil(fl, info, sel, inner)
			}
			out = append(out, u)
			return true
		})
	}
	return out
}

