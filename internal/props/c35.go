package props

import (
	"fmt"
	"go/ast"
	"go/token"
	"go/types"
	"strings"

	"d2verif/internal/core"
)

func init() {
	register(&Prop{
		ID:       "C35",
		Title:    "Board links resolve to existing boards and are rewritten to the right files",
		Patterns: []string{"./d2cli", "./d2ir", "./d2compiler", "./d2graph", "./d2ast", "./d2format"},
		Explanation: "Decides the agreement conditions along the link pipeline: (1) writer/reader key agreement — the compiler stores a board link as d2format.Format of a key path (compileLink, extendLinks), so the CLI's link table must be keyed by a formatted key path as well: every child-board path passed down by resolveLinks and relink is built through d2format.Format (directly or by a helper), never by joining raw board names, and the six call sites use the same construction; " +
			"(2) resolveLinks and render derive the output file of a board, of its index and of its layers/scenarios/steps folders by the same statements (sibling agreement, variable by variable): a link is rewritten to the file render actually writes; " +
			"(3) validateBoardLinks clears the link and moves on for links that do not start at root, that name a missing board (hasBoard) and that point at the object's own board, recurses into all three board kinds, and runs before Compile returns; (4) compileLink and extendLinks store the absolute path as the formatted key path of scope/import path + link path.",
		NotCovered: "the underscore arithmetic of relative links, case differences between a link and the board's declared name, links inside imported files for every nesting",
		Technique:  "static analysis: producer/consumer key-construction agreement, sibling statement-shape agreement, guard-to-action pairing on the typed AST",
		Run:        runC35,
	})
}

// containsFormatOfKeyPath: the expression (or the return expression of the d2cli helper it calls) applies d2format.Format to a d2ast key path.
func containsFormatOfKeyPath(c *core.Check, fi *core.FuncInfo, e ast.Expr, depth int) bool {
	info := fi.Pkg.TypesInfo
	found := false
	ast.Inspect(e, func(n ast.Node) bool {
		call, ok := n.(*ast.CallExpr)
		if !ok {
			return true
		}
		if core.IsCallTo(info, call, "d2format.Format") && len(call.Args) == 1 && strings.Contains(exprStr(call.Args[0]), "KeyPath") {
			found = true
			return false
		}
		if f := core.CalleeOf(info, call); f != nil && depth < 2 {
			if callee := c.P.Decl(f); callee != nil && callee.Pkg == fi.Pkg && callee.Decl.Body != nil {
				ast.Inspect(callee.Decl.Body, func(m ast.Node) bool {
					if rs, ok := m.(*ast.ReturnStmt); ok && len(rs.Results) == 1 && containsFormatOfKeyPath(c, callee, rs.Results[0], depth+1) {
						found = true
					}
					return true
				})
			}
		}
		return true
	})
	return found
}

func runC35(c *core.Check) {
	c.Rule("C35.link-key", "the CLI's link table is keyed by formatted key paths, as the compiler writes links")
	c.Rule("C35.path-siblings", "resolveLinks and render derive output paths by the same statements")
	c.Rule("C35.validate", "validateBoardLinks drops non-root, missing and self links, recurses into every board kind and runs in Compile")
	c.Rule("C35.absolute", "compileLink and extendLinks store the formatted key path of the absolute board path")
	rl, rk, rd := mustFunc(c, "d2cli", "", "resolveLinks"), mustFunc(c, "d2cli", "", "relink"), mustFunc(c, "d2cli", "", "render")
	if rl == nil || rk == nil || rd == nil {
		return
	}
	// (1)
	shapes := map[string]bool{}
	n := 0
	for _, fi := range []*core.FuncInfo{rl, rk} {
		info := fi.Pkg.TypesInfo
		for _, call := range core.Calls(fi.Decl.Body, false) {
			if core.CalleeOf(info, call) != fi.Obj {
				continue
			}
			n++
			arg := call.Args[0]
			ok := containsFormatOfKeyPath(c, fi, arg, 0)
			raw := false
			ast.Inspect(arg, func(m ast.Node) bool {
				if cl, ok := m.(*ast.CallExpr); ok && core.IsCallTo(info, cl, "strings.Join") {
					raw = true
				}
				return true
			})
			sh := shapeOfExpr(info, arg)
			for _, kind := range []string{"layers", "scenarios", "steps"} {
				sh = strings.ReplaceAll(sh, `"`+kind+`"`, `"<kind>"`)
			}
			shapes[sh] = true
			c.Decide(ok && !raw, "C35.link-key", fmt.Sprintf("%s:child-path", fname(fi)), call.Pos(), "built through d2format.Format of a key path",
				"the child board's path is built from the raw board name ("+exprStr(arg)+") while the compiler stores links as formatted key paths: a link to a board whose name needs quoting (a dot, a space …) is never found in the table and stays an internal path instead of the board's file")
		}
	}
	if n != 6 {
		c.Fail("C35.link-key", "child-path:sites", rl.Decl.Pos(), fmt.Sprintf("found %d recursive calls in resolveLinks/relink, expected one per board kind in each", n))
	}
	c.Decide(len(shapes) == 1, "C35.link-key", "child-path:uniform", rl.Decl.Pos(), "all six call sites build the path the same way", fmt.Sprintf("resolveLinks and relink build child paths in %d different ways: a key registered by one is not the key looked up by the other", len(shapes)))

	// (2) sibling path derivations
	derive := func(fi *core.FuncInfo) map[string][]string {
		info := fi.Pkg.TypesInfo
		out := map[string][]string{}
		var walk func(stmts []ast.Stmt, cond string)
		walk = func(stmts []ast.Stmt, cond string) {
			for _, st := range stmts {
				switch s := st.(type) {
				case *ast.AssignStmt:
					for i, l := range s.Lhs {
						id, ok := l.(*ast.Ident)
						if !ok || !strings.HasSuffix(strings.ToLower(id.Name), "outputpath") || i >= len(s.Rhs) {
							continue
						}
						out[id.Name] = append(out[id.Name], cond+" "+s.Tok.String()+" "+shapeOfExprNamed(info, s.Rhs[i]))
					}
				case *ast.IfStmt:
					walk(s.Body.List, cond+"["+exprStr(s.Cond)+"]")
				}
			}
		}
		walk(fi.Decl.Body.List, "")
		return out
	}
	a, b := derive(rl), derive(rd)
	for _, v := range []string{"outputPath", "boardOutputPath", "layersOutputPath", "scenariosOutputPath", "stepsOutputPath"} {
		// render may have extra statements that do not assign the path (stdout check, RemoveAll); only assignments are compared
		same := len(a[v]) > 0 && strings.Join(a[v], "\n") == strings.Join(b[v], "\n")
		c.Decide(same, "C35.path-siblings", "resolveLinks~render:"+v, rl.Decl.Pos(), fmt.Sprintf("%d assignments, identical", len(a[v])),
			fmt.Sprintf("resolveLinks and render compute %s differently:\n      resolveLinks: %s\n      render:       %s\n    links are rewritten to a file render does not write", v, strings.Join(a[v], " ; "), strings.Join(b[v], " ; ")))
	}

	// (3) validate
	if vb := mustFunc(c, "d2compiler", "compiler", "validateBoardLinks"); vb != nil {
		info := vb.Pkg.TypesInfo
		fl := core.NewFlow(vb.Pkg, vb.Decl.Body)
		classify := func(s string, isTrue bool, drops map[string]bool) {
			switch {
			case strings.HasPrefix(s, "hasBoard(") && !isTrue:
				drops["missing"] = true
			case strings.Contains(s, "slices.Equal(") && isTrue && strings.Contains(s, "IDA()"):
				drops["self"] = true
			case strings.Contains(s, `"root"`) && ((strings.Contains(s, "!=") && isTrue) || (strings.Contains(s, "==") && !isTrue)):
				drops["non-root"] = true
			}
		}
		// the element kinds whose Link is cleared: objects, and connections
		for _, owner := range []string{"Object", "Edge"} {
			linkF := structField(c.P, "d2graph", owner, "Link")
			if owner == "Edge" && linkF == nil {
				// Link of a connection lives in the embedded Attributes
				linkF = structField(c.P, "d2graph", "Attributes", "Link")
			}
			drops := map[string]bool{}
			nclear := 0
			ast.Inspect(vb.Decl.Body, func(nd ast.Node) bool {
				as, ok := nd.(*ast.AssignStmt)
				if !ok || len(as.Lhs) != 1 || !core.IsNil(info, as.Rhs[0]) {
					return true
				}
				sel, ok := ast.Unparen(as.Lhs[0]).(*ast.SelectorExpr)
				if !ok || sel.Sel.Name != "Link" {
					return true
				}
				if t := info.TypeOf(sel.X); t == nil || !strings.HasSuffix(t.String(), "d2graph."+owner) {
					return true
				}
				nclear++
				for _, g := range fl.GuardsOfNode(as) {
					for _, at := range g.Atoms() {
						classify(exprStr(at.Cond), at.True, drops)
						// `!keep(…)`: the tests under which the helper answers false
						if call, ok := ast.Unparen(at.Cond).(*ast.CallExpr); ok && !at.True {
							if callee := core.CalleeOf(info, call); callee != nil && callee.Pkg() == vb.Pkg.Types {
								if h := c.P.Decl(callee); h != nil && h.Decl.Body != nil {
									hfl := core.NewFlow(h.Pkg, h.Decl.Body)
									for _, ex := range hfl.Exits() {
										if ex.Ret == nil || len(ex.Ret.Results) != 1 || exprStr(ex.Ret.Results[0]) != "false" {
											continue
										}
										for _, hg := range hfl.GuardsOf(ex.Blk) {
											for _, ha := range hg.Atoms() {
												classify(exprStr(ha.Cond), ha.True, drops)
											}
										}
									}
								}
							}
						}
					}
				}
				return true
			})
			_ = linkF
			for _, k := range []string{"non-root", "missing", "self"} {
				key := "validateBoardLinks:drop-" + k
				if owner == "Edge" {
					key = "validateBoardLinks:connections:drop-" + k
				}
				c.Decide(drops[k] && nclear > 0, "C35.validate", key, vb.Decl.Pos(), "Link = nil under that test", "validateBoardLinks no longer clears "+strings.ToLower(owner)+" links of kind `"+k+"`: the diagram keeps a link that does not lead to another existing board")
			}
		}
		kinds := map[string]bool{}
		ast.Inspect(vb.Decl.Body, func(nd ast.Node) bool {
			rs, ok := nd.(*ast.RangeStmt)
			if !ok {
				return true
			}
			for _, call := range core.Calls(rs.Body, false) {
				if core.CalleeOf(info, call) == vb.Obj {
					if sel, ok := rs.X.(*ast.SelectorExpr); ok {
						kinds[sel.Sel.Name] = true
					}
				}
			}
			return true
		})
		c.Decide(kinds["Layers"] && kinds["Scenarios"] && kinds["Steps"], "C35.validate", "validateBoardLinks:recurses", vb.Decl.Pos(), "layers, scenarios and steps", fmt.Sprintf("validateBoardLinks recurses only into %v: links inside the other board kinds are never validated", kinds))
		// some function on Compile's path validates before its success return
		okCall := false
		if pkc := c.P.Pkg("d2compiler"); pkc != nil {
			comp := mustFunc(c, "d2compiler", "", "Compile")
			for _, caller := range c.P.Funcs(pkc) {
				if caller == vb || comp == nil {
					continue
				}
				calls := callsIn(caller, false, "d2compiler.(*compiler).validateBoardLinks")
				if len(calls) == 0 {
					continue
				}
				// caller is Compile or called by Compile
				reach := caller == comp
				for _, cc := range core.Calls(comp.Decl.Body, true) {
					if core.CalleeOf(comp.Pkg.TypesInfo, cc) == caller.Obj {
						reach = true
					}
				}
				if !reach {
					continue
				}
				cfl := core.NewFlow(caller.Pkg, caller.Decl.Body)
				all := true
				nsucc := 0
				for _, ex := range cfl.Exits() {
					if ex.Ret == nil || len(ex.Ret.Results) == 0 || !core.IsNil(caller.Pkg.TypesInfo, ex.Ret.Results[len(ex.Ret.Results)-1]) {
						continue
					}
					nsucc++
					if pass, _ := cfl.MustPassBefore(ex.Blk, ex.Idx, func(nd ast.Node) bool {
						cl, ok := nd.(*ast.CallExpr)
						return ok && core.IsCallTo(caller.Pkg.TypesInfo, cl, "d2compiler.(*compiler).validateBoardLinks")
					}); !pass {
						all = false
					}
				}
				if all && nsucc > 0 {
					okCall = true
				}
			}
		}
		c.Decide(okCall, "C35.validate", "Compile:validates-links-before-success", vb.Decl.Pos(), "every success return on Compile's path passes validateBoardLinks", "a compiled graph can be returned without its board links having been validated")
	}
	// hasBoard matches the kind keyword of each path segment with the board list of that kind
	if hb := mustFunc(c, "d2compiler", "", "hasBoard"); hb != nil {
		kinds := map[string]string{}
		ast.Inspect(hb.Decl.Body, func(nd ast.Node) bool {
			cc, ok := nd.(*ast.CaseClause)
			if !ok || len(cc.List) != 1 {
				return true
			}
			tv, ok := hb.Pkg.TypesInfo.Types[cc.List[0]]
			if !ok || tv.Value == nil {
				return true
			}
			kw := strings.Trim(tv.Value.ExactString(), `"`)
			for _, st := range cc.Body {
				if rs, ok := st.(*ast.RangeStmt); ok {
					if sel, ok := rs.X.(*ast.SelectorExpr); ok {
						kinds[kw] = sel.Sel.Name
					}
				}
			}
			return true
		})
		okK := kinds["layers"] == "Layers" && kinds["scenarios"] == "Scenarios" && kinds["steps"] == "Steps"
		c.Decide(okK, "C35.validate", "hasBoard:kind-matches-list", hb.Decl.Pos(), "layers→Layers, scenarios→Scenarios, steps→Steps", fmt.Sprintf("hasBoard does not look each kind keyword up in the board list of that kind (%v): a link such as layers.s where s is a scenario is accepted although no such board exists", kinds))
	}
	// (4) absolute
	for _, name := range []string{"compileLink", "extendLinks"} {
		fi := mustFunc(c, "d2ir", "compiler", name)
		if fi == nil {
			continue
		}
		info := fi.Pkg.TypesInfo
		ok := false
		ast.Inspect(fi.Decl.Body, func(nd ast.Node) bool {
			as, ok2 := nd.(*ast.AssignStmt)
			if !ok2 || len(as.Lhs) != 1 || !strings.HasSuffix(exprStr(as.Lhs[0]), ".Primary_.Value") {
				return true
			}
			// the right-hand side formats a key path made from an appended IDA
			formats := false
			ast.Inspect(as.Rhs[0], func(m ast.Node) bool {
				if call, ok := m.(*ast.CallExpr); ok && core.IsCallTo(info, call, "d2format.Format") {
					formats = true
				}
				if id, ok := m.(*ast.Ident); ok {
					if o := core.ObjOf(info, id); o != nil {
						if d := singleDef(fi, o); d != nil {
							if call, ok := ast.Unparen(d.Rhs).(*ast.CallExpr); ok && core.IsCallTo(info, call, "d2format.Format") {
								formats = true
							}
						}
					}
				}
				return true
			})
			if formats {
				ok = true
			}
			return true
		})
		mk := len(callsIn(fi, false, "d2ast.MakeKeyPathString")) > 0
		c.Decide(ok && mk, "C35.absolute", name+":stores-formatted-key-path", fi.Decl.Pos(), "Primary_.Value = d2format.Format(MakeKeyPathString(absolute IDA))", name+" no longer stores the link as the formatted absolute key path")
	}
}

// shapeOfExprNamed is shapeOfExpr but keeps the names of local variables (siblings that use the same names are compared literally).
func shapeOfExprNamed(info *types.Info, e ast.Expr) string {
	return types.ExprString(e)
}

var _ = token.NoPos
