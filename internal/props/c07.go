package props

import (
	"fmt"
	"go/ast"
	"go/token"
	"go/types"
	"strings"

	"d2verif/internal/core"
)

func init() {
	register(&Prop{
		ID:       "C07",
		Title:    "Compilation is total: a graph or positioned errors, never a crash or hang",
		Patterns: []string{"./d2ir", "./d2compiler", "./d2graph", "./d2ast", "./d2parser", "./d2format", "./d2target", "./d2renderers/d2latex", "./d2renderers/d2svg", "./lib/jsrunner", "./lib/textmeasure", "./d2themes", "./lib/svg", "./lib/color"},
		Explanation: "Decides crash- and hang-freedom clauses over d2ir, d2compiler and d2graph: (1) no dereference of a possibly-absent IR value (Primary(), Map(), GetField(), … — reviewed accessor table) that is not dominated by a presence test on the same accessor expression, including short-circuit guards, aliases, establish-then-use and guards applied by every in-package caller; " +
			"(2) no dereference of Field.Name of an element of some Map.Fields without a nil test (placeholder fields of unresolved spread substitutions); (3) type switches over sealed d2ast/d2ir interfaces that leave a nil-able variable unassigned for an uncovered implementer do not consume it unguarded; " +
			"(4) offsets found by strings.Index* are applied only to the string searched; (5) every unchecked assertion err.(d2ast.Error) only sees errors that all producers construct with d2parser.Errorf; (6) passes that assume an error-free graph (validateKeys) run only under len(errors) == 0; " +
			"(7) recursion is cut: class application in d2compiler.compileMap is guarded by a membership test on the set of classes being applied (updated before the recursive call), and import loading is guarded as in C14 (same rules, run here too); (8) the label text handed to MathJax during SetDimensions cannot be evaluated as JavaScript (C17's rule restricted to d2latex).",
		NotCovered: "general index arithmetic in d2ir/d2graph, panics inside dependencies (goldmark, xml), stack depth for pathological nesting, the running-time bound itself; purity of repeated accessor calls is assumed (no store to the backing field between test and use)",
		Technique:  "static analysis: guard-dominance on go/cfg over typed AST (nil-guard rules), sealed-interface switch coverage, SSA index provenance, return-type closure of error producers, SSA taint for the JS sink",
		Run:        runC07,
	})
}

// reviewed exceptions for the nil-guard rule; key = function|accessor|use.
var nilExceptions = map[string]string{
	"d2compiler.compileConfig|d2ir.(*Field).Primary|field Value":                     "every d2-config key reaches compileConfig only after d2ir.validateConfigs reported `needs a value` for a missing primary (compile stops on that error before compileConfig runs)",
	"d2ir.(*compiler).resolveSubstitutions|d2ir.(Node).Primary|field Value":           "callers pass a Field/Edge only under Primary() != nil, or a *Scalar, whose Primary() is itself",
	"d2ir.(*Map).ensureField|d2ir.(*Field).Map|method ensureField":                    "f.Composite was just established as a *Map two statements above; an array composite was rejected earlier in the same function",
	"d2ir.(*Map).DeleteFieldKey|d2ir.(*Field).Map|field Fields":                          "parent is the field whose map contains the field being deleted, so parent.Map() is that map",
}

// errProducerOK: every non-nil error returned by fn is a d2ast.Error built by d2parser.Errorf.
func errProducerOK(p *core.Prog, fi *core.FuncInfo, memo map[*types.Func]string, depth int) string {
	if fi == nil {
		return "producer has no source in the analysed packages"
	}
	if v, ok := memo[fi.Obj]; ok {
		return v
	}
	memo[fi.Obj] = "" // optimistic on recursion
	info := fi.Pkg.TypesInfo
	sig := fi.Obj.Type().(*types.Signature)
	ei := -1
	for i := 0; i < sig.Results().Len(); i++ {
		if types.TypeString(sig.Results().At(i).Type(), nil) == "error" {
			ei = i
		}
	}
	if ei < 0 {
		return ""
	}
	why := ""
	ast.Inspect(fi.Decl.Body, func(n ast.Node) bool {
		if _, isLit := n.(*ast.FuncLit); isLit {
			return false
		}
		ret, ok := n.(*ast.ReturnStmt)
		if !ok || why != "" || ei >= len(ret.Results) {
			return true
		}
		if w := errExprOK(p, fi, ret.Results[ei], memo, depth); w != "" {
			why = fmt.Sprintf("%s returns %s at %s: %s", fname(fi), exprStr(ret.Results[ei]), p.Pos(ret.Pos()), w)
		}
		_ = info
		return true
	})
	memo[fi.Obj] = why
	return why
}

func errExprOK(p *core.Prog, fi *core.FuncInfo, e ast.Expr, memo map[*types.Func]string, depth int) string {
	info := fi.Pkg.TypesInfo
	e = ast.Unparen(e)
	if core.IsNil(info, e) {
		return ""
	}
	if t := info.TypeOf(e); t != nil && strings.HasSuffix(types.TypeString(t, nil), "d2ast.Error") {
		return ""
	}
	switch x := e.(type) {
	case *ast.CallExpr:
		f := core.CalleeOf(info, x)
		if f == nil {
			return "dynamic call"
		}
		if core.FuncName(f) == "d2parser.Errorf" {
			return ""
		}
		if f.Pkg() != nil && strings.HasPrefix(f.Pkg().Path(), core.Mod) && depth < 6 {
			return errProducerOK(p, p.Decl(f), memo, depth+1)
		}
		return "it is built by " + core.FuncName(f) + ", not d2parser.Errorf"
	case *ast.Ident:
		o := core.ObjOf(info, x)
		if o == nil {
			return "unresolved"
		}
		ds := defsOf(fi, o)
		if len(ds) == 0 {
			return "" // named result never assigned: nil
		}
		// the Go idiom `v, err := f(); if err != nil { return err }`: the definition that reaches a use is the
		// closest one before it
		var last *defSite
		for i := range ds {
			if ds[i].Stmt.Pos() < e.Pos() && (last == nil || ds[i].Stmt.Pos() > last.Stmt.Pos()) {
				last = &ds[i]
			}
		}
		if last != nil {
			ds = []defSite{*last}
		}
		for _, d := range ds {
			if d.Rhs == nil {
				continue
			}
			if call, ok := ast.Unparen(d.Rhs).(*ast.CallExpr); ok && d.Multi {
				f := core.CalleeOf(info, call)
				if f == nil {
					return "dynamic call"
				}
				if f.Pkg() != nil && strings.HasPrefix(f.Pkg().Path(), core.Mod) && depth < 6 {
					if w := errProducerOK(p, p.Decl(f), memo, depth+1); w != "" {
						return w
					}
					continue
				}
				return "it comes from " + core.FuncName(f)
			}
			if w := errExprOK(p, fi, d.Rhs, memo, depth+1); w != "" {
				return w
			}
		}
		return ""
	}
	return "unsupported error expression"
}

func runC07(c *core.Check) {
	c.Rule("C07.nil", "dereferences of possibly-absent IR values are dominated by a presence test on the same accessor expression")
	c.Rule("C07.name-nil", "Field.Name of an element of Map.Fields is tested against nil before it is dereferenced (placeholder fields)")
	c.Rule("C07.sealed", "a sealed-interface type switch that can fall through for an uncovered implementer does not leave a consumed variable nil")
	c.Rule("C07.strindex", "offsets from strings.Index* are applied to the searched string only")
	c.Rule("C07.errtype", "unchecked err.(d2ast.Error) assertions only see errors built by d2parser.Errorf")
	c.Rule("C07.validate-guard", "passes that assume an error-free graph run only when the error list is empty")
	c.Rule("C07.recursion", "class application recursion is cut by a membership test on the classes being applied")
	c.Rule("C07.js", "latex text cannot be evaluated as JavaScript during SetDimensions")
	p := c.P
	safe := map[*types.Func]bool{}
	for _, rel := range []string{"d2ir", "d2compiler", "d2graph", "d2ast"} {
		if pk := p.Pkg(rel); pk != nil {
			for f := range nilSafeMethods(p, pk) {
				safe[f] = true
			}
		} else {
			c.Broken("package %s not loaded", rel)
		}
	}
	for _, rel := range []string{"d2ir", "d2compiler", "d2graph"} {
		pk := p.Pkg(rel)
		if pk == nil {
			continue
		}
		for _, u := range nilUsesIn(p, pk, safe) {
			ek := fname(u.fi) + "|" + u.source + "|" + u.how
			key := "nil:" + ek + ":" + exprStr(u.base)
			switch {
			case u.ok:
				c.Pass("C07.nil", key, u.node.Pos(), u.idiom)
			case nilExceptions[ek] != "":
				c.Except("C07.nil", key, u.node.Pos(), nilExceptions[ek])
			default:
				c.Fail("C07.nil", key, u.node.Pos(), fmt.Sprintf("%s can be nil (%s) and is used here (%s) without a dominating presence test: a diagram that leaves it absent crashes the compiler", exprStr(u.base), nullableAccessors[u.source], u.how))
			}
		}
	}
	c.Floor("C07.nil", 80)
	if pk := p.Pkg("d2ir"); pk != nil {
		for _, u := range nameNilUses(p, pk) {
			key := "name-nil:" + fname(u.fi) + ":" + exprStr(u.base) + "." + strings.TrimPrefix(u.how, "method ")
			c.Decide(u.ok, "C07.name-nil", key, u.node.Pos(), u.idiom, exprStr(u.base)+" is nil for the placeholder field of an unresolved spread substitution ('...${x}'); this loop over Map.Fields dereferences it without a test")
		}
	}
	c.Floor("C07.name-nil", 20)

	for _, rel := range []string{"d2ir", "d2compiler", "d2graph"} {
		pk := p.Pkg(rel)
		if pk == nil {
			continue
		}
		for _, ss := range sealedSwitchesIn(p, pk) {
			key := "sealed:" + fname(ss.fi) + ":" + ss.iface.Obj().Name()
			bad := len(ss.lateVars) > 0 && len(ss.uncovered) > 0 && !ss.hasDefault
			c.Decide(!bad, "C07.sealed", key, ss.sw.Pos(), fmt.Sprintf("covered or harmless (uncovered %v, default %v, nil-able consumed vars %v)", ss.uncovered, ss.hasDefault, ss.lateVars),
				fmt.Sprintf("no arm is taken for %v, which leaves %v nil, and it is consumed after the switch without a nil test", ss.uncovered, ss.lateVars))
		}
	}
	c.Floor("C07.sealed", 10)

	for _, u := range strIndexUses(p, []string{"d2ir", "d2compiler", "d2graph", "d2ast", "d2format", "d2parser"}) {
		key := "strindex:" + strings.TrimPrefix(u.fn.String(), core.Mod+"/") + ":" + u.finder
		c.Decide(u.ok, "C07.strindex", key, u.pos, "same string", u.detail+": slice bounds out of range for inputs whose transformed length differs")
	}
	c.Floor("C07.strindex", 1)

	// (5) error type closure
	memo := map[*types.Func]string{}
	for _, rel := range []string{"d2ir", "d2compiler"} {
		pk := p.Pkg(rel)
		if pk == nil {
			continue
		}
		for _, fi := range p.Funcs(pk) {
			info := pk.TypesInfo
			ast.Inspect(fi.Decl.Body, func(n ast.Node) bool {
				// skip comma-ok forms and type switches
				switch s := n.(type) {
				case *ast.AssignStmt:
					if len(s.Lhs) == 2 && len(s.Rhs) == 1 {
						if _, ok := s.Rhs[0].(*ast.TypeAssertExpr); ok {
							return false
						}
					}
				case *ast.TypeSwitchStmt:
					return true
				}
				ta, ok := n.(*ast.TypeAssertExpr)
				if !ok || ta.Type == nil {
					return true
				}
				if t := info.TypeOf(ta.Type); t == nil || !strings.HasSuffix(types.TypeString(t, nil), "d2ast.Error") {
					return true
				}
				why := errExprOK(p, fi, ta.X, memo, 0)
				c.Decide(why == "", "C07.errtype", "errtype:"+fname(fi)+":"+exprStr(ta.X), ta.Pos(), "every producer builds the error with d2parser.Errorf",
					"unchecked assertion to d2ast.Error panics: "+why)
				return true
			})
		}
	}
	c.Floor("C07.errtype", 5)

	// (6) validate* passes under an empty error list
	if cb := mustFunc(c, "d2compiler", "compiler", "compileBoard"); cb != nil {
		info := cb.Pkg.TypesInfo
		fl := core.NewFlow(cb.Pkg, cb.Decl.Body)
		for _, call := range callsIn(cb, false, "d2compiler.(*compiler).validateKeys") {
			ok := false
			for _, g := range fl.GuardsOfNode(call) {
				for _, a := range g.Atoms() {
					be, isBin := ast.Unparen(a.Cond).(*ast.BinaryExpr)
					if !isBin {
						continue
					}
					l, isLen := ast.Unparen(be.X).(*ast.CallExpr)
					if !isLen || exprStr(l.Fun) != "len" || !strings.HasSuffix(exprStr(l.Args[0]), ".err.Errors") {
						continue
					}
					tv, isConst := info.Types[be.Y]
					if !isConst || tv.Value == nil || tv.Value.ExactString() != "0" {
						continue
					}
					if (be.Op == token.EQL && a.True) || (be.Op == token.GTR && !a.True) || (be.Op == token.NEQ && !a.True) {
						ok = true
					}
				}
			}
			c.Decide(ok, "C07.validate-guard", "compileBoard:validateKeys", call.Pos(), "guarded by len(c.err.Errors) == 0",
				"validateKeys dereferences attributes that exist only when compilation reported no error (WidthAttr/HeightAttr of circles and squares); it must run only when the error list is empty — a count of *new* errors misses errors dropped by de-duplication")
		}
		c.Floor("C07.validate-guard", 1)
	}

	// (7) class recursion
	if cm := mustFunc(c, "d2compiler", "compiler", "compileMap"); cm != nil {
		info := cm.Pkg.TypesInfo
		fl := core.NewFlow(cm.Pkg, cm.Decl.Body)
		n := 0
		for _, call := range callsIn(cm, false, "d2compiler.(*compiler).compileMap") {
			if len(call.Args) != 2 {
				continue
			}
			arg := core.ObjOf(info, call.Args[1])
			if arg == nil {
				continue
			}
			// is the argument a class map (result of GetClassMap)?
			isClass := false
			for _, d := range defsOf(cm, arg) {
				if d.Rhs != nil {
					if dc, ok := ast.Unparen(d.Rhs).(*ast.CallExpr); ok && core.IsCallTo(info, dc, "d2ir.(*Map).GetClassMap") {
						isClass = true
					}
				}
			}
			if !isClass {
				continue
			}
			n++
			guarded, marked := false, false
			for _, g := range fl.GuardsOfNode(call) {
				for _, a := range g.Atoms() {
					o := core.ObjOf(info, a.Cond)
					if o == nil || a.True {
						continue
					}
					// `_, applying := c.set[classMap]`
					for _, d := range defsOf(cm, o) {
						if ix, ok := ast.Unparen(d.Rhs).(*ast.IndexExpr); ok && d.Multi && core.ObjOf(info, ix.Index) == arg {
							guarded = true
						}
					}
				}
			}
			ast.Inspect(cm.Decl.Body, func(m ast.Node) bool {
				as, ok := m.(*ast.AssignStmt)
				if !ok || len(as.Lhs) != 1 {
					return true
				}
				if ix, ok := ast.Unparen(as.Lhs[0]).(*ast.IndexExpr); ok && core.ObjOf(info, ix.Index) == arg && as.Pos() < call.Pos() && fl.DominatesNode(as, call) {
					marked = true
				}
				return true
			})
			c.Decide(guarded && marked, "C07.recursion", "compileMap:class-recursion", call.Pos(), "membership test + mark before the recursive call",
				"compileMap applies a class by recursing into the class's map without checking that this class is not already being applied: a class that (indirectly) lists itself recurses until the stack overflows")
		}
		if n == 0 {
			c.Fail("C07.recursion", "compileMap:class-recursion:none", cm.Decl.Pos(), "no recursive class application found: slot unresolved")
		}
	}
	// import recursion: same rules as C14
	runC14(c)

	// (8) latex → JS
	runJSClause(c, "C07.js", []string{"d2renderers/d2latex", "lib/jsrunner", "d2graph", "d2renderers/d2svg", "d2target", "d2themes", "lib/svg", "lib/color"}, map[string]bool{"d2renderers/d2latex": true}, 3, 1)
}
