package props

import (
	"fmt"
	"go/ast"
	"go/token"
	"go/types"
	"sort"
	"strings"

	"d2verif/internal/core"
)

func init() {
	register(&Prop{
		ID:       "C47",
		Title:    "Embedded fonts cover every character drawn with them",
		Patterns: []string{"./d2renderers/...", "./d2themes/...", "./lib/color", "./lib/svg", "./d2target", "./lib/textmeasure", "./lib/jsrunner", "./lib/font"},
		Explanation: "Decides field-set inclusion between what is drawn and what is measured for font subsetting: the set of d2target field paths (e.g. Connection.SrcLabel.Label) from which the renderers derive strings that reach an XML *text* position — computed by the origin-tracking slice of the taint engine over d2svg, appendix and d2sketch — is included in the set of field paths that flow into the string returned by Diagram.GetCorpus; " +
			"GetNestedCorpus recurses into Layers, Scenarios and Steps; and the subsetting call falls back to the full font encoding on error. Also the no-filter clause: on the way from the corpus to the subset font's character map (de-duplication in Font.GetEncodedSubset, rune numbering in font.UTF8CutFont, cmap pairs in utf8FontFile.parseSymbols) each loop records every element of its input under no other condition than a membership test of that element, and never skips one; and the loops of GetCorpus / GetNestedCorpus over shapes, connections, class fields and methods, table columns and nested boards skip nothing.",
		NotCovered: "the subsetter's glyph closure (ligatures, composite glyphs), characters added by the renderer itself (constants are ASCII: list markers, ellipsis), fonts of markdown/latex content rendered by goldmark/MathJax",
		Technique:  "static analysis: origin-tracking backward slice on go/ssa on both sides, set inclusion",
		Run:        runC47,
	})
}

// drawn text that is deliberately outside the corpus, with the reason.
var corpusExempt = map[string]string{
	"Shape.Icon": "icon URL: drawn as an <image href>, not as glyphs",
}

// runC47NoFilter: between the corpus and the subset font's character map every character is passed on. The three
// loops of the chain (de-duplication in GetEncodedSubset, rune numbering in UTF8CutFont, cmap pairs in
// parseSymbols) record each element of their input under no other condition than a membership test of that very
// element (already seen / present in the font's own dictionary), and never skip an element.
func runC47NoFilter(c *core.Check) {
	c.Rule("C47.no-filter", "the corpus-to-cmap chain records every character: the only conditions are membership tests of the character itself")
	type site struct{ pkg, recv, name string }
	n := 0
	for _, st := range []site{{"d2renderers/d2fonts", "Font", "GetEncodedSubset"}, {"lib/font", "", "UTF8CutFont"}, {"lib/font", "utf8FontFile", "parseSymbols"}} {
		fi := mustFunc(c, st.pkg, st.recv, st.name)
		if fi == nil {
			continue
		}
		info := fi.Pkg.TypesInfo
		// the first range loop over a parameter
		params := map[types.Object]bool{}
		sig := fi.Obj.Type().(*types.Signature)
		for i := 0; i < sig.Params().Len(); i++ {
			params[sig.Params().At(i)] = true
		}
		var loop *ast.RangeStmt
		ast.Inspect(fi.Decl.Body, func(x ast.Node) bool {
			if rs, ok := x.(*ast.RangeStmt); ok && loop == nil && params[core.ObjOf(info, rs.X)] {
				loop = rs
			}
			return loop == nil
		})
		key := "no-filter:" + fname(fi)
		if loop == nil || loop.Value == nil {
			c.Fail("C47.no-filter", key, fi.Decl.Pos(), "no loop over the input parameter found: the rule cannot be instantiated")
			continue
		}
		elem := core.ObjOf(info, loop.Value)
		n++
		// (a) no element is skipped
		bad := ""
		ast.Inspect(loop.Body, func(x ast.Node) bool {
			if _, ok := x.(*ast.FuncLit); ok {
				return false
			}
			if br, ok := x.(*ast.BranchStmt); ok && bad == "" {
				bad = fmt.Sprintf("the loop has a %s (line %d)", br.Tok, c.P.Fset.Position(br.Pos()).Line)
			}
			return true
		})
		// (b) records keyed by / made of the element are guarded by membership tests of the element only
		fl := core.NewFlow(fi.Pkg, fi.Decl.Body)
		nrec := 0
		ast.Inspect(loop.Body, func(x ast.Node) bool {
			as, ok := x.(*ast.AssignStmt)
			if !ok || bad != "" {
				return true
			}
			records := false
			for _, l := range as.Lhs {
				if ix, ok := ast.Unparen(l).(*ast.IndexExpr); ok && core.ObjOf(info, ix.Index) == elem {
					records = true // M[elem] = …
				}
			}
			for _, r := range as.Rhs {
				if core.Contains(r, func(y ast.Node) bool { id, ok := y.(*ast.Ident); return ok && info.Uses[id] == elem }) {
					if _, isIdx := ast.Unparen(as.Lhs[0]).(*ast.IndexExpr); isIdx || as.Tok == token.ASSIGN {
						records = true // M[k] = f(elem), s = s + string(elem)
					}
				}
			}
			if !records {
				return true
			}
			nrec++
			for _, g := range fl.GuardsOfNode(as) {
				if g.Cond.Pos() < loop.Body.Pos() || g.Cond.End() > loop.Body.End() {
					continue
				}
				for _, a := range g.Atoms() {
					if !membershipOnly(info, fi, a.Cond, elem) {
						bad = fmt.Sprintf("%s is recorded only when %s", exprStr(as.Lhs[0]), exprStr(a.Cond))
					}
				}
			}
			return true
		})
		if bad == "" && nrec == 0 {
			bad = "the loop records nothing about its elements"
		}
		c.Decide(bad == "", "C47.no-filter", key, loop.Pos(), fmt.Sprintf("every element of %s is recorded (%d records, membership tests only)", exprStr(loop.X), nrec),
			fmt.Sprintf("%s drops characters on the way from the corpus to the subset font's character map (%s): a character that is drawn with the embedded font but filtered here has no glyph in it and is rendered with a fallback font", fname(fi), bad))
	}
	if n < 3 {
		c.Fail("C47.no-filter", "no-filter:inventory", token.NoPos, fmt.Sprintf("only %d of the 3 chain loops found", n))
	}
}

// membershipOnly: the condition is a comma-ok flag (or its negation) of a map lookup keyed by elem.
func membershipOnly(info *types.Info, fi *core.FuncInfo, cond ast.Expr, elem types.Object) bool {
	cond = ast.Unparen(cond)
	if u, ok := cond.(*ast.UnaryExpr); ok && u.Op == token.NOT {
		cond = ast.Unparen(u.X)
	}
	// seen[elem] used directly as the condition
	if ix, ok := cond.(*ast.IndexExpr); ok && core.ObjOf(info, ix.Index) == elem {
		if _, isMap := info.TypeOf(ix.X).Underlying().(*types.Map); isMap {
			return true
		}
	}
	id, ok := cond.(*ast.Ident)
	if !ok {
		return false
	}
	flag := info.Uses[id]
	found := false
	ast.Inspect(fi.Decl.Body, func(n ast.Node) bool {
		as, ok := n.(*ast.AssignStmt)
		if !ok || len(as.Lhs) != 2 || len(as.Rhs) != 1 {
			return true
		}
		if core.ObjOf(info, as.Lhs[1]) != flag {
			return true
		}
		if ix, ok := ast.Unparen(as.Rhs[0]).(*ast.IndexExpr); ok && core.ObjOf(info, ix.Index) == elem {
			if _, isMap := info.TypeOf(ix.X).Underlying().(*types.Map); isMap {
				found = true
			}
		}
		return true
	})
	return found
}

func runC47(c *core.Check) {
	runC47NoFilter(c)
	c.Rule("C47.visit-all", "the corpus loops visit every shape, connection and nested board")
	{
		nv := 0
		for _, name := range []string{"GetCorpus", "GetNestedCorpus"} {
			if fi := mustFunc(c, "d2target", "Diagram", name); fi != nil {
				nv += loopsVisitAll(c, "C47.visit-all", fi, []string{"Shapes", "Connections", "Layers", "Scenarios", "Steps", "Fields", "Methods", "Columns"}, "the text of a skipped element is drawn with the embedded font but its characters are not in the subset")
			}
		}
		if nv < 5 {
			c.Fail("C47.visit-all", "visit-all:inventory", token.NoPos, fmt.Sprintf("only %d corpus loops found", nv))
		}
	}
	c.Rule("C47.corpus", "field paths drawn as text ⊆ field paths collected by GetCorpus")
	c.Rule("C47.nested", "GetNestedCorpus recurses into layers, scenarios and steps")
	c.Rule("C47.fallback", "GetEncodedSubset returns the full encoding when subsetting fails")
	cfg := xmlTaintConfig()
	cfg.trackOrigins = true
	// the corpus itself feeds the font subsetter, whose output (an encoded font) is written into the document:
	// that is not text being drawn
	cfg.originKill = map[string]bool{"(oss.terrastruct.com/d2/d2renderers/d2fonts.Font).GetEncodedSubset": true}
	e := newTaintEngine(c.P, cfg, append(append([]string{}, xmlScope...), "d2target"))
	// corpus side
	gc := mustFunc(c, "d2target", "Diagram", "GetCorpus")
	if gc == nil {
		return
	}
	gk := e.fnKind(c.P.SSAFunc(gc), 0, 0)
	corpus := toSet(gk.orig)
	// methods of model types that GetCorpus calls to obtain text (cf.Text(0), c.Texts(0), c.ConstraintAbbr()):
	// the receiver fields those methods read are collected too
	ginfo := gc.Pkg.TypesInfo
	for _, call := range core.Calls(gc.Decl.Body, true) {
		f := core.CalleeOf(ginfo, call)
		if f == nil || f.Pkg() != gc.Pkg.Types {
			continue
		}
		mfi := c.P.Decl(f)
		if mfi == nil || mfi.Decl.Recv == nil || len(mfi.Decl.Recv.List) == 0 || len(mfi.Decl.Recv.List[0].Names) == 0 {
			continue
		}
		recv := ginfo.Defs[mfi.Decl.Recv.List[0].Names[0]]
		rt := namedOf(recv.Type())
		if rt == nil {
			continue
		}
		ast.Inspect(mfi.Decl.Body, func(n ast.Node) bool {
			sel, ok := n.(*ast.SelectorExpr)
			if !ok || rootIdent(ginfo, sel) != recv {
				return true
			}
			if core.FieldOf(ginfo, sel) != nil {
				p := exprStr(sel)
				corpus[rt.Obj().Name()+p[strings.Index(p, "."):]] = true
			}
			return true
		})
	}
	if len(corpus) < 6 {
		c.Broken("GetCorpus: only %d contributing field paths found (%v)", len(corpus), gk.orig)
		return
	}
	c.Note("corpus field paths: %s", strings.Join(gk.orig, ", "))
	drawn := map[string]string{}
	for _, r := range e.xmlSinks() {
		if r.ctx != ctxText {
			continue
		}
		if r.fn.Pkg != nil && core.RelPkg(r.fn.Pkg.Pkg.Path()) == "d2target" {
			continue
		}
		for _, o := range r.kind.orig {
			if _, seen := drawn[o]; !seen {
				drawn[o] = c.P.Pos(r.pos) + " in " + strings.TrimPrefix(r.fn.String(), core.Mod+"/")
			}
		}
	}
	if len(drawn) < 5 {
		c.Broken("only %d drawn field paths found", len(drawn))
	}
	keys := sortedKeys(drawn)
	for _, o := range keys {
		// only textual leaves matter: numeric/bool/position fields never carry glyphs of user text
		leaf := o[strings.LastIndex(o, ".")+1:]
		switch leaf {
		case "Label", "Text", "Tooltip", "Link", "PrettyLink", "Name", "Type", "Constraint", "Language":
		default:
			c.PassTrivial("C47.corpus", "drawn:"+o, 0, "not a text-bearing field")
			continue
		}
		switch {
		case corpus[o]:
			c.Pass("C47.corpus", "drawn:"+o, 0, "in corpus; drawn at "+drawn[o])
		case corpusExempt[o] != "":
			c.Except("C47.corpus", "drawn:"+o, 0, corpusExempt[o])
		default:
			// a path drawn under one access path may be collected under an equivalent one (Shape.Label vs Text.Label through embedding)
			alt := false
			for g := range corpus {
				if strings.HasSuffix(g, "."+leaf) && (strings.HasPrefix(g, o[:strings.Index(o, ".")]) || strings.HasPrefix(o, g[:strings.Index(g, ".")])) && strings.Count(g, ".") == strings.Count(o, ".") {
					_ = g
				}
			}
			if alt {
				c.Pass("C47.corpus", "drawn:"+o, 0, "in corpus under an equivalent path")
				continue
			}
			c.Fail("C47.corpus", "drawn:"+o, 0, fmt.Sprintf("%s is drawn as text (%s) but GetCorpus does not collect it: characters that occur only there are missing from the embedded font subset", o, drawn[o]))
		}
	}
	// nested
	if gn := mustFunc(c, "d2target", "Diagram", "GetNestedCorpus"); gn != nil {
		seen := map[string]bool{}
		ast.Inspect(gn.Decl.Body, func(n ast.Node) bool {
			if rs, ok := n.(*ast.RangeStmt); ok {
				s := exprStr(rs.X)
				for _, k := range []string{"Layers", "Scenarios", "Steps"} {
					if strings.HasSuffix(s, "."+k) && len(core.Calls(rs.Body, false)) > 0 {
						seen[k] = true
					}
				}
			}
			return true
		})
		var missing []string
		for _, k := range []string{"Layers", "Scenarios", "Steps"} {
			if !seen[k] {
				missing = append(missing, k)
			}
		}
		sort.Strings(missing)
		c.Decide(len(missing) == 0, "C47.nested", "GetNestedCorpus:boards", gn.Decl.Pos(), "layers, scenarios and steps", fmt.Sprintf("text of %v boards is not collected: multi-board outputs that share one embedded font lose glyphs", missing))
	}
	// fallback
	if gs := mustFunc(c, "d2renderers/d2fonts", "Font", "GetEncodedSubset"); gs != nil {
		info := gs.Pkg.TypesInfo
		ok := false
		ast.Inspect(gs.Decl.Body, func(n ast.Node) bool {
			is, isIf := n.(*ast.IfStmt)
			if !isIf {
				return true
			}
			if x, nonNil, isNil := (core.Guard{Cond: is.Cond, True: true}).NilTest(info); isNil && nonNil && strings.Contains(exprStr(x), "err") {
				for _, st := range is.Body.List {
					if r, isRet := st.(*ast.ReturnStmt); isRet && len(r.Results) == 1 && strings.Contains(exprStr(r.Results[0]), "FontEncodings") {
						ok = true
					}
				}
			}
			return true
		})
		c.Decide(ok, "C47.fallback", "GetEncodedSubset:full-font-on-error", gs.Decl.Pos(), "returns FontEncodings.Get(f) on error", "a subsetting failure no longer falls back to the full font")
	}
}
