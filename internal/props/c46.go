package props

import (
	"go/ast"
	"go/token"
	"go/types"

	"d2verif/internal/core"
)

func init() {
	register(&Prop{
		ID:       "C46",
		Title:    "Image bundling is independent of worker scheduling and failures",
		Patterns: []string{"./lib/imgbundler"},
		Explanation: "Decides the synchronisation shape of lib/imgbundler's worker pool: (1) every local variable that worker goroutines assign is accessed inside them only under one common mutex, and outside them only under that mutex or after the join " +
			"(on the closed-channel branch of a receive whose close is dominated by WaitGroup.Wait, with every writing goroutine deferring Done first); (2) WaitGroup.Add(len(xs)) precedes a spawn loop that ranges over the same xs and starts exactly one goroutine per element on every iteration path; " +
			"(3) a collection appended to by goroutines (completion order) is sorted before any use other than len() — otherwise the reported error text depends on scheduling.",
		NotCovered: "commutativity of the sequential bytes.Replace applications, HTTP/file-system behaviour, MIME sniffing",
		Technique:  "static analysis: escape-to-goroutine inventory of locals, must-lockset dataflow over closures, join (Wait≺close) recognition, sort-before-use dominance",
		Run:        runC46,
	})
}

func runC46(c *core.Check) {
	c.Rule("C46.shared-local", "locals assigned in go-closures: common mutex inside goroutines; outside: same mutex or after the join")
	c.Rule("C46.join", "wg.Add(len(xs)) precedes the spawn loop over xs; one unconditional go per iteration; goroutine defers wg.Done first; close(ch) is dominated by wg.Wait")
	c.Rule("C46.order", "a goroutine-appended slice is sorted (sort.*/slices.Sort*) before any use other than len()")
	pk := c.P.Pkg("lib/imgbundler")
	if pk == nil {
		c.Broken("lib/imgbundler not loaded")
		return
	}
	info := pk.TypesInfo
	la := newLockAnalysis(c.P, pk)
	for _, fi := range c.P.Funcs(pk) {
		bodies := la.bodies[fi]
		goBodies := []core.Body{}
		for _, b := range bodies {
			if b.Kind == "go" {
				goBodies = append(goBodies, b)
			}
		}
		if len(goBodies) == 0 {
			continue
		}
		inGo := func(n ast.Node) *core.Body {
			var best *core.Body
			for i := range goBodies {
				b := &goBodies[i]
				if b.Block.Pos() <= n.Pos() && n.End() <= b.Block.End() {
					if best == nil || b.Block.Pos() > best.Block.Pos() {
						best = b
					}
				}
			}
			return best
		}
		// locals assigned inside go bodies but declared outside them
		shared := map[*types.Var]bool{}
		ast.Inspect(fi.Decl.Body, func(n ast.Node) bool {
			as, ok := n.(*ast.AssignStmt)
			if !ok {
				return true
			}
			gb := inGo(as)
			if gb == nil {
				return true
			}
			for _, l := range as.Lhs {
				id, ok := ast.Unparen(l).(*ast.Ident)
				if !ok {
					continue
				}
				v, ok := info.Uses[id].(*types.Var) // Uses: assignment to an existing variable
				if !ok || v.IsField() || v.Parent() == pk.Types.Scope() {
					continue
				}
				if v.Pos() >= gb.Block.Pos() && v.Pos() <= gb.Block.End() {
					continue // declared inside this goroutine
				}
				shared[v] = true
			}
			return true
		})
		// WaitGroup facts
		type wgFacts struct {
			add      *ast.CallExpr
			waits    []*ast.CallExpr
			doneInGo map[*ast.BlockStmt]bool
		}
		wgs := map[types.Object]*wgFacts{}
		getWG := func(call *ast.CallExpr) (types.Object, string) {
			sel, ok := call.Fun.(*ast.SelectorExpr)
			if !ok {
				return nil, ""
			}
			f := core.CalleeOf(info, call)
			if f == nil || f.Pkg() == nil || f.Pkg().Path() != "sync" {
				return nil, ""
			}
			if r := f.Type().(*types.Signature).Recv(); r == nil || types.TypeString(r.Type(), nil) != "*sync.WaitGroup" {
				return nil, ""
			}
			return core.ObjOf(info, sel.X), f.Name()
		}
		getEG := func(call *ast.CallExpr) (types.Object, string) {
			sel, ok := call.Fun.(*ast.SelectorExpr)
			if !ok {
				return nil, ""
			}
			f := core.CalleeOf(info, call)
			if f == nil || f.Pkg() == nil || f.Pkg().Path() != "golang.org/x/sync/errgroup" {
				return nil, ""
			}
			return core.ObjOf(info, sel.X), f.Name()
		}
		for _, call := range core.Calls(fi.Decl.Body, true) {
			if core.IsCallTo(info, call, "golang.org/x/sync/errgroup.WithContext") {
				c.Fail("C46.join", "errgroup-with-context:"+fname(fi), call.Pos(), "workers run under an errgroup context: the first failing image cancels its siblings, so which loadable images are bundled (and which are reported) depends on completion order")
			}
			if o, m := getEG(call); o != nil {
				if wgs[o] == nil {
					wgs[o] = &wgFacts{doneInGo: map[*ast.BlockStmt]bool{}}
				}
				switch m {
				case "Wait":
					wgs[o].waits = append(wgs[o].waits, call)
				case "Go":
					if len(call.Args) == 1 {
						if lit, ok := call.Args[0].(*ast.FuncLit); ok {
							wgs[o].doneInGo[lit.Body] = true // the group accounts for the goroutine itself
						}
					}
				}
				continue
			}
			o, m := getWG(call)
			if o == nil {
				continue
			}
			if wgs[o] == nil {
				wgs[o] = &wgFacts{doneInGo: map[*ast.BlockStmt]bool{}}
			}
			switch m {
			case "Add":
				wgs[o].add = call
			case "Wait":
				wgs[o].waits = append(wgs[o].waits, call)
			}
		}
		// which go bodies defer Done first?
		for _, gb := range goBodies {
			if len(gb.Block.List) == 0 {
				continue
			}
			d, ok := gb.Block.List[0].(*ast.DeferStmt)
			if !ok {
				continue
			}
			var calls []*ast.CallExpr
			if lit, ok := d.Call.Fun.(*ast.FuncLit); ok {
				calls = core.Calls(lit.Body, false)
			} else {
				calls = []*ast.CallExpr{d.Call}
			}
			for _, call := range calls {
				if o, m := getWG(call); o != nil && m == "Done" && wgs[o] != nil {
					wgs[o].doneInGo[gb.Block] = true
				}
			}
		}
		// channels closed after Wait
		closedAfterWait := map[types.Object]types.Object{} // chan -> wg
		for _, call := range core.Calls(fi.Decl.Body, true) {
			id, ok := call.Fun.(*ast.Ident)
			if !ok || id.Name != "close" || len(call.Args) != 1 {
				continue
			}
			ch := core.ObjOf(info, call.Args[0])
			if ch == nil {
				continue
			}
			bi := core.InnermostBody(bodies, call)
			fl := la.locks[bodies[bi].Block].Flow
			okJoin := false
			for o, wf := range wgs {
				for _, w := range wf.waits {
					if core.InnermostBody(bodies, w) == bi && fl.DominatesNode(w, call) {
						closedAfterWait[ch] = o
						okJoin = true
					}
				}
			}
			c.Decide(okJoin, "C46.join", "close-after-wait:"+fname(fi)+":"+ch.Name(), call.Pos(), "wg.Wait() dominates close("+ch.Name()+")", "the results channel is closed without waiting for every worker: late results are dropped or a send panics")
		}
		// semaphores: a buffered channel that is sent to before a worker starts and received from inside the
		// worker must be released on every exit of the worker (deferred), or slots leak on the failure path
		semas := map[types.Object]bool{}
		ast.Inspect(fi.Decl.Body, func(n ast.Node) bool {
			if ss, ok := n.(*ast.SendStmt); ok && inGo(ss) != nil {
				// sends inside the spawner goroutine (not inside a worker that also receives) mark candidates
				if o := core.ObjOf(info, ss.Chan); o != nil {
					if ch, ok := o.Type().Underlying().(*types.Chan); ok {
						if b, ok := ch.Elem().Underlying().(*types.Struct); ok && b.NumFields() == 0 {
							semas[o] = true
						}
					}
				}
			}
			return true
		})
		for sem := range semas {
			for _, gb := range goBodies {
				var recvs []ast.Node
				ast.Inspect(gb.Block, func(n ast.Node) bool {
					if u, ok := n.(*ast.UnaryExpr); ok && u.Op == token.ARROW && core.ObjOf(info, u.X) == sem {
						if b := inGo(u); b != nil && b.Block == gb.Block {
							recvs = append(recvs, u)
						}
					}
					return true
				})
				if len(recvs) == 0 {
					continue
				}
				fl := core.NewFlow(fi.Pkg, gb.Block)
				release := func(n ast.Node) bool {
					for _, r := range recvs {
						if n == r {
							return true
						}
					}
					if d, ok := n.(*ast.DeferStmt); ok {
						for _, r := range recvs {
							if d.Pos() <= r.Pos() && r.End() <= d.End() {
								return true
							}
						}
					}
					return false
				}
				bad := false
				for _, ex := range fl.Exits() {
					if reach, _ := fl.ReachableAvoiding(ex.Blk, ex.Idx, release); reach {
						bad = true
					}
				}
				c.Decide(!bad, "C46.join", "semaphore-released-on-every-exit:"+fname(fi)+":"+sem.Name(), recvs[0].Pos(), "slot released by a deferred receive registered before any return",
					"a worker can return without giving its semaphore slot back: after enough failures the spawner blocks forever and the remaining images are never processed")
			}
		}
		// Add(len(xs)) vs spawn loop
		for o, wf := range wgs {
			if wf.add == nil {
				continue
			}
			key := "add-matches-spawn:" + fname(fi) + ":" + o.Name()
			var xs types.Object
			if len(wf.add.Args) == 1 {
				if lc, ok := ast.Unparen(wf.add.Args[0]).(*ast.CallExpr); ok {
					if id, ok := lc.Fun.(*ast.Ident); ok && id.Name == "len" && len(lc.Args) == 1 {
						xs = core.ObjOf(info, lc.Args[0])
					}
				}
			}
			if xs == nil {
				c.Fail("C46.join", key, wf.add.Pos(), "WaitGroup.Add argument is not len(<slice>): cannot match it against the spawn loop")
				continue
			}
			matched := false
			ast.Inspect(fi.Decl.Body, func(n ast.Node) bool {
				rs, ok := n.(*ast.RangeStmt)
				if !ok || core.ObjOf(info, rs.X) != xs {
					return true
				}
				// exactly one top-level go statement whose body defers Done; no branch statement before it
				ngo := 0
				clean := true
				for _, st := range rs.Body.List {
					switch s := st.(type) {
					case *ast.GoStmt:
						if lit, ok := s.Call.Fun.(*ast.FuncLit); ok && wf.doneInGo[lit.Body] {
							ngo++
						}
					case *ast.AssignStmt, *ast.SendStmt, *ast.ExprStmt, *ast.DeclStmt:
					default:
						clean = false
					}
				}
				if ngo == 1 && clean && rs.Pos() > wf.add.Pos() {
					matched = true
				}
				return true
			})
			c.Decide(matched, "C46.join", key, wf.add.Pos(), "Add(len(xs)) then `for range xs { …; go func(){ defer Done … }() }`", "the number of goroutines that call Done cannot be matched with the Add count: Wait returns early (missing results) or never")
		}
		for v := range shared {
			// common lock inside goroutines
			var sites []*ast.Ident
			ast.Inspect(fi.Decl.Body, func(n ast.Node) bool {
				if id, ok := n.(*ast.Ident); ok && info.Uses[id] == types.Object(v) {
					sites = append(sites, id)
				}
				return true
			})
			var common core.LockSet
			first := true
			for _, id := range sites {
				if inGo(id) == nil {
					continue
				}
				held, _, ok := la.heldAt(fi, id)
				if !ok {
					continue
				}
				if first {
					common = held
					first = false
				} else {
					nc := core.LockSet{}
					for k := range common {
						if held[k] {
							nc[k] = true
						}
					}
					common = nc
				}
			}
			key := "shared:" + fname(fi) + ":" + v.Name()
			if len(common) == 0 {
				c.Fail("C46.shared-local", key+":in-goroutines", v.Pos(), "worker goroutines access "+v.Name()+" without a common mutex held (data race: lost or corrupted entries)")
				continue
			}
			c.Pass("C46.shared-local", key+":in-goroutines", v.Pos(), "all goroutine accesses hold a common mutex")
			var writerBodies []*ast.BlockStmt
			for _, id := range sites {
				if gb := inGo(id); gb != nil {
					writerBodies = append(writerBodies, gb.Block)
				}
			}
			for _, id := range sites {
				if inGo(id) != nil {
					continue
				}
				held, body, ok := la.heldAt(fi, id)
				if !ok {
					continue
				}
				locked := false
				for k := range common {
					if held[k] {
						locked = true
					}
				}
				if locked {
					c.Pass("C46.shared-local", key+":outside", id.Pos(), "under the common mutex")
					continue
				}
				// after the join?
				fl := la.locks[body.Block].Flow
				after := false
				for _, g := range fl.GuardsOfNode(id) {
					for _, a := range g.Atoms() {
						okObj := core.ObjOf(info, a.Cond)
						if okObj == nil || a.True {
							continue
						}
						// ok defined by `x, ok := <-ch` (select comm or assignment)
						ch := recvChanOf(fi, okObj)
						if ch == nil {
							continue
						}
						if wgObj, isJoined := closedAfterWait[ch]; isJoined {
							all := true
							for _, wb := range writerBodies {
								if !wgs[wgObj].doneInGo[wb] {
									all = false
								}
							}
							if all {
								after = true
							}
						}
					}
				}
				c.Decide(after, "C46.shared-local", key+":outside", id.Pos(), "after the join: closed-channel branch; close is dominated by Wait; every writer defers Done first",
					v.Name()+" is read outside the goroutines without the mutex and not provably after all workers finished")
			}
			// order rule for slices appended in goroutines
			if _, isSlice := v.Type().Underlying().(*types.Slice); isSlice {
				for _, id := range sites {
					if inGo(id) != nil {
						continue
					}
					if isLenArg(fi, id) {
						continue
					}
					bi := core.InnermostBody(bodies, id)
					fl := la.locks[bodies[bi].Block].Flow
					sorted := false
					for _, call := range core.Calls(bodies[bi].Block, false) {
						f := core.CalleeOf(info, call)
						if f == nil || f.Pkg() == nil || len(call.Args) == 0 {
							continue
						}
						if (f.Pkg().Path() == "sort" || f.Pkg().Path() == "slices") && core.ObjOf(info, peelConv(info, call.Args[0])) == types.Object(v) {
							if call.Pos() < id.Pos() && fl.DominatesNode(call, id) {
								sorted = true
							}
							if call.Args[0].Pos() <= id.Pos() && id.End() <= call.Args[0].End() {
								sorted = true // the sort call's own argument
							}
						}
					}
					c.Decide(sorted, "C46.order", "order:"+fname(fi)+":"+v.Name(), id.Pos(), "sorted before use", v.Name()+" is filled in worker completion order and used unsorted: the reported references (error text) depend on scheduling")
				}
			}
		}
	}
	c.Floor("C46.shared-local", 2)
	c.Floor("C46.join", 2)
	c.Floor("C46.order", 1)
}

// recvChanOf: okObj is the second variable of `v, ok := <-ch` (assignment or select comm); returns ch's object.
func recvChanOf(fi *core.FuncInfo, okObj types.Object) types.Object {
	info := fi.Pkg.TypesInfo
	var ch types.Object
	ast.Inspect(fi.Decl.Body, func(n ast.Node) bool {
		as, ok := n.(*ast.AssignStmt)
		if !ok || len(as.Lhs) != 2 || len(as.Rhs) != 1 {
			return true
		}
		u, ok := ast.Unparen(as.Rhs[0]).(*ast.UnaryExpr)
		if !ok || u.Op != token.ARROW {
			return true
		}
		if core.ObjOf(info, as.Lhs[1]) == okObj {
			ch = core.ObjOf(info, u.X)
		}
		return true
	})
	return ch
}

func isLenArg(fi *core.FuncInfo, id *ast.Ident) bool {
	found := false
	ast.Inspect(fi.Decl.Body, func(n ast.Node) bool {
		if call, ok := n.(*ast.CallExpr); ok && len(call.Args) == 1 && call.Args[0] == ast.Expr(id) {
			if f, ok := call.Fun.(*ast.Ident); ok && f.Name == "len" {
				found = true
			}
		}
		return true
	})
	return found
}

// peelConv strips parentheses and type conversions (sort.StringSlice(x) → x).
func peelConv(info *types.Info, e ast.Expr) ast.Expr {
	for {
		e = ast.Unparen(e)
		call, ok := e.(*ast.CallExpr)
		if !ok || len(call.Args) != 1 {
			return e
		}
		if tv, ok := info.Types[call.Fun]; !ok || !tv.IsType() {
			return e
		}
		e = call.Args[0]
	}
}
