package props

import (
	"fmt"
	"go/ast"
	"go/constant"
	"go/token"
	"go/types"

	"d2verif/internal/core"
)

// Order-type abstract interpretation of position predicates.
//
// A predicate such as "pos lies in range r" touches its inputs only through comparisons of the Line, Column and
// Byte fields of d2ast.Position values. Its result therefore depends only on the order type of the values
// compared — for three positions (pos, r.Start, r.End) a finite set. The interpreter below evaluates the
// predicate's source (returns, ifs, boolean operators, field selections, comparisons, and calls of functions
// whose source is in the program, e.g. Position.Before) over one representative of every order type and compares
// the verdict with the reference "Start <= pos < End" in (line, column) order. It refuses anything else
// (arithmetic on coordinates, comparison of a line with a column, loops): such a predicate is reported as
// undecided rather than guessed.

type ovKind int

const (
	ovBool ovKind = iota + 1
	ovInt
	ovPos
	ovRange
)

type oval struct {
	kind  ovKind
	b     bool
	i     int
	coord byte // 'L', 'C', 'B' for coordinates; 'k' for constants
	top   bool // unknown value (a byte offset nobody set)
	pos   *opos
	rng   *orange
}

type opos struct{ line, col, byt oval }
type orange struct{ start, end *opos }

type ordInterp struct {
	p     *core.Prog
	info  *types.Info
	env   map[types.Object]oval
	why   string // first reason the evaluation was refused
	depth int
}

func (it *ordInterp) refuse(format string, args ...interface{}) (oval, bool) {
	if it.why == "" {
		it.why = fmt.Sprintf(format, args...)
	}
	return oval{}, false
}

func (it *ordInterp) eval(e ast.Expr) (oval, bool) {
	e = ast.Unparen(e)
	if tv, ok := it.info.Types[e]; ok && tv.Value != nil {
		switch tv.Value.Kind() {
		case constant.Bool:
			return oval{kind: ovBool, b: constant.BoolVal(tv.Value)}, true
		case constant.Int:
			if v, ok := constant.Int64Val(tv.Value); ok {
				return oval{kind: ovInt, i: int(v), coord: 'k'}, true
			}
		}
		return it.refuse("constant %s", exprStr(e))
	}
	switch x := e.(type) {
	case *ast.Ident:
		if o := it.info.Uses[x]; o != nil {
			if v, ok := it.env[o]; ok {
				return v, true
			}
		}
		return it.refuse("%s is not an input of the predicate", x.Name)
	case *ast.SelectorExpr:
		base, ok := it.eval(x.X)
		if !ok {
			return oval{}, false
		}
		switch base.kind {
		case ovPos:
			switch x.Sel.Name {
			case "Line":
				return base.pos.line, true
			case "Column":
				return base.pos.col, true
			case "Byte":
				return base.pos.byt, true
			}
		case ovRange:
			switch x.Sel.Name {
			case "Start":
				return oval{kind: ovPos, pos: base.rng.start}, true
			case "End":
				return oval{kind: ovPos, pos: base.rng.end}, true
			}
		}
		return it.refuse("selection %s", exprStr(e))
	case *ast.UnaryExpr:
		if x.Op == token.NOT {
			v, ok := it.eval(x.X)
			if !ok || v.kind != ovBool {
				return it.refuse("operand of ! in %s", exprStr(e))
			}
			return oval{kind: ovBool, b: !v.b}, true
		}
		return it.refuse("operator %s", x.Op)
	case *ast.BinaryExpr:
		switch x.Op {
		case token.LAND, token.LOR:
			l, ok := it.eval(x.X)
			if !ok || l.kind != ovBool {
				return it.refuse("operand of %s", x.Op)
			}
			if (x.Op == token.LAND && !l.b) || (x.Op == token.LOR && l.b) {
				return l, true
			}
			r, ok := it.eval(x.Y)
			if !ok || r.kind != ovBool {
				return it.refuse("operand of %s", x.Op)
			}
			return r, true
		case token.EQL, token.NEQ, token.LSS, token.LEQ, token.GTR, token.GEQ:
			l, ok := it.eval(x.X)
			if !ok {
				return oval{}, false
			}
			r, ok := it.eval(x.Y)
			if !ok {
				return oval{}, false
			}
			if l.kind == ovBool && r.kind == ovBool && (x.Op == token.EQL || x.Op == token.NEQ) {
				return oval{kind: ovBool, b: (l.b == r.b) == (x.Op == token.EQL)}, true
			}
			if l.kind != ovInt || r.kind != ovInt {
				return it.refuse("comparison %s of non-coordinates", exprStr(e))
			}
			if l.top || r.top {
				return it.refuse("%s compares the byte offset of the queried position, which the caller never neutralised (editor positions carry no byte offset)", exprStr(e))
			}
			if l.coord != r.coord {
				// only a byte offset against the constant -1 is meaningful across kinds
				c, o := l, r
				if l.coord == 'k' {
					c, o = r, l
				}
				if !(o.coord == 'k' && o.i == -1 && c.coord == 'B') {
					return it.refuse("%s compares values of different kinds", exprStr(e))
				}
			}
			var b bool
			switch x.Op {
			case token.EQL:
				b = l.i == r.i
			case token.NEQ:
				b = l.i != r.i
			case token.LSS:
				b = l.i < r.i
			case token.LEQ:
				b = l.i <= r.i
			case token.GTR:
				b = l.i > r.i
			case token.GEQ:
				b = l.i >= r.i
			}
			return oval{kind: ovBool, b: b}, true
		}
		return it.refuse("arithmetic %s on coordinates (the order-type argument covers comparisons only)", exprStr(e))
	case *ast.CallExpr:
		callee := core.CalleeOf(it.info, x)
		if callee == nil {
			return it.refuse("call %s has no static callee", exprStr(e))
		}
		fi := it.p.Decl(callee)
		if fi == nil || fi.Decl.Body == nil {
			return it.refuse("call %s: no source", exprStr(e))
		}
		if it.depth > 4 {
			return it.refuse("call depth")
		}
		sub := &ordInterp{p: it.p, info: fi.Pkg.TypesInfo, env: map[types.Object]oval{}, depth: it.depth + 1}
		if fi.Decl.Recv != nil && len(fi.Decl.Recv.List) == 1 && len(fi.Decl.Recv.List[0].Names) == 1 {
			sel, ok := ast.Unparen(x.Fun).(*ast.SelectorExpr)
			if !ok {
				return it.refuse("method value %s", exprStr(x.Fun))
			}
			rv, ok := it.eval(sel.X)
			if !ok {
				return oval{}, false
			}
			sub.env[fi.Pkg.TypesInfo.Defs[fi.Decl.Recv.List[0].Names[0]]] = rv
		}
		i := 0
		for _, f := range fi.Decl.Type.Params.List {
			for _, nm := range f.Names {
				if i >= len(x.Args) {
					return it.refuse("arity of %s", exprStr(e))
				}
				av, ok := it.eval(x.Args[i])
				if !ok {
					return oval{}, false
				}
				sub.env[fi.Pkg.TypesInfo.Defs[nm]] = av
				i++
			}
		}
		ret, returned, ok := sub.exec(fi.Decl.Body.List)
		if !ok {
			if it.why == "" {
				it.why = sub.why
			}
			return oval{}, false
		}
		if !returned {
			return it.refuse("%s falls off its end", exprStr(e))
		}
		return ret, true
	}
	return it.refuse("expression %s", exprStr(e))
}

// exec interprets straight-line code made of returns and ifs.
func (it *ordInterp) exec(list []ast.Stmt) (ret oval, returned bool, ok bool) {
	for _, st := range list {
		switch s := st.(type) {
		case *ast.ReturnStmt:
			if len(s.Results) != 1 {
				it.refuse("return with %d results", len(s.Results))
				return oval{}, false, false
			}
			v, ok := it.eval(s.Results[0])
			if !ok {
				return oval{}, false, false
			}
			return v, true, true
		case *ast.IfStmt:
			if s.Init != nil {
				it.refuse("if with an init statement")
				return oval{}, false, false
			}
			c, ok := it.eval(s.Cond)
			if !ok || c.kind != ovBool {
				it.refuse("condition %s", exprStr(s.Cond))
				return oval{}, false, false
			}
			var body []ast.Stmt
			if c.b {
				body = s.Body.List
			} else if s.Else != nil {
				switch e := s.Else.(type) {
				case *ast.BlockStmt:
					body = e.List
				case *ast.IfStmt:
					body = []ast.Stmt{e}
				}
			}
			r, returned, ok := it.exec(body)
			if !ok {
				return oval{}, false, false
			}
			if returned {
				return r, true, true
			}
		case *ast.BlockStmt:
			r, returned, ok := it.exec(s.List)
			if !ok {
				return oval{}, false, false
			}
			if returned {
				return r, true, true
			}
		case *ast.EmptyStmt:
		default:
			it.refuse("statement %T (the order-type argument covers returns and ifs only)", st)
			return oval{}, false, false
		}
	}
	return oval{}, false, true
}

// containmentVerdict evaluates a predicate body with one range parameter and one free position variable over
// every order type of (pos, r.Start, r.End) with Start <= End, and returns the first disagreement with
// Start <= pos < End, or the reason the predicate could not be interpreted.
func containmentVerdict(p *core.Prog, info *types.Info, body []ast.Stmt, rangeObj, posObj types.Object, posByteNeutral bool) (counter string, undecided string, norders int) {
	const n = 3
	lexLess := func(al, ac, bl, bc int) bool { return al < bl || (al == bl && ac < bc) }
	for sl := 0; sl < n; sl++ {
		for sc := 0; sc < n; sc++ {
			for el := 0; el < n; el++ {
				for ec := 0; ec < n; ec++ {
					if lexLess(el, ec, sl, sc) {
						continue
					}
					for pl := 0; pl < n; pl++ {
						for pc := 0; pc < n; pc++ {
							mk := func(l, c int, neutral, unknown bool) *opos {
								b := oval{kind: ovInt, coord: 'B', i: 1 + l*n + c}
								if neutral {
									b.i = -1
								}
								if unknown {
									b.top = true
								}
								return &opos{line: oval{kind: ovInt, coord: 'L', i: l}, col: oval{kind: ovInt, coord: 'C', i: c}, byt: b}
							}
							it := &ordInterp{p: p, info: info, env: map[types.Object]oval{}}
							it.env[rangeObj] = oval{kind: ovRange, rng: &orange{start: mk(sl, sc, false, false), end: mk(el, ec, false, false)}}
							it.env[posObj] = oval{kind: ovPos, pos: mk(pl, pc, posByteNeutral, !posByteNeutral)}
							got, returned, ok := it.exec(body)
							if !ok || !returned || got.kind != ovBool {
								why := it.why
								if why == "" {
									why = "the predicate does not return a boolean on every path"
								}
								return "", why, norders
							}
							norders++
							want := !lexLess(pl, pc, sl, sc) && lexLess(pl, pc, el, ec)
							if got.b != want {
								verdict := "outside"
								if got.b {
									verdict = "inside"
								}
								return fmt.Sprintf("for a block from %d:%d to %d:%d the position %d:%d is reported %s", sl, sc, el, ec, pl, pc, verdict), "", norders
							}
						}
					}
				}
			}
		}
	}
	return "", "", norders
}
