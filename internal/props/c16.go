package props

import (
	"fmt"
	"go/ast"
	"go/constant"
	"go/token"
	"go/types"
	"reflect"
	"regexp/syntax"
	"sort"
	"strings"

	"d2verif/internal/core"
)

func init() {
	register(&Prop{
		ID:       "C16",
		Title:    "Attribute validation matches the documented value domains",
		Patterns: []string{"./d2graph", "./d2compiler", "./d2ast", "./lib/color", "./d2target"},
		Explanation: "Decides, from the source of the validators (nothing is executed): (1) keyword ⇄ validator ⇄ storage agreement — StyleKeywords = case labels of Style.Apply = case labels of compileStyleFieldInit, each Apply case stores into the same Style field that compileStyleFieldInit allocates for that keyword and no two keywords share a field; SimpleReservedKeywords ⊆ case labels of compileReserved; " +
			"(2) for every keyword, the accepted domain extracted by abstract interpretation of the case's reject conditions (parse function; interval with open/closed ends and an explicit NaN element; or membership table with its case normalisation) equals the documented domain table in the checker; " +
			"(3) the value stored is the validated input itself (or its lower-case form for keyword-valued attributes); (4) every regular expression on the colour-validation path is anchored at both ends of the whole pattern (an anchor inside one alternative accepts garbage prefixes/suffixes). Also: an attribute validated with strconv.ParseBool is stored as strconv.FormatBool of the parsed value (consumers compare the stored text with \"true\").",
		NotCovered: "the colour grammar accepted by csscolorparser for gradient stops; error positions; near-key resolution; config keys of vars.d2-config (structure only)",
		Trust:      []string{"strconv.Atoi/ParseFloat/ParseBool accept exactly Go's decimal integer / float / bool syntax"},
		Technique:  "static analysis: constant-set extraction and comparison, abstract interpretation of reject conditions over intervals with NaN, regexp/syntax shape check of pattern constants",
		Run:        runC16,
	})
}

// documented domains (oracle), transcribed from the property statement and the d2 documentation
// strings in the validators' error messages. Canonical forms are produced by domain.String().
var styleDomains = map[string]string{
	"opacity":        "strconv.ParseFloat[0,1]",
	"stroke":         "lib/color.ValidColor",
	"fill":           "lib/color.ValidColor",
	"font-color":     "lib/color.ValidColor",
	"fill-pattern":   "in(d2ast.FillPatterns)/lower",
	"text-transform": "in(d2ast.TextTransforms)/lower",
	"font":           "in(d2renderers/d2fonts.D2_FONT_TO_FAMILY)/lower",
	"stroke-width":   "strconv.Atoi[0,15]",
	"stroke-dash":    "strconv.Atoi[0,10]",
	"border-radius":  "strconv.Atoi[0,+inf)",
	"font-size":      "strconv.Atoi[8,100]",
	"shadow":         "strconv.ParseBool", "3d": "strconv.ParseBool", "multiple": "strconv.ParseBool", "animated": "strconv.ParseBool",
	"bold": "strconv.ParseBool", "italic": "strconv.ParseBool", "underline": "strconv.ParseBool", "filled": "strconv.ParseBool", "double-border": "strconv.ParseBool",
}

var reservedDomains = map[string]string{
	"width": "strconv.Atoi[0,+inf)", "height": "strconv.Atoi[0,+inf)",
	"top": "strconv.Atoi[0,+inf)", "left": "strconv.Atoi[0,+inf)",
	"grid-rows": "strconv.Atoi[1,+inf)", "grid-columns": "strconv.Atoi[1,+inf)",
	"grid-gap": "strconv.Atoi[0,+inf)", "vertical-gap": "strconv.Atoi[0,+inf)", "horizontal-gap": "strconv.Atoi[0,+inf)",
	"direction": "in({down,left,right,up})/lower",
	"shape":     "in(d2target.Arrowheads|d2target.IsShape)/lower",
}

// keywords stored lower-cased (keyword-valued attributes whose canonical spelling is lower case).
var storedLower = map[string]bool{"font": true, "direction": true, "shape": true}

// domain is the accepted set extracted from one validator case.
type domain struct {
	parse     string // callee that parses / validates the input
	numeric   bool
	isFloat   bool
	lo, hi    *bound
	nanOK     bool
	members   []string // membership sources for set-valued attributes
	lower     bool     // membership tested on strings.ToLower(input)
	undecided string
}

type bound struct {
	v    constant.Value
	incl bool
}

func (d *domain) String() string {
	if d.undecided != "" {
		return "?(" + d.undecided + ")"
	}
	if len(d.members) > 0 {
		sort.Strings(d.members)
		s := "in(" + strings.Join(d.members, "|") + ")"
		if d.lower {
			s += "/lower"
		}
		return s
	}
	if !d.numeric {
		return d.parse
	}
	if d.lo == nil && d.hi == nil {
		s := d.parse + "(-inf,+inf)"
		if d.isFloat && d.nanOK {
			s += "+NaN"
		}
		return s
	}
	lo, hi := "(-inf", "+inf)"
	if d.lo != nil {
		v, incl := d.lo.v, d.lo.incl
		if !d.isFloat && !incl { // integers: x > c  ≡  x >= c+1
			v = constant.BinaryOp(v, token.ADD, constant.MakeInt64(1))
			incl = true
		}
		if incl {
			lo = "[" + v.ExactString()
		} else {
			lo = "(" + v.ExactString()
		}
	}
	if d.hi != nil {
		v, incl := d.hi.v, d.hi.incl
		if !d.isFloat && !incl {
			v = constant.BinaryOp(v, token.SUB, constant.MakeInt64(1))
			incl = true
		}
		if incl {
			hi = v.ExactString() + "]"
		} else {
			hi = v.ExactString() + ")"
		}
	}
	s := d.parse + lo + "," + hi
	if d.isFloat && d.nanOK {
		s += "+NaN"
	}
	return s
}

// extractor walks the statements of one case clause.
type extractor struct {
	fi      *core.FuncInfo
	info    *types.Info
	d       *domain
	input   string       // canonical text of the validated input expression
	numVar  types.Object // variable holding the parsed number
	errVar  types.Object
	boolVar map[types.Object]string // ok-variables → membership source
	stores  []ast.Expr              // RHS of `<target>.Value = …`
	storeTo []string                // field names stored into
	rejects int
}

func (ex *extractor) undecided(format string, a ...any) {
	if ex.d.undecided == "" {
		ex.d.undecided = fmt.Sprintf(format, a...)
	}
}

var parseFuncs = map[string]bool{"strconv.Atoi": true, "strconv.ParseFloat": true, "strconv.ParseBool": true, "strconv.ParseInt": true, "strconv.ParseUint": true}

// inputOf strips strings.ToLower and returns the canonical input text and whether it was lowered.
func (ex *extractor) inputOf(e ast.Expr) (string, bool) {
	e = ast.Unparen(e)
	if call, ok := e.(*ast.CallExpr); ok && core.IsCallTo(ex.info, call, "strings.ToLower") && len(call.Args) == 1 {
		s, _ := ex.inputOf(call.Args[0])
		return s, true
	}
	if id, ok := e.(*ast.Ident); ok {
		// a local defined once from an expression: follow (val := strings.ToLower(x))
		if o := core.ObjOf(ex.info, id); o != nil && !isParam(ex.fi, o) {
			ds := defsOf(ex.fi, o)
			if len(ds) == 1 && ds[0].Rhs != nil && !ds[0].Multi {
				return ex.inputOf(ds[0].Rhs)
			}
		}
	}
	return exprStr(e), false
}

func (ex *extractor) noteInput(e ast.Expr) bool {
	s, lowered := ex.inputOf(e)
	if ex.input == "" {
		ex.input = s
	} else if ex.input != s {
		ex.undecided("validates %s but an earlier step validated %s", s, ex.input)
		return false
	}
	return lowered
}

// membership recognises a boolean expression that tests membership of the input in a table and
// returns the table's name.
func (ex *extractor) membership(e ast.Expr) (string, bool) {
	e = ast.Unparen(e)
	switch x := e.(type) {
	case *ast.Ident:
		if o := core.ObjOf(ex.info, x); o != nil {
			if src, ok := ex.boolVar[o]; ok {
				return src, true
			}
		}
	case *ast.CallExpr:
		f := core.CalleeOf(ex.info, x)
		if f == nil {
			return "", false
		}
		name := core.FuncName(f)
		if strings.HasSuffix(name, "go2.Contains") && len(x.Args) == 2 {
			if ex.noteInput(x.Args[1]) {
				ex.d.lower = true
			}
			return ex.tableName(x.Args[0]), true
		}
		sig := f.Type().(*types.Signature)
		if sig.Results().Len() == 1 && isBoolType(sig.Results().At(0).Type()) && len(x.Args) == 1 && f.Pkg() != nil && strings.HasPrefix(f.Pkg().Path(), core.Mod) {
			if ex.noteInput(x.Args[0]) {
				ex.d.lower = true
			}
			return name, true
		}
	}
	return "", false
}

func (ex *extractor) tableName(e ast.Expr) string {
	e = ast.Unparen(e)
	if o := core.ObjOf(ex.info, e); o != nil {
		if v, ok := o.(*types.Var); ok && v.Pkg() != nil && v.Parent() == v.Pkg().Scope() {
			return core.RelPkg(v.Pkg().Path()) + "." + v.Name()
		}
		// local slice literal: use its constant elements
		ds := defsOf(ex.fi, o)
		if len(ds) == 1 && ds[0].Rhs != nil {
			if cl, ok := ast.Unparen(ds[0].Rhs).(*ast.CompositeLit); ok {
				var elems []string
				for _, el := range cl.Elts {
					if tv, ok := ex.info.Types[el]; ok && tv.Value != nil && tv.Value.Kind() == constant.String {
						elems = append(elems, constant.StringVal(tv.Value))
					} else {
						return "?"
					}
				}
				sort.Strings(elems)
				return "{" + strings.Join(elems, ",") + "}"
			}
		}
	}
	return "?" + exprStr(e)
}

// define handles `x, err := PARSE(input)` and `_, ok := TABLE[lower(input)]` and `in := f(input)`.
func (ex *extractor) define(as *ast.AssignStmt) {
	if len(as.Rhs) != 1 {
		return
	}
	rhs := ast.Unparen(as.Rhs[0])
	switch r := rhs.(type) {
	case *ast.CallExpr:
		f := core.CalleeOf(ex.info, r)
		if f == nil {
			return
		}
		name := core.FuncName(f)
		if parseFuncs[name] {
			if ex.d.parse != "" {
				ex.undecided("two parse calls in one case")
			}
			ex.d.parse = name
			if len(r.Args) > 0 {
				ex.noteInput(r.Args[0])
			}
			// extra arguments are part of the parser's identity (ParseInt base, bit size)
			for _, a := range r.Args[1:] {
				if tv, ok := ex.info.Types[a]; ok && tv.Value != nil {
					if !(name == "strconv.ParseFloat" && tv.Value.ExactString() == "64") {
						ex.d.parse += "," + tv.Value.ExactString()
					}
				} else {
					ex.d.parse += ",?"
				}
			}
			if name != "strconv.ParseBool" {
				ex.d.numeric = true
				ex.d.isFloat = name == "strconv.ParseFloat"
				ex.d.nanOK = ex.d.isFloat
			}
			if len(as.Lhs) == 2 {
				ex.numVar = core.ObjOf(ex.info, as.Lhs[0])
				ex.errVar = core.ObjOf(ex.info, as.Lhs[1])
			}
			return
		}
		if len(as.Lhs) == 1 {
			if src, ok := ex.membership(r); ok {
				if o := core.ObjOf(ex.info, as.Lhs[0]); o != nil {
					ex.boolVar[o] = src
				}
			}
		}
	case *ast.IndexExpr:
		if len(as.Lhs) == 2 {
			if _, isMap := ex.info.TypeOf(r.X).Underlying().(*types.Map); isMap {
				if ex.noteInput(r.Index) {
					ex.d.lower = true
				}
				if o := core.ObjOf(ex.info, as.Lhs[1]); o != nil {
					ex.boolVar[o] = ex.tableName(r.X)
				}
			}
		}
	}
}

// reject interprets the condition of `if cond { error; return }`: the accepted set loses cond.
func (ex *extractor) reject(cond ast.Expr) {
	ex.rejects++
	for _, atom := range splitOr(cond) {
		ex.rejectAtom(atom)
	}
}

func splitOr(e ast.Expr) []ast.Expr {
	e = ast.Unparen(e)
	if be, ok := e.(*ast.BinaryExpr); ok && be.Op == token.LOR {
		return append(splitOr(be.X), splitOr(be.Y)...)
	}
	return []ast.Expr{e}
}

func splitAnd(e ast.Expr) []ast.Expr {
	e = ast.Unparen(e)
	if be, ok := e.(*ast.BinaryExpr); ok && be.Op == token.LAND {
		return append(splitAnd(be.X), splitAnd(be.Y)...)
	}
	return []ast.Expr{e}
}

func (ex *extractor) rejectAtom(atom ast.Expr) {
	info := ex.info
	atom = ast.Unparen(atom)
	// err != nil
	if be, ok := atom.(*ast.BinaryExpr); ok && be.Op == token.NEQ && (core.IsNil(info, be.Y) || core.IsNil(info, be.X)) {
		x := be.X
		if core.IsNil(info, be.X) {
			x = be.Y
		}
		if o := core.ObjOf(info, x); o != nil && o == ex.errVar {
			return // parse must succeed
		}
		ex.undecided("rejects on %s", exprStr(atom))
		return
	}
	// conjunction of negated memberships: !a && !b  → accepted = a ∪ b
	parts := splitAnd(atom)
	allNeg := true
	var srcs []string
	for _, p := range parts {
		u, ok := ast.Unparen(p).(*ast.UnaryExpr)
		if !ok || u.Op != token.NOT {
			allNeg = false
			break
		}
		src, ok := ex.membership(u.X)
		if !ok {
			allNeg = false
			break
		}
		srcs = append(srcs, src)
	}
	if allNeg && len(srcs) > 0 {
		if len(srcs) == 1 && !strings.Contains(srcs[0], ".") || (len(srcs) == 1 && isValidatorFunc(srcs[0])) {
			// a validator function rather than a table: the domain is "whatever f accepts"
			if isValidatorFunc(srcs[0]) && len(ex.d.members) == 0 && ex.d.parse == "" {
				ex.d.parse = srcs[0]
				return
			}
		}
		ex.d.members = append(ex.d.members, srcs...)
		return
	}
	// numeric comparison
	if be, ok := atom.(*ast.BinaryExpr); ok && ex.d.numeric {
		var c constant.Value
		op := be.Op
		switch {
		case core.ObjOf(info, be.X) == ex.numVar && ex.numVar != nil:
			if tv, ok := info.Types[be.Y]; ok {
				c = tv.Value
			}
		case core.ObjOf(info, be.Y) == ex.numVar && ex.numVar != nil:
			if tv, ok := info.Types[be.X]; ok {
				c = tv.Value
			}
			switch op { // c OP v  ≡  v OP' c
			case token.LSS:
				op = token.GTR
			case token.GTR:
				op = token.LSS
			case token.LEQ:
				op = token.GEQ
			case token.GEQ:
				op = token.LEQ
			}
		}
		if c != nil {
			c = constant.ToFloat(c)
			if !ex.d.isFloat {
				c = constant.ToInt(c)
			}
			switch op {
			case token.LSS: // reject v < c  → v >= c
				ex.tightenLo(c, true)
				return
			case token.LEQ: // reject v <= c → v > c
				ex.tightenLo(c, false)
				return
			case token.GTR:
				ex.tightenHi(c, true)
				return
			case token.GEQ:
				ex.tightenHi(c, false)
				return
			}
		}
	}
	// math.IsNaN(v)
	if call, ok := atom.(*ast.CallExpr); ok && core.IsCallTo(info, call, "math.IsNaN") && len(call.Args) == 1 && core.ObjOf(info, call.Args[0]) == ex.numVar {
		ex.d.nanOK = false
		return
	}
	// !(lo <= v && v <= hi): the negated-accept form excludes NaN as well
	if u, ok := atom.(*ast.UnaryExpr); ok && u.Op == token.NOT && ex.d.numeric {
		okAll := true
		for _, p := range splitAnd(u.X) {
			be, ok := ast.Unparen(p).(*ast.BinaryExpr)
			if !ok {
				okAll = false
				break
			}
			// accept-form atom: v >= c etc. Convert to the reject-form complement.
			neg := map[token.Token]token.Token{token.GEQ: token.LSS, token.GTR: token.LEQ, token.LEQ: token.GTR, token.LSS: token.GEQ}
			nop, has := neg[be.Op]
			if !has {
				okAll = false
				break
			}
			ex.rejectAtom(&ast.BinaryExpr{X: be.X, Op: nop, Y: be.Y, OpPos: be.OpPos})
		}
		if okAll {
			ex.d.nanOK = false
			return
		}
	}
	ex.undecided("reject condition %s not understood", exprStr(atom))
}

func isValidatorFunc(src string) bool {
	return strings.HasSuffix(src, ".ValidColor")
}

func (ex *extractor) tightenLo(c constant.Value, incl bool) {
	if ex.d.lo == nil || constant.Compare(c, token.GTR, ex.d.lo.v) || (constant.Compare(c, token.EQL, ex.d.lo.v) && !incl) {
		ex.d.lo = &bound{c, incl}
	}
}

func (ex *extractor) tightenHi(c constant.Value, incl bool) {
	if ex.d.hi == nil || constant.Compare(c, token.LSS, ex.d.hi.v) || (constant.Compare(c, token.EQL, ex.d.hi.v) && !incl) {
		ex.d.hi = &bound{c, incl}
	}
}

// endsInReject: the block reports an error and leaves the case (return, or errorf+return).
func (ex *extractor) endsInReject(b *ast.BlockStmt) bool {
	if len(b.List) == 0 {
		return false
	}
	ret, ok := b.List[len(b.List)-1].(*ast.ReturnStmt)
	if !ok {
		return false
	}
	// return <non-nil error> …
	for _, r := range ret.Results {
		if !core.IsNil(ex.info, r) {
			if t := ex.info.TypeOf(r); t != nil && types.TypeString(t, nil) == "error" {
				return true
			}
		}
	}
	// … or a preceding call to the compiler's errorf
	for _, st := range b.List[:len(b.List)-1] {
		if es, ok := st.(*ast.ExprStmt); ok {
			if call, ok := es.X.(*ast.CallExpr); ok {
				if f := core.CalleeOf(ex.info, call); f != nil && f.Name() == "errorf" {
					return true
				}
			}
		}
	}
	return false
}

func (ex *extractor) walk(list []ast.Stmt) {
	for _, st := range list {
		switch s := st.(type) {
		case *ast.AssignStmt:
			// store: X.Value = expr
			if len(s.Lhs) == 1 && len(s.Rhs) == 1 && s.Tok == token.ASSIGN {
				if sel, ok := ast.Unparen(s.Lhs[0]).(*ast.SelectorExpr); ok && sel.Sel.Name == "Value" {
					if inner, ok := ast.Unparen(sel.X).(*ast.SelectorExpr); ok {
						ex.stores = append(ex.stores, s.Rhs[0])
						ex.storeTo = append(ex.storeTo, inner.Sel.Name)
						continue
					}
				}
			}
			ex.define(s)
		case *ast.IfStmt:
			if s.Init != nil {
				if as, ok := s.Init.(*ast.AssignStmt); ok {
					ex.define(as)
				}
			}
			if ex.endsInReject(s.Body) && s.Else == nil {
				ex.reject(s.Cond)
			}
		}
	}
}

// extractCase computes the domain of one case clause body.
func extractCase(fi *core.FuncInfo, body []ast.Stmt) *extractor {
	ex := &extractor{fi: fi, info: fi.Pkg.TypesInfo, d: &domain{}, boolVar: map[types.Object]string{}}
	ex.walk(body)
	if ex.d.parse == "" && len(ex.d.members) == 0 && ex.d.undecided == "" {
		ex.d.undecided = "no validation found"
	}
	return ex
}

// caseClauses returns label → clause for the switch statements in fi whose tag satisfies tagOK.
func caseClauses(fi *core.FuncInfo, tagOK func(ast.Expr) bool) map[string]*ast.CaseClause {
	out := map[string]*ast.CaseClause{}
	ast.Inspect(fi.Decl.Body, func(n ast.Node) bool {
		sw, ok := n.(*ast.SwitchStmt)
		if !ok || sw.Tag == nil || !tagOK(sw.Tag) {
			return true
		}
		for _, cl := range sw.Body.List {
			cc := cl.(*ast.CaseClause)
			for _, l := range cc.List {
				if tv, ok := fi.Pkg.TypesInfo.Types[l]; ok && tv.Value != nil && tv.Value.Kind() == constant.String {
					lab := constant.StringVal(tv.Value)
					if prev, dup := out[lab]; dup && len(prev.Body) > len(cc.Body) {
						continue // keep the clause that does the work (compileReserved has two switches)
					}
					out[lab] = cc
				}
			}
		}
		return true
	})
	return out
}

// mapKeys returns the constant string keys of a package-level map/slice literal variable.
func literalKeys(c *core.Check, pkgRel, name string) map[string]bool {
	pk := c.P.Pkg(pkgRel)
	if pk == nil {
		c.Broken("package %s not loaded", pkgRel)
		return nil
	}
	out := map[string]bool{}
	found := false
	for _, f := range pk.Syntax {
		for _, d := range f.Decls {
			gd, ok := d.(*ast.GenDecl)
			if !ok {
				continue
			}
			for _, sp := range gd.Specs {
				vs, ok := sp.(*ast.ValueSpec)
				if !ok {
					continue
				}
				for i, n := range vs.Names {
					if n.Name != name || i >= len(vs.Values) {
						continue
					}
					cl, ok := vs.Values[i].(*ast.CompositeLit)
					if !ok {
						continue
					}
					found = true
					for _, el := range cl.Elts {
						e := el
						if kv, ok := el.(*ast.KeyValueExpr); ok {
							e = kv.Key
						}
						if tv, ok := pk.TypesInfo.Types[e]; ok && tv.Value != nil && tv.Value.Kind() == constant.String {
							out[constant.StringVal(tv.Value)] = true
						}
					}
				}
			}
		}
	}
	if !found {
		c.Broken("literal %s.%s not found", pkgRel, name)
		return nil
	}
	return out
}

func keysOfClauses(m map[string]*ast.CaseClause) map[string]bool {
	out := map[string]bool{}
	for k := range m {
		out[k] = true
	}
	return out
}

func runC16(c *core.Check) {
	c.Rule("C16.tables", "keyword tables, validator case labels and storage fields agree")
	c.Rule("C16.domain", "accepted domain extracted from each validator case equals the documented domain")
	c.Rule("C16.stored", "the stored value is the validated input (lower-cased only for keyword-valued attributes)")
	c.Rule("C16.regex", "every regexp constant on the colour-validation path is anchored at both ends of the whole pattern")

	apply := mustFunc(c, "d2graph", "Style", "Apply")
	init := mustFunc(c, "d2compiler", "", "compileStyleFieldInit")
	reserved := mustFunc(c, "d2compiler", "compiler", "compileReserved")
	styleKW := literalKeys(c, "d2ast", "StyleKeywords")
	simpleKW := literalKeys(c, "d2ast", "SimpleReservedKeywords")
	if apply == nil || init == nil || reserved == nil || styleKW == nil || simpleKW == nil {
		return
	}
	isParamTag := func(fi *core.FuncInfo) func(ast.Expr) bool {
		return func(e ast.Expr) bool {
			o := core.ObjOf(fi.Pkg.TypesInfo, e)
			return o != nil && isParam(fi, o)
		}
	}
	isNameTag := func(e ast.Expr) bool { return strings.HasSuffix(exprStr(e), ".Name.ScalarString()") }
	applyCases := caseClauses(apply, isParamTag(apply))
	initCases := caseClauses(init, isNameTag)
	resCases := caseClauses(reserved, isNameTag)

	eq := func(name string, a map[string]bool, an string, b map[string]bool, bn string) {
		d1, d2 := setDiff(a, b), setDiff(b, a)
		c.Decide(len(d1) == 0 && len(d2) == 0, "C16.tables", name, token.NoPos, fmt.Sprintf("%d keywords on both sides", len(a)),
			fmt.Sprintf("in %s but not %s: %v; in %s but not %s: %v", an, bn, d1, bn, an, d2))
	}
	eq("StyleKeywords=Apply-cases", styleKW, "d2ast.StyleKeywords", keysOfClauses(applyCases), "Style.Apply")
	eq("StyleKeywords=Init-cases", styleKW, "d2ast.StyleKeywords", keysOfClauses(initCases), "compileStyleFieldInit")
	// SimpleReservedKeywords ⊆ compileReserved cases (vars is compiled elsewhere)
	missing := []string{}
	for k := range simpleKW {
		if _, ok := resCases[k]; !ok && k != "vars" {
			missing = append(missing, k)
		}
	}
	sort.Strings(missing)
	c.Decide(len(missing) == 0, "C16.tables", "SimpleReservedKeywords⊆compileReserved-cases", reserved.Decl.Pos(), "every simple reserved keyword has a validator case", fmt.Sprintf("no validator case for %v: the value is silently accepted and dropped", missing))
	// Style struct fields = number of keywords; one field per keyword; Apply/Init agree per keyword
	stTN, _ := apply.Pkg.Types.Scope().Lookup("Style").(*types.TypeName)
	nfields := 0
	if stTN != nil {
		if st, ok := stTN.Type().Underlying().(*types.Struct); ok {
			nfields = st.NumFields()
		}
	}
	c.Decide(nfields == len(styleKW), "C16.tables", "Style-fields=StyleKeywords", token.NoPos, fmt.Sprintf("%d fields", nfields), fmt.Sprintf("d2graph.Style has %d fields but there are %d style keywords", nfields, len(styleKW)))
	usedField := map[string]string{}
	for _, kw := range sortedKeys(applyCases) {
		ex := extractCase(apply, applyCases[kw].Body)
		key := "style." + kw
		// (2) domain
		want, ok := styleDomains[kw]
		got := ex.d.String()
		if !ok {
			c.Fail("C16.domain", key, applyCases[kw].Pos(), "style keyword has no documented domain in the checker's table (new keyword: add its domain): extracted "+got)
		} else {
			c.Decide(got == want, "C16.domain", key, applyCases[kw].Pos(), got, fmt.Sprintf("accepted domain is %s, documented domain is %s", got, want))
		}
		// (1) storage field agreement
		field := ""
		if len(ex.storeTo) == 1 {
			field = ex.storeTo[0]
		}
		initField := ""
		if ic := initCases[kw]; ic != nil {
			for _, st := range ic.Body {
				if as, ok := st.(*ast.AssignStmt); ok && len(as.Lhs) == 1 {
					if sel, ok := as.Lhs[0].(*ast.SelectorExpr); ok {
						initField = sel.Sel.Name
					}
				}
			}
		}
		okField := field != "" && field == initField
		if prev, dup := usedField[field]; dup && field != "" {
			okField = false
			initField += " (also used by " + prev + ")"
		}
		usedField[field] = kw
		c.Decide(okField, "C16.tables", key+":field", applyCases[kw].Pos(), "stores into Style."+field+", allocated for the same keyword",
			fmt.Sprintf("Apply stores %q into Style.%s but compileStyleFieldInit allocates Style.%s", kw, field, initField))
		// guard: `if s.X == nil { break }` names the same field
		// (3) stored value
		checkStored(c, ex, key, kw, applyCases[kw].Pos())
	}
	for _, kw := range sortedKeys(reservedDomains) {
		cc := resCases[kw]
		if cc == nil {
			c.Fail("C16.domain", "reserved."+kw, reserved.Decl.Pos(), "no case for this keyword in compileReserved")
			continue
		}
		ex := extractCase(reserved, cc.Body)
		got := ex.d.String()
		c.Decide(got == reservedDomains[kw], "C16.domain", "reserved."+kw, cc.Pos(), got, fmt.Sprintf("accepted domain is %s, documented domain is %s", got, reservedDomains[kw]))
		checkStored(c, ex, "reserved."+kw, kw, cc.Pos())
	}
	c.Floor("C16.domain", 25)

	// (4) regex anchoring on the colour-validation path
	checkColorRegexes(c)
}

func checkStored(c *core.Check, ex *extractor, key, kw string, pos token.Pos) {
	if len(ex.stores) == 0 {
		c.Fail("C16.stored", key+":store", pos, "no `<field>.Value = …` store found in the case")
		return
	}
	for _, rhs := range ex.stores {
		// a value validated as a boolean means what its canonical spelling means (1, t, T are true): it is stored as
		// strconv.FormatBool of the parsed value, because consumers compare with "true" (Is3D, IsMultiple, font choice)
		if ex.d.parse == "strconv.ParseBool" {
			ok := false
			if call, isCall := ast.Unparen(rhs).(*ast.CallExpr); isCall && core.IsCallTo(ex.info, call, "strconv.FormatBool") && len(call.Args) == 1 {
				if o := core.ObjOf(ex.info, call.Args[0]); o != nil {
					for _, d := range defsOf(ex.fi, o) {
						if pc, isP := ast.Unparen(d.Rhs).(*ast.CallExpr); isP && d.Multi && d.Index == 0 && core.IsCallTo(ex.info, pc, "strconv.ParseBool") && len(pc.Args) == 1 {
							if in, _ := ex.inputOf(pc.Args[0]); in == ex.input {
								ok = true
							}
						}
					}
				}
			}
			c.Decide(ok, "C16.stored", key+":store", rhs.Pos(), "stores the canonical spelling of the parsed boolean",
				fmt.Sprintf("stores %s, but the attribute is validated with strconv.ParseBool, which accepts 1, t, T, TRUE …: consumers that compare the stored text with \"true\" (layout's Is3D/IsMultiple, the font choice for bold/italic) then disagree with the exporter, which parses it", exprStr(rhs)))
			continue
		}
		s, lowered := ex.inputOf(rhs)
		// a value that was validated in lower case means what its lower-case spelling means: it is stored that way
		// (every consumer compares exactly); everything else is stored as written
		ok := s == ex.input && (lowered == (storedLower[kw] || ex.d.lower))
		c.Decide(ok, "C16.stored", key+":store", rhs.Pos(), "stores the validated input"+map[bool]string{true: " (lower-cased)", false: ""}[lowered],
			fmt.Sprintf("stores %s (lowered=%v) but validated %s; keyword-valued attributes store lower case, all others store the input unchanged", s, lowered, ex.input))
	}
}

func checkColorRegexes(c *core.Check) {
	pk := c.P.Pkg("lib/color")
	if pk == nil {
		c.Broken("lib/color not loaded")
		return
	}
	info := pk.TypesInfo
	// functions reachable (within the package) from the boolean validators
	reach := map[*types.Func]bool{}
	var visit func(fi *core.FuncInfo)
	visit = func(fi *core.FuncInfo) {
		if fi == nil || reach[fi.Obj] {
			return
		}
		reach[fi.Obj] = true
		for _, call := range core.Calls(fi.Decl.Body, true) {
			if f := core.CalleeOf(info, call); f != nil && f.Pkg() == pk.Types {
				visit(c.P.Decl(f))
			}
		}
	}
	for _, fi := range c.P.Funcs(pk) {
		sig := fi.Obj.Type().(*types.Signature)
		if fi.Obj.Exported() && sig.Results().Len() == 1 && isBoolType(sig.Results().At(0).Type()) && sig.Params().Len() == 1 {
			visit(fi)
		}
	}
	// regex globals used in reachable functions + local MustCompile in reachable functions
	usedGlobals := map[types.Object]bool{}
	for _, fi := range c.P.Funcs(pk) {
		if !reach[fi.Obj] {
			continue
		}
		ast.Inspect(fi.Decl.Body, func(n ast.Node) bool {
			if id, ok := n.(*ast.Ident); ok {
				if v, ok := info.Uses[id].(*types.Var); ok && v.Parent() == pk.Types.Scope() && types.TypeString(v.Type(), nil) == "*regexp.Regexp" {
					usedGlobals[v] = true
				}
			}
			return true
		})
	}
	check := func(name string, call *ast.CallExpr) {
		if len(call.Args) != 1 {
			return
		}
		tv, ok := info.Types[call.Args[0]]
		if !ok || tv.Value == nil {
			c.Fail("C16.regex", "regex:"+name, call.Pos(), "pattern is not a constant")
			return
		}
		pat := constant.StringVal(tv.Value)
		ok2, why := fullyAnchored(pat)
		c.Decide(ok2, "C16.regex", "regex:"+name, call.Pos(), "anchored: "+pat, "validator pattern "+pat+" "+why)
	}
	for _, f := range pk.Syntax {
		ast.Inspect(f, func(n ast.Node) bool {
			switch x := n.(type) {
			case *ast.ValueSpec:
				for i, nm := range x.Names {
					if i < len(x.Values) && usedGlobals[info.Defs[nm]] {
						if call, ok := x.Values[i].(*ast.CallExpr); ok && core.IsCallTo(info, call, "regexp.MustCompile", "regexp.Compile") {
							check(nm.Name, call)
						}
					}
				}
			case *ast.FuncDecl:
				if fo, ok := info.Defs[x.Name].(*types.Func); ok && reach[fo] && x.Body != nil {
					for _, call := range core.Calls(x.Body, true) {
						if core.IsCallTo(info, call, "regexp.MustCompile", "regexp.Compile") {
							check(x.Name.Name+":local", call)
						}
					}
				}
				return false
			}
			return true
		})
	}
	c.Floor("C16.regex", 3)
}

// fullyAnchored: the pattern's top level is a concatenation that starts with \A/^ and ends with
// \z/$ — anchors inside one branch of a top-level alternation do not count.
func fullyAnchored(pat string) (bool, string) {
	re, err := syntax.Parse(pat, syntax.Perl)
	if err != nil {
		return false, "does not parse: " + err.Error()
	}
	if re.Op != syntax.OpConcat || len(re.Sub) < 2 {
		if re.Op == syntax.OpAlternate {
			return false, "is a top-level alternation: ^ and $ bind to single alternatives, so a string only has to start or end like a valid value"
		}
		return false, "is not anchored at both ends"
	}
	first, last := re.Sub[0], re.Sub[len(re.Sub)-1]
	if first.Op != syntax.OpBeginText && first.Op != syntax.OpBeginLine {
		return false, "does not start with ^"
	}
	if last.Op != syntax.OpEndText && last.Op != syntax.OpEndLine {
		return false, "does not end with $"
	}
	return true, ""
}

var _ = reflect.DeepEqual
