// Package props holds one rule set per property: the slot queries against the repository and
// the instantiation of the shared engines.
package props

import (
	"sort"

	"d2verif/internal/core"
)

// Prop describes how a property is decided.
type Prop struct {
	ID          string
	Title       string
	Patterns    []string // packages to load (module-relative ./ patterns)
	All         bool     // needs syntax of dependencies (whole-program SSA / call graph)
	Explanation string   // what is decided (the structural clauses) and what is not
	NotCovered  string
	Trust       []string
	Technique   string
	Run         func(c *core.Check)
	Thorough    func(c *core.Check) // extra work in the thorough tier
}

var registry = map[string]*Prop{}

func register(p *Prop) { registry[p.ID] = p }

// Get returns a registered property.
func Get(id string) *Prop { return registry[id] }

// IDs lists registered property ids.
func IDs() []string {
	var out []string
	for id := range registry {
		out = append(out, id)
	}
	sort.Strings(out)
	return out
}

// PatternsOf returns the package patterns a property's check loads ("./..." when it loads everything).
func PatternsOf(id string) []string {
	p := Get(id)
	if p == nil {
		return nil
	}
	if p.All || len(p.Patterns) == 0 {
		return []string{"./..."}
	}
	return p.Patterns
}
