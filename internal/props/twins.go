package props

import (
	"fmt"
	"go/ast"
	"go/token"
	"go/types"
	"sort"
	"strings"

	"golang.org/x/tools/go/packages"

	"d2verif/internal/core"
)

// Two agreement clauses over sibling pieces of one function.
//
// Endpoint twins: two consecutive if statements whose conditions are each other's image under the renaming
// Src↔Dst (src↔dst) do the same thing for the two ends of a connection; their bodies must be each other's image
// under the same renaming (operands of ==, !=, &&, || compared as sets). A body that names the other end where its
// twin names its own is the "wrong variable of the same type" mistake.
//
// Climb loops: two loops of one function that walk up the same chain with the same step (`x = F(x)`) visit the same
// ancestors only if they stop at the same place: the conditions under which they break (or return) that mention the
// climbing variable must be the same.

var endpointSwap = map[string]string{"Src": "Dst", "Dst": "Src", "src": "dst", "dst": "src", "SrcPath": "DstPath", "DstPath": "SrcPath", "SrcArrow": "DstArrow", "DstArrow": "SrcArrow"}

// canonExpr prints an expression with identifiers renamed by ren and the operands of commutative operators sorted.
func canonExpr(e ast.Expr, ren map[string]string) string {
	switch x := e.(type) {
	case nil:
		return ""
	case *ast.ParenExpr:
		return canonExpr(x.X, ren)
	case *ast.Ident:
		if r, ok := ren[x.Name]; ok {
			return r
		}
		return x.Name
	case *ast.SelectorExpr:
		sel := x.Sel.Name
		if r, ok := ren[sel]; ok {
			sel = r
		}
		return canonExpr(x.X, ren) + "." + sel
	case *ast.CallExpr:
		var args []string
		for _, a := range x.Args {
			args = append(args, canonExpr(a, ren))
		}
		return canonExpr(x.Fun, ren) + "(" + strings.Join(args, ", ") + ")"
	case *ast.UnaryExpr:
		return x.Op.String() + canonExpr(x.X, ren)
	case *ast.StarExpr:
		return "*" + canonExpr(x.X, ren)
	case *ast.IndexExpr:
		return canonExpr(x.X, ren) + "[" + canonExpr(x.Index, ren) + "]"
	case *ast.BinaryExpr:
		l, r := canonExpr(x.X, ren), canonExpr(x.Y, ren)
		switch x.Op {
		case token.EQL, token.NEQ:
			parts := []string{l, r}
			sort.Strings(parts)
			return "(" + parts[0] + " " + x.Op.String() + " " + parts[1] + ")"
		case token.LAND, token.LOR, token.ADD, token.MUL:
			// flatten chains of the same associative operator and sort
			var parts []string
			var flat func(e ast.Expr)
			flat = func(e ast.Expr) {
				e = ast.Unparen(e)
				if b, ok := e.(*ast.BinaryExpr); ok && b.Op == x.Op {
					flat(b.X)
					flat(b.Y)
					return
				}
				parts = append(parts, canonExpr(e, ren))
			}
			flat(x.X)
			flat(x.Y)
			sort.Strings(parts)
			return "(" + strings.Join(parts, " "+x.Op.String()+" ") + ")"
		}
		return "(" + l + " " + x.Op.String() + " " + r + ")"
	}
	return types.ExprString(e)
}

func canonStmts(list []ast.Stmt, ren map[string]string) string {
	var out []string
	for _, st := range list {
		out = append(out, canonStmt(st, ren))
	}
	return strings.Join(out, "; ")
}

func canonStmt(st ast.Stmt, ren map[string]string) string {
	switch s := st.(type) {
	case *ast.ExprStmt:
		return canonExpr(s.X, ren)
	case *ast.AssignStmt:
		var l, r []string
		for _, e := range s.Lhs {
			l = append(l, canonExpr(e, ren))
		}
		for _, e := range s.Rhs {
			r = append(r, canonExpr(e, ren))
		}
		return strings.Join(l, ", ") + " " + s.Tok.String() + " " + strings.Join(r, ", ")
	case *ast.IfStmt:
		out := "if "
		if s.Init != nil {
			out += canonStmt(s.Init, ren) + "; "
		}
		out += canonExpr(s.Cond, ren) + " {" + canonStmts(s.Body.List, ren) + "}"
		if s.Else != nil {
			out += " else " + canonStmt(s.Else, ren)
		}
		return out
	case *ast.BlockStmt:
		return "{" + canonStmts(s.List, ren) + "}"
	case *ast.BranchStmt:
		return s.Tok.String()
	case *ast.ReturnStmt:
		var r []string
		for _, e := range s.Results {
			r = append(r, canonExpr(e, ren))
		}
		return "return " + strings.Join(r, ", ")
	case *ast.IncDecStmt:
		return canonExpr(s.X, ren) + s.Tok.String()
	case *ast.RangeStmt:
		return "for " + canonExpr(s.Key, ren) + ", " + canonExpr(s.Value, ren) + " := range " + canonExpr(s.X, ren) + " {" + canonStmts(s.Body.List, ren) + "}"
	case *ast.ForStmt:
		out := "for "
		if s.Init != nil {
			out += canonStmt(s.Init, ren)
		}
		out += "; " + canonExpr(s.Cond, ren) + "; "
		if s.Post != nil {
			out += canonStmt(s.Post, ren)
		}
		return out + " {" + canonStmts(s.Body.List, ren) + "}"
	case *ast.DeclStmt:
		return fmt.Sprintf("decl@%T", s.Decl)
	}
	return fmt.Sprintf("%T", st)
}

// checkEndpointTwins applies the endpoint-twin clause to every block of every function of pkgs. Returns the number of twin pairs.
func checkEndpointTwins(c *core.Check, rule string, pkgs []*packages.Package) int {
	n := 0
	for _, pk := range pkgs {
		for _, fi := range c.P.Funcs(pk) {
			seen := map[string]int{}
			ast.Inspect(fi.Decl.Body, func(nd ast.Node) bool {
				var list []ast.Stmt
				switch b := nd.(type) {
				case *ast.BlockStmt:
					list = b.List
				case *ast.CaseClause:
					list = b.Body
				default:
					return true
				}
				for i := 0; i+1 < len(list); i++ {
					a, ok1 := list[i].(*ast.IfStmt)
					b, ok2 := list[i+1].(*ast.IfStmt)
					if !ok1 || !ok2 || a.Else != nil || b.Else != nil || a.Init != nil || b.Init != nil {
						continue
					}
					ca, cb := canonExpr(a.Cond, nil), canonExpr(b.Cond, nil)
					if ca == cb || ca != canonExpr(b.Cond, endpointSwap) {
						continue
					}
					n++
					key := fmt.Sprintf("endpoint-twins:%s:%s", fname(fi), exprStr(a.Cond))
					seen[key]++
					if seen[key] > 1 {
						key = fmt.Sprintf("%s#%d", key, seen[key])
					}
					ba, bb := canonStmts(a.Body.List, nil), canonStmts(b.Body.List, endpointSwap)
					c.Decide(ba == bb, rule, key, b.Pos(), "the body for the other end is the mirror image", fmt.Sprintf("the two blocks test the two ends of a connection (`%s` / `%s`) but their bodies are not mirror images under Src↔Dst: one of them names the wrong end.\n      first:  %s\n      second (mirrored): %s", exprStr(a.Cond), exprStr(b.Cond), ba, bb))
				}
				return true
			})
		}
	}
	return n
}

// checkClimbLoops applies the climb-loop clause to every function of pkgs. Returns the number of functions with two or more climbs of one step.
func checkClimbLoops(c *core.Check, rule string, pkgs []*packages.Package) int {
	n := 0
	for _, pk := range pkgs {
		info := pk.TypesInfo
		for _, fi := range c.P.Funcs(pk) {
			type climb struct {
				loop  *ast.ForStmt
				v     types.Object
				step  string
				stops []string
			}
			var climbs []climb
			ast.Inspect(fi.Decl.Body, func(nd ast.Node) bool {
				fs, ok := nd.(*ast.ForStmt)
				if !ok {
					return true
				}
				// the step `x = F(x)`: the post statement, or a statement of the body
				var stepAs *ast.AssignStmt
				cands := append([]ast.Stmt{}, fs.Body.List...)
				if fs.Post != nil {
					cands = append(cands, fs.Post)
				}
				for _, st := range cands {
					as, ok := st.(*ast.AssignStmt)
					if !ok || as.Tok != token.ASSIGN || len(as.Lhs) != 1 || len(as.Rhs) != 1 {
						continue
					}
					call, ok := ast.Unparen(as.Rhs[0]).(*ast.CallExpr)
					if !ok || len(call.Args) != 1 {
						continue
					}
					v := core.ObjOf(info, as.Lhs[0])
					if v != nil && core.ObjOf(info, call.Args[0]) == v && core.CalleeOf(info, call) != nil {
						stepAs = as
					}
				}
				if stepAs == nil {
					return true
				}
				v := core.ObjOf(info, stepAs.Lhs[0])
				cl := climb{loop: fs, v: v, step: core.FuncName(core.CalleeOf(info, ast.Unparen(stepAs.Rhs[0]).(*ast.CallExpr)))}
				// stops: conditions of ifs directly in the body whose body ends in break/return, mentioning v
				ren := map[string]string{v.Name(): "·"}
				for _, st := range fs.Body.List {
					is, ok := st.(*ast.IfStmt)
					if !ok || len(is.Body.List) == 0 || !mentions(info, is.Cond, v) {
						continue
					}
					switch last := is.Body.List[len(is.Body.List)-1].(type) {
					case *ast.BranchStmt:
						if last.Tok == token.BREAK {
							cl.stops = append(cl.stops, canonExpr(is.Cond, ren))
						}
					case *ast.ReturnStmt:
						cl.stops = append(cl.stops, canonExpr(is.Cond, ren))
					}
				}
				sort.Strings(cl.stops)
				climbs = append(climbs, cl)
				return true
			})
			bySteps := map[string][]climb{}
			for _, cl := range climbs {
				bySteps[cl.step] = append(bySteps[cl.step], cl)
			}
			for _, step := range sortedKeys(bySteps) {
				group := bySteps[step]
				if len(group) < 2 {
					continue
				}
				n++
				ref := strings.Join(group[0].stops, " | ")
				for i, cl := range group[1:] {
					key := fmt.Sprintf("climb-loops:%s:%s#%d", fname(fi), step, i+2)
					got := strings.Join(cl.stops, " | ")
					c.Decide(got == ref, rule, key, cl.loop.Pos(), "stops where the first climb of the function stops ("+ref+")", fmt.Sprintf("two loops of this function climb with %s but stop at different places: the first under {%s}, this one under {%s} — one of them walks past the boundary the other respects (e.g. out of the board)", step, ref, got))
				}
			}
		}
	}
	return n
}
