package props

import (
	"fmt"
	"go/ast"
	"go/constant"
	"go/token"
	"go/types"
	"regexp/syntax"
	"sort"
	"strings"

	"golang.org/x/tools/go/packages"

	"d2verif/internal/core"
)

func init() {
	register(&Prop{
		ID:       "C31",
		Title:    "Themes and theme overrides are applied consistently",
		Patterns: []string{"./d2themes/...", "./d2renderers/d2svg", "./d2target", "./lib/color", "./d2compiler"},
		Explanation: "Decides table agreement over the sites that spell out the theme colour codes: (1) the finite language of color.themeColorRegex (enumerated from the pattern) = the fields of d2target.ThemeOverrides = the codes copied by Theme.ApplyOverrides = the case labels of ResolveThemeColor = the case labels of compileThemeOverrides = the codes of the CSS rules in singleThemeRulesets; " +
			"(2) no cross-wiring: ApplyOverrides copies override X to palette colour X, ResolveThemeColor returns palette colour C for code C, compileThemeOverrides stores code C into override field C, and in the stylesheet format the value argument of rule `-C{…}` is palette colour C; " +
			"(3) the dark-theme ruleset is emitted whenever a dark theme id is given (its only guards are that id and earlier errors), both rulesets apply the overrides passed for them, and the stylesheet is not cached in package-level state.",
		NotCovered: "colours inside user gradients; whether every drawn element carries the theme class; dark-theme id validation (relies on the catalogue lookup)",
		Technique:  "static analysis: constant-set extraction (regexp/syntax language enumeration, struct fields, switch labels, format/argument alignment) and pairwise comparison; guard exactness on go/cfg",
		Run:        runC31,
	})
}

// regexLanguage enumerates the finite language of a pattern made of literals, classes, groups,
// alternation and anchors. ok=false when the language is infinite or too large.
func regexLanguage(pat string) ([]string, bool) {
	re, err := syntax.Parse(pat, syntax.Perl)
	if err != nil {
		return nil, false
	}
	var enum func(r *syntax.Regexp) ([]string, bool)
	enum = func(r *syntax.Regexp) ([]string, bool) {
		switch r.Op {
		case syntax.OpEmptyMatch, syntax.OpBeginText, syntax.OpEndText, syntax.OpBeginLine, syntax.OpEndLine:
			return []string{""}, true
		case syntax.OpLiteral:
			return []string{string(r.Rune)}, true
		case syntax.OpCharClass:
			var out []string
			for i := 0; i+1 < len(r.Rune); i += 2 {
				if r.Rune[i+1]-r.Rune[i] > 64 {
					return nil, false
				}
				for c := r.Rune[i]; c <= r.Rune[i+1]; c++ {
					out = append(out, string(c))
				}
			}
			return out, true
		case syntax.OpCapture:
			return enum(r.Sub[0])
		case syntax.OpConcat:
			acc := []string{""}
			for _, s := range r.Sub {
				part, ok := enum(s)
				if !ok {
					return nil, false
				}
				var next []string
				for _, a := range acc {
					for _, p := range part {
						next = append(next, a+p)
					}
				}
				if len(next) > 4096 {
					return nil, false
				}
				acc = next
			}
			return acc, true
		case syntax.OpAlternate:
			var out []string
			for _, s := range r.Sub {
				part, ok := enum(s)
				if !ok {
					return nil, false
				}
				out = append(out, part...)
			}
			return out, true
		}
		return nil, false
	}
	out, ok := enum(re)
	sort.Strings(out)
	return out, ok
}

func toSet(xs []string) map[string]bool {
	m := map[string]bool{}
	for _, x := range xs {
		m[x] = true
	}
	return m
}

// lastSel returns the last selector name of an expression chain (t.Colors.Neutrals.N1 → N1).
func lastSel(e ast.Expr) string {
	e = ast.Unparen(e)
	if st, ok := e.(*ast.StarExpr); ok {
		e = ast.Unparen(st.X)
	}
	if s, ok := e.(*ast.SelectorExpr); ok {
		return s.Sel.Name
	}
	return ""
}

func runC31(c *core.Check) {
	c.Rule("C31.codes", "the sets of theme colour codes at all sites are equal")
	c.Rule("C31.wiring", "every site maps code C to palette colour / override field C")
	c.Rule("C31.dark", "dark ruleset emitted whenever a dark theme id is given; overrides applied; stylesheet not cached in package state")

	// (a) the regex
	colorPk := c.P.Pkg("lib/color")
	var codes map[string]bool
	if colorPk != nil {
		for _, f := range colorPk.Syntax {
			ast.Inspect(f, func(n ast.Node) bool {
				vs, ok := n.(*ast.ValueSpec)
				if !ok {
					return true
				}
				for i, nm := range vs.Names {
					if nm.Name == "themeColorRegex" && i < len(vs.Values) {
						if call, ok := vs.Values[i].(*ast.CallExpr); ok && len(call.Args) == 1 {
							if tv, ok := colorPk.TypesInfo.Types[call.Args[0]]; ok && tv.Value != nil {
								lang, ok := regexLanguage(constant.StringVal(tv.Value))
								if ok {
									codes = toSet(lang)
								}
							}
						}
					}
				}
				return true
			})
		}
	}
	if codes == nil || len(codes) < 10 {
		c.Broken("cannot enumerate the language of color.themeColorRegex")
		return
	}
	cmp := func(name string, got map[string]bool, pos token.Pos) {
		d1, d2 := setDiff(codes, got), setDiff(got, codes)
		c.Decide(len(d1) == 0 && len(d2) == 0, "C31.codes", name, pos, fmt.Sprintf("%d codes, equal to the regex language", len(got)),
			fmt.Sprintf("codes accepted by color.IsThemeColor but missing here: %v; extra here: %v", d1, d2))
	}

	// (b) ThemeOverrides fields
	tp := c.P.Pkg("d2target")
	if tp != nil {
		if tn, ok := tp.Types.Scope().Lookup("ThemeOverrides").(*types.TypeName); ok {
			st := tn.Type().Underlying().(*types.Struct)
			got := map[string]bool{}
			for i := 0; i < st.NumFields(); i++ {
				got[st.Field(i).Name()] = true
			}
			cmp("ThemeOverrides-fields", got, tn.Pos())
		}
	}

	// (c) ApplyOverrides
	if ao := mustFunc(c, "d2themes", "Theme", "ApplyOverrides"); ao != nil {
		got := map[string]bool{}
		ast.Inspect(ao.Decl.Body, func(n ast.Node) bool {
			is, ok := n.(*ast.IfStmt)
			if !ok {
				return true
			}
			be, ok := is.Cond.(*ast.BinaryExpr)
			if !ok || be.Op != token.NEQ {
				return true
			}
			guard := lastSel(be.X)
			if !codes[guard] && len(is.Body.List) == 0 {
				return true
			}
			for _, st := range is.Body.List {
				as, ok := st.(*ast.AssignStmt)
				if !ok || len(as.Lhs) != 1 || len(as.Rhs) != 1 {
					continue
				}
				dst, src := lastSel(as.Lhs[0]), lastSel(as.Rhs[0])
				if dst == "" || src == "" {
					continue
				}
				got[dst] = true
				c.Decide(dst == src && src == guard, "C31.wiring", "ApplyOverrides:"+guard, as.Pos(), "override "+src+" → palette "+dst,
					fmt.Sprintf("under the test of override %s, override %s is copied into palette colour %s", guard, src, dst))
			}
			return true
		})
		cmp("ApplyOverrides-codes", got, ao.Decl.Pos())
	}

	// (d) ResolveThemeColor and compileThemeOverrides: switch label C ↔ selector C
	for _, site := range []struct{ pkg, recv, name string }{{"d2themes", "", "ResolveThemeColor"}, {"d2compiler", "", "compileThemeOverrides"}} {
		fi := mustFunc(c, site.pkg, site.recv, site.name)
		if fi == nil {
			continue
		}
		got := map[string]bool{}
		ast.Inspect(fi.Decl.Body, func(n ast.Node) bool {
			cc, ok := n.(*ast.CaseClause)
			if !ok {
				return true
			}
			for _, l := range cc.List {
				tv, ok := fi.Pkg.TypesInfo.Types[l]
				if !ok || tv.Value == nil || tv.Value.Kind() != constant.String {
					continue
				}
				code := constant.StringVal(tv.Value)
				got[code] = true
				// the clause mentions exactly one code-named selector: it must be the label
				var sels []string
				for _, st := range cc.Body {
					ast.Inspect(st, func(m ast.Node) bool {
						if s, ok := m.(*ast.SelectorExpr); ok && codes[s.Sel.Name] {
							sels = append(sels, s.Sel.Name)
						}
						return true
					})
				}
				ok2 := len(sels) >= 1
				for _, s := range sels {
					if s != code {
						ok2 = false
					}
				}
				c.Decide(ok2, "C31.wiring", site.name+":"+code, cc.Pos(), "case "+code+" uses "+strings.Join(sels, ","), fmt.Sprintf("case %q reads/writes colour %v", code, sels))
			}
			return true
		})
		cmp(site.name+"-cases", got, fi.Decl.Pos())
	}

	// (e) stylesheet format/argument alignment
	checkThemeCSSFormat(c, codes, cmp)

	// (f) dark ruleset guards, overrides applied, no package-level cache
	if tc := mustFunc(c, "d2renderers/d2svg", "", "ThemeCSS"); tc != nil {
		info := tc.Pkg.TypesInfo
		sig := tc.Obj.Type().(*types.Signature)
		paramByName := map[string]*types.Var{}
		for i := 0; i < sig.Params().Len(); i++ {
			paramByName[sig.Params().At(i).Name()] = sig.Params().At(i)
		}
		fl := core.NewFlow(tc.Pkg, tc.Decl.Body)
		calls := callsIn(tc, false, "d2renderers/d2svg.singleThemeRulesets")
		darkSeen, lightSeen := false, false
		for _, call := range calls {
			if len(call.Args) < 3 {
				continue
			}
			idObj := rootIdent(info, call.Args[1])
			ovObj := core.ObjOf(info, call.Args[2])
			isDark := idObj == types.Object(paramByName["darkThemeID"])
			if isDark {
				darkSeen = true
			} else {
				lightSeen = true
			}
			// overrides argument matches the theme it is for
			wantOv := paramByName["overrides"]
			if isDark {
				wantOv = paramByName["darkOverrides"]
			}
			c.Decide(wantOv != nil && ovObj == types.Object(wantOv), "C31.dark", fmt.Sprintf("ThemeCSS:overrides-for-%v", map[bool]string{true: "dark", false: "light"}[isDark]), call.Pos(),
				"ruleset built with the overrides given for that theme", "the ruleset is built with the wrong (or no) override set")
			if !isDark {
				continue
			}
			extra := []string{}
			for _, g := range fl.GuardsOfNode(call) {
				for _, a := range g.Atoms() {
					if x, _, ok := a.NilTest(info); ok {
						o := rootIdent(info, x)
						if o == types.Object(paramByName["darkThemeID"]) {
							continue
						}
						if t := info.TypeOf(x); t != nil && types.TypeString(t, nil) == "error" {
							continue
						}
					}
					extra = append(extra, exprStr(a.Cond))
				}
			}
			c.Decide(len(extra) == 0, "C31.dark", "ThemeCSS:dark-ruleset-guard", call.Pos(), "guarded only by darkThemeID != nil",
				fmt.Sprintf("the dark ruleset is skipped under an extra condition %v although a dark theme was requested: in dark mode overridden codes then resolve to the light override", extra))
		}
		c.Decide(darkSeen && lightSeen, "C31.dark", "ThemeCSS:both-rulesets", tc.Decl.Pos(), "light and dark rulesets built by singleThemeRulesets", "ThemeCSS no longer builds both rulesets through singleThemeRulesets")
	}
	if sr := mustFunc(c, "d2renderers/d2svg", "", "singleThemeRulesets"); sr != nil {
		n := len(callsIn(sr, false, "d2themes.(*Theme).ApplyOverrides"))
		c.Decide(n >= 1, "C31.dark", "singleThemeRulesets:applies-overrides", sr.Decl.Pos(), "ApplyOverrides called", "the stylesheet is generated without applying the overrides")
	}
	var scope []*packages.Package
	for _, rel := range []string{"d2renderers/d2svg", "d2themes", "d2themes/d2themescatalog"} {
		if pk := c.P.Pkg(rel); pk != nil {
			scope = append(scope, pk)
		}
	}
	before := len(c.Obs)
	checkGlobalsNoLockTable(c, "C31.dark", scope)
	if len(c.Obs) == before {
		c.Pass("C31.dark", "no-package-level-state", token.NoPos, "d2svg/d2themes write no package-level state at run time")
	}
}

// checkGlobalsNoLockTable: run-time writes to package state in the given packages (self-synchronising allowed).
func checkGlobalsNoLockTable(c *core.Check, rule string, pkgs []*packages.Package) {
	var rels []string
	for _, pk := range pkgs {
		rels = append(rels, pk.PkgPath)
	}
	for _, w := range globalWrites(c.P, rels) {
		gname := core.RelPkg(w.global.Pkg.Pkg.Path()) + "." + w.global.Name()
		elem := w.global.Type().(*types.Pointer).Elem()
		if ok, _ := selfSynchronising(elem); ok {
			if s := types.TypeString(elem, nil); s == "sync.Mutex" || s == "sync.RWMutex" {
				continue
			}
		}
		c.Fail(rule, "global-write:"+gname+"@"+strings.TrimPrefix(w.fn.String(), core.Mod+"/"), w.pos, "the renderer keeps state in package-level variable "+gname+" ("+w.what+"): a stylesheet or palette remembered from an earlier render disagrees with the overrides of the current one")
	}
}

func checkThemeCSSFormat(c *core.Check, codes map[string]bool, cmp func(string, map[string]bool, token.Pos)) {
	sr := mustFunc(c, "d2renderers/d2svg", "", "singleThemeRulesets")
	if sr == nil {
		return
	}
	info := sr.Pkg.TypesInfo
	found := false
	for _, call := range callsIn(sr, false, "fmt.Sprintf") {
		if len(call.Args) < 10 {
			continue
		}
		tv, ok := info.Types[call.Args[0]]
		if !ok || tv.Value == nil {
			continue
		}
		format := constant.StringVal(tv.Value)
		// walk the format: each verb gets the code of the most recent `-CODE{` seen before it
		got := map[string]bool{}
		argi := 1
		cur := ""
		inBraces := false
		for i := 0; i < len(format); i++ {
			switch {
			case format[i] == '-':
				j := i + 1
				for j < len(format) && (format[j] >= 'A' && format[j] <= 'Z' || format[j] >= '0' && format[j] <= '9') {
					j++
				}
				if j < len(format) && format[j] == '{' && j > i+1 {
					cur = format[i+1 : j]
					got[cur] = true
					inBraces = true
					i = j
				}
			case format[i] == '}':
				inBraces = false
			case format[i] == '%' && i+1 < len(format) && format[i+1] != '%':
				if argi < len(call.Args) {
					// the value verb is the last verb inside the braces: `{%s:%s;}` → second
					if inBraces && i+2 < len(format) && format[i+2] == ';' {
						sel := lastSel(call.Args[argi])
						c.Decide(sel == cur, "C31.wiring", "css:"+cur, call.Args[argi].Pos(), "rule -"+cur+" gets palette colour "+sel,
							fmt.Sprintf("stylesheet rule for code %s is given palette colour %s", cur, sel))
					}
				}
				argi++
				i++
			}
		}
		if len(got) > 0 {
			found = true
			cmp("stylesheet-rules", got, call.Pos())
		}
	}
	if !found {
		c.Fail("C31.codes", "stylesheet-rules", sr.Decl.Pos(), "no stylesheet format with `-CODE{…}` rules found in singleThemeRulesets")
	}
}
