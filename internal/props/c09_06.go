package props

import (
	"fmt"
	"go/ast"
	"go/constant"
	"go/token"
	"go/types"
	"strings"

	"d2verif/internal/core"
)

func init() {
	register(&Prop{
		ID:       "C09",
		Title:    "Compiled graphs are well-formed trees with consistent connection endpoints",
		Patterns: []string{"./d2graph", "./d2compiler", "./d2ast", "./d2layouts/...", "./d2oracle"},
		Explanation: "Decides the paired-update and keying discipline that keeps the object tree consistent: (1) every read, write and delete on an Object.Children map anywhere in the repository uses a key that is strings.ToLower(…) of an ID (or a key obtained by ranging over a Children map); " +
			"(2) newObject — the only place that creates child objects — registers the child exactly once in the parent's Children (under the lower-cased ID it stores in the child), ChildrenArray and the graph's Objects on every path; EnsureChild looks a child up under the key newObject stores it under (same key expression); " +
			"(3) class and sql_table compilation removes every child of the shape from Graph.Objects before it clears Children and ChildrenArray together; (4) Connect resolves both endpoints from the same receiver and appends the edge to that receiver's graph exactly once before the success return; " +
			"(5) d2compiler.Compile sorts objects and connections by source position on every success path (shared with C08).",
		NotCovered: "reachability of every object from the root for all inputs, board-local endpoints under underscore paths (run-time resolution), the comparator of the AST sort",
		Technique:  "static analysis: keyed-access uniformity, exactly-once path enumeration, paired-update and sibling-expression agreement on the typed AST",
		Run:        runC09,
	})
	register(&Prop{
		ID:       "C06",
		Title:    "Object and connection IDs are valid, unambiguous D2 key paths",
		Patterns: []string{"./d2graph", "./d2compiler", "./d2ast", "./d2format", "./d2exporter", "./d2lib", "./d2parser", "./d2ir"},
		Explanation: "Decides: (1) who-may-write: on the compile path (d2graph, d2compiler, d2exporter, d2lib) Object.ID is written only by newObject and by the root literal of NewGraph; (2) the value newObject stores is d2format.Format of a one-element key path built with RawString(name, inKey = true) — the generator whose agreement with the parser C05 decides — and IDVal is that ID parsed back; " +
			"(3) AbsID, AbsIDArray and Edge.AbsID join IDs with \".\" only and Edge.AbsID uses the `(src arrow dst)[index]` shape; (4) the generator clauses of C05 for key context (delimiter coverage, whole-rune whitespace test, keyword case) hold.",
		NotCovered: "uniqueness of absolute IDs for arbitrary names; an object declared as the quoted lower-case keyword (\"label\") still gets the ID label, which reads as the keyword (a limitation of the ID scheme, not decided here); that each connection ID identifies exactly one connection (index arithmetic, C11)",
		Technique:  "static analysis: who-may-write on the typed AST, value-shape check of the ID expression, constant inventory of separators, reuse of the C05 generator clauses",
		Run:        runC06,
	})
}

// shapeOfExpr renders an expression with local variables replaced by $ (struct fields, functions, types and constants keep their names).
func shapeOfExpr(info *types.Info, e ast.Expr) string {
	var b strings.Builder
	var walk func(n ast.Node)
	walk = func(n ast.Node) {
		switch x := n.(type) {
		case nil:
		case *ast.Ident:
			if o := info.Uses[x]; o != nil {
				if v, ok := o.(*types.Var); ok && !v.IsField() && v.Parent() != nil && v.Pkg() != nil && v.Parent() != v.Pkg().Scope() {
					b.WriteString("$")
					return
				}
			}
			b.WriteString(x.Name)
		case *ast.BasicLit:
			b.WriteString(x.Value)
		case *ast.SelectorExpr:
			walk(x.X)
			b.WriteString(".")
			b.WriteString(x.Sel.Name)
		case *ast.CallExpr:
			walk(x.Fun)
			b.WriteString("(")
			for i, a := range x.Args {
				if i > 0 {
					b.WriteString(",")
				}
				walk(a)
			}
			b.WriteString(")")
		case *ast.UnaryExpr:
			b.WriteString(x.Op.String())
			walk(x.X)
		case *ast.StarExpr:
			b.WriteString("*")
			walk(x.X)
		case *ast.ParenExpr:
			walk(x.X)
		case *ast.CompositeLit:
			walk(x.Type)
			b.WriteString("{")
			for i, el := range x.Elts {
				if i > 0 {
					b.WriteString(",")
				}
				walk(el)
			}
			b.WriteString("}")
		case *ast.KeyValueExpr:
			walk(x.Key)
			b.WriteString(":")
			walk(x.Value)
		case *ast.ArrayType:
			b.WriteString("[]")
			walk(x.Elt)
		case *ast.IndexExpr:
			walk(x.X)
			b.WriteString("[")
			walk(x.Index)
			b.WriteString("]")
		case *ast.BinaryExpr:
			walk(x.X)
			b.WriteString(x.Op.String())
			walk(x.Y)
		default:
			b.WriteString(fmt.Sprintf("<%T>", n))
		}
	}
	walk(e)
	return b.String()
}

func runC09(c *core.Check) {
	c.Rule("C09.child-key", "every access to an Object.Children map is keyed by a lower-cased ID")
	c.Rule("C09.new-object", "newObject registers the child once in Children, ChildrenArray and Graph.Objects; EnsureChild looks up under the same key")
	c.Rule("C09.fields-not-objects", "class/sql_table compilation removes the fields from Graph.Objects and clears both child collections")
	c.Rule("C09.connect", "Connect takes both endpoints from its receiver and appends the edge to the receiver's graph once")
	c.Rule("C09.sorted", "d2compiler.Compile sorts objects and connections by source position on every success path")
	childrenF := structField(c.P, "d2graph", "Object", "Children")
	if childrenF == nil {
		c.Broken("d2graph.Object.Children not found")
		return
	}
	n := 0
	for _, pk := range c.P.RepoPkgs() {
		for _, fi := range c.P.Funcs(pk) {
			info := fi.Pkg.TypesInfo
			counts := map[string]int{}
			check := func(mapExpr, key ast.Expr, pos token.Pos, what string) {
				if core.FieldOf(info, mapExpr) != childrenF {
					return
				}
				n++
				ok, how := false, ""
				k := ast.Unparen(key)
				if call, isCall := k.(*ast.CallExpr); isCall && core.IsCallTo(info, call, "strings.ToLower") {
					ok, how = true, "strings.ToLower(…)"
				}
				if id, isId := k.(*ast.Ident); isId && !ok {
					if o := core.ObjOf(info, id); o != nil {
						allOK := len(defsOf(fi, o)) > 0
						for _, d := range defsOf(fi, o) {
							if rs, isRange := d.Stmt.(*ast.RangeStmt); isRange && d.Rhs == nil && rs.Key != nil && core.ObjOf(info, rs.Key) == o && core.FieldOf(info, rs.X) == childrenF {
								continue
							}
							if d.Rhs != nil {
								if call, isCall := ast.Unparen(d.Rhs).(*ast.CallExpr); isCall && core.IsCallTo(info, call, "strings.ToLower") {
									continue
								}
							}
							allOK = false
						}
						if allOK {
							ok, how = true, "key of a range over a Children map / lower-cased local"
						}
					}
				}
				key0 := fmt.Sprintf("%s:%s:%s[%s]", what, fname(fi), exprStr(mapExpr), exprStr(key))
				counts[key0]++
				if counts[key0] > 1 {
					key0 = fmt.Sprintf("%s#%d", key0, counts[key0])
				}
				c.Decide(ok, "C09.child-key", key0, pos, how, "Children is keyed by the lower-cased ID everywhere else; this access uses "+exprStr(key)+": an object whose ID has upper-case letters is not found (or is registered twice)")
			}
			ast.Inspect(fi.Decl.Body, func(nd ast.Node) bool {
				switch x := nd.(type) {
				case *ast.IndexExpr:
					check(x.X, x.Index, x.Pos(), "index")
				case *ast.CallExpr:
					if id, ok := x.Fun.(*ast.Ident); ok && id.Name == "delete" && len(x.Args) == 2 {
						check(x.Args[0], x.Args[1], x.Pos(), "delete")
					}
				}
				return true
			})
		}
	}
	c.Floor("C09.child-key", 8)

	// newObject
	no := mustFunc(c, "d2graph", "Object", "newObject")
	ec := mustFunc(c, "d2graph", "Object", "EnsureChild")
	if no != nil && ec != nil {
		info := no.Pkg.TypesInfo
		arrF := structField(c.P, "d2graph", "Object", "ChildrenArray")
		objsF := structField(c.P, "d2graph", "Graph", "Objects")
		recv := types.Object(recvObj(no))
		// the child literal
		var child types.Object
		var idExpr ast.Expr
		ast.Inspect(no.Decl.Body, func(nd ast.Node) bool {
			as, ok := nd.(*ast.AssignStmt)
			if !ok || len(as.Rhs) != 1 {
				return true
			}
			u, ok := ast.Unparen(as.Rhs[0]).(*ast.UnaryExpr)
			if !ok {
				return true
			}
			cl, ok := u.X.(*ast.CompositeLit)
			if !ok || exprStr(cl.Type) != "Object" {
				return true
			}
			child = core.ObjOf(info, as.Lhs[0])
			for _, el := range cl.Elts {
				if kv, ok := el.(*ast.KeyValueExpr); ok && exprStr(kv.Key) == "ID" {
					idExpr = kv.Value
				}
			}
			return true
		})
		if child == nil || idExpr == nil {
			c.Fail("C09.new-object", "newObject:literal", no.Decl.Pos(), "the child Object literal with its ID was not found")
		} else {
			isReg := func(which string) func(ast.Stmt) bool {
				return func(st ast.Stmt) bool {
					as, ok := st.(*ast.AssignStmt)
					if !ok || len(as.Lhs) != 1 || len(as.Rhs) != 1 {
						return false
					}
					switch which {
					case "Children":
						ix, ok := as.Lhs[0].(*ast.IndexExpr)
						if !ok || core.FieldOf(info, ix.X) != childrenF || rootIdent(info, ix.X) != recv || core.ObjOf(info, as.Rhs[0]) != child {
							return false
						}
						call, ok := ast.Unparen(ix.Index).(*ast.CallExpr)
						return ok && core.IsCallTo(info, call, "strings.ToLower") && exprStr(call.Args[0]) == exprStr(idExpr)
					case "ChildrenArray", "Objects":
						f := arrF
						if which == "Objects" {
							f = objsF
						}
						if core.FieldOf(info, as.Lhs[0]) != f || rootIdent(info, as.Lhs[0]) != recv {
							return false
						}
						call, ok := ast.Unparen(as.Rhs[0]).(*ast.CallExpr)
						return ok && exprStr(call.Fun) == "append" && len(call.Args) == 2 && exprStr(call.Args[0]) == exprStr(as.Lhs[0]) && core.ObjOf(info, call.Args[1]) == child
					}
					return false
				}
			}
			for _, which := range []string{"Children", "ChildrenArray", "Objects"} {
				outs := appendCounts(no.Decl.Body.List, isReg(which))
				ok := len(outs) > 0
				var bad []string
				for o := range outs {
					if which == "Objects" {
						// guarded by obj.Graph != nil: 0 or 1, never more
						if o.count > 1 {
							ok = false
							bad = append(bad, fmt.Sprint(o.count))
						}
					} else if o.count != 1 {
						ok = false
						bad = append(bad, fmt.Sprint(o.count))
					}
				}
				has := false
				for o := range outs {
					if o.count == 1 {
						has = true
					}
				}
				c.Decide(ok && has, "C09.new-object", "newObject:register:"+which, no.Decl.Pos(), "registered exactly once on every path", fmt.Sprintf("newObject registers the child in %s %v times on some path (or under another key than the lower-cased ID it stores): parent and child then disagree about the tree", which, bad))
			}
			// EnsureChild's lookup key has the same shape as the stored ID
			einfo := ec.Pkg.TypesInfo
			var lookupKey ast.Expr
			ast.Inspect(ec.Decl.Body, func(nd ast.Node) bool {
				ix, ok := nd.(*ast.IndexExpr)
				if ok && core.FieldOf(einfo, ix.X) == childrenF {
					if call, ok := ast.Unparen(ix.Index).(*ast.CallExpr); ok && len(call.Args) == 1 {
						lookupKey = call.Args[0]
					}
				}
				return true
			})
			resolve := func(fi *core.FuncInfo, e ast.Expr) ast.Expr {
				if o := core.ObjOf(fi.Pkg.TypesInfo, e); o != nil {
					if d := singleDef(fi, o); d != nil {
						return d.Rhs
					}
				}
				return e
			}
			if lookupKey == nil {
				c.Fail("C09.new-object", "EnsureChild:lookup-key", ec.Decl.Pos(), "EnsureChild's lookup in Children was not found")
			} else {
				s1 := shapeOfExpr(info, resolve(no, idExpr))
				s2 := shapeOfExpr(einfo, resolve(ec, lookupKey))
				c.Decide(s1 == s2, "C09.new-object", "EnsureChild:lookup-key≡newObject:id", lookupKey.Pos(), "same expression shape: "+s1, fmt.Sprintf("EnsureChild looks children up under %s but newObject stores them under %s: an existing child is not found and a second object with the same name is created", s2, s1))
			}
		}
	}

	// class / sql_table
	for _, name := range []string{"compileClass", "compileSQLTable"} {
		fi := mustFunc(c, "d2compiler", "compiler", name)
		if fi == nil {
			continue
		}
		info := fi.Pkg.TypesInfo
		arrF := structField(c.P, "d2graph", "Object", "ChildrenArray")
		objsF := structField(c.P, "d2graph", "Graph", "Objects")
		var clearArr, clearMap, removal token.Pos
		ast.Inspect(fi.Decl.Body, func(nd ast.Node) bool {
			switch x := nd.(type) {
			case *ast.AssignStmt:
				if len(x.Lhs) == 1 && len(x.Rhs) == 1 {
					if core.FieldOf(info, x.Lhs[0]) == arrF && core.IsNil(info, x.Rhs[0]) {
						clearArr = x.Pos()
					}
					if core.FieldOf(info, x.Lhs[0]) == childrenF && core.IsNil(info, x.Rhs[0]) {
						clearMap = x.Pos()
					}
					// Objects = append(Objects[:i], Objects[i+1:]...) under Objects[i] == ch, ch ranging over ChildrenArray
					if core.FieldOf(info, x.Lhs[0]) == objsF {
						if call, ok := ast.Unparen(x.Rhs[0]).(*ast.CallExpr); ok && exprStr(call.Fun) == "append" && call.Ellipsis.IsValid() {
							// enclosing range over ChildrenArray
							ast.Inspect(fi.Decl.Body, func(m ast.Node) bool {
								rs, ok := m.(*ast.RangeStmt)
								if ok && core.FieldOf(info, rs.X) == arrF && rs.Body.Pos() <= x.Pos() && x.End() <= rs.Body.End() {
									removal = x.Pos()
								}
								return true
							})
						}
					}
				}
			}
			return true
		})
		okc := clearArr != token.NoPos && clearMap != token.NoPos && removal != token.NoPos && removal < clearArr && removal < clearMap
		c.Decide(okc, "C09.fields-not-objects", name+":remove-then-clear", fi.Decl.Pos(), "fields removed from Graph.Objects, then Children and ChildrenArray cleared",
			name+" does not remove every field from Graph.Objects before clearing both child collections: class/table fields stay listed as objects, or the shape keeps children in one collection only")
	}

	// Connect
	if cn := mustFunc(c, "d2graph", "Object", "Connect"); cn != nil {
		info := cn.Pkg.TypesInfo
		recv := types.Object(recvObj(cn))
		edgesF := structField(c.P, "d2graph", "Graph", "Edges")
		var edge types.Object
		okEnds := false
		ast.Inspect(cn.Decl.Body, func(nd ast.Node) bool {
			as, ok := nd.(*ast.AssignStmt)
			if !ok || len(as.Rhs) != 1 {
				return true
			}
			u, ok := ast.Unparen(as.Rhs[0]).(*ast.UnaryExpr)
			if !ok {
				return true
			}
			cl, ok := u.X.(*ast.CompositeLit)
			if !ok || exprStr(cl.Type) != "Edge" {
				return true
			}
			edge = core.ObjOf(info, as.Lhs[0])
			ends := 0
			for _, el := range cl.Elts {
				kv, ok := el.(*ast.KeyValueExpr)
				if !ok || (exprStr(kv.Key) != "Src" && exprStr(kv.Key) != "Dst") {
					continue
				}
				if o := core.ObjOf(info, kv.Value); o != nil {
					if d := singleDef(cn, o); d != nil {
						if call, ok := ast.Unparen(d.Rhs).(*ast.CallExpr); ok {
							if sel, ok := call.Fun.(*ast.SelectorExpr); ok && core.ObjOf(info, sel.X) == recv {
								ends++
							}
						}
					}
				}
			}
			okEnds = ends == 2
			return true
		})
		c.Decide(edge != nil && okEnds, "C09.connect", "Connect:endpoints-from-receiver", cn.Decl.Pos(), "Src and Dst are results of calls on the receiver", "Connect resolves an endpoint from something other than its receiver: a connection can then join objects of different boards")
		if edge != nil {
			isApp := func(st ast.Stmt) bool {
				as, ok := st.(*ast.AssignStmt)
				if !ok || len(as.Lhs) != 1 || len(as.Rhs) != 1 || core.FieldOf(info, as.Lhs[0]) != edgesF || rootIdent(info, as.Lhs[0]) != recv {
					return false
				}
				call, ok := ast.Unparen(as.Rhs[0]).(*ast.CallExpr)
				return ok && exprStr(call.Fun) == "append" && len(call.Args) == 2 && core.ObjOf(info, call.Args[1]) == edge
			}
			// count along paths from the edge literal on: every path after the literal appends once
			var after []ast.Stmt
			seenLit := false
			for _, st := range cn.Decl.Body.List {
				if seenLit {
					after = append(after, st)
				}
				if as, ok := st.(*ast.AssignStmt); ok && len(as.Lhs) == 1 && core.ObjOf(info, as.Lhs[0]) == edge {
					seenLit = true
				}
			}
			outs := appendCounts(after, isApp)
			ok := len(outs) > 0
			for o := range outs {
				if o.count != 1 {
					ok = false
				}
			}
			c.Decide(ok, "C09.connect", "Connect:append-once", cn.Decl.Pos(), "the new edge is appended to the receiver's graph exactly once", "Connect does not append the new edge to its receiver's Graph.Edges exactly once on every path")
		}
	}
	checkCompileSorted(c, "C09.sorted")

	// shape first: class/sql_table fields must see the shape before they are compiled (the "fields cannot have
	// children" guard and the field/column conversion depend on it)
	c.Rule("C09.shape-first", "compileMap compiles the shape field before the other fields")
	if cm := mustFunc(c, "d2compiler", "compiler", "compileMap"); cm != nil {
		info := cm.Pkg.TypesInfo
		fl := core.NewFlow(cm.Pkg, cm.Decl.Body)
		var shapeCall *ast.CallExpr
		var loop *ast.RangeStmt
		for _, call := range callsIn(cm, false, "d2compiler.(*compiler).compileField") {
			if len(call.Args) != 2 {
				continue
			}
			if o := core.ObjOf(info, call.Args[1]); o != nil {
				if d := singleDef(cm, o); d != nil && strings.Contains(exprStr(d.Rhs), "GetField(") && strings.Contains(exprStr(d.Rhs), `"shape"`) {
					shapeCall = call
				}
			}
		}
		ast.Inspect(cm.Decl.Body, func(nd ast.Node) bool {
			rs, ok := nd.(*ast.RangeStmt)
			if !ok || !strings.HasSuffix(exprStr(rs.X), ".Fields") {
				return true
			}
			for _, call := range core.Calls(rs.Body, false) {
				if core.IsCallTo(info, call, "d2compiler.(*compiler).compileField") {
					loop = rs
				}
			}
			return true
		})
		ok := shapeCall != nil && loop != nil && shapeCall.End() < loop.Pos()
		if ok {
			// every path to the loop passes the shape test (the call itself is under `shape != nil`)
			lb, li, okL := fl.Locate(loop.X)
			if okL {
				pass, _ := fl.MustPassBefore(lb, li, func(nd ast.Node) bool {
					be, isBin := nd.(*ast.BinaryExpr)
					return isBin && strings.HasPrefix(exprStr(be), "shape != nil")
				})
				ok = pass
			}
		}
		c.Decide(ok, "C09.shape-first", "compileMap:shape-before-fields", cm.Decl.Pos(), "the shape field is compiled in a pre-pass before the loop over the other fields", "compileMap no longer compiles `shape` before the other fields: for `t: {a: {b}; shape: sql_table}` the column a is compiled while t still has the default shape, the `columns cannot have children` guard does not fire, and b stays in Graph.Objects with an unlisted parent")
	}
}

// checkCompileSorted re-runs C08's sorted rule under another rule id.
func checkCompileSorted(c *core.Check, rule string) {
	comp := mustFunc(c, "d2compiler", "", "Compile")
	if comp == nil {
		return
	}
	info := comp.Pkg.TypesInfo
	fl := core.NewFlow(comp.Pkg, comp.Decl.Body)
	n := 0
	for _, ex := range fl.Exits() {
		if ex.Ret == nil || len(ex.Ret.Results) != 3 || !core.IsNil(info, ex.Ret.Results[2]) {
			continue
		}
		g := core.ObjOf(info, ex.Ret.Results[0])
		if g == nil {
			continue
		}
		n++
		for _, m := range []string{"SortObjectsByAST", "SortEdgesByAST"} {
			ok, _ := fl.MustPassBefore(ex.Blk, ex.Idx, func(nd ast.Node) bool {
				return sortsGraph(c, info, nd, g, m, 0)
			})
			c.Decide(ok, rule, "Compile:"+m+"≺success-return", ex.Ret.Pos(), "sorted on every success path", "a success return of Compile is reachable without "+m+": object/connection order then follows IR traversal, not first appearance in the source")
		}
	}
	if n == 0 {
		c.Fail(rule, "Compile:no-success-return", comp.Decl.Pos(), "no success return found")
	}
	// nested boards are sorted as well: some function of d2compiler sorts its graph parameter and calls itself for
	// the parameter's Layers, Scenarios and Steps
	found := false
	for _, fi := range c.P.Funcs(comp.Pkg) {
		if fi.Decl.Body == nil {
			continue
		}
		sig := fi.Obj.Type().(*types.Signature)
		if sig.Params().Len() != 1 {
			continue
		}
		pr := sig.Params().At(0)
		sorts, rec := 0, false
		fields := map[string]bool{}
		ast.Inspect(fi.Decl.Body, func(nd ast.Node) bool {
			switch x := nd.(type) {
			case *ast.CallExpr:
				for _, m := range []string{"SortObjectsByAST", "SortEdgesByAST"} {
					if sortsGraph(c, info, x, pr, m, 2) {
						sorts++
					}
				}
				if core.CalleeOf(info, x) == fi.Obj {
					rec = true
				}
			case *ast.SelectorExpr:
				if core.ObjOf(info, x.X) == pr {
					fields[x.Sel.Name] = true
				}
			}
			return true
		})
		if sorts >= 2 && rec && fields["Layers"] && fields["Scenarios"] && fields["Steps"] {
			// and Compile passes it on every success path with the returned graph
			for _, ex := range fl.Exits() {
				if ex.Ret == nil || len(ex.Ret.Results) != 3 || !core.IsNil(info, ex.Ret.Results[2]) {
					continue
				}
				g := core.ObjOf(info, ex.Ret.Results[0])
				if g == nil {
					continue
				}
				ok, _ := fl.MustPassBefore(ex.Blk, ex.Idx, func(nd ast.Node) bool {
					call, isCall := nd.(*ast.CallExpr)
					return isCall && core.CalleeOf(info, call) == fi.Obj && len(call.Args) == 1 && core.ObjOf(info, call.Args[0]) == g
				})
				if ok {
					found = true
				}
			}
		}
	}
	c.Decide(found, rule, "Compile:nested-boards-sorted", comp.Decl.Pos(), "a recursive helper sorts the graph and its Layers, Scenarios and Steps", "only the root board is put in source order: layers, scenarios and steps keep the order in which the compiler created their objects and connections")
}

func runC06(c *core.Check) {
	c.Rule("C06.id-writers", "Object.ID is written only by newObject and the root literal on the compile path")
	c.Rule("C06.id-shape", "the stored ID is Format(KeyPath{RawString(name, true)}) and IDVal is that ID parsed back")
	c.Rule("C06.separators", "absolute IDs join segments with \".\" only; connection IDs use the (src arrow dst)[index] shape")
	c.Rule("C06.generator", "the key-context generator clauses of C05 hold")
	idF := structField(c.P, "d2graph", "Object", "ID")
	if idF == nil {
		c.Broken("d2graph.Object.ID not found")
		return
	}
	nw := 0
	for _, rel := range []string{"d2graph", "d2compiler", "d2exporter", "d2lib", "d2ir"} {
		pk := c.P.Pkg(rel)
		if pk == nil {
			continue
		}
		for _, fi := range c.P.Funcs(pk) {
			info := fi.Pkg.TypesInfo
			ast.Inspect(fi.Decl.Body, func(nd ast.Node) bool {
				switch x := nd.(type) {
				case *ast.AssignStmt:
					for _, l := range x.Lhs {
						if core.FieldOf(info, l) == idF {
							nw++
							c.Fail("C06.id-writers", "write:"+fname(fi)+":"+exprStr(l), x.Pos(), "Object.ID is assigned outside newObject: the ID no longer is the formatted key of the object's name")
						}
					}
				case *ast.CompositeLit:
					tv, ok := info.Types[x]
					if !ok {
						return true
					}
					nt, ok := tv.Type.(*types.Named)
					if !ok || nt.Obj().Name() != "Object" || nt.Obj().Pkg() == nil || core.RelPkg(nt.Obj().Pkg().Path()) != "d2graph" {
						return true
					}
					for _, el := range x.Elts {
						kv, ok := el.(*ast.KeyValueExpr)
						if !ok || exprStr(kv.Key) != "ID" {
							continue
						}
						nw++
						fn := fname(fi)
						switch {
						case fn == "d2graph.(*Object).newObject":
							c.Pass("C06.id-writers", "literal:"+fn, x.Pos(), "the creator of child objects")
						case fn == "d2graph.NewGraph" && isEmptyString(info, kv.Value):
							c.Pass("C06.id-writers", "literal:"+fn, x.Pos(), "the root object, ID \"\"")
						case strings.HasSuffix(c.P.Fset.Position(fi.Decl.Pos()).Filename, "/d2graph/serde.go"):
							// the wire format restores IDs that the other side generated; it is not on the compile path
							c.Except("C06.id-writers", "literal:"+fn, x.Pos(), "deserialisation of the plugin wire format: the ID was generated by newObject (or by a layout) on the sending side and is copied, not made")
						default:
							c.Fail("C06.id-writers", "literal:"+fn, x.Pos(), "an Object with an explicit ID is created outside newObject/NewGraph on the compile path")
						}
					}
				}
				return true
			})
		}
	}
	if nw < 1 {
		c.Fail("C06.id-writers", "writers:none", token.NoPos, "ID writers not found")
	}
	// shape
	if no := mustFunc(c, "d2graph", "Object", "newObject"); no != nil {
		info := no.Pkg.TypesInfo
		var idExpr, idValExpr ast.Expr
		ast.Inspect(no.Decl.Body, func(nd ast.Node) bool {
			cl, ok := nd.(*ast.CompositeLit)
			if !ok || exprStr(cl.Type) != "Object" {
				return true
			}
			for _, el := range cl.Elts {
				if kv, ok := el.(*ast.KeyValueExpr); ok {
					switch exprStr(kv.Key) {
					case "ID":
						idExpr = kv.Value
					case "IDVal":
						idValExpr = kv.Value
					}
				}
			}
			return true
		})
		okShape := false
		why := "ID expression not found"
		if idExpr != nil {
			e := idExpr
			if o := core.ObjOf(info, e); o != nil {
				if d := singleDef(no, o); d != nil {
					e = d.Rhs
				} else {
					why = "the ID variable has several definitions"
				}
			}
			if call, ok := ast.Unparen(e).(*ast.CallExpr); ok && core.IsCallTo(info, call, "d2format.Format") && len(call.Args) == 1 {
				// argument: &d2ast.KeyPath{Path: []*StringBox{ … RawString(x, true) … }} with one element
				nRaw, inKeyTrue, nElts := 0, false, -1
				ast.Inspect(call.Args[0], func(m ast.Node) bool {
					switch y := m.(type) {
					case *ast.CompositeLit:
						if strings.HasSuffix(exprStr(y.Type), "StringBox") && strings.HasPrefix(exprStr(y.Type), "[]") {
							nElts = len(y.Elts)
						}
					case *ast.CallExpr:
						if core.IsCallTo(info, y, "d2ast.RawString", "d2ast.RawStringBox") && len(y.Args) == 2 {
							nRaw++
							if tv, ok := info.Types[y.Args[1]]; ok && tv.Value != nil && tv.Value.Kind() == constant.Bool && constant.BoolVal(tv.Value) {
								inKeyTrue = true
							}
						}
					}
					return true
				})
				if nRaw == 1 && inKeyTrue && nElts == 1 {
					okShape = true
				} else {
					why = fmt.Sprintf("Format argument has %d RawString calls (inKey true: %v) and %d path elements", nRaw, inKeyTrue, nElts)
				}
			} else {
				why = "ID is " + exprStr(e) + ", not d2format.Format(…)"
			}
		}
		c.Decide(okShape, "C06.id-shape", "newObject:ID", no.Decl.Pos(), "Format(KeyPath{RawString(name, true)})", "the ID newObject stores is not the formatted one-segment key of the name ("+why+"): names with dots, quotes or keywords give IDs that do not parse back to the name")
		okVal := false
		if idValExpr != nil {
			if o := core.ObjOf(info, idValExpr); o != nil {
				for _, d := range defsOf(no, o) {
					if d.Rhs != nil && strings.Contains(exprStr(d.Rhs), "ScalarString()") && strings.Contains(exprStr(d.Rhs), "Path[0]") {
						okVal = true
					}
				}
			}
		}
		parsesBack := len(callsIn(no, false, "d2parser.ParseKey")) > 0
		c.Decide(okVal && parsesBack, "C06.id-shape", "newObject:IDVal", no.Decl.Pos(), "IDVal is the first path element of the ID parsed back", "IDVal is not obtained by parsing the ID back")
	}
	// separators
	for _, spec := range []struct{ recv, name string }{{"Object", "AbsID"}, {"Edge", "AbsID"}} {
		fi := mustFunc(c, "d2graph", spec.recv, spec.name)
		if fi == nil {
			continue
		}
		info := fi.Pkg.TypesInfo
		var bad []string
		nconst := 0
		ast.Inspect(fi.Decl.Body, func(nd ast.Node) bool {
			bl, ok := nd.(*ast.BasicLit)
			if !ok || bl.Kind != token.STRING {
				return true
			}
			tv := info.Types[bl]
			if tv.Value == nil {
				return true
			}
			s := constant.StringVal(tv.Value)
			nconst++
			switch s {
			case ".", "", "%s(%s %s %s)[%d]":
			default:
				bad = append(bad, s)
			}
			return true
		})
		// joined strings are output only: prefix arithmetic is done on the ID arrays, never on the joined text
		// (a dot inside a quoted name is not a nesting boundary)
		joinedVars := map[types.Object]bool{}
		ast.Inspect(fi.Decl.Body, func(nd ast.Node) bool {
			as, ok := nd.(*ast.AssignStmt)
			if !ok || len(as.Lhs) != len(as.Rhs) {
				return true
			}
			for i, r := range as.Rhs {
				joined := false
				ast.Inspect(r, func(m ast.Node) bool {
					if cl, ok := m.(*ast.CallExpr); ok && core.IsCallTo(info, cl, "strings.Join") {
						joined = true
					}
					return true
				})
				if joined {
					if o := core.ObjOf(info, as.Lhs[i]); o != nil {
						joinedVars[o] = true
					}
				}
			}
			return true
		})
		misuse := ""
		ast.Inspect(fi.Decl.Body, func(nd ast.Node) bool {
			switch x := nd.(type) {
			case *ast.IndexExpr:
				if joinedVars[core.ObjOf(info, x.X)] {
					misuse = exprStr(x)
				}
			case *ast.SliceExpr:
				if joinedVars[core.ObjOf(info, x.X)] {
					misuse = exprStr(x)
				}
			case *ast.CallExpr:
				if f := core.CalleeOf(info, x); f != nil && f.Pkg() != nil && f.Pkg().Path() == "strings" && f.Name() != "Join" {
					for _, a := range x.Args {
						if joinedVars[core.ObjOf(info, a)] {
							misuse = exprStr(x)
						}
					}
				}
			}
			return true
		})
		c.Decide(misuse == "", "C06.separators", spec.recv+"."+spec.name+":joined-text-is-output-only", fi.Decl.Pos(), "no indexing, slicing or searching of joined IDs", "the joined ID text is taken apart again ("+misuse+"): a dot inside a quoted name such as \"10.0.0.1\" is then treated as a nesting boundary and the connection ID no longer parses back to its endpoints")
		c.Decide(len(bad) == 0 && nconst > 0, "C06.separators", spec.recv+"."+spec.name, fi.Decl.Pos(), "only \".\" (and the connection ID format) are spliced between IDs", fmt.Sprintf("%s.%s splices %q between IDs: the absolute ID is no longer a D2 key path", spec.recv, spec.name, bad))
	}
	// generator clauses (shared with C05)
	sub := core.NewSubCheck(c)
	runC05(sub)
	for _, b := range sub.BrokenList() {
		c.Broken("C05 clause: %s", b)
	}
	for _, o := range sub.Obligations() {
		if o.Rule == "C05.delimiters" && strings.HasPrefix(o.Key, "key:") || o.Rule == "C05.whole-runes" || o.Rule == "C05.key-case" {
			c.Adopt("C06.generator", o)
		}
	}
	c.Floor("C06.generator", 10)
}

func isEmptyString(info *types.Info, e ast.Expr) bool {
	tv, ok := info.Types[e]
	return ok && tv.Value != nil && tv.Value.Kind() == constant.String && constant.StringVal(tv.Value) == ""
}
